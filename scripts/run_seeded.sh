#!/bin/bash
# run_seeded.sh <patch> <ID> [<ID>...] : run checks against a seeded change in a scratch worktree (REPO override).
P=$1; shift
WT=/tmp/seedrun_$$
git -C /repo worktree add --detach $WT HEAD >/dev/null 2>&1
git -C $WT apply $P || { echo "patch does not apply"; git -C /repo worktree remove --force $WT; exit 2; }
for id in "$@"; do
  out=$(VERIF_EVIDENCE_DIR=/tmp/seed_evidence REPO=$WT timeout 3000 /verif/bin/vcheck $id --tier ${TIER:-quick} 2>&1); rc=$?
  echo "== $id rc=$rc"; echo "$out" | grep -v "^KNOWN-FINDING" | tail -6 | cut -c1-400
done
git -C /repo worktree remove --force $WT >/dev/null 2>&1
