#!/bin/bash
# seed_pipeline4.sh ID... : fourth round of seeded changes (/tmp/mut4_<ID>_out, stored as seeded/<ID>d)
for id in "$@"; do
  OUT=/tmp/mut4_${id}_out
  /verif/scripts/run_seeded.sh $OUT/patch.diff $id > /tmp/seedrun4_$id.out 2>&1
  /verif/scripts/verify_seeded.sh ${id}d $OUT > /tmp/verify4_$id.out 2>&1
  if grep -q "confirmed=yes" /tmp/verify4_$id.out; then /verif/scripts/store_seeded.sh ${id}d $OUT > /dev/null; cp /tmp/seedrun4_$id.out /verif/seeded/${id}d/check_run.txt; fi
  echo "$id: $(grep -c '^VIOLATION' /tmp/seedrun4_$id.out) violations; $(tail -1 /tmp/verify4_$id.out)"
done
