#!/bin/bash
# recheck_seeded.sh [ID...] : run the property's quick check against every stored seeded change (scratch worktree,
# REPO override) and rewrite seeded/<ID>/check_run.txt; prints one summary line per change.
cd /verif
ids="$@"
[ -z "$ids" ] && ids=$(ls -d seeded/C*/ | xargs -n1 basename)
for id in $ids; do
  [ -f seeded/$id/patch.diff ] || continue
  /verif/scripts/run_seeded.sh /verif/seeded/$id/patch.diff ${id:0:3} > /tmp/recheck_$id.out 2>&1
  cp /tmp/recheck_$id.out seeded/$id/check_run.txt
  echo "$id: $(grep -c '^VIOLATION' /tmp/recheck_$id.out) violations; $(grep -o 'rc=[0-9]*' /tmp/recheck_$id.out | head -1)"
done
