#!/usr/bin/env python3
"""Generate /verif/MANIFEST.json from the table below (single source of truth for claims)."""
import json, sys
props = [json.loads(l) for l in open('/verif/properties.jsonl')]
ids = [p['id'] for p in props]

# id -> (engine, technique, level text, level note, design ref)
CLAIMED = {}
def claim(i, engine, technique, text, note):
    CLAIMED[i] = (engine, technique, text, note, '2/' + i)

claim('C01', 'E1', 'stateless DFS over interleavings of subscribe / publish / broker-delivery threads of the real node, with delivery faults (drop, duplicate, delay) and history removal as bounded environment deviations',
      "Every interleaving (up to the stated preemption/deviation bound) of a subscribing client (fresh, recovering, positioning-only, server-side), a publisher and a faulty PUB/SUB delivery thread is executed on the real Node/Client/Hub/MemoryBroker code; the offsets in the client's frame log are checked for strict increase, absence of unexplained gaps and silence after an insufficient-state end.",
      'One node, one channel, 2-3 concurrent publications, Memory broker; Redis PUB/SUB is represented only by the fault alphabet of the delivery thread.')
claim('C12', 'E1+E2', 'stateless DFS over thread interleavings (preemption-bounded, HB-state caching) of the real writer; exhaustive operation sequences of the real queue vs slice model',
      'Every interleaving of 1-2 producers, the writer goroutine / flush timer and a closer on the real writer up to the stated preemption bound, and every queue operation sequence up to the stated depth, are executed on the real code and compared with an order/loss/duplication oracle.',
      'Scheduling points are sync/atomic/channel/timer operations plus the transport double; data races between points are outside the model.')
claim('C39', 'E2', 'exhaustive enumeration of all pairs of publication lists (bounded length/offset alphabet) on the real MergePublications against a reference',
      'Every pair of (recovered, buffered) publication lists up to length 3 over a 4-5 offset alphabet with filtered placeholders and duplicates is evaluated on the real function and compared with an independent reference merge and gap verdict.',
      'Bounded list length and offset range; publications differ only in offset / placeholder flag.')

claim('C15', 'E2', 'exhaustive enumeration of filter trees (depth-bounded, all 13 leaf operators) x tag maps on the real Match/Validate/Hash against an independent evaluator, validator and exact decimal comparison',
      'Every filter tree up to the stated depth/arity over the operator, key and value pools, with every tag map over the same pool, is evaluated on the real code and compared with an independent reference (math/big exact numerals).',
      'Key/value pools are finite (edge numerals, empty strings, absent keys); trees up to depth 2-3.')
claim('C33', 'E2', 'exhaustive enumeration of all byte strings over a frame alphabet up to a length bound (totality) and of publisher-built frames (round trip) on the real PUB/SUB decoders',
      'Every byte string over the framing alphabet up to the stated length is decoded by the real extractPushData / map-broker parseMessage (no panic allowed), and every frame built exactly as the Go publisher builds it over small payload/offset/epoch domains must decode to its inputs.',
      'Go-side framing only; the Lua builders are represented by a Go transcription of their format (no Redis, no Lua interpreter in the loop).')
claim('C34', 'E2', 'exhaustive enumeration of channel names (bounded length over a brace/dot/colon alphabet) x prefixes x partitioning modes on the real key builders against an independent hash-tag + CRC16 slot function',
      'For every channel name up to the stated length, prefix and partitioning configuration, all keys and the PUB/SUB channel of each script call built by the real Redis broker / map broker / presence key builders are hashed by an independent Redis-cluster slot function and must share one slot; extractChannel must invert messageChannelID.',
      'Key builders are driven in-package without a Redis connection; which keys form one script call is transcribed from the call sites.')
claim('C35', 'E2', 'complete enumeration of every precomputed partition count, tag and cluster size against an independent CRC16/XMODEM and Redis slot allocation',
      'Complete: every bundled partition count x every cluster size up to it, every tag; slots distinct, equal to an independent CRC16 implementation, per-node counts differ by at most one.',
      'Two slot-allocation models (even split and redis-cli --cluster create) stand in for a real cluster.')

NA = {
 'C18': 'needs a Redis server (or faithful emulator) to execute the Redis broker; none exists in the sealed sandbox, so Redis-vs-Memory agreement cannot be explored',
 'C23': 'needs a Redis server (or faithful emulator) to execute the Redis map broker; none exists in the sealed sandbox',
}
checks = []
for i in ids:
    if i in CLAIMED:
        eng, tech, text, note, ref = CLAIMED[i]
        checks.append({
            'property_id': i,
            'quick_cmd': f'bin/vcheck {i} --tier quick',
            'thorough_cmd': f'bin/vcheck {i} --tier thorough',
            'evidence_file': f'/verif/evidence/{i}.json',
            'replay_cmd_template': 'bin/vcheck replay {path}',
            'engine': eng,
            'level_claimed': {'category': 'model_checking', 'text': text, 'design_ref': 'DESIGN.md section ' + ref},
            'level_note': note,
            'technique': tech,
        })
na = []
for i in ids:
    if i in CLAIMED: continue
    na.append({'property_id': i, 'reason': NA.get(i, 'check not built yet in this round (planned in DESIGN.md section 2)')})
m = {
 'version': 1,
 'setup_cmd': 'bin/setup',
 'hooks': {
   'guard': 'verif',
   'enable': 'no hooks inside /repo: bin/vbuild regenerates rewritten copies of the packages under /verif/.gen/<tree-hash>/ from the current /repo working tree and builds with `go build -tags verif -overlay <overlay.json>`; harness files (//go:build verif) are added by the same overlay',
   'baseline_off_cmd': "cd /repo && GOFLAGS=-mod=mod GOPROXY=off go test -vet=off -count=1 -timeout 25m ./...",
   'source_commits': [],
   'add_only': True,
 },
 'engines': [
  {'name': 'E1 schedx', 'path': 'rt/vsched + tools/cmd/vrewrite', 'serves_properties': [c['property_id'] for c in checks if 'E1' in c['engine']], 'kind_free_text': 'controlled cooperative scheduler over the type-aware rewritten real code; stateless DFS with deviation (preemption / timer-first / environment answer) bound and happens-before state caching'},
  {'name': 'E2 seqx', 'path': 'rt/vsched (enum harnesses) + harness/', 'serves_properties': [c['property_id'] for c in checks if 'E2' in c['engine']], 'kind_free_text': 'exhaustive enumeration of operation sequences / input domains on the real code against Go reference models'},
 ],
 'checks': checks,
 'not_applicable': na,
 'notes': 'All checks: bin/vcheck <ID> --tier quick|thorough. Known findings: known_findings.json. Seeded changes: seeded/.',
}
json.dump(m, open('/verif/MANIFEST.json', 'w'), indent=1)
print(len(checks), 'claimed;', len(na), 'not applicable')
