#!/usr/bin/env python3
"""Generate /verif/MANIFEST.json from the table below (single source of truth for claims)."""
import json, sys
props = [json.loads(l) for l in open('/verif/properties.jsonl')]
ids = [p['id'] for p in props]

# id -> (engine, technique, level text, level note, design ref)
CLAIMED = {}
def claim(i, engine, technique, text, note):
    CLAIMED[i] = (engine, technique, text, note, '2/' + i)

claim('C01', 'E1', 'stateless DFS over interleavings of subscribe / publish / broker-delivery threads of the real node, with delivery faults (drop, duplicate, delay, late redelivery) and history removal as bounded environment deviations; the periodic position check of an established subscription with a late-answering stream-top read; exhaustive merge-step enumeration (mergex)',
      "Every interleaving (up to the stated preemption/deviation bound) of a subscribing client (fresh, recovering, positioning-only, server-side), a publisher and a faulty PUB/SUB delivery thread is executed on the real Node/Client/Hub/MemoryBroker code; the offsets in the client's frame log are checked for strict increase, absence of unexplained gaps and silence after an insufficient-state end.",
      'One node, one channel, 2-3 concurrent publications, Memory broker; Redis PUB/SUB is represented only by the fault alphabet of the delivery thread.')
claim('C12', 'E1+E2', 'stateless DFS over thread interleavings (preemption-bounded, HB-state caching) of the real writer; exhaustive operation sequences of the real queue vs slice model',
      'Every interleaving of 1-2 producers, the writer goroutine / flush timer and a closer on the real writer up to the stated preemption bound, and every queue operation sequence up to the stated depth, are executed on the real code and compared with an order/loss/duplication oracle.',
      'Scheduling points are sync/atomic/channel/timer operations plus the transport double; data races between points are outside the model.')
claim('C39', 'E2', 'exhaustive enumeration of all pairs of publication lists (bounded length/offset alphabet) on the real MergePublications against a reference',
      'Every pair of (recovered, buffered) publication lists up to length 3 over a 4-5 offset alphabet with filtered placeholders and duplicates is evaluated on the real function and compared with an independent reference merge and gap verdict.',
      'Bounded list length and offset range; publications differ only in offset / placeholder flag.')

claim('C15', 'E2', 'exhaustive enumeration of filter trees (depth-bounded, all 13 leaf operators) x tag maps on the real Match/Validate/Hash against an independent evaluator, validator and exact decimal comparison',
      'Every filter tree up to the stated depth/arity over the operator, key and value pools, with every tag map over the same pool, is evaluated on the real code and compared with an independent reference (math/big exact numerals).',
      'Key/value pools are finite (edge numerals, empty strings, absent keys); trees up to depth 2-3.')
claim('C33', 'E2', 'exhaustive enumeration of all byte strings over a frame alphabet up to a length bound (totality) and of publisher-built frames (round trip) on the real PUB/SUB decoders',
      'Every byte string over the framing alphabet up to the stated length is decoded by the real extractPushData / map-broker parseMessage (no panic allowed), the same decoders on every sequence of <= 5-6 tokens over the separators and the numerals around 2^31, 2^32, 2^63 and 2^64 after each frame prefix, and every frame built exactly as the Go publisher builds it over small payload/offset/epoch domains must decode to its inputs.',
      'Go-side framing only; the Lua builders are represented by a Go transcription of their format (no Redis, no Lua interpreter in the loop).')
claim('C34', 'E2', 'exhaustive enumeration of channel names (bounded length over a brace/dot/colon alphabet) x prefixes x partitioning modes on the real key builders against an independent hash-tag + CRC16 slot function',
      'For every channel name up to the stated length, prefix and partitioning configuration, all keys and the PUB/SUB channel of each script call built by the real Redis broker / map broker / presence key builders are hashed by an independent Redis-cluster slot function and must share one slot; extractChannel must invert messageChannelID.',
      'Key builders are driven in-package without a Redis connection; which keys form one script call is transcribed from the call sites.')
claim('C35', 'E2+E1', 'complete enumeration of every precomputed partition count, tag and cluster size against an independent CRC16/XMODEM and Redis slot allocation; stateless DFS (preemption bound 2) over 2-3 concurrent first callers of a cold package with scheduling points at package-level variables',
      'Complete: every bundled partition count x every cluster size up to it, every tag, every ordered pair of lookups with the first table re-checked after the second (a table never changes under its holder); slots distinct, equal to an independent CRC16 implementation, per-node counts differ by at most one. Concurrent variant: the package-level variables are re-initialised before every execution and 2-3 threads call FindTags / TagSlot / SlotToNode at once; every interleaving within the bound must give the reference slots.',
      'Two slot-allocation models (even split and redis-cli --cluster create) stand in for a real cluster.')

E1_NOTE = 'One node (Memory broker/presence), 1-2 connections, 2-3 concurrent operations; scheduling points are lock/atomic/channel/timer operations plus harness doubles; verification-build constants (lock tables) shrunk; Redis paths not executed.'
def e1(i, what, text):
    claim(i, 'E1', 'stateless DFS over thread interleavings of the real Node/Client/Hub code under a controlled scheduler (preemption + timer-first + environment-answer deviations bounded, HB-state caching): ' + what, text, E1_NOTE)
e1('C04', 'client/server subscribe, unsubscribe, disconnect with sync/async callbacks and the 5 s wait gate; environment answers: a broker that holds the lock stripe for 7 s of virtual time, a broker that fails the leave publication, per-channel batching with the channel left and entered again', 'Every interleaving up to the bound of the listed operation threads on one connection; after settling a marker publication must reach the connection iff it reports itself subscribed, and the hub must hold exactly one generation-matched routing entry iff subscribed.')
e1('C05', 'close (Disconnect / Node.Disconnect / transport close / write error / slow consumer / stale timer) placed at every point of connect with server-side subscriptions, subscribe, map subscribe (state, stream, live, ephemeral), shared-poll subscribe and track, presence tick; harness subfail: a subscription attempt (client command, connect-time, Node.Subscribe) whose backend calls (broker History / Subscribe / PublishJoin, presence AddPresence incl. stored-but-acknowledgement-lost) fail, one (quick) or two (thorough) per attempt', 'Every close point within the bound; after settling the node must hold no hub, routing, presence or client-state entry of the closed connection and the connection/subscription gauges must be back to their earlier values.')
e1('C06', 'presence ticks against subscribe/unsubscribe/close, one channel (connops) and three presence channels of one connection with two of them ending during one tick (presencemulti, delay bound 2-3); harness subfail: every single / pair of failing backend answers during one subscription attempt, incl. requests refused after the presence add (reject-unrecovered)', 'Every interleaving within the bound; at quiescence the channel presence contains the connection iff it holds a subscription with presence, and presence stats count distinct clients/users.')
e1('C07', 'subscribe completion against unsubscribe/disconnect, observed by a second subscriber; a presence backend that may fail the removal when the subscription ends', 'Every interleaving within the bound; the observer\'s join/leave pushes for the actor must alternate starting with join, end consistently with the final subscription state, and match the number of established/ended subscriptions.')
e1('C08', 'connect, alive ticks, unsubscribe, server disconnect, transport close; a broker that may fail the leave publication when a subscription ends', 'Every interleaving within the bound; the callback log must show disconnect at most once and after connect, no alive after disconnect and one unsubscribe callback per established subscription that ended. Node shutdown: a connect racing Shutdown (delay-bounded schedule exploration under two default thread orders, oldest-first and newest-first) and connection attempts after Shutdown through the generic API, the SSE handler and the HTTP-stream handler must never end up connected (WebSocket upgrade path not driven).')
e1('C10', 'publications / joins of other connections against subscribe and unsubscribe (client and server side, positioned and not)', 'Every interleaving within the bound; on the connection\'s frame log no publication/join/leave for the channel may appear outside a subscription bracket. Harness bracketbatch adds per-channel batching (MaxSize / MaxDelay / both / FlushLatestPublication / none) x ReplyWithoutQueue x positioned on the client and server paths with the virtual clock driving the batch timers, and an unsubscribe command that arrives while the subscribe is still in flight (asynchronous callback).')
claim('C02', 'E2+E1', 'exhaustive enumeration of channel histories (publish/remove/TTL/meta-TTL over a virtual clock, depth-bounded) x subscribe probes on the real Node against a reference log; exhaustive enumeration of the recovery merge step (history answer x buffered publications x withheld markers) against a reference; stateless DFS (preemption bound 1-2) over concurrent recoveries and publications with and without UseSingleFlight',
      'Every history up to the stated depth is built on a real node under the virtual clock and probed with every (offset, epoch, limit, filter, reject flag) combination; recovered=true must mean the exact admitted suffix, recovered=false no publications. Harness recoverrace: two recovering subscribers (same / different positions and epochs) and a publisher interleaved within the bound, each reply must be exact or refused.',
      'One channel, Memory broker, histories of depth <= 4-5, HistorySize 1-3.')
claim('C03', 'E2+E1', 'exhaustive enumeration of channel histories x cache-recovery probes (client and server-forced, cache-empty handler variants, delta) on the real Node against a reference log; stateless DFS (preemption bound 1-2) over a cache-recovery subscribe overlapping a Node.History read under UseSingleFlight',
      'Every history up to the stated depth x every probe; at most one publication (unless delta), it is the newest both filters admit, recovered exactly when the newest publication is in history or the client holds the position. Overlap variant (cacheflight): history limit {-1,1,2} x forward/reverse x client recover / AutoCacheRecover x no / client / server filter; the subscribe reply and the history result must equal what the same calls return alone.',
      'One channel, Memory broker, depth <= 4-5.')
claim('C43', 'E2+E1', 'exhaustive enumeration of histories x history-command parameters and of presence membership configurations on the real client command handlers; stateless DFS (preemption bound 1-2) over a Node.History and a client history command overlapping under UseSingleFlight',
      'Every history (depth <= 3-4) x since x limit x reverse x HistoryMaxPublicationLimit; replies must respect the limit, equal Node.History for the effective filter, reject reverse with since offset 0; presence/presence_stats replies equal the node-level results for all 125 membership configurations. Overlap variant: limits {-1,0,1,2}^2 x HistoryMaxPublicationLimit {0,2}; each of two overlapping reads must return what it returns alone.',
      'Memory broker / presence manager only.')
claim('C09', 'E2+E1', 'exhaustive enumeration of command sequences (length <= 3-4 over 16 methods x ids, JSON and Protobuf, command and frame entry points incl. one that ignores the reader verdict like the emulation / SSE / HTTP-stream handlers, malformed frames) on the real dispatch code; async handler completions explored by the scheduler',
      'Every command sequence up to the stated length through HandleCommand / HandleReadFrame; before connect any other command must close with bad request without handler invocations, every id gets exactly one reply unless closed, unsolicited pong closes (also after an answered ping whose pong check has run). Harness filterrefresh adds: every sub_refresh command (also one that changes a map subscription\'s server tags filter) gets exactly one reply.',
      'Handlers complete synchronously except in the async variants (bound 1-2).')
claim('C17', 'E2', 'exhaustive enumeration of operation histories (publish/history/remove/advance over a virtual clock, depth-bounded, 1-2 channels) on the real Memory broker against a slice + top + epoch model',
      'Every history up to depth 4-6 (8-11 for the small alphabets, one of them with a metadata TTL shorter than the history TTL followed by a long one) with all since/limit/reverse probes at the end; offsets, history content, top and epoch must match the model; expiry instants are constrained only as far as the statement fixes them.',
      'Bare MemoryBroker (no Node); TTL tolerance set model where calls ask for different TTLs.')
claim('C19', 'E2', 'exhaustive enumeration of publish histories (idempotency keys x versions incl. 2^53+1 x version epochs x result-TTL expiry) on the real Memory stream broker and Memory map broker against the stated rule',
      'Every history up to depth 3-6; verdict, suppress reason, returned position, handler calls, history and map state after every step must match the reference rule.',
      'Memory brokers only; Redis Lua scripts are not executed (no Redis / no Lua binding used).')
claim('C20', 'E2', 'exhaustive enumeration of map operation histories (key modes, CAS, versions, idempotency, TTL sweeps, clear, reads; depth-bounded) on the real Memory map broker against a map + list model',
      'Every history (every prefix is its own execution) up to depth 3-6 per variant family; results, suppression reasons in the documented order, broadcasts, state and stream must equal the model.',
      'Bare map hub on the virtual clock; stream TTL / meta TTL daemons not part of this harness.')
claim('C21', 'E2', 'exhaustive enumeration of key sets x score assignments x page sizes x directions on the real Memory map broker pagination',
      'Every subset of a 5-key universe with every score assignment (incl. ties and int64 extremes), page sizes 1-6 and unlimited, asc/desc/unordered, direct and churned builds; pages must enumerate every key exactly once in order and make progress.',
      'Memory map broker only.')
claim('C24', 'E1', 'stateless DFS over interleavings of the expiry sweep (two phases) with publish/remove/keep-alive of the same key on the virtual clock, plus timer-order exploration of the cleanup daemons',
      'Every interleaving up to preemption bound 3-5 at clock positions just before/at/after the deadline; results and broadcasts must be serialisable and every surviving key must be removed exactly once at its own deadline.',
      'mapHub driven directly; KeyTTL 1-2 s.')
claim('C27', 'E2', 'exhaustive enumeration of option subsets x targeting modes of Node.Subscribe/Unsubscribe/Disconnect/Refresh with the target connection on the calling node vs on another node (loop-back controller)',
      'Every option subset up to size 3-4 and every targeting mode; resulting channel context, pushes and disconnects must be equal in both placements.',
      'Two in-process nodes joined by a loop-back Controller double.')
claim('C28', 'E2+E1', 'exhaustive enumeration of targeting modes x subscription configurations for Node.Unsubscribe(user, ""); stateless DFS (delay bound 2-3, two default thread orders) over an unsubscribe-all racing a subscribe followed by a second unsubscribe-all',
      'Every targeting mode x 27 subscription configurations x 2 connections; afterwards no channel may remain and every former channel must have had its callback, leave, presence removal and unsubscribe push. Race variants: every interleaving within the bound of Node.Unsubscribe(u, "") with Node.Subscribe(u, b) + a second unsubscribe-all (by user, by session, Client.Unsubscribe("")); at quiescence nothing may be left.',
      'Single node and loop-back remote node.')
claim('C29', 'E2', 'exhaustive enumeration of frame sequences (length <= 2-3 over a 47-49 frame alphabet), every truncation, header bit products and read limits on the real websocket reader against an independent RFC 6455/7692 decoder',
      'Every sequence/truncation/configuration; same data messages as the reference, every protocol violation answered with an error and a 1002 close frame, limits with 1009, no panic.',
      'Real clock (1 s write deadlines): a failing case is re-run and reported only if it repeats; data-message UTF-8 not part of the contract.')
claim('C30', 'E2', 'exhaustive enumeration of write APIs x boundary sizes x buffer sizes x compression levels x sides, and message pairs/triples, through the real websocket writer and reader plus an independent wire decoder',
      'Every listed combination; wire bytes must be valid frames decoding to the written messages and a peer Conn must read the same sequence.',
      'In-memory net.Conn; sizes around every internal boundary rather than all sizes (thorough: every size up to 2*buf+40).')
claim('C31', 'E2', 'exhaustive enumeration of upgrade header combinations, received close frames (every code, reason classes), close event sequences and websocketTransport.Close codes x reason lengths on the real code against reference predicates',
      'Full products of the listed header/code/reason domains; acceptance, accept key, negotiated values, close frame presence/content and first-close-wins recording must match the references.',
      'Harness ResponseWriter/Hijacker; real clock with stall re-run guard.')
claim('C32', 'E2+E1', 'exhaustive enumeration of JSON payload texts (length <= 4-6 over a structural alphabet incl. CR/LF) and binary payloads through the real SSE and HTTP-stream handlers against reference EventSource / NDJSON / varint parsers; stateless DFS (preemption bound 1-2) over two connections writing concurrently',
      'Every payload and batch in the domain is published to a connection served by the real ServeHTTP; the reference parser must see exactly one record per message decoding to the same message. Two-connection variants: every interleaving within the bound of two connections\' write paths, including a write held up inside ResponseWriter.Write while the other connection writes; each connection must receive exactly its own messages.',
      'Handlers run under the scheduler with a harness ResponseWriter; net/http itself is not in the loop.')

claim('C13', 'E1+E2', 'exhaustive operation sequences and stateless DFS over producer / timer / delWriter / Close interleavings of the real per-channel batch writer with a recording flush function',
      'Every event sequence up to depth 5-6 over six batch configurations, and every interleaving up to deviation bound 2-3 of two producers with an end event (timer-first deviations included); flushed items keep production order per channel, latest mode coalesces per key, nothing buffered is flushed after delWriter/Close(false) returned. Connection level (harness batchend): subscribe (synchronous / asynchronous callback) followed at once by unsubscribe on a batched channel with pushed join/leave while two publications arrive; the own join of the connection, buffered by the subscribe, is never written after the unsubscribe reply.',
      'Component level (perChannelWriter without a Client) plus one connection-level harness for the end-of-subscription clause.')
claim('C14', 'E2+E1', 'exhaustive enumeration of payload/tag sequences x subscribe/recover scripts on a real node with a fossil-delta client model (JSON and Protobuf, stream, cache, medium, map subscriptions), plus scheduler exploration of concurrent publishers',
      'Every payload sequence up to length 3-4 over a payload alphabet with both patch-smaller and patch-larger cases, for fresh / recovering / paged connections on 7 stream channel kinds and 3 map channel kinds; every delivered delta must reconstruct the published payload and no delta may arrive without the right base.',
      'Memory brokers; shared-poll keyed channels are covered by C25 only.')
claim('C16', 'E2+E1', 'exhaustive enumeration of (server filter, client filter) pairs x publication tags x delivery paths on a real node, plus scheduler exploration of subscribe racing a publication',
      'All 9 filter pairs x tag sequences up to length 3-5 on live positioned / non-positioned, stream recovery, cache recovery, map state page, map stream page, map live transition and streamless paths; a delivered publication must be admitted by both filters; a server-filter change on a map subscription must invalidate it.',
      'No delta subscriptions (stated in the property).')
claim('C40', 'E1+E2', 'stateless DFS over worker / submitter / closer interleavings of the real dissolver (1-2 workers) with every failure pattern of 2-3 jobs; exhaustive Add / Remove / Close sequences (length <= 14-17) on its job queue against a slice model',
      'Every interleaving up to deviation bound 2-3; every submitted job runs until it succeeds, never after success, never when dequeued after Close began, late submits are rejected.',
      'dissolve.New(2); the interpretation of "no job is executed after the queue is closed" is the one written in DESIGN.md (a job already dequeued cannot be recalled).')
claim('C42', 'E2+E1', 'exhaustive get/put sequences (with reslicing / appending / replacing mutations before put) over length classes on the real pools, plus two-thread interleavings on the deterministic pool',
      'Every sequence up to depth 3-6 per variant kind for ByteBuffer, ByteSlicesBuf and itemBuf; every buffer handed out is empty and has capacity >= the requested length.',
      'sync.Pool is replaced by a deterministic LIFO (one of its permitted behaviours).')

claim('C25', 'E1', 'stateless DFS over interleavings of SharedPollPublish, refresh cycles (backend answers as environment choices), notifications, track/untrack/subscribe commands, revocation and close on a real node with a fossil-delta client model',
      'Every interleaving up to deviation bound 1-2 of 15-26 scenarios (versioned with KeepLatestData / PrevData / plain, versionless content and hash modes); per (connection, key): pushed versions strictly increase, deltas apply to the held data, nothing after untrack / revoke / unsubscribe, newest version held at quiescence, publisher epoch change ends subscriptions with insufficient state.',
      'One node, 1-2 connections, keys {a,b}; refresh timer on the virtual clock; thorough tier is bound 2 only for the smaller scenarios.')

e1('C26', 'first subscribe / last unsubscribe / disconnect of two connections on one channel, delayed broker-unsubscribe jobs of the dissolver on the virtual clock, broker Subscribe/Unsubscribe failures as environment choices', 'Every interleaving within the bound; whenever a subscribe acknowledgement is written the broker is subscribed to the channel, publications to acknowledged subscribers arrive, and at quiescence the broker-subscribed set equals the channels with local subscribers.')
e1('C37', 'concurrent subscribe attempts of every kind (client command with async callbacks, map subscribe, Client.Subscribe, Node.Subscribe) against ClientChannelLimit 1-2, channel name lengths around ChannelMaxLength, pending bytes around ClientQueueMaxSize', 'Every interleaving within the bound; acknowledged subscriptions never exceed the limit, surplus attempts get limit-exceeded (server-side: channel-limit disconnect), over-long names are rejected, the connection is closed as slow exactly when pending bytes exceed the queue limit.')
e1('C41', 'survey responses (own, duplicate, foreign id, late) delivered by separate threads in all orders on 2-3 nodes joined by a loop-back controller, deadline on the virtual clock, two concurrent surveys', 'Every interleaving within the bound; results contain at most one answer per node and only for this survey, Survey returns as soon as all nodes answered or at the deadline, nothing blocks for ever. Slow-acknowledgement variants: the control transport takes 2 s to acknowledge the survey request while answers (one of them duplicated) arrive at +0 s and +1 s.')
e1('C11', 'connect command (with server-side subscriptions) racing Client.Send via the hub, Node.Subscribe, Node.Publish, Node.Disconnect and close, on a recording transport, a recording DictionaryAwareTransport double and the real websocketTransport over an in-memory connection', 'Every interleaving within the bound (0-2 per variant); the first frame written must be the connect reply; with a dictionary the connect reply is raw, every later frame passes the encoder, the encoder is closed exactly once, after its last use and never overlapping one.')
claim('C36', 'E2', 'exhaustive enumeration of event orders (up to 4-5 events: time steps to just before / at / after each deadline, pong, refresh command, Client.Refresh, sub_refresh, presence tick) on one real connection over the virtual clock against three-valued reference timelines',
      'Every event sequence for ping/pong, stale, connection expiry (client- and server-side refresh) and subscription expiry (client- and server-side, server-side subscription; also with channel presence whose backend fails every periodic update); a connection/subscription is ended with the right code exactly when the reference timeline says it must be, never when it must not.',
      'Expiry times are unix seconds, so the reference model has a 1 s (+ presence interval) undetermined window in which either outcome is accepted.')

e1('C22', 'a protocol-following map client (state pages, stream pages, live transition or recovery join; page size 1-2) against a writer thread doing up to 3 of publish / remove / clear / key expiry / stream expiry on the real node and Memory map broker', 'Every interleaving within the bound over ephemeral / recoverable / persistent modes, StreamSize 2 and 100, tags filter on/off; at quiescence the client map equals the broker state restricted to admitted keys, or the client was told (unrecoverable position / insufficient state / state invalidated); recovered=true never hides an undelivered change. Harness mappageshare: two connections load the same state page at once under UseSingleFlight, one with a client or server tags filter that drops entries; each state page must hold exactly the keys its filter admits.')
e1('C38', 'channel medium options (KeepLatestPublication, SharedPositionSync; unexported queue / broadcast delay reported separately) with two broadcasts, position checks with stale / valid positions, medium shutdown on last unsubscribe, racing subscribers', 'Every interleaving within the bound (0-2) of six scenarios with at most two subscribers; per positioned subscriber the C01 offset oracle, the MaxUint64 sentinel never reaches a client, a detected loss ends every positioned subscriber, non-positioned subscribers are untouched. Harness pubqueuerace runs the medium writer loop (Wait, Remove until empty) against 1-2 producers within preemption bound 2-3 (nothing may be left in the open queue while the writer waits). Harness pubqueuex adds every operation sequence (length <= 12-14 over Add / Remove / Close, initial capacities 1-3) on the medium ring-buffer queue against a slice model (FIFO across grow and shrink steps, Len / Size accounting).')

NA = {
 'C18': 'needs a Redis server (or faithful emulator) to execute the Redis broker; none exists in the sealed sandbox, so Redis-vs-Memory agreement cannot be explored',
 'C23': 'needs a Redis server (or faithful emulator) to execute the Redis map broker; none exists in the sealed sandbox',
}
checks = []
for i in ids:
    if i in CLAIMED:
        eng, tech, text, note, ref = CLAIMED[i]
        checks.append({
            'property_id': i,
            'quick_cmd': f'bin/vcheck {i} --tier quick',
            'thorough_cmd': f'bin/vcheck {i} --tier thorough',
            'evidence_file': f'/verif/evidence/{i}.json',
            'replay_cmd_template': 'bin/vcheck replay {path}',
            'engine': eng,
            'level_claimed': {'category': 'model_checking', 'text': text, 'design_ref': 'DESIGN.md section ' + ref},
            'level_note': note,
            'technique': tech,
        })
na = []
for i in ids:
    if i in CLAIMED: continue
    na.append({'property_id': i, 'reason': NA.get(i, 'check not built yet in this round (planned in DESIGN.md section 2)')})
m = {
 'version': 1,
 'setup_cmd': 'bin/setup',
 'hooks': {
   'guard': 'verif',
   'enable': 'no hooks inside /repo: bin/vbuild regenerates rewritten copies of the packages under /verif/.gen/<tree-hash>/ from the current /repo working tree and builds with `go build -tags verif -overlay <overlay.json>`; harness files (//go:build verif) are added by the same overlay',
   'baseline_off_cmd': "cd /repo && GOFLAGS=-mod=mod GOPROXY=off go test -vet=off -count=1 -timeout 25m ./...",
   'source_commits': [],
   'add_only': True,
 },
 'engines': [
  {'name': 'E1 schedx', 'path': 'rt/vsched + tools/cmd/vrewrite', 'serves_properties': [c['property_id'] for c in checks if 'E1' in c['engine']], 'kind_free_text': 'controlled cooperative scheduler over the type-aware rewritten real code; stateless DFS with deviation (preemption / timer-first / environment answer) bound and happens-before state caching'},
  {'name': 'E2 seqx', 'path': 'rt/vsched (enum harnesses) + harness/', 'serves_properties': [c['property_id'] for c in checks if 'E2' in c['engine']], 'kind_free_text': 'exhaustive enumeration of operation sequences / input domains on the real code against Go reference models'},
 ],
 'checks': checks,
 'not_applicable': na,
 'notes': 'All checks: bin/vcheck <ID> --tier quick|thorough. Known findings: known_findings.json. Seeded changes: seeded/.',
}
json.dump(m, open('/verif/MANIFEST.json', 'w'), indent=1)
print(len(checks), 'claimed;', len(na), 'not applicable')
