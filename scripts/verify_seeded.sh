#!/bin/bash
# verify_seeded.sh <ID> <out_dir> : confirm a seeded change independently in a fresh scratch worktree:
#  (1) patch applies to HEAD and builds, (2) demo fails with the patch, (3) demo passes without it,
#  (4) the existing test suite passes with the patch (flaky timing tests excluded from the verdict).
# Writes <out_dir>/verify.json and prints a summary. Removes the scratch worktree.
set -u
ID=$1; OUT=$2
export GOFLAGS=-mod=mod GOPROXY=off
WT=/tmp/vseed_$ID
git -C /repo worktree remove --force $WT >/dev/null 2>&1
git -C /repo worktree add --detach $WT HEAD >/dev/null 2>&1 || { echo "cannot create worktree"; exit 2; }
cd $WT
res() { python3 - "$@" <<'PY'
import json,sys
k=sys.argv[1:]
d=dict(zip(k[0::2],k[1::2]))
json.dump(d,open(d.pop('_file'),'w'),indent=1)
PY
}
DEMOS=$(ls $OUT/*_test.go 2>/dev/null)
[ -z "$DEMOS" ] && { echo "no demo test file in $OUT"; git -C /repo worktree remove --force $WT; exit 2; }
PKGDIR=.
if [ -f $OUT/demo_pkg ]; then PKGDIR=$(cat $OUT/demo_pkg); fi
TESTRE=$(grep -ho "^func \(Test[A-Za-z0-9_]*\)" $DEMOS | sed 's/func //' | paste -sd'|')
# (3) without the patch
cp $DEMOS $PKGDIR/
timeout 1500 go test -vet=off -count=1 -run "^($TESTRE)\$" ./$PKGDIR > $OUT/verify_without.log 2>&1; RC_WITHOUT=$?
# (1)+(2) with the patch
git apply $OUT/patch.diff || { echo "patch does not apply"; git -C /repo worktree remove --force $WT; exit 2; }
timeout 1500 go test -vet=off -count=1 -run "^($TESTRE)\$" ./$PKGDIR > $OUT/verify_with.log 2>&1; RC_WITH=$?
# (4) existing suite with the patch (demo removed)
for f in $DEMOS; do rm -f $PKGDIR/$(basename $f); done
timeout 2400 go test -vet=off -count=1 -timeout 35m ./... > $OUT/verify_suite.log 2>&1; RC_SUITE=$?
# tests that failed in the loaded full run are re-run alone; only failures that repeat count
FAILS=""; NFAIL=0
for t in $(grep "^--- FAIL" $OUT/verify_suite.log | sed 's/^--- FAIL: \([A-Za-z0-9_]*\).*/\1/' | sort -u | grep -v "TestRuntimeStability_\|TestQueueShrinkTimerReset"); do
  pk=$(grep -rl "func $t(" --include=*_test.go . | head -1 | xargs dirname)
  if ! timeout 900 go test -vet=off -count=2 -run "^$t\$" ./$pk >> $OUT/verify_rerun.log 2>&1; then FAILS="$FAILS$t;"; NFAIL=$((NFAIL+1)); fi
done
BUILDFAIL=$(grep -c "\[build failed\]\|^FAIL.*setup failed" $OUT/verify_suite.log)
res _file $OUT/verify.json id $ID demo_without_patch_rc $RC_WITHOUT demo_with_patch_rc $RC_WITH suite_rc $RC_SUITE suite_nonflaky_failures "$NFAIL" suite_failures "$FAILS" build_failures "$BUILDFAIL" head "$(git -C /repo rev-parse --short HEAD)"
cd /; git -C /repo worktree remove --force $WT >/dev/null 2>&1
OK=no; [ $RC_WITHOUT -eq 0 ] && [ $RC_WITH -ne 0 ] && [ "$NFAIL" = "0" ] && [ "$BUILDFAIL" = "0" ] && OK=yes
echo "seeded $ID: demo without patch rc=$RC_WITHOUT (want 0), with patch rc=$RC_WITH (want !=0), suite non-flaky failures=$NFAIL build failures=$BUILDFAIL => confirmed=$OK"
