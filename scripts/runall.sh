#!/bin/bash
# run every claimed check once; print one line each
tier=${1:-quick}
for p in $(python3 -c "import json; print(' '.join(c['property_id'] for c in json.load(open('/verif/MANIFEST.json'))['checks']))"); do
  s=$(date +%s)
  out=$(timeout 3000 /verif/bin/vcheck $p --tier $tier 2>/tmp/runall_$p.err); rc=$?
  e=$(date +%s)
  echo "$p rc=$rc $((e-s))s $(echo "$out" | tail -1 | cut -c1-200)"
  echo "$out" | grep -c "^KNOWN-FINDING" | xargs -I{} echo "   known-lines={}" 
  echo "$out" | grep "^VIOLATION" | head -5
done
