#!/bin/bash
# seed_pipeline5.sh ID... : fifth round of seeded changes (/tmp/mut5_<ID>_out, stored as seeded/<ID>e)
for id in "$@"; do
  OUT=/tmp/mut5_${id}_out
  /verif/scripts/run_seeded.sh $OUT/patch.diff $id > /tmp/seedrun5_$id.out 2>&1
  /verif/scripts/verify_seeded.sh ${id}e $OUT > /tmp/verify5_$id.out 2>&1
  if grep -q "confirmed=yes" /tmp/verify5_$id.out; then /verif/scripts/store_seeded.sh ${id}e $OUT > /dev/null; cp /tmp/seedrun5_$id.out /verif/seeded/${id}e/check_run.txt; fi
  echo "$id: $(grep -c '^VIOLATION' /tmp/seedrun5_$id.out) violations; $(tail -1 /tmp/verify5_$id.out)"
done
