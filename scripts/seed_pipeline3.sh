#!/bin/bash
# seed_pipeline3.sh ID... : third round of seeded changes (/tmp/mut3_<ID>_out, stored as seeded/<ID>c)
for id in "$@"; do
  OUT=/tmp/mut3_${id}_out
  /verif/scripts/run_seeded.sh $OUT/patch.diff $id > /tmp/seedrun3_$id.out 2>&1
  /verif/scripts/verify_seeded.sh ${id}c $OUT > /tmp/verify3_$id.out 2>&1
  if grep -q "confirmed=yes" /tmp/verify3_$id.out; then /verif/scripts/store_seeded.sh ${id}c $OUT > /dev/null; cp /tmp/seedrun3_$id.out /verif/seeded/${id}c/check_run.txt; fi
  echo "$id: $(grep -c '^VIOLATION' /tmp/seedrun3_$id.out) violations; $(tail -1 /tmp/verify3_$id.out)"
done
