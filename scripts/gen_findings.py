#!/usr/bin/env python3
"""Source of truth for /verif/known_findings.json (committed; never written by a check at run time)."""
import json
F=[]
def known(prop,h,sig,what): F.append({"property":prop,"harness":h,"sig":sig,"status":"known","what":what})
def fixed(prop,h,sig,commit,what): F.append({"property":prop,"harness":h,"sig":sig,"status":"fixed","commit":commit,"what":what})

# ---- known (recorded, not repaired)
known("C34","keyx","slot-mismatch:broker:ch-leading-close-brace","RedisBroker cluster keys for a channel starting with '}' (e.g. \"}{{\"): hash tag \"{\"+ch+\"}\" is empty, so stream/list, meta and result keys of one script call hash to different slots (CROSSSLOT)")
known("C34","keyx","slot-mismatch:broker:ch-empty","RedisBroker cluster keys for the empty channel: \"centrifuge.list.{}\" and \"centrifuge.list.meta.{}\" have an empty hash tag and land in different slots")
known("C34","keyx","slot-mismatch:presence:ch-leading-close-brace","RedisPresenceManager cluster keys for a channel starting with '}': presence.expire / presence.data keys of one script call land in different slots")
known("C34","keyx","slot-mismatch:presence:ch-empty","RedisPresenceManager cluster keys for the empty channel land in different slots (empty hash tag)")
known("C34","keyx","slot-mismatch:broker:prefix-brace-without-tag","RedisBroker with a key prefix containing '{' without a closing tag (prefix \"{\" or \"{}\"): the prefix brace starts the hash tag, keys of one script call land in different slots")
known("C34","keyx","slot-mismatch:mapbroker:prefix-brace-without-tag","RedisMapBroker with a key prefix containing '{' (prefix \"{\"): stream/meta/state keys of one script call land in different slots")
known("C34","keyx","slot-mismatch:presence:prefix-brace-without-tag","RedisPresenceManager with a key prefix containing '{': presence keys of one script call land in different slots")
known("C29","wsread","violation-accepted:len16-nonminimal","websocket reader (advanceFrame) accepts a 16-bit extended payload length < 126, e.g. 81 fe 00 01 <mask> <1 byte> is delivered as text \"a\" (RFC 6455 5.2: minimal encoding MUST be used)")
known("C29","wsread","violation-accepted:len64-nonminimal","websocket reader (advanceFrame) accepts a 64-bit extended payload length < 65536, e.g. 81 ff 00 00 00 00 00 00 00 01 ... (RFC 6455 5.2: minimal encoding MUST be used)")
known("C31","wsclose","first-close:closecode-mismatch/first-sent-via-message-writer","websocket Conn.CloseCode() stays (0,false) after a close frame was sent through WriteMessage/NextWriter/WritePreparedMessage (only WriteControl and received frames are recorded), so a later received close wins")
known("C27","anynode","c27-Subscribe-option-lost:history_meta_ttl","Node.Subscribe WithSubscribeHistoryMetaTTL is not carried by the control proto: metaTTL 7200 on the calling node, 0 on another node")
known("C27","anynode","c27-Subscribe-option-lost:recovery_mode","Node.Subscribe WithRecoveryMode(Cache) is not carried by the control proto: a connection on another node is subscribed in stream recovery mode")
known("C27","anynode","c27-Subscribe-option-lost:auto_cache_recover","Node.Subscribe WithAutoCacheRecover is not carried by the control proto: no recovery attempt on another node")
known("C09","cmdseq","c09-no-reply:send","a send command that carries an id (e.g. [connect#1 send#1]) is processed but gets no reply and the connection stays open (send is one-way by protocol; dispatchCommand only requires id > 0 for other commands)")
known("C03","cachex","cache-recovered=false-want-true:client-holds-current-position-offset0","cache recovery on an empty stream at (0, e) with request offset 0 and epoch e reports recovered=false although the client holds the current position (isCacheRecovered requires cmdOffset > 0)")
known("C17","membrokerx","history-reverse-since-beyond-top","Memory broker History(reverse, since offset > top+1), e.g. top 1 and since 3: returns nothing instead of the retained publications below since (memstream.Get guard offset >= top+1 is direction-agnostic)")
known("C24","mapexpiremeta","expired-key-removal-not-broadcast","Memory map broker with MetaTTL == KeyTTL (explicit, or auto-derived when KeyTTL >= 10*StreamTTL): when removeChannels wakes before expireKeys on the same tick the channel is dropped first and the expired key vanishes without a removal stream entry / broadcast")
known("C10","connops-C10","push-outside-bracket:publication:non-positioned:before-open:server-side","server-side Client.Subscribe / Node.Subscribe on a non-positioned channel: the subscription is committed before the subscribe push is written, so a publication racing it reaches the connection before the subscribe push")
for cls in ["close","unsubscribe","close+unsubscribe"]:
    known("C07","connops-C07","leave-before-join:server-side:"+cls,"server-side subscribe (Node.Subscribe/Client.Subscribe) racing a "+cls+": the subscription is committed before its join is published, so the racing operation's leave reaches observers before (or without) the join")
    known("C07","connops-C07","missing-leave:server-side:"+cls,"server-side subscribe racing a "+cls+": observers end with [leave, join] - the stale join is never followed by a leave")
known("C07","connops-C07","join-count:server-side:close","Node.Subscribe racing a disconnect: Client.Subscribe returns on the failed subscribe-push write before publishJoinAndPresence, the committed subscription's join is never published although its leave is")
known("C07","connops-C07","join-count:server-side:close+unsubscribe","same as join-count:server-side:close with an additional racing unsubscribe")
known("C07","connops-C07","leave-before-join:client-side:unsubscribe","client subscribe with an asynchronous callback followed by a client unsubscribe that arrives after commitSubscription and before subscribeCmd has published the join (two deviations): the unsubscribe sees a committed subscription, does not wait, and publishes leave before the join")
known("C07","connops-C07","missing-leave:client-side:unsubscribe","same schedule: observers end with [leave, join]")
for cls in ["close","close+unsubscribe"]:
    known("C07","connops-C07","leave-before-join:client-side:"+cls,"client subscribe racing a connection close (Client.Disconnect / Node.Disconnect / transport close): close() sees the committed subscription and publishes leave before subscribeCmd has published the join")
    known("C07","connops-C07","missing-leave:client-side:"+cls,"client subscribe racing a connection close: observers end with [leave, join]")

for h in ["deltax","deltamap"]:
    for sig in ["delta-without-base:live:tags-filter","delta-wrong-base:live:tags-filter"]:
        known("C14",h,sig,"fossil delta + tags filter ("+("stream" if h=="deltax" else "map")+" subscription): recovery / state pages omit publications the filter withholds, but the live path computes the next delta against the broker's previous publication, e.g. history [p1 tag a, p2 tag b], filter t==a, client recovers [p1], then p3 arrives as patch(p2->p3): the delta does not apply to (or there is no) base the client holds")

known('C25','sharedpoll','not-newest-at-quiescence:versioned:tracked-during-concurrent-phase','handleTrack classifies keys (cold / warm / up to date) from the trackKeys snapshot, but the connection joins the keyed hub only later (addSubscribers after the reply): a SharedPollPublish applied in between (entry.version 0->2 for a cold key, or 1->2 for a key the client already holds at 1) is broadcast to a hub that does not contain the connection yet, and afterwards the cold-key notify / timer polls see an unchanged version (request carries entry.version, needsBroadcast is not set for cold or up-to-date keys), so the tracked key never receives version 2 until the next change (coldtrack: track:1:a:0 | pub:a:2)')
known('C25','sharedpoll','delta-base-mismatch:versioned+prevdata','versioned channel without KeepLatestData, backend supplies SharedPollRefreshItem.PrevData for the version it was asked about: applyRefreshResponse pairs e.PrevData with prevVersion = entry.version read at apply time; a SharedPollPublish (v2) applied while the poll (asked with version 1) is in flight makes the server label the patch data(v1)->data(v3) as based on v2, the connection at v2 passes the keyState.version == keyedDeltaPrevVersion check and receives a fossil delta that does not apply (bad checksum)')
known('C25','sharedpoll','subscription-survives-epoch-change:keys-tracked-during-concurrent-phase','flipEpochAndCollectClients unsubscribes only connections found in the keyed hub (tracking >= 1 key at the instant of the flip): a connection subscribed under epoch e1 that tracks nothing at that instant (before its first track, between trackKeys and addSubscribers, or after untracking everything) keeps its subscription; when it then tracks a@1 (a version of e1) every publication of the new epoch with version <= 1 is filtered and it holds e1 data under a subscription the publisher epoch change should have ended')
known('C25','sharedpoll','push-for-untracked-key:removal:after-untrack-reply','SharedPollRevokeKeys racing an untrack command: broadcastRemoval snapshots the hub subscribers, the connection untracks the key (reply written), then keyedWriteRemoval (which does not check that the key is still tracked) pushes Publication{Removed} for the key after the untrack reply')
known('C25','sharedpoll','push-outside-subscription:removal:push','SharedPollRevokeKeys racing a client unsubscribe: keyedWriteRemoval -> writePublication checks flagSubscribed under RLock and enqueues outside the lock; the unsubscribe completes in between and the Removed publication is written after the unsubscribe reply')
known('C25','sharedpoll','push-outside-subscription:update:push',"two publishers with different epochs at once (epoch flip-flop, thorough tier, 2 deviations): both flips collect the connection; the first Client.Unsubscribe has removed the channel but not yet run cleanupKeyed when the second Client.Unsubscribe (a no-op in c.unsubscribe) already writes its unsubscribe push, and the second publisher's broadcast then still finds the key in trackedKeys: a key update is pushed after the unsubscribe push")

fixed("C37","connlimits","held-over-limit:map","734864cb","ClientChannelLimit=1, two map subscribe commands (Type=1, Phase=State) for ch0 and ch1 with asynchronous callbacks: validateSubscribeRequest checks the limit for map subscribes without reserving (the reservation happens later in client_map.go without a re-check), both succeed and Channels()=[ch0 ch1]")
fixed("C37","connlimits","held-over-limit:map+server","30c16baf","ClientChannelLimit=1, a map subscribe on ch0 in flight and a concurrent server-side Client.Subscribe(ch1): Client.Subscribe counts only len(c.channels) and ignores c.mapSubscribing; both get established, no channel-limit disconnect")
known("C41","surveyx","not-returned-when-all-answered:dup","3 nodes, one node's survey response delivered twice: the duplicates fill the survey channel (capacity = number of nodes) before the collector reads, the last node's answer hits the non-blocking send's default branch and is dropped; Survey blocks until the deadline and returns DeadlineExceeded although every node answered")
for sig,what in [("first-message-not-connect-reply:reply-written-later","connectCmd registers the client in the hub (addClient) before the connect reply is written: Client.Send reached through Hub().UserConnections(user), or Node.Subscribe(user, ch), enqueues a push ahead of the connect reply"),
  ("first-message-not-connect-reply:reply-never-written","same window followed by Node.Disconnect(user): the push is written and the connect reply never is"),
  ("connect-reply-encoded","same window on a dictionary-compression transport: the early push consumes the raw slot (compressionPending), the connect reply carrying the dictionary goes through the encoder"),
  ("encode-after-close","ConnectReply.ReplyWithoutQueue=true: replies bypass the writer, so close() running concurrently with an rpc reply calls CloseDictionaryCompression before the reply's Encode"),
  ("close-overlaps-encode","ReplyWithoutQueue=true: DictionaryConnection.Close runs concurrently with an Encode of a direct reply write"),
  ("raw-frame-after-connect-reply","ReplyWithoutQueue=true: a direct reply written after CloseDictionaryCompression goes out without the encoder")]:
    known("C11","connfirst",sig,what)

known("C22","mapconverge","diverged:eph:during-subscribe:state-to-live","ephemeral (streamless) map subscribe: state is read before buffering starts and offset-less publications are dropped while the subscription is not yet flagged subscribed, so changes landing between the state read and the commit (e.g. publish b, publish a after the state page {a=a1}) are lost; the client goes live with a stale map and is told nothing")
known("C22","mapconverge","diverged:pers:during-subscribe:stream-expired","persistent map channel, StreamTTL elapsed after a change with no later publish: a fresh subscriber whose state page was read before the change goes live past it (MapStreamRead trim detection needs at least one returned publication)")
known("C22","mapconverge","recovered-gap:pers:stream-expired","persistent map channel: recovery join from (2, epoch) after a3@3 was published and the stream expired gets recovered=true, offset 3, no publications")
known("C22","mapconverge","diverged:pers:during-subscribe:stream-trimmed","empty persistent map channel, StreamSize 2, client at position 0 while pa@1, pb@2, pb@3 are published: stream catch-up returns [b2, b3] (a1 trimmed) without an unrecoverable-position error because trim detection is guarded by Since.Offset > 0")
for h in ["mediumx","mediumx-unexported"]:
    known("C38",h,"sentinel-in-subscribe-reply","channel medium with SharedPositionSync: CheckPosition broadcasts the MaxUint64 insufficient-state sentinel while another connection is inside subscribeCmd between addSubscription and LockBufferAndReadBuffered; the sentinel is buffered and merged into that subscribe reply (offset 18446744073709551615, or a recovered publication that was never published)")
    known("C38",h,"pub-after-unsubscribe-push","channel medium, two deviations: a false-positive position check starts an asynchronous insufficient-state unsubscribe while a broadcast has passed the flagSubscribed check and is preempted before writing; frames: pub 2 | unsub(2500) | pub 3")

# ---- fixed (suppress nothing; the checks pass on the repaired tree)
for sig,what in [("panic-extractPushData:p-header-lt3","extractPushData(\"__p__\") / \"__p__x\": header shorter than 3 bytes sliced out of range"),
  ("panic-extractPushData:d-nothing-after-prev","extractPushData(\"__d1:0::-0:\"): nothing after the previous payload, input[prevLen+1:] out of range"),
  ("panic-extractPushData:d-neg-prevlen","extractPushData(\"__d1:1::-11:\"): negative previous-payload length"),
  ("panic-extractPushData:d-neg-len","extractPushData(\"__d1:1::0:1-1:\"): negative payload length"),
  ("panic-parseMessage:d-neg-prevlen","map broker parseMessage(\"d:1::-11:\"): negative previous length"),
  ("panic-parseMessage:d-neg-len","map broker parseMessage(\"d:0::-0::-1:\"): negative current length")]:
    fixed("C33","pushx",sig,"c2b5f70f",what+" -> panic in the PUB/SUB decoder (crashes the node)")
fixed("C15","filterx","match:in:absent-key","49768f1a","filter {key k, cmp in, vals [\"\",\"a\"]} matched a tag map without k (absent key treated as \"\")")
fixed("C15","filterx","match:nin:absent-key","49768f1a","filter {key k, cmp nin, vals [\"a\",\"\"]} did not match a tag map without k")
fixed("C07","connops-C07","leave-before-join:client-side:unsubscribe-while-subscribe-in-flight","3083e36b","async subscribe callback + client unsubscribe [sub,unsub] at one deviation: the unsubscribe waiting on the in-flight subscribe was released when subscribeCmd returned, before handleSubscribe published the join; observers saw [leave, join]. (The narrower window between commit and join publication remains, see the known entries.)")
fixed("C10","connops-C10","push-outside-bracket:publication:non-positioned:before-open:client-side","2b197317","client subscribe racing a publication without offset: writePublication skipped the flagSubscribed check and the publication was written before the subscribe reply")
fixed("C19","dedupx","want-version:got-accept:after-unversioned-publish","78b792d3","Memory broker: pub(v=1), pub(unversioned), pub(v=1) accepted the third publication (memstream.Add reset the version)")
fixed("C19","dedupx","got-idempotency:key-used-on-other-channel-only","e4820e26","Memory broker: pub(\"a\", idem \"b_c\") made pub(\"a_b\", idem \"c\") look like a duplicate (cache key ch+\"_\"+key)")
fixed("C31","wsupg","upgrade-panic:h1-key","50e3555e","Upgrade panicked on Sec-WebSocket-Key \"dGhlIHNhbXBsZSBub25jZQAA\" (24 chars decoding to 18 bytes) instead of answering 400")
fixed("C29","wsread","violation-accepted:close-1byte","fa572fa4","close frame with a 1-byte body treated as normal close 1005")
fixed("C29","wsread","violation-no-1002:len64-msb","b68514c8","64-bit length with the top bit set: ErrReadLimit without any close frame")
fixed("C29","wsread","violation-accepted:rsv1-control","27942522","RSV1 on a control frame accepted when permessage-deflate is negotiated")
fixed("C29","wsread","violation-accepted:rsv1-continuation","27942522","RSV1 on a continuation frame accepted when permessage-deflate is negotiated")
fixed("C29","wsread","violation-no-1002:rsv1-continuation","27942522","RSV1 on a continuation frame: read ended with an inflate error without a 1002 close frame")
fixed("C03","cachex","cache-recovered=false-want-true:newest-in-history-but-none-admitted-by-filters","0c2b971b","cache recovery with the newest publication in history but hidden by the subscription's filters reported recovered=false")
fixed("C28","unsuball","c28-still-subscribed","ad15212e","Node.Unsubscribe(user, \"\") left every subscription in place and pushed an unsubscribe with an empty channel name")
fixed("C32","streamframing","c32-sse-record-differs:CR","fdb92c95","SSE: payload '{} \\r' (raw CR as JSON whitespace) was framed unescaped and truncated the event for an EventSource parser")
fixed("C14","deltax","delta-without-base:live:session=recovered-empty","5aab397e","delta subscription recovered with zero publications (fresh subscribe to an idle channel, then resubscribe with recovery from the same position): the next live publication arrived as a delta although the client holds no base")
fixed("C13","chanwriter","order:add-concurrent-with-delwriter","7c5eb836","perChannelWriter.Add racing delWriter: the item was buffered on the detached writer and flushed after later items / after the subscription ended")
fixed("C13","chanwriter","latest-stale:add-concurrent-with-delwriter","7c5eb836","same window in FlushLatestPublication mode: the detached writer flushed a superseded publication")
fixed("C42","itembufx","itembuf-dirty:behind-put-len","cbf9f7ef","getItemBuf(4); fill; B=B[:2]; putItemBuf; getItemBuf(4) exposed the stale items 2,3")
for k in ["generic","sse","http_stream"]:
    fixed("C08","shutdownx","connect-callback-after-shutdown:"+k,"ada6cf79","a connection attempt through the "+k+" entry point after Node.Shutdown returned ran the connect callback")
fixed("C08","shutdownx","connection-survives-shutdown:generic","ada6cf79","NewClient + connect command after Shutdown returned stayed connected and registered in the hub")
fixed("C08","shutdownx","connected-after-shutdown:sse","ada6cf79","SSE connection made after Shutdown became connected")
fixed("C08","shutdownx","connected-after-shutdown:http_stream","ada6cf79","HTTP-stream connection made after Shutdown became connected")
fixed("C08","shutdownx","connection-survives-shutdown:race","ada6cf79","a connect command racing Node.Shutdown registered in the hub after the shutdown pass took its snapshot and stayed connected")
fixed("C36","livetimers","subexp-client:not-ended:refresh-answered-expired","fcd94ecb","client sub_refresh answered SubRefreshReply{Expired:true}: expireAt 0 stored, the subscription never expired")
json.dump(F,open('/verif/known_findings.json','w'),indent=1)
print(len([f for f in F if f['status']=='known']),'known',len([f for f in F if f['status']=='fixed']),'fixed')
