#!/bin/bash
# seed_pipeline2.sh ID... : second round of seeded changes (/tmp/mut2_<ID>_out, stored as seeded/<ID>b)
for id in "$@"; do
  OUT=/tmp/mut2_${id}_out
  /verif/scripts/run_seeded.sh $OUT/patch.diff $id > /tmp/seedrun2_$id.out 2>&1
  /verif/scripts/verify_seeded.sh ${id}b $OUT > /tmp/verify2_$id.out 2>&1
  if grep -q "confirmed=yes" /tmp/verify2_$id.out; then /verif/scripts/store_seeded.sh ${id}b $OUT > /dev/null; cp /tmp/seedrun2_$id.out /verif/seeded/${id}b/check_run.txt; fi
  echo "$id: $(grep -c '^VIOLATION' /tmp/seedrun2_$id.out) violations; $(tail -1 /tmp/verify2_$id.out)"
done
