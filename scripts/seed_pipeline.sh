#!/bin/bash
# seed_pipeline.sh ID... : for each seeded change in /tmp/mut_<ID>_out: run the property's check against it, verify it, store it
for id in "$@"; do
  OUT=/tmp/mut_${id}_out
  /verif/scripts/run_seeded.sh $OUT/patch.diff $id > /tmp/seedrun_$id.out 2>&1
  /verif/scripts/verify_seeded.sh $id $OUT > /tmp/verify_$id.out 2>&1
  if grep -q "confirmed=yes" /tmp/verify_$id.out; then /verif/scripts/store_seeded.sh $id $OUT > /dev/null; cp /tmp/seedrun_$id.out /verif/seeded/$id/check_run.txt; fi
  echo "$id: $(grep -c '^VIOLATION' /tmp/seedrun_$id.out) violations; $(tail -1 /tmp/verify_$id.out)"
done
