#!/usr/bin/env python3
import json,os
R=json.load(open('/verif/seeded/results.json'))
out=['# Seeded changes','',
"Each directory holds one change to centrifugal/centrifuge written by an independent sub-agent that was given only the",
"text of a property and a scratch worktree (nothing from /verif): `patch.diff`, the demonstration test, `meta.json`.",
"Every change was confirmed by `scripts/verify_seeded.sh` in a fresh scratch worktree (the demo passes without the patch,",
"fails with it, the existing suite passes with it; timing-sensitive tests that fail in the loaded full run are re-run alone)",
"before it was kept. `scripts/run_seeded.sh <patch> <ID>...` runs checks against a change in a scratch worktree through `REPO=`",
"(equivalent to `git -C /repo apply`, check, `git -C /repo checkout -- .`, without disturbing other work on /repo).",'',
'| change | what it does | needs | caught by | notes |','|---|---|---|---|---|']
for k in sorted(R):
    r=R[k]
    out.append(f"| {k} | {r['what']} | {r['needs']} | {r['caught']} | {r.get('notes','')} |")
open('/verif/seeded/README.md','w').write('\n'.join(out)+'\n')
print(len(R),'entries')
