#!/bin/bash
# store_seeded.sh <ID> <out_dir>: copy a confirmed seeded change into /verif/seeded/<id>/
ID=$1; OUT=$2; D=/verif/seeded/$ID
mkdir -p $D
cp $OUT/patch.diff $D/
for f in $OUT/*_test.go; do cp $f $D/; done
[ -f $OUT/demo_pkg ] && cp $OUT/demo_pkg $D/
python3 - "$OUT" "$D" "$ID" <<'PY'
import json,sys,os
out,d,pid=sys.argv[1:4]
m=json.load(open(os.path.join(out,'meta.json')))
v=json.load(open(os.path.join(out,'verify.json'))) if os.path.exists(os.path.join(out,'verify.json')) else {}
meta={'property':pid[:3],'demo_pkg':(open(os.path.join(out,'demo_pkg')).read().strip() if os.path.exists(os.path.join(out,'demo_pkg')) else '.'),'summary':m.get('summary'),'needs':m.get('needs'),'demo':[f for f in os.listdir(d) if f.endswith('_test.go')],
 'demo_placement':'repository root (package centrifuge) unless stated otherwise in the file header',
 'author':'independent sub-agent given only the property text and a scratch worktree',
 'confirmed_by':'scripts/verify_seeded.sh in a fresh scratch worktree: demo passes without the patch, fails with it, the existing suite passes with it (timing-sensitive tests re-run alone)',
 'verification':v,'agent_tests_run':m.get('tests_run')}
json.dump(meta,open(os.path.join(d,'meta.json'),'w'),indent=1)
PY
ls $D
