#!/usr/bin/env python3
# fill_results.py <ID>=<notes> ... : (re)write seeded/results.json entries from seeded/<ID>/meta.json + check_run.txt
import json,sys,re,os
R=json.load(open('/verif/seeded/results.json'))
def short(t,n=330):
    t=' '.join((t or '').split())
    return t if len(t)<=n else t[:n]+'…'
for a in sys.argv[1:]:
    k,_,notes=a.partition('=')
    d='/verif/seeded/'+k
    m=json.load(open(d+'/meta.json'))
    run=open(d+'/check_run.txt').read()
    viol=[]
    for rp in re.findall(r'^VIOLATION property=\S+ replay=(\S+)',run,re.M):
        if os.path.exists(rp):
            j=json.load(open(rp)); viol.append((j['harness']+'/'+j['variant'],j['sig']))
    nv=len(re.findall(r'^VIOLATION',run,re.M))
    seen=[]
    for h,sig in viol:
        e='`%s`: `%s`'%(h,sig.rstrip(':'))
        if e not in seen: seen.append(e)
    prop=k[:3]
    caught=('**%s** quick (%d violation line%s): '%(prop,nv,'' if nv==1 else 's')+'; '.join(seen[:3])) if nv else 'see notes'
    R[k]={'what':short(m.get('summary')),'needs':short(m.get('needs'),260),'caught':caught,'notes':notes}
json.dump(R,open('/verif/seeded/results.json','w'),indent=1,ensure_ascii=True)
print(len(R))
