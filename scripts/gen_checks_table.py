#!/usr/bin/env python3
# gen_checks_table.py: rewrite the table of section 5.5 of DESIGN.md from the harness registry (vmain list -tier ...)
import json,subprocess,re
B=subprocess.run(['/verif/bin/vbuild'],capture_output=True,text=True).stdout.strip().splitlines()[-1]
def lst(t): return json.loads(subprocess.run([B,'list','-tier',t],capture_output=True,text=True).stdout)
q,t=lst('quick'),lst('thorough')
props={}
for tier,L in (('q',q),('t',t)):
    for h in L:
        for p in h['props']:
            vs=h['variants'] or []
            b='enum' if h['kind']=='enum' else str(max([v.get('bound',0) for v in vs] or [0]))
            props.setdefault(p,{}).setdefault(h['name'],{'kind':h['kind']})[tier]='%d / %s'%(len(vs),b)
rows=['| property | harnesses (kind) | quick: variants / max bound | thorough: variants / max bound |','|---|---|---|---|']
for p in sorted(props):
    hs=sorted(props[p])
    rows.append('| %s | %s | %s | %s |'%(p,', '.join('%s (%s)'%(h,props[p][h]['kind']) for h in hs),'; '.join(props[p][h].get('q','-') for h in hs),'; '.join(props[p][h].get('t','-') for h in hs)))
s=open('/verif/DESIGN.md').read()
m=re.search(r'(### 5\.5 [^\n]*\n\n)(\|.*?\n)(\n|$)',s,re.S)
s=s[:m.start(2)]+'\n'.join(rows)+'\n'+s[m.end(2):]
open('/verif/DESIGN.md','w').write(s)
print(len(rows)-2,'rows')
