// vrewrite rewrites the synchronisation constructs of centrifuge packages (read from the
// current /repo working tree) so that they run on the vsched cooperative scheduler, and
// emits a `go build -overlay` file. /repo is never modified.
//
//	vrewrite -repo /repo -verif /verif -out /verif/.gen/<hash>
package main

import (
	"bytes"
	"encoding/json"
	"flag"
	"fmt"
	"go/ast"
	"go/printer"
	"go/token"
	"go/types"
	"os"
	"path/filepath"
	"sort"
	"strconv"
	"strings"

	"golang.org/x/tools/go/ast/astutil"
	"golang.org/x/tools/go/packages"
)

const modPath = "github.com/centrifugal/centrifuge"
const shimBase = modPath + "/internal/zzverif/"

// packages whose sources are rewritten (relative to the module root; "" is the root package)
var rewriteSet = []string{"", "internal/recovery", "internal/queue", "internal/dissolve", "internal/timers",
	"internal/memstream", "internal/bpool", "internal/priority", "internal/epoch", "internal/saferand",
	"internal/cancelctx", "internal/nowtime", "internal/redispartition"}

var importMap = map[string][2]string{ // original path -> shim package, default name
	"sync":        {"vsync", "sync"},
	"sync/atomic": {"vatomic", "atomic"},
	"time":        {"vtime", "time"},
	"context":     {"vctx", "context"},
	"crypto/rand": {"vrand", "rand"},
	"golang.org/x/sync/singleflight": {"vsingleflight", "singleflight"},
}

// constOverride shrinks lock-striping tables in the verification build only (they dominate the
// cost of centrifuge.New; striping width is not observable apart from contention). Listed in
// every evidence file under assumptions.
var constOverride = map[string]string{
	"numSubLocks":            "64",
	"numMediumLocks":         "64",
	"numPubLocks":            "64",
	"numSubDissolverWorkers": "2",
	"numHubShards":           "1",
}

// literalOverride: inside the named function, comparison literals are replaced (verification
// build only). newMetricsRegistry pre-formats 5001 code strings per Node; getCodeLabel falls
// back to strconv for codes outside the table, so the table size is not observable.
var literalOverride = map[string]map[string]string{
	"newMetricsRegistry": {"5000": "16"},
}

func must(err error) {
	if err != nil {
		fmt.Fprintln(os.Stderr, "vrewrite:", err)
		os.Exit(2)
	}
}

func main() {
	repo := flag.String("repo", "/repo", "repository root")
	verif := flag.String("verif", "/verif", "verif root (rt/ and harness/ are taken from here)")
	out := flag.String("out", "", "output directory")
	extra := flag.String("extra", "", "comma separated extra packages (relative) to rewrite")
	flag.Parse()
	if *out == "" {
		must(fmt.Errorf("-out required"))
	}
	must(os.MkdirAll(*out, 0o755))
	if *extra != "" {
		rewriteSet = append(rewriteSet, strings.Split(*extra, ",")...)
	}

	overlay := map[string]string{} // target path in repo -> real file
	loadOverlay := map[string][]byte{}

	// shim packages become virtual packages inside the repository module
	rtRoot := filepath.Join(*verif, "rt")
	must(filepath.Walk(rtRoot, func(p string, fi os.FileInfo, err error) error {
		if err != nil || fi.IsDir() || !strings.HasSuffix(p, ".go") || strings.HasSuffix(p, "_test.go") {
			return err
		}
		rel, _ := filepath.Rel(rtRoot, p)
		if strings.HasPrefix(rel, "rttest") {
			return nil
		}
		target := filepath.Join(*repo, "internal", "zzverif", rel)
		overlay[target] = p
		b, err := os.ReadFile(p)
		loadOverlay[target] = b
		return err
	}))

	// harness files: /verif/harness/<pkg rel path or "root">/*.go -> into that package
	harnessFiles := map[string]bool{}
	hRoot := filepath.Join(*verif, "harness")
	must(filepath.Walk(hRoot, func(p string, fi os.FileInfo, err error) error {
		if err != nil || fi.IsDir() || !strings.HasSuffix(p, ".go") {
			return err
		}
		rel, _ := filepath.Rel(hRoot, p)
		rel = strings.TrimPrefix(rel, "root/")
		rel = strings.TrimPrefix(rel, "root")
		target := filepath.Join(*repo, rel)
		b, err := os.ReadFile(p)
		loadOverlay[target] = b
		overlay[target] = p
		harnessFiles[target] = true
		return err
	}))

	// stub so that harness files calling ZZVerifResetGlobals type-check; the real body is generated
	// after loading (it needs the type information)
	for rel := range resetSet {
		dirs, _ := filepath.Glob(filepath.Join(*repo, rel, "*.go"))
		pkgName := filepath.Base(rel)
		_ = dirs
		loadOverlay[filepath.Join(*repo, rel, "zz_verif_resetglobals.go")] = []byte("//go:build verif\n\npackage " + pkgName + "\n\nfunc ZZVerifResetGlobals() {}\n")
	}
	var patterns []string
	for _, r := range rewriteSet {
		patterns = append(patterns, "./"+r)
	}
	cfg := &packages.Config{
		Mode: packages.NeedName | packages.NeedFiles | packages.NeedCompiledGoFiles | packages.NeedSyntax |
			packages.NeedTypes | packages.NeedTypesInfo | packages.NeedImports,
		Dir:        *repo,
		Env:        append(os.Environ(), "GOFLAGS=-mod=mod", "GOPROXY=off"),
		Overlay:    loadOverlay,
		BuildFlags: []string{"-tags=verif"},
	}
	pkgs, err := packages.Load(cfg, patterns...)
	must(err)
	nerr := 0
	for _, p := range pkgs {
		for _, e := range p.Errors {
			fmt.Fprintln(os.Stderr, "load error:", e)
			nerr++
		}
	}
	if nerr > 0 {
		os.Exit(3)
	}
	stats := map[string]int{}
	for _, p := range pkgs {
		loud := loudGlobals(p)
		if len(loud) > 0 {
			var names []string
			for v := range loud {
				names = append(names, v.Name())
			}
			sort.Strings(names)
			fmt.Fprintf(os.Stderr, "loud globals %s: %s\n", p.PkgPath, strings.Join(names, " "))
		}
		relPkg := strings.TrimPrefix(strings.TrimPrefix(p.PkgPath, modPath), "/")
		if resetSet[relPkg] {
			dst := filepath.Join(*out, relPkg, "zz_verif_resetglobals.go")
			must(os.MkdirAll(filepath.Dir(dst), 0o755))
			must(os.WriteFile(dst, resetGlobalsFile(p), 0o644))
			overlay[filepath.Join(*repo, relPkg, "zz_verif_resetglobals.go")] = dst
		}
		for i, f := range p.Syntax {
			name := p.CompiledGoFiles[i]
			if strings.HasSuffix(name, "_test.go") || filepath.Base(name) == "zz_verif_resetglobals.go" {
				continue
			}
			rw := &rewriter{pkg: p, file: f, fset: p.Fset, stats: stats}
			if !isHarnessFile(name) {
				stats["globalpoint"] += rw.instrumentGlobals(loud)
			}
			rw.rewrite()
			var buf bytes.Buffer
			must((&printer.Config{Mode: printer.UseSpaces | printer.TabIndent, Tabwidth: 8}).Fprint(&buf, p.Fset, f))
			rel, err := filepath.Rel(*repo, name)
			must(err)
			dst := filepath.Join(*out, rel)
			must(os.MkdirAll(filepath.Dir(dst), 0o755))
			must(os.WriteFile(dst, buf.Bytes(), 0o644))
			overlay[name] = dst
		}
	}
	ob, _ := json.MarshalIndent(map[string]any{"Replace": overlay}, "", " ")
	must(os.WriteFile(filepath.Join(*out, "overlay.json"), ob, 0o644))
	var keys []string
	for k := range stats {
		keys = append(keys, k)
	}
	sort.Strings(keys)
	for _, k := range keys {
		fmt.Printf("%s=%d ", k, stats[k])
	}
	fmt.Println()
}

type rewriter struct {
	pkg      *packages.Package
	file     *ast.File
	fset     *token.FileSet
	stats    map[string]int
	skipRecv map[ast.Node]bool
	needSch  bool
	tmp      int
}

func (rw *rewriter) typeOf(e ast.Expr) types.Type {
	if tv, ok := rw.pkg.TypesInfo.Types[e]; ok {
		return tv.Type
	}
	return nil
}

func (rw *rewriter) isChan(e ast.Expr) bool {
	t := rw.typeOf(e)
	if t == nil {
		return false
	}
	_, ok := t.Underlying().(*types.Chan)
	return ok
}

func (rw *rewriter) isBuiltin(e ast.Expr, name string) bool {
	id, ok := e.(*ast.Ident)
	if !ok || id.Name != name {
		return false
	}
	_, ok = rw.pkg.TypesInfo.Uses[id].(*types.Builtin)
	return ok
}

func sel(x, name string) ast.Expr {
	return &ast.SelectorExpr{X: ast.NewIdent(x), Sel: ast.NewIdent(name)}
}

func call(fun ast.Expr, args ...ast.Expr) *ast.CallExpr { return &ast.CallExpr{Fun: fun, Args: args} }

func (rw *rewriter) vs(name string) ast.Expr {
	rw.needSch = true
	return sel("vsched__", name)
}

func unparen(e ast.Expr) ast.Expr {
	for {
		p, ok := e.(*ast.ParenExpr)
		if !ok {
			return e
		}
		e = p.X
	}
}

func isRecv(e ast.Expr) (*ast.UnaryExpr, bool) {
	u, ok := unparen(e).(*ast.UnaryExpr)
	if ok && u.Op == token.ARROW {
		return u, true
	}
	return nil, false
}

func (rw *rewriter) rewrite() {
	f := rw.file
	rw.skipRecv = map[ast.Node]bool{}
	// imports
	for _, is := range f.Imports {
		p, _ := strconv.Unquote(is.Path.Value)
		if m, ok := importMap[p]; ok {
			is.Path.Value = strconv.Quote(shimBase + m[0])
			is.EndPos = token.NoPos
			if is.Name == nil {
				is.Name = ast.NewIdent(m[1])
			}
			rw.stats["import"]++
		}
	}
	// comments: keep only directives (printing rewritten nodes with free-floating comments is fragile)
	var keep []*ast.CommentGroup
	for _, cg := range f.Comments {
		var lst []*ast.Comment
		for _, c := range cg.List {
			if strings.HasPrefix(c.Text, "//go:") || strings.HasPrefix(c.Text, "// +build") {
				lst = append(lst, c)
			}
		}
		if len(lst) > 0 {
			keep = append(keep, &ast.CommentGroup{List: lst})
		}
	}
	f.Comments = keep

	pre := func(c *astutil.Cursor) bool {
		switch n := c.Node().(type) {
		case *ast.CommClause:
			// the receive / send of a select case is handled by the select rewrite
			switch s := n.Comm.(type) {
			case *ast.ExprStmt:
				if u, ok := isRecv(s.X); ok {
					rw.skipRecv[u] = true
				}
			case *ast.AssignStmt:
				if u, ok := isRecv(s.Rhs[0]); ok {
					rw.skipRecv[u] = true
				}
				rw.skipRecv[s] = true
			case *ast.SendStmt:
				rw.skipRecv[s] = true
			}
		case *ast.FuncDecl:
			// drop doc comments (already removed from f.Comments)
			n.Doc = nil
			if lo, ok := literalOverride[n.Name.Name]; ok && rw.pkg.PkgPath == modPath && n.Body != nil {
				ast.Inspect(n.Body, func(x ast.Node) bool {
					if be, ok := x.(*ast.BinaryExpr); ok {
						if bl, ok := be.Y.(*ast.BasicLit); ok {
							if nv, ok := lo[bl.Value]; ok {
								be.Y = &ast.BasicLit{Kind: token.INT, Value: nv}
								rw.stats["literal:"+n.Name.Name]++
							}
						}
					}
					return true
				})
			}
		case *ast.GenDecl:
			if n.Doc != nil {
				n.Doc = filterDoc(n.Doc)
			}
		case *ast.ValueSpec:
			n.Doc = filterDoc(n.Doc)
			n.Comment = nil
			if rw.pkg.PkgPath == modPath && len(n.Names) == 1 && len(n.Values) == 1 {
				if v, ok := constOverride[n.Names[0].Name]; ok {
					if _, isConst := rw.pkg.TypesInfo.Defs[n.Names[0]].(*types.Const); isConst {
						if _, isLit := n.Values[0].(*ast.BasicLit); isLit {
							n.Values[0] = &ast.BasicLit{Kind: token.INT, Value: v}
							rw.stats["const:"+n.Names[0].Name]++
						}
					}
				}
			}
		case *ast.TypeSpec:
			n.Doc = nil
			n.Comment = nil
		case *ast.Field:
			n.Doc = nil
			n.Comment = nil
		}
		return true
	}
	post := func(c *astutil.Cursor) bool {
		switch n := c.Node().(type) {
		case *ast.GoStmt:
			c.Replace(rw.goStmt(n))
		case *ast.SendStmt:
			if rw.skipRecv[n] {
				return true
			}
			rw.stats["send"]++
			c.Replace(&ast.ExprStmt{X: call(&ast.SelectorExpr{X: call(rw.vs("SendTo"), n.Chan), Sel: ast.NewIdent("V")}, n.Value)})
		case *ast.UnaryExpr:
			if n.Op != token.ARROW || rw.skipRecv[n] {
				return true
			}
			rw.stats["recv"]++
			fn := "Recv"
			if rw.commaOk(c) {
				fn = "Recv2"
			}
			c.Replace(call(rw.vs(fn), n.X))
		case *ast.CallExpr:
			if len(n.Args) == 1 && rw.isBuiltin(n.Fun, "close") {
				rw.stats["close"]++
				n.Fun = rw.vs("Close")
			} else if len(n.Args) == 1 && (rw.isBuiltin(n.Fun, "len") || rw.isBuiltin(n.Fun, "cap")) && rw.isChan(n.Args[0]) {
				rw.stats["chanlen"]++
				if n.Fun.(*ast.Ident).Name == "len" {
					n.Fun = rw.vs("Len")
				} else {
					n.Fun = rw.vs("Cap")
				}
			} else if s, ok := n.Fun.(*ast.SelectorExpr); ok && s.Sel.Name == "Gosched" {
				if id, ok := s.X.(*ast.Ident); ok {
					if pn, ok := rw.pkg.TypesInfo.Uses[id].(*types.PkgName); ok && pn.Imported().Path() == "runtime" {
						rw.stats["gosched"]++
						n.Fun = rw.vs("Yield")
					}
				}
			}
		case *ast.SelectStmt:
			c.Replace(rw.selectStmt(n))
		case *ast.RangeStmt:
			t := rw.typeOf(n.X)
			if t == nil {
				return true
			}
			switch u := t.Underlying().(type) {
			case *types.Chan:
				c.Replace(rw.rangeChan(n))
			case *types.Map:
				if orderedKey(u.Key()) {
					rw.stats["maprange"]++
					n.X = call(rw.vs("RangeMap"), n.X)
				} else if plainValueKey(u.Key(), 0) {
					rw.stats["maprange_fmt"]++
					n.X = call(rw.vs("RangeMapFmt"), n.X)
				} else {
					rw.stats["maprange_unordered:"+types.TypeString(u.Key(), nil)]++
				}
			}
		}
		return true
	}
	astutil.Apply(f, pre, post)
	rw.dropUnusedImports()
	if rw.needSch {
		// add the import (astutil.AddNamedImport needs positions; do it by hand)
		spec := &ast.ImportSpec{Name: ast.NewIdent("vsched__"), Path: &ast.BasicLit{Kind: token.STRING, Value: strconv.Quote(shimBase + "vsched")}}
		gd := &ast.GenDecl{Tok: token.IMPORT, Specs: []ast.Spec{spec}}
		// must come after existing import decls but before other decls
		idx := 0
		for i, d := range f.Decls {
			if g, ok := d.(*ast.GenDecl); ok && g.Tok == token.IMPORT {
				idx = i + 1
			}
		}
		f.Decls = append(f.Decls[:idx], append([]ast.Decl{gd}, f.Decls[idx:]...)...)
		f.Imports = append(f.Imports, spec)
	}
}

func filterDoc(cg *ast.CommentGroup) *ast.CommentGroup {
	if cg == nil {
		return nil
	}
	var lst []*ast.Comment
	for _, c := range cg.List {
		if strings.HasPrefix(c.Text, "//go:") {
			lst = append(lst, c)
		}
	}
	if len(lst) == 0 {
		return nil
	}
	return &ast.CommentGroup{List: lst}
}

// plainValueKey: struct / array / basic types without pointers, interfaces or channels, whose
// printed form is therefore deterministic.
func plainValueKey(t types.Type, depth int) bool {
	if depth > 4 {
		return false
	}
	switch u := t.Underlying().(type) {
	case *types.Basic:
		return u.Info()&(types.IsInteger|types.IsString|types.IsFloat|types.IsBoolean) != 0 && u.Kind() != types.UnsafePointer && u.Kind() != types.Uintptr
	case *types.Struct:
		for i := 0; i < u.NumFields(); i++ {
			if !plainValueKey(u.Field(i).Type(), depth+1) {
				return false
			}
		}
		return true
	case *types.Array:
		return plainValueKey(u.Elem(), depth+1)
	}
	return false
}

func orderedKey(t types.Type) bool {
	b, ok := t.Underlying().(*types.Basic)
	if !ok {
		return false
	}
	return b.Info()&(types.IsInteger|types.IsString|types.IsFloat) != 0
}

// commaOk reports whether the receive expression at c is used in a two-value context.
func (rw *rewriter) commaOk(c *astutil.Cursor) bool {
	parent := c.Parent()
	for {
		p, ok := parent.(*ast.ParenExpr)
		if !ok {
			break
		}
		_ = p
		return false // parenthesised comma-ok receives do not occur in this code base
	}
	switch p := parent.(type) {
	case *ast.AssignStmt:
		return len(p.Lhs) == 2 && len(p.Rhs) == 1
	case *ast.ValueSpec:
		return len(p.Names) == 2 && len(p.Values) == 1
	}
	return false
}

func (rw *rewriter) newTmp(prefix string) *ast.Ident {
	rw.tmp++
	return ast.NewIdent(fmt.Sprintf("%s%d__", prefix, rw.tmp))
}

func (rw *rewriter) goStmt(g *ast.GoStmt) ast.Stmt {
	rw.stats["go"]++
	c := g.Call
	if fl, ok := c.Fun.(*ast.FuncLit); ok && len(c.Args) == 0 {
		return &ast.ExprStmt{X: call(rw.vs("Go"), fl)}
	}
	var stmts []ast.Stmt
	fun := c.Fun
	bindFun := false
	switch f := unparen(fun).(type) {
	case *ast.FuncLit:
	case *ast.Ident:
		if _, ok := rw.pkg.TypesInfo.Uses[f].(*types.Var); ok {
			bindFun = true
		}
	case *ast.SelectorExpr:
		bindFun = true
		if id, ok := f.X.(*ast.Ident); ok {
			if _, ok := rw.pkg.TypesInfo.Uses[id].(*types.PkgName); ok {
				bindFun = false
			}
		}
	default:
		bindFun = true
	}
	if bindFun {
		id := rw.newTmp("vf")
		stmts = append(stmts, &ast.AssignStmt{Lhs: []ast.Expr{id}, Tok: token.DEFINE, Rhs: []ast.Expr{fun}})
		fun = id
	}
	args := make([]ast.Expr, len(c.Args))
	for i, a := range c.Args {
		tv := rw.pkg.TypesInfo.Types[a]
		if tv.Value != nil || tv.IsNil() {
			args[i] = a
			continue
		}
		if _, ok := a.(*ast.FuncLit); ok {
			// function literal argument: evaluating it later is equivalent (closures capture by reference anyway)
			args[i] = a
			continue
		}
		id := rw.newTmp("va")
		stmts = append(stmts, &ast.AssignStmt{Lhs: []ast.Expr{id}, Tok: token.DEFINE, Rhs: []ast.Expr{a}})
		args[i] = id
	}
	inner := &ast.CallExpr{Fun: fun, Args: args, Ellipsis: c.Ellipsis}
	if c.Ellipsis != token.NoPos {
		inner.Ellipsis = 1
	}
	body := &ast.BlockStmt{List: []ast.Stmt{&ast.ExprStmt{X: inner}}}
	lit := &ast.FuncLit{Type: &ast.FuncType{Params: &ast.FieldList{}}, Body: body}
	stmts = append(stmts, &ast.ExprStmt{X: call(rw.vs("Go"), lit)})
	if len(stmts) == 1 {
		return stmts[0]
	}
	return &ast.BlockStmt{List: stmts}
}

func (rw *rewriter) rangeChan(n *ast.RangeStmt) ast.Stmt {
	rw.stats["rangechan"]++
	ch := rw.newTmp("vch")
	okID := rw.newTmp("vok")
	var lhs ast.Expr = ast.NewIdent("_")
	tok := token.DEFINE
	var pre []ast.Stmt
	if n.Key != nil {
		if n.Tok == token.DEFINE {
			lhs = n.Key
		} else {
			// assignment form: receive into a temp, then assign
			tmp := rw.newTmp("vv")
			lhs = tmp
			pre = append(pre, &ast.AssignStmt{Lhs: []ast.Expr{n.Key}, Tok: token.ASSIGN, Rhs: []ast.Expr{tmp}})
		}
	}
	recv := &ast.AssignStmt{Lhs: []ast.Expr{lhs, okID}, Tok: tok, Rhs: []ast.Expr{call(rw.vs("Recv2"), ch)}}
	brk := &ast.IfStmt{Cond: &ast.UnaryExpr{Op: token.NOT, X: okID}, Body: &ast.BlockStmt{List: []ast.Stmt{&ast.BranchStmt{Tok: token.BREAK}}}}
	body := append([]ast.Stmt{recv, brk}, pre...)
	body = append(body, n.Body.List...)
	return &ast.ForStmt{
		Init: &ast.AssignStmt{Lhs: []ast.Expr{ch}, Tok: token.DEFINE, Rhs: []ast.Expr{n.X}},
		Body: &ast.BlockStmt{List: body},
	}
}

func (rw *rewriter) selectStmt(s *ast.SelectStmt) ast.Stmt {
	rw.stats["select"]++
	var caseIDs []ast.Expr
	var caseInit []ast.Expr
	hasDefault := false
	var clauses []ast.Stmt
	idx := 0
	for _, st := range s.Body.List {
		cc := st.(*ast.CommClause)
		if cc.Comm == nil {
			hasDefault = true
			clauses = append(clauses, &ast.CaseClause{List: nil, Body: cc.Body})
			continue
		}
		id := rw.newTmp("vc")
		caseIDs = append(caseIDs, id)
		var body []ast.Stmt
		switch c := cc.Comm.(type) {
		case *ast.SendStmt:
			caseInit = append(caseInit, call(&ast.SelectorExpr{X: call(rw.vs("SendCase"), c.Chan), Sel: ast.NewIdent("V")}, c.Value))
		case *ast.ExprStmt:
			u, _ := isRecv(c.X)
			caseInit = append(caseInit, call(rw.vs("RecvCase"), u.X))
		case *ast.AssignStmt:
			u, _ := isRecv(c.Rhs[0])
			caseInit = append(caseInit, call(rw.vs("RecvCase"), u.X))
			m := "Got"
			if len(c.Lhs) == 2 {
				m = "Got2"
			}
			allBlank := true
			for _, l := range c.Lhs {
				if id, ok := l.(*ast.Ident); !ok || id.Name != "_" {
					allBlank = false
				}
			}
			if !allBlank {
				tok := c.Tok
				body = append(body, &ast.AssignStmt{Lhs: c.Lhs, Tok: tok, Rhs: []ast.Expr{call(&ast.SelectorExpr{X: id, Sel: ast.NewIdent(m)})}})
			}
		}
		body = append(body, cc.Body...)
		clauses = append(clauses, &ast.CaseClause{List: []ast.Expr{&ast.BasicLit{Kind: token.INT, Value: strconv.Itoa(idx)}}, Body: body})
		idx++
	}
	if !hasDefault {
		clauses = append(clauses, &ast.CaseClause{List: nil, Body: []ast.Stmt{&ast.ExprStmt{X: call(ast.NewIdent("panic"), &ast.BasicLit{Kind: token.STRING, Value: `"vsched: unreachable select result"`})}}})
	}
	hd := "false"
	if hasDefault {
		hd = "true"
	}
	args := append([]ast.Expr{ast.NewIdent(hd)}, caseIDs...)
	sw := &ast.SwitchStmt{Tag: call(rw.vs("Select"), args...), Body: &ast.BlockStmt{List: clauses}}
	if len(caseIDs) > 0 {
		sw.Init = &ast.AssignStmt{Lhs: caseIDs, Tok: token.DEFINE, Rhs: caseInit}
	}
	return sw
}

// dropUnusedImports removes imports whose last use was rewritten away (e.g. runtime.Gosched).
func (rw *rewriter) dropUnusedImports() {
	used := map[*types.PkgName]bool{}
	ast.Inspect(rw.file, func(n ast.Node) bool {
		if id, ok := n.(*ast.Ident); ok {
			if pn, ok := rw.pkg.TypesInfo.Uses[id].(*types.PkgName); ok {
				used[pn] = true
			}
		}
		return true
	})
	drop := map[*ast.ImportSpec]bool{}
	for _, is := range rw.file.Imports {
		if is.Name != nil && (is.Name.Name == "_" || is.Name.Name == ".") {
			continue
		}
		var pn *types.PkgName
		if is.Name != nil {
			pn, _ = rw.pkg.TypesInfo.Defs[is.Name].(*types.PkgName)
		}
		if pn == nil {
			pn, _ = rw.pkg.TypesInfo.Implicits[is].(*types.PkgName)
		}
		if pn != nil && !used[pn] {
			drop[is] = true
		}
	}
	if len(drop) == 0 {
		return
	}
	for _, d := range rw.file.Decls {
		g, ok := d.(*ast.GenDecl)
		if !ok || g.Tok != token.IMPORT {
			continue
		}
		var specs []ast.Spec
		for _, sp := range g.Specs {
			if !drop[sp.(*ast.ImportSpec)] {
				specs = append(specs, sp)
			}
		}
		g.Specs = specs
	}
	var decls []ast.Decl
	for _, d := range rw.file.Decls {
		if g, ok := d.(*ast.GenDecl); ok && g.Tok == token.IMPORT && len(g.Specs) == 0 {
			continue
		}
		decls = append(decls, d)
	}
	rw.file.Decls = decls
}
