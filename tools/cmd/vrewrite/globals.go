package main

// Package-level variables are shared memory the scheduler would otherwise not see: two threads
// that communicate through a plain global (a hoisted scratch buffer, a hand-rolled lazy
// initialisation) never pass a scheduling point between their accesses, so no interleaving of
// those accesses is ever explored. This pass
//
//  1. finds the "loud" package-level variables of a rewritten package: those written after
//     package initialisation (assigned, incremented, element- or field-assigned, address taken,
//     array sliced, pointer-receiver method called on them, or first argument of
//     append/copy/delete/clear) outside init functions; variables of sync / sync/atomic /
//     channel types are already scheduling points and are skipped;
//  2. inserts vsched.GlobalPoint("pkg.name") before every statement (outside init functions
//     and harness files) that mentions a loud variable directly (not in a nested block or
//     function literal, whose own statements get their own points);
//  3. for the packages in resetSet emits ZZVerifResetGlobals(), which re-runs the package-level
//     variable initialisers in dependency order and zeroes uninitialised variables, so that a
//     harness can start every execution from a cold package (lazily built tables).

import (
	"bytes"
	"fmt"
	"go/ast"
	"go/printer"
	"go/token"
	"go/types"
	"path/filepath"
	"sort"
	"strconv"
	"strings"

	"golang.org/x/tools/go/packages"
)

// resetSet: packages (relative to the module root) that get a ZZVerifResetGlobals function.
var resetSet = map[string]bool{
	"internal/redispartition": true,
}

func isHarnessFile(name string) bool {
	return strings.HasPrefix(filepath.Base(name), "zz_verif_")
}

func syncLike(t types.Type) bool {
	switch u := t.(type) {
	case *types.Pointer:
		return syncLike(u.Elem())
	case *types.Array:
		return syncLike(u.Elem())
	case *types.Slice:
		return syncLike(u.Elem())
	case *types.Named:
		if o := u.Obj(); o != nil && o.Pkg() != nil {
			switch o.Pkg().Path() {
			case "sync", "sync/atomic", "golang.org/x/sync/singleflight":
				return true
			}
		}
	}
	if _, ok := t.Underlying().(*types.Chan); ok {
		return true
	}
	return false
}

// rootVar returns the package-level variable an lvalue-ish expression is rooted in.
func rootVar(info *types.Info, pkg *types.Package, e ast.Expr) *types.Var {
	for {
		switch x := e.(type) {
		case *ast.ParenExpr:
			e = x.X
		case *ast.IndexExpr:
			e = x.X
		case *ast.SliceExpr:
			e = x.X
		case *ast.StarExpr:
			e = x.X
		case *ast.SelectorExpr:
			// pkgvar.field: X is the root; otherpkg.Var: not ours
			if id, ok := x.X.(*ast.Ident); ok {
				if _, isPkg := info.Uses[id].(*types.PkgName); isPkg {
					return nil
				}
			}
			e = x.X
		case *ast.Ident:
			v, ok := info.Uses[x].(*types.Var)
			if !ok || v.IsField() || v.Pkg() != pkg || v.Parent() != pkg.Scope() {
				return nil
			}
			return v
		default:
			return nil
		}
	}
}

// loudGlobals computes the loud variables of a package.
func loudGlobals(p *packages.Package) map[*types.Var]bool {
	info, pkg := p.TypesInfo, p.Types
	loud := map[*types.Var]bool{}
	mark := func(e ast.Expr) {
		if v := rootVar(info, pkg, e); v != nil && !syncLike(v.Type()) {
			loud[v] = true
		}
	}
	for i, f := range p.Syntax {
		name := p.CompiledGoFiles[i]
		if strings.HasSuffix(name, "_test.go") || isHarnessFile(name) {
			continue
		}
		for _, d := range f.Decls {
			fd, ok := d.(*ast.FuncDecl)
			if !ok || fd.Body == nil || (fd.Recv == nil && fd.Name.Name == "init") {
				continue
			}
			ast.Inspect(fd.Body, func(n ast.Node) bool {
				switch x := n.(type) {
				case *ast.AssignStmt:
					for _, l := range x.Lhs {
						mark(l)
					}
				case *ast.IncDecStmt:
					mark(x.X)
				case *ast.RangeStmt:
					if x.Tok == token.ASSIGN {
						if x.Key != nil {
							mark(x.Key)
						}
						if x.Value != nil {
							mark(x.Value)
						}
					}
				case *ast.UnaryExpr:
					if x.Op == token.AND {
						mark(x.X)
					}
				case *ast.SliceExpr:
					if t, ok := info.Types[x.X]; ok {
						if _, isArr := t.Type.Underlying().(*types.Array); isArr {
							mark(x.X)
						}
					}
				case *ast.CallExpr:
					if id, ok := x.Fun.(*ast.Ident); ok && len(x.Args) > 0 {
						if _, isB := info.Uses[id].(*types.Builtin); isB {
							switch id.Name {
							case "append", "copy", "delete", "clear":
								mark(x.Args[0])
							}
						}
					}
					if s, ok := x.Fun.(*ast.SelectorExpr); ok {
						if selInfo, ok := info.Selections[s]; ok && selInfo.Kind() == types.MethodVal {
							if fn, ok := selInfo.Obj().(*types.Func); ok {
								if sig, ok := fn.Type().(*types.Signature); ok && sig.Recv() != nil {
									if _, ptrRecv := sig.Recv().Type().(*types.Pointer); ptrRecv {
										if t, ok := info.Types[s.X]; ok {
											if _, isPtr := t.Type.Underlying().(*types.Pointer); !isPtr {
												mark(s.X) // implicit &V
											}
										}
									}
								}
							}
						}
					}
				}
				return true
			})
		}
	}
	return loud
}

// directGlobals lists the loud variables a statement mentions outside nested statement lists and
// function literals.
func directGlobals(info *types.Info, loud map[*types.Var]bool, s ast.Stmt) []*types.Var {
	seen := map[*types.Var]bool{}
	var out []*types.Var
	ast.Inspect(s, func(n ast.Node) bool {
		switch x := n.(type) {
		case *ast.BlockStmt, *ast.FuncLit, *ast.CaseClause, *ast.CommClause:
			if n != ast.Node(s) {
				return false
			}
		case *ast.Ident:
			if v, ok := info.Uses[x].(*types.Var); ok && loud[v] && !seen[v] {
				seen[v] = true
				out = append(out, v)
			}
		}
		return true
	})
	return out
}

// instrumentGlobals inserts the GlobalPoint calls into one file. Returns the number inserted.
func (rw *rewriter) instrumentGlobals(loud map[*types.Var]bool) int {
	if len(loud) == 0 {
		return 0
	}
	info := rw.pkg.TypesInfo
	n := 0
	pkgName := rw.pkg.Types.Name()
	fix := func(list []ast.Stmt) []ast.Stmt {
		var out []ast.Stmt
		for _, s := range list {
			target := s
			if ls, ok := s.(*ast.LabeledStmt); ok {
				// keep the label on the loop / statement; the point goes before the label
				target = ls.Stmt
			}
			for _, v := range directGlobals(info, loud, target) {
				out = append(out, &ast.ExprStmt{X: call(rw.vs("GlobalPoint"), &ast.BasicLit{Kind: token.STRING, Value: strconv.Quote(pkgName + "." + v.Name())})})
				n++
			}
			out = append(out, s)
		}
		return out
	}
	for _, d := range rw.file.Decls {
		fd, ok := d.(*ast.FuncDecl)
		if !ok || fd.Body == nil || (fd.Recv == nil && fd.Name.Name == "init") {
			continue
		}
		ast.Inspect(fd.Body, func(x ast.Node) bool {
			switch b := x.(type) {
			case *ast.BlockStmt:
				b.List = fix(b.List)
			case *ast.CaseClause:
				b.Body = fix(b.Body)
			case *ast.CommClause:
				b.Body = fix(b.Body)
			}
			return true
		})
	}
	return n
}

// resetGlobalsFile renders the source of ZZVerifResetGlobals for a package (from the original,
// not yet rewritten syntax: only initialiser expressions are copied, and the file is rewritten
// like any other afterwards is not needed because initialisers contain no statements).
func resetGlobalsFile(p *packages.Package) []byte {
	info := p.TypesInfo
	var buf bytes.Buffer
	fmt.Fprintf(&buf, "//go:build verif\n\npackage %s\n\n", p.Types.Name())
	// imports: reuse every import of every file that contributes an initialiser (unused ones are
	// avoided by referencing them through blank vars is not possible for packages, so only files'
	// imports actually used in initialisers are emitted)
	type imp struct{ name, path string }
	need := map[imp]bool{}
	var body bytes.Buffer
	initialised := map[*types.Var]bool{}
	exprStr := func(e ast.Expr) string {
		var b bytes.Buffer
		_ = printer.Fprint(&b, p.Fset, e)
		ast.Inspect(e, func(n ast.Node) bool {
			if id, ok := n.(*ast.Ident); ok {
				if pn, ok := info.Uses[id].(*types.PkgName); ok {
					need[imp{pn.Name(), pn.Imported().Path()}] = true
				}
			}
			return true
		})
		return b.String()
	}
	for _, in := range info.InitOrder {
		harness := false
		for _, v := range in.Lhs {
			if isHarnessFile(p.Fset.Position(v.Pos()).Filename) {
				harness = true
			}
		}
		if harness {
			continue
		}
		var lhs []string
		for _, v := range in.Lhs {
			initialised[v] = true
			lhs = append(lhs, v.Name())
		}
		fmt.Fprintf(&body, "\t%s = %s\n", strings.Join(lhs, ", "), exprStr(in.Rhs))
	}
	var zero []string
	scope := p.Types.Scope()
	for _, name := range scope.Names() {
		v, ok := scope.Lookup(name).(*types.Var)
		if !ok || initialised[v] || name == "_" || isHarnessFile(p.Fset.Position(v.Pos()).Filename) {
			continue
		}
		if strings.HasSuffix(p.Fset.Position(v.Pos()).Filename, "_test.go") {
			continue
		}
		zero = append(zero, name)
	}
	sort.Strings(zero)
	var zbuf bytes.Buffer
	for _, name := range zero {
		v := scope.Lookup(name).(*types.Var)
		ts := types.TypeString(v.Type(), func(q *types.Package) string {
			if q == p.Types {
				return ""
			}
			need[imp{q.Name(), q.Path()}] = true
			return q.Name()
		})
		fmt.Fprintf(&zbuf, "\t%s = *new(%s)\n", name, ts)
	}
	var imps []imp
	for i := range need {
		imps = append(imps, i)
	}
	sort.Slice(imps, func(i, j int) bool { return imps[i].path < imps[j].path })
	if len(imps) > 0 {
		buf.WriteString("import (\n")
		for _, i := range imps {
			path := i.path
			if m, ok := importMap[path]; ok {
				path = shimBase + m[0]
			}
			fmt.Fprintf(&buf, "\t%s %q\n", i.name, path)
		}
		buf.WriteString(")\n\n")
	}
	buf.WriteString("// ZZVerifResetGlobals puts every package-level variable back to its state after package\n// initialisation (generated by vrewrite).\nfunc ZZVerifResetGlobals() {\n")
	buf.Write(zbuf.Bytes())
	buf.Write(body.Bytes())
	buf.WriteString("}\n")
	return buf.Bytes()
}
