// vcheck decides one property: it (re)builds the harness binary from the current /repo
// working tree, runs every harness variant registered for the property (sharded over worker
// processes), confirms violations by replay, applies the known-findings list and writes
// /verif/evidence/<ID>.json.
//
//	vcheck <ID> [--tier quick|thorough]
//	vcheck replay <replay-file>
package main

import (
	"bytes"
	"context"
	"crypto/sha256"
	"encoding/json"
	"fmt"
	"os"
	"os/exec"
	"path/filepath"
	"sort"
	"strconv"
	"strings"
	"sync"
	"time"
)

var verifRoot = func() string {
	if v := os.Getenv("VERIF_ROOT"); v != "" {
		return v
	}
	return "/verif"
}()

type variant struct {
	Name     string `json:"name"`
	Bound    int    `json:"bound"`
	MaxSteps int    `json:"max_steps"`
	NoCache  bool   `json:"no_cache"`
	BudgetS  int    `json:"budget_s"`
	Shards   int    `json:"shards"`
	Iterate  bool   `json:"iterate"`
	Delay    bool   `json:"delay"`
	LIFO     bool   `json:"lifo"`
}

type harness struct {
	Name     string    `json:"name"`
	Props    []string  `json:"props"`
	Kind     string    `json:"kind"`
	Doc      string    `json:"doc"`
	Variants []variant `json:"variants"`
}

type violation struct {
	Kind    string   `json:"kind"`
	Sig     string   `json:"sig"`
	Msg     string   `json:"msg"`
	Choices []int    `json:"choices"`
	Log     []string `json:"log"`
	Count   int      `json:"count"`
}

type result struct {
	Harness        string         `json:"harness"`
	Variant        string         `json:"variant"`
	Shard          string         `json:"shard"`
	Bound          int            `json:"bound"`
	BoundCompleted int            `json:"bound_completed"`
	Executions     int64          `json:"executions"`
	Steps          int64          `json:"steps"`
	States         int64          `json:"states"`
	Pruned         int64          `json:"pruned"`
	Horizons       int64          `json:"horizons"`
	MaxChoices     int            `json:"max_choices"`
	LogHashes      []uint64       `json:"log_hashes"`
	LogHashesCap   bool           `json:"log_hashes_capped"`
	Violations     []*violation   `json:"violations"`
	Exhaustive     bool           `json:"exhaustive"`
	CapHit         string         `json:"cap_hit"`
	Samples        [][]string     `json:"samples"`
	SampleChoices  [][]int        `json:"sample_choices"`
	DevHistogram   map[string]int `json:"deviation_histogram"`
	WallS          float64        `json:"wall_s"`
	Error          string         `json:"error"`
}

type finding struct {
	Property string `json:"property"`
	Harness  string `json:"harness"`
	Sig      string `json:"sig"`
	Status   string `json:"status"` // known | fixed
	Commit   string `json:"commit,omitempty"`
	What     string `json:"what"`
}

type job struct {
	h     *harness
	v     variant
	k, w  int
	res   *result
	err   string
	kind  string
	stder string
}

func die(code int, f string, a ...any) {
	fmt.Fprintf(os.Stderr, "vcheck: "+f+"\n", a...)
	os.Exit(code)
}

func env() []string {
	e := os.Environ()
	var out []string
	for _, kv := range e {
		if strings.HasPrefix(kv, "GOFLAGS=") || strings.HasPrefix(kv, "GOPROXY=") || strings.HasPrefix(kv, "GOTOOLCHAIN=") || strings.HasPrefix(kv, "GOSUMDB=") {
			continue
		}
		out = append(out, kv)
	}
	return append(out, "GOFLAGS=-mod=mod", "GOPROXY=off")
}

func build() string {
	cmd := exec.Command(filepath.Join(verifRoot, "bin", "vbuild"))
	cmd.Env = env()
	var out, errb bytes.Buffer
	cmd.Stdout, cmd.Stderr = &out, &errb
	if err := cmd.Run(); err != nil {
		fmt.Fprintln(os.Stderr, errb.String())
		die(2, "BUILD-ERROR: harness binary does not build against the current /repo tree: %v", err)
	}
	return strings.TrimSpace(out.String())
}

func list(bin, tier string) []harness {
	out, err := exec.Command(bin, "list", "-tier", tier).Output()
	if err != nil {
		die(2, "list failed: %v", err)
	}
	var hs []harness
	if err := json.Unmarshal(out, &hs); err != nil {
		die(2, "list output: %v", err)
	}
	return hs
}

func runJob(bin, tier string, j *job, tmp string) {
	outFile := filepath.Join(tmp, fmt.Sprintf("%s-%x-%d.json", j.h.Name, sha256.Sum256([]byte(j.v.Name)), j.k))
	budget := j.v.BudgetS
	if budget == 0 {
		budget = 40
		if tier == "thorough" {
			budget = 300
		}
	}
	ctx, cancel := context.WithTimeout(context.Background(), time.Duration(2*budget+600)*time.Second)
	defer cancel()
	cmd := exec.CommandContext(ctx, bin, "run", "-harness", j.h.Name, "-variant", j.v.Name, "-tier", tier,
		"-shard", fmt.Sprintf("%d/%d", j.k, j.w), "-budget", strconv.Itoa(budget), "-out", outFile)
	cmd.Env = append(env(), "GOMAXPROCS=2", "GOMEMLIMIT=3GiB", "GOGC=400")
	var errb bytes.Buffer
	cmd.Stderr = &errb
	cmd.Stdout = &errb
	err := cmd.Run()
	j.stder = errb.String()
	if err != nil {
		j.err = fmt.Sprintf("worker failed: %v: %s", err, tail(j.stder, 2000))
		return
	}
	b, err := os.ReadFile(outFile)
	if err != nil {
		j.err = "no result file: " + err.Error()
		return
	}
	var r result
	if err := json.Unmarshal(b, &r); err != nil {
		j.err = "bad result file: " + err.Error()
		return
	}
	j.res = &r
	_ = os.Remove(outFile)
}

func tail(s string, n int) string {
	if len(s) > n {
		return "..." + s[len(s)-n:]
	}
	return s
}

func loadFindings() []finding {
	b, err := os.ReadFile(filepath.Join(verifRoot, "known_findings.json"))
	if err != nil {
		return nil
	}
	var fs []finding
	if err := json.Unmarshal(b, &fs); err != nil {
		die(2, "known_findings.json: %v", err)
	}
	return fs
}

func confirm(bin, tier string, h *harness, v variant, vio *violation) (bool, string) {
	if h.Kind != "sched" {
		return true, ""
	}
	var cs []string
	for _, c := range vio.Choices {
		cs = append(cs, strconv.Itoa(c))
	}
	cmd := exec.Command(bin, "replay", "-harness", h.Name, "-variant", v.Name, "-tier", tier, "-choices", strings.Join(cs, ","), "-n", "5")
	cmd.Env = append(env(), "GOMAXPROCS=2")
	out, err := cmd.Output()
	var rep struct {
		Err   string `json:"error"`
		Fails []struct {
			Sig string
			Msg string
		} `json:"fails"`
		Panic    string `json:"panic"`
		Deadlock string `json:"deadlock"`
	}
	_ = json.Unmarshal(out, &rep)
	if err != nil || rep.Err != "" {
		return false, fmt.Sprintf("replay error: %v %s", err, rep.Err)
	}
	switch vio.Kind {
	case "panic":
		if rep.Panic != "" {
			return true, ""
		}
	case "deadlock":
		if rep.Deadlock != "" {
			return true, ""
		}
	default:
		for _, f := range rep.Fails {
			if f.Sig == vio.Sig {
				return true, ""
			}
		}
	}
	return false, "violation did not reproduce on replay"
}

func main() {
	args := os.Args[1:]
	tier := os.Getenv("VERIF_TIER")
	var pos []string
	for i := 0; i < len(args); i++ {
		switch {
		case args[i] == "--tier" && i+1 < len(args):
			tier = args[i+1]
			i++
		case strings.HasPrefix(args[i], "--tier="):
			tier = strings.TrimPrefix(args[i], "--tier=")
		default:
			pos = append(pos, args[i])
		}
	}
	if tier == "" {
		tier = "quick"
	}
	if len(pos) == 0 {
		die(2, "usage: vcheck <ID> [--tier quick|thorough] | vcheck replay <file>")
	}
	if pos[0] == "replay" {
		replay(pos[1:], tier)
		return
	}
	id := pos[0]
	seed, _ := strconv.Atoi(os.Getenv("VERIF_SEED"))
	start := time.Now()
	bin := build()
	hs := list(bin, tier)
	var jobs []*job
	var mine []*harness
	for i := range hs {
		h := &hs[i]
		ok := false
		for _, p := range h.Props {
			if p == id {
				ok = true
			}
		}
		if !ok {
			continue
		}
		mine = append(mine, h)
		for _, v := range h.Variants {
			w := v.Shards
			if w < 1 {
				w = 1
			}
			for k := 0; k < w; k++ {
				jobs = append(jobs, &job{h: h, v: v, k: k, w: w, kind: h.Kind})
			}
		}
	}
	if len(jobs) == 0 {
		die(2, "no harness registered for property %s", id)
	}
	// the seed only permutes the order in which jobs are started
	if seed != 0 {
		r := uint64(seed)
		for i := len(jobs) - 1; i > 0; i-- {
			r = r*6364136223846793005 + 1442695040888963407
			k := int((r >> 33) % uint64(i+1))
			jobs[i], jobs[k] = jobs[k], jobs[i]
		}
	}
	tmp, _ := os.MkdirTemp("", "vcheck-"+id+"-")
	defer os.RemoveAll(tmp)
	par := 16
	if s := os.Getenv("VERIF_PAR"); s != "" {
		par, _ = strconv.Atoi(s)
	}
	sem := make(chan struct{}, par)
	var wg sync.WaitGroup
	for _, j := range jobs {
		wg.Add(1)
		sem <- struct{}{}
		go func(j *job) {
			defer wg.Done()
			defer func() { <-sem }()
			runJob(bin, tier, j, tmp)
		}(j)
	}
	wg.Wait()

	// ---- merge
	type varSummary struct {
		Harness        string `json:"harness"`
		Variant        string `json:"variant"`
		Bound          int    `json:"bound"`
		BoundCompleted int    `json:"bound_completed"`
		Executions     int64  `json:"executions"`
		States         int64  `json:"states"`
		Steps          int64  `json:"transitions"`
		Pruned         int64  `json:"pruned_revisits"`
		Distinct       int    `json:"distinct_outcomes"`
		Exhaustive     bool   `json:"exhaustive"`
		CapHit         string `json:"cap_hit,omitempty"`
		BoundKind      string `json:"bound_kind"`
	}
	sumByVar := map[string]*varSummary{}
	var order []string
	distinctAll := map[string]struct{}{}
	distinctByVar := map[string]map[uint64]struct{}{}
	var totalExec, totalStates, totalSteps int64
	exhaustive := true
	var caps []string
	hist := map[string]int{}
	var samples []any
	infraErr := false
	type found struct {
		j   *job
		vio *violation
	}
	var founds []found
	for _, j := range jobs {
		key := j.h.Name + "|" + j.v.Name
		s := sumByVar[key]
		if s == nil {
			s = &varSummary{Harness: j.h.Name, Variant: j.v.Name, Bound: j.v.Bound, BoundCompleted: 1 << 30, Exhaustive: true, BoundKind: "preemptions+timer-first+environment deviations (free choice at blocking points)"}
			if j.v.Delay {
				s.BoundKind = "delay bounding: every deviation from the default scheduler (first enabled thread) counts, including at blocking points"
			}
			if j.v.LIFO {
				s.BoundKind += "; default order: newest enabled thread first"
			}
			if j.kind != "sched" {
				s.BoundKind = "enumeration domain"
			}
			sumByVar[key] = s
			order = append(order, key)
			distinctByVar[key] = map[uint64]struct{}{}
		}
		if j.err != "" || j.res == nil {
			fmt.Fprintf(os.Stderr, "HARNESS-ERROR property=%s harness=%s variant=%s shard=%d/%d: %s\n", id, j.h.Name, j.v.Name, j.k, j.w, j.err)
			infraErr = true
			s.Exhaustive = false
			exhaustive = false
			continue
		}
		r := j.res
		s.Executions += r.Executions
		s.States += r.States
		s.Steps += r.Steps
		s.Pruned += r.Pruned
		if j.kind == "sched" && r.BoundCompleted < s.BoundCompleted {
			s.BoundCompleted = r.BoundCompleted
		}
		if !r.Exhaustive {
			s.Exhaustive = false
			exhaustive = false
			if r.CapHit != "" {
				s.CapHit = r.CapHit
				caps = append(caps, key+": "+r.CapHit)
			} else if r.Horizons > 0 {
				caps = append(caps, fmt.Sprintf("%s: %d executions hit the step horizon", key, r.Horizons))
			}
		}
		for _, h := range r.LogHashes {
			distinctByVar[key][h] = struct{}{}
			distinctAll[key+"#"+strconv.FormatUint(h, 16)] = struct{}{}
		}
		for k, n := range r.DevHistogram {
			hist[k] += n
		}
		totalExec += r.Executions
		totalStates += r.States
		totalSteps += r.Steps
		for i, sm := range r.Samples {
			if len(samples) < 12 && i < 2 {
				m := map[string]any{"harness": j.h.Name, "variant": j.v.Name, "observations": sm}
				if i < len(r.SampleChoices) {
					m["choices"] = r.SampleChoices[i]
				}
				samples = append(samples, m)
			}
		}
		for _, v := range r.Violations {
			if v.Kind == "diverged" {
				fmt.Fprintf(os.Stderr, "HARNESS-ERROR property=%s harness=%s variant=%s: schedule replay diverged (%s)\n", id, j.h.Name, j.v.Name, v.Msg)
				infraErr = true
				continue
			}
			founds = append(founds, found{j, v})
		}
	}
	var vars []*varSummary
	for _, k := range order {
		s := sumByVar[k]
		if s.BoundCompleted == 1<<30 {
			s.BoundCompleted = s.Bound
		}
		s.Distinct = len(distinctByVar[k])
		vars = append(vars, s)
	}

	// ---- violations vs known findings
	findings := loadFindings()
	seen := map[string]bool{}
	var lines []string
	unlisted := 0
	var knownHit []string
	_ = os.MkdirAll(filepath.Join(verifRoot, "replays"), 0o755)
	sort.Slice(founds, func(a, b int) bool { return len(founds[a].vio.Choices) < len(founds[b].vio.Choices) })
	for _, f := range founds {
		key := f.j.h.Name + "/" + f.vio.Kind + "/" + f.vio.Sig
		if seen[key] {
			continue
		}
		seen[key] = true
		ok, why := confirm(bin, tier, f.j.h, f.j.v, f.vio)
		if !ok {
			fmt.Fprintf(os.Stderr, "HARNESS-ERROR property=%s harness=%s variant=%s sig=%s: %s\n", id, f.j.h.Name, f.j.v.Name, f.vio.Sig, why)
			infraErr = true
			continue
		}
		var kf *finding
		for i := range findings {
			x := &findings[i]
			if x.Property == id && x.Status == "known" && x.Harness == f.j.h.Name && x.Sig == f.vio.Sig {
				kf = x
			}
		}
		if kf != nil {
			lines = append(lines, fmt.Sprintf("KNOWN-FINDING: property=%s %s", id, kf.What))
			knownHit = append(knownHit, key)
			continue
		}
		unlisted++
		hsh := sha256.Sum256([]byte(key + f.j.v.Name))
		path := filepath.Join(verifRoot, "replays", fmt.Sprintf("%s-%x.json", id, hsh[:5]))
		rep := map[string]any{"property": id, "harness": f.j.h.Name, "variant": f.j.v.Name, "tier": tier, "kind": f.vio.Kind,
			"sig": f.vio.Sig, "msg": f.vio.Msg, "choices": f.vio.Choices, "log": f.vio.Log, "harness_kind": f.j.kind,
			"replay_cmd": fmt.Sprintf("/verif/bin/vcheck replay %s", path)}
		b, _ := json.MarshalIndent(rep, "", " ")
		_ = os.WriteFile(path, b, 0o644)
		lines = append(lines, fmt.Sprintf("VIOLATION property=%s replay=%s", id, path))
		fmt.Fprintf(os.Stderr, "  %s/%s [%s] %s: %s\n", f.j.h.Name, f.j.v.Name, f.vio.Kind, f.vio.Sig, firstLine(f.vio.Msg))
	}
	sort.Strings(lines)
	lines = dedup(lines)

	distinct := len(distinctAll)
	vacuous := distinct < 2 && unlisted == 0 && !infraErr

	// ---- evidence
	var docs []string
	for _, h := range mine {
		docs = append(docs, h.Name+" ("+h.Kind+"): "+h.Doc)
	}
	if totalStates == 0 {
		totalStates = totalExec // enum harnesses without state counting: one state per evaluated case
	}
	cov := map[string]any{
		"states":                        max64(totalStates, 1),
		"transitions":                   max64(totalSteps, 1),
		"traces_validated_against_impl": totalExec,
		"evaluations":                   totalExec,
		"distinct_nontrivial":           distinct,
		"rule": "every execution runs the real (rewritten or in-package) implementation; a case is distinct and non-trivial when its observation log (sched harnesses) or its harness-declared class (enum harnesses) differs from all others of the same variant. " +
			strings.Join(docs, " || "),
		"samples":             samples,
		"exhaustive":          exhaustive && !infraErr,
		"variants":            vars,
		"deviation_histogram": hist,
		"caps_hit":            caps,
		"known_findings_hit":  knownHit,
		"explanation":         "model = implementation: traces are executions of the real code under the vsched controlled scheduler (sched) or exhaustive enumeration of an input/operation domain against a reference model (enum)",
	}
	if len(samples) == 0 {
		cov["samples"] = []any{"(no sample recorded)"}
	}
	if tier == "thorough" && os.Getenv("VERIF_NORACE") == "" {
		cov["race_pass"] = racePass(tier, mine)
	}
	ev := map[string]any{
		"property_id": id, "tier": tier, "seed": seed, "level": "model_checking", "coverage": cov,
		"assumptions": []string{
			"virtual clock and cooperative scheduler replace time/sync/atomic/channels/select/go in the rewritten packages (root + internal/{recovery,queue,dissolve,timers,memstream,bpool,priority,epoch,saferand,cancelctx,nowtime}); other packages run unmodified",
			"map iteration over ordered keys is determinised (sorted); Go's random map order is not explored",
			"sync.Pool is a deterministic LIFO emptied at the start of every execution",
			"unsynchronised shared accesses are outside the scheduler's model (data races are the business of the separate -race pass)",
			"verification build only: lock-striping tables shrunk (numSubLocks=64, numMediumLocks=64, numPubLocks=64), numSubDissolverWorkers=2, numHubShards=1, metrics code-string table 0..16 (getCodeLabel falls back to strconv); library goroutines outside the scheduler are off (metrics aggregation interval 0, no singleflight, no otter caches)",
		},
		"wall_s":     time.Since(start).Seconds(),
		"violations": unlisted,
	}
	evDir := filepath.Join(verifRoot, "evidence")
	if d := os.Getenv("VERIF_EVIDENCE_DIR"); d != "" {
		evDir = d // runs against scratch trees (seeded changes) must not overwrite the committed evidence
	}
	_ = os.MkdirAll(evDir, 0o755)
	b, _ := json.MarshalIndent(ev, "", " ")
	if err := os.WriteFile(filepath.Join(evDir, id+".json"), b, 0o644); err != nil {
		die(2, "cannot write evidence: %v", err)
	}
	for _, l := range lines {
		fmt.Println(l)
	}
	fmt.Printf("property=%s tier=%s executions=%d states=%d transitions=%d distinct_outcomes=%d exhaustive=%v violations=%d known=%d wall=%.1fs\n",
		id, tier, totalExec, totalStates, totalSteps, distinct, exhaustive && !infraErr, unlisted, len(knownHit), time.Since(start).Seconds())
	switch {
	case unlisted > 0:
		os.Exit(1)
	case infraErr:
		os.Exit(2)
	case vacuous:
		fmt.Fprintf(os.Stderr, "VACUOUS property=%s: fewer than two distinct outcomes were observed\n", id)
		os.Exit(2)
	}
}

// racePass (E3, thorough tier): the same harness bodies run free under the race detector.
// Races whose two access sites are both in centrifuge code are listed in the evidence; races
// that involve harness code (its unsynchronised bookkeeping is only safe under the cooperative
// scheduler) are counted and ignored. A race is not a property violation: it marks data that
// flows between threads outside the scheduler's model.
func racePass(tier string, mine []*harness) map[string]any {
	cmd := exec.Command(filepath.Join(verifRoot, "bin", "vbuild"))
	cmd.Env = append(env(), "VBUILD_RACE=1")
	out, err := cmd.Output()
	if err != nil {
		return map[string]any{"error": "race build failed: " + err.Error()}
	}
	bin := filepath.Join(filepath.Dir(strings.TrimSpace(string(out))), "vmain_race")
	product := map[string]int{}
	harnessOnly, iterations := 0, 0
	var ran []string
	for _, h := range mine {
		if h.Kind != "sched" {
			continue
		}
		ctx, cancel := context.WithTimeout(context.Background(), 240*time.Second)
		c := exec.CommandContext(ctx, bin, "race", "-harness", h.Name, "-tier", "quick", "-n", "3", "-maxexec", "6")
		c.Env = append(env(), "GORACE=halt_on_error=0 history_size=2")
		var eb, ob bytes.Buffer
		c.Stderr, c.Stdout = &eb, &ob
		_ = c.Run()
		cancel()
		ran = append(ran, h.Name)
		for _, l := range strings.Split(ob.String(), "\n") {
			if i := strings.Index(l, "iterations-completed="); i >= 0 {
				n, _ := strconv.Atoi(strings.TrimSpace(l[i+len("iterations-completed="):]))
				iterations += n
			}
		}
		for _, blk := range strings.Split(eb.String(), "==================") {
			if !strings.Contains(blk, "WARNING: DATA RACE") {
				continue
			}
			var sites []string
			lines := strings.Split(blk, "\n")
			for i := 0; i < len(lines); i++ {
				l := lines[i]
				if strings.HasPrefix(l, "Read at ") || strings.HasPrefix(l, "Write at ") || strings.HasPrefix(l, "Previous read at ") || strings.HasPrefix(l, "Previous write at ") || strings.HasPrefix(l, "Previous atomic") || strings.HasPrefix(l, "Atomic") {
					site := "?"
					for j := i + 1; j < len(lines) && strings.TrimSpace(lines[j]) != ""; j++ {
						f := strings.TrimSpace(lines[j])
						if !strings.HasPrefix(f, "/") {
							continue
						}
						if strings.Contains(f, "/internal/zzverif/") {
							continue
						}
						if k := strings.Index(f, " +0x"); k > 0 {
							f = f[:k]
						}
						site = f
						break
					}
					sites = append(sites, site)
				}
			}
			isHarness := false
			for _, s := range sites {
				if strings.Contains(s, "zz_verif_") || s == "?" {
					isHarness = true
				}
			}
			if isHarness || len(sites) < 2 {
				harnessOnly++
				continue
			}
			for i := range sites {
				sites[i] = strings.TrimPrefix(sites[i], "/repo/")
			}
			sort.Strings(sites)
			product[strings.Join(sites[:2], " <-> ")]++
		}
	}
	var pl []string
	for k, n := range product {
		pl = append(pl, fmt.Sprintf("%s (x%d)", k, n))
	}
	sort.Strings(pl)
	return map[string]any{"harnesses": ran, "iterations_completed": iterations, "races_between_centrifuge_sites": pl, "races_involving_harness_code_ignored": harnessOnly,
		"note": "free-running -race pass of the same harness bodies (real goroutines, real clock, oracles off); supporting evidence for the assumption that threads communicate only through scheduler-visible operations"}
}

func firstLine(s string) string {
	if i := strings.Index(s, "\n"); i > 0 {
		return s[:i]
	}
	return s
}

func dedup(l []string) []string {
	var out []string
	for i, s := range l {
		if i == 0 || s != l[i-1] {
			out = append(out, s)
		}
	}
	return out
}

func max64(a, b int64) int64 {
	if a > b {
		return a
	}
	return b
}

func replay(args []string, tier string) {
	if len(args) != 1 {
		die(2, "usage: vcheck replay <file>")
	}
	b, err := os.ReadFile(args[0])
	if err != nil {
		die(2, "%v", err)
	}
	var rep struct {
		Harness, Variant, Tier, Kind, Sig, Msg string
		Choices                              []int
		Log                                  []string
		HarnessKind                          string `json:"harness_kind"`
	}
	if err := json.Unmarshal(b, &rep); err != nil {
		die(2, "%v", err)
	}
	bin := build()
	if rep.Tier != "" {
		tier = rep.Tier
	}
	if rep.HarnessKind != "sched" {
		fmt.Printf("enum harness %s variant %s: failing input/operations:\n", rep.Harness, rep.Variant)
		for _, l := range rep.Log {
			fmt.Println("  ", l)
		}
		fmt.Println(rep.Msg)
		cmd := exec.Command(bin, "run", "-harness", rep.Harness, "-variant", rep.Variant, "-tier", tier)
		cmd.Env = env()
		out, _ := cmd.Output()
		var r result
		_ = json.Unmarshal(out, &r)
		for _, v := range r.Violations {
			if v.Sig == rep.Sig {
				fmt.Println("REPRODUCED:", v.Sig, firstLine(v.Msg))
				os.Exit(1)
			}
		}
		fmt.Println("not reproduced")
		return
	}
	var cs []string
	for _, c := range rep.Choices {
		cs = append(cs, strconv.Itoa(c))
	}
	cmd := exec.Command(bin, "replay", "-harness", rep.Harness, "-variant", rep.Variant, "-tier", tier, "-choices", strings.Join(cs, ","), "-n", "2", "-v")
	cmd.Env = env()
	cmd.Stdout, cmd.Stderr = os.Stdout, os.Stderr
	if err := cmd.Run(); err != nil {
		os.Exit(3)
	}
}
