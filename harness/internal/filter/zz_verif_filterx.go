//go:build verif

package filter

import (
	"fmt"
	"math/big"
	"strings"

	"github.com/centrifugal/centrifuge/internal/zzverif/vsched"
	"github.com/centrifugal/protocol"
	"github.com/quagmt/udecimal"
)

// filterx (C15, E2): Validate / Match / Hash on every filter tree of bounded depth over all 13 leaf
// operators (well-formed and malformed) and every tag map over a small key/value pool, against an
// independent reference validator and evaluator.

// ---------- tree descriptions (built fresh into protocol.FilterNode for every use) ----------

type fxNode struct {
	op, key, cmp, val string
	vals              []string
	kids              []*fxNode
}

func (n *fxNode) build(alt bool) *protocol.FilterNode {
	f := &protocol.FilterNode{Op: n.op, Key: n.key, Cmp: n.cmp, Val: n.val}
	if len(n.vals) > 0 {
		f.Vals = append([]string(nil), n.vals...)
	} else if alt {
		f.Vals = []string{}
	}
	if len(n.kids) > 0 {
		f.Nodes = make([]*protocol.FilterNode, 0, len(n.kids)+1)
		for _, k := range n.kids {
			f.Nodes = append(f.Nodes, k.build(alt))
		}
	} else if alt {
		f.Nodes = []*protocol.FilterNode{}
	}
	return f
}

func (n *fxNode) String() string {
	if n.op == "" {
		s := fmt.Sprintf("{key=%q cmp=%q", n.key, n.cmp)
		if n.val != "" {
			s += fmt.Sprintf(" val=%q", n.val)
		}
		if n.vals != nil {
			s += fmt.Sprintf(" vals=%q", n.vals)
		}
		return s + "}"
	}
	var ks []string
	for _, k := range n.kids {
		ks = append(ks, k.String())
	}
	return n.op + "(" + strings.Join(ks, ", ") + ")"
}

// ---------- reference validator (the documented rules) ----------

var fxSingleVal = map[string]bool{"eq": true, "neq": true, "sw": true, "ew": true, "ct": true, "gt": true, "gte": true, "lt": true, "lte": true}

// fxInvalid returns "" for a well-formed tree, otherwise the first violated rule (pre-order).
func fxInvalid(n *fxNode) string {
	switch n.op {
	case "":
		switch {
		case n.cmp == "":
			return "leaf-missing-cmp"
		case fxSingleVal[n.cmp]:
			if n.val == "" {
				return "leaf-missing-val"
			}
			if len(n.vals) > 0 {
				return "leaf-val-and-vals"
			}
		case n.cmp == "in" || n.cmp == "nin":
			if len(n.vals) == 0 {
				return "set-missing-vals"
			}
			if n.val != "" {
				return "set-with-val"
			}
		case n.cmp == "ex" || n.cmp == "nex":
			if n.val != "" || len(n.vals) > 0 {
				return "exists-with-value"
			}
			return ""
		default:
			return "leaf-unknown-cmp"
		}
		if n.key == "" {
			return "leaf-missing-key"
		}
		return ""
	case "and", "or":
		if len(n.kids) == 0 {
			return n.op + "-without-children"
		}
		for _, k := range n.kids {
			if r := fxInvalid(k); r != "" {
				return r
			}
		}
		return ""
	case "not":
		if len(n.kids) != 1 {
			return "not-child-count"
		}
		return fxInvalid(n.kids[0])
	}
	return "unknown-op"
}

// ---------- reference evaluator ----------

// fxNumeral: the numerals the engine's decimal parser accepts: [+-]digits[.digits], at most 19
// fraction digits (cross-checked against udecimal.Parse on the whole value pool at start-up).
func fxNumeral(s string) bool {
	if s != "" && (s[0] == '+' || s[0] == '-') {
		s = s[1:]
	}
	intPart, frac, hasDot := strings.Cut(s, ".")
	if intPart == "" || (hasDot && (frac == "" || len(frac) > 19)) {
		return false
	}
	for _, c := range intPart + frac {
		if c < '0' || c > '9' {
			return false
		}
	}
	return true
}

func fxNumCmp(a, b string) (int, bool) {
	if !fxNumeral(a) || !fxNumeral(b) {
		return 0, false
	}
	ra, ok1 := new(big.Rat).SetString(a)
	rb, ok2 := new(big.Rat).SetString(b)
	if !ok1 || !ok2 {
		panic("filterx: reference cannot parse an accepted numeral: " + a + " / " + b)
	}
	return ra.Cmp(rb), true
}

func fxEval(n *fxNode, tags map[string]string) bool {
	switch n.op {
	case "and":
		for _, k := range n.kids {
			if !fxEval(k, tags) {
				return false
			}
		}
		return true
	case "or":
		for _, k := range n.kids {
			if fxEval(k, tags) {
				return true
			}
		}
		return false
	case "not":
		return !fxEval(n.kids[0], tags)
	}
	v, present := tags[n.key]
	inSet := false
	for _, x := range n.vals {
		if present && x == v {
			inSet = true
		}
	}
	switch n.cmp {
	case "eq":
		return present && v == n.val
	case "neq":
		return !(present && v == n.val)
	case "in":
		return inSet // a missing key is in no set
	case "nin":
		return !inSet
	case "ex":
		return present
	case "nex":
		return !present
	case "sw":
		return present && len(v) >= len(n.val) && v[:len(n.val)] == n.val
	case "ew":
		return present && len(v) >= len(n.val) && v[len(v)-len(n.val):] == n.val
	case "ct":
		if !present {
			return false
		}
		for i := 0; i+len(n.val) <= len(v); i++ {
			if v[i:i+len(n.val)] == n.val {
				return true
			}
		}
		return false
	case "gt", "gte", "lt", "lte":
		if !present {
			return false
		}
		c, ok := fxNumCmp(v, n.val)
		if !ok {
			return false
		}
		switch n.cmp {
		case "gt":
			return c > 0
		case "gte":
			return c >= 0
		case "lt":
			return c < 0
		}
		return c <= 0
	}
	panic("filterx: reference evaluator reached an invalid leaf")
}

// ---------- domains ----------

var fxValues = []string{
	"", "a", "ab", "b", "abc", "1", "01", "1.0", "-1", "-0", "1e2", "0.1", "2", "10",
	"1.0000000000000000001",                   // 19 fraction digits: accepted
	"1.00000000000000000001",                  // 20 fraction digits: rejected
	"340282366920938463463374607431768211455", // 2^128-1
	"340282366920938463463374607431768211456", // 2^128
}

var fxCmps = []string{"eq", "neq", "in", "nin", "ex", "nex", "sw", "ew", "ct", "gt", "gte", "lt", "lte"}

var fxValueSets = [][]string{
	nil, {""}, {"a"}, {"", "a"}, {"a", ""}, {"1", "a"}, {"ab", "b", "a"}, {"a", "a"}, {"1.0"},
}

type fxTagMap struct {
	m    map[string]string
	desc string
}

func fxTagMaps() []fxTagMap {
	kOpts := append([]string{"\x00absent"}, fxValues...)
	jOpts := []string{"\x00absent", "a", "1"}
	eOpts := []string{"\x00absent", "", "a"}
	var out []fxTagMap
	for _, kv := range kOpts {
		for _, jv := range jOpts {
			for _, ev := range eOpts {
				m := map[string]string{}
				var d []string
				if kv != "\x00absent" {
					m["k"] = kv
					d = append(d, fmt.Sprintf("k=%q", kv))
				}
				if jv != "\x00absent" {
					m["j"] = jv
					d = append(d, fmt.Sprintf("j=%q", jv))
				}
				if ev != "\x00absent" {
					m[""] = ev
					d = append(d, fmt.Sprintf("\"\"=%q", ev))
				}
				out = append(out, fxTagMap{m, "tags{" + strings.Join(d, " ") + "}"})
			}
		}
	}
	return out
}

// fxLeaves: every operator x key {k, z (never present), "" (empty key)} x every value / value set,
// plus the malformed shapes (missing cmp, unknown cmp, Val and Vals together, Val on set and
// existence operators, missing Val / Vals), plus a few leaves on the second key j.
func fxLeaves() []*fxNode {
	var out []*fxNode
	for _, key := range []string{"k", "z", ""} {
		for _, cmp := range fxCmps {
			switch {
			case fxSingleVal[cmp]:
				for _, v := range fxValues {
					out = append(out, &fxNode{key: key, cmp: cmp, val: v})
				}
				out = append(out, &fxNode{key: key, cmp: cmp, val: "a", vals: []string{"a"}}, &fxNode{key: key, cmp: cmp, vals: []string{"a"}})
			case cmp == "in" || cmp == "nin":
				for _, vs := range fxValueSets {
					out = append(out, &fxNode{key: key, cmp: cmp, vals: vs})
				}
				out = append(out, &fxNode{key: key, cmp: cmp, val: "a", vals: []string{"a"}}, &fxNode{key: key, cmp: cmp, val: "a"})
			default:
				out = append(out, &fxNode{key: key, cmp: cmp}, &fxNode{key: key, cmp: cmp, val: "a"}, &fxNode{key: key, cmp: cmp, vals: []string{"a"}})
			}
		}
		out = append(out, &fxNode{key: key}, &fxNode{key: key, cmp: "xx", val: "a"}, &fxNode{key: key, cmp: "EQ", val: "a"}, &fxNode{key: key, val: "a"})
	}
	out = append(out, &fxNode{key: "j", cmp: "eq", val: "a"}, &fxNode{key: "j", cmp: "gt", val: "0"}, &fxNode{key: "j", cmp: "in", vals: []string{"a"}},
		&fxNode{key: "j", cmp: "nin", vals: []string{"", "1"}}, &fxNode{key: "j", cmp: "ex"})
	return out
}

// fxChildPool: leaves used as children of connectives: every operator once on key k (true and
// false on some map each), second key, empty key, and two malformed leaves.
func fxChildPool() []*fxNode {
	return []*fxNode{
		{key: "k", cmp: "eq", val: "a"}, {key: "k", cmp: "neq", val: "a"},
		{key: "k", cmp: "in", vals: []string{"", "a"}}, {key: "k", cmp: "nin", vals: []string{"", "a"}},
		{key: "k", cmp: "ex"}, {key: "k", cmp: "nex"},
		{key: "k", cmp: "sw", val: "a"}, {key: "k", cmp: "ew", val: "b"}, {key: "k", cmp: "ct", val: "b"},
		{key: "k", cmp: "gt", val: "1"}, {key: "k", cmp: "gte", val: "1"}, {key: "k", cmp: "lt", val: "1"}, {key: "k", cmp: "lte", val: "1"},
		{key: "j", cmp: "eq", val: "a"}, {key: "j", cmp: "ex"}, {key: "", cmp: "ex"}, {key: "z", cmp: "nin", vals: []string{""}},
		{key: "k"}, {key: "k", cmp: "eq"},
	}
}

var fxOps = []string{"and", "or", "not", "xor", "AND"}

// fxCompose: op x child lists of length 0..maxKids over pool.
func fxCompose(pool []*fxNode, maxKids int) []*fxNode {
	var out []*fxNode
	for _, op := range fxOps {
		lists := [][]*fxNode{nil}
		frontier := [][]*fxNode{nil}
		for l := 1; l <= maxKids; l++ {
			var next [][]*fxNode
			for _, p := range frontier {
				for _, c := range pool {
					next = append(next, append(append([]*fxNode(nil), p...), c))
				}
			}
			lists = append(lists, next...)
			frontier = next
		}
		for _, l := range lists {
			out = append(out, &fxNode{op: op, kids: l})
		}
	}
	return out
}

func fxKeyState(n *fxNode, tags map[string]string) string {
	v, ok := tags[n.key]
	switch {
	case !ok:
		return "absent-key"
	case v == "":
		return "empty-value"
	}
	return "present"
}

// fxBlame finds a leaf whose own Match result disagrees with the reference, so that one leaf
// defect keeps one signature however deep it is nested.
func fxBlame(n *fxNode, tags map[string]string) string {
	if n.op == "" {
		got, err := Match(n.build(false), tags)
		if err != nil {
			return "match-error:" + n.cmp
		}
		if got != fxEval(n, tags) {
			return "match:" + n.cmp + ":" + fxKeyState(n, tags)
		}
		return ""
	}
	for _, k := range n.kids {
		if s := fxBlame(k, tags); s != "" {
			return s
		}
	}
	return ""
}

func fxDepth(n *fxNode) int {
	d := 0
	for _, k := range n.kids {
		if x := fxDepth(k); x > d {
			d = x
		}
	}
	return d + 1
}

func fxRun(e *vsched.Enum, trees []*fxNode, maps []fxTagMap, label string) {
	// oracle self-check: the numeral grammar is the engine parser's acceptance set on the pool
	for _, v := range append([]string{"+1", ".5", "1.", "-", " 1", "1,5", "--1", "00", "-0.0"}, fxValues...) {
		_, err := udecimal.Parse(v)
		if (err == nil) != fxNumeral(v) {
			e.Fail("oracle-selfcheck", fmt.Sprintf("reference numeral grammar says %v for %q, engine parser error: %v", fxNumeral(v), v, err), nil)
			return
		}
	}
	var n int64
	for ti, t := range trees {
		n++
		if !e.Mine(n) {
			continue
		}
		if ti&0xFF == 0 && e.Expired() {
			return
		}
		why := fxInvalid(t)
		f := t.build(false)
		err := Validate(f)
		desc := t.String()
		// --- Validate accepts exactly the well-formed trees
		switch {
		case why == "" && err != nil:
			e.Fail("validate-rejects-wellformed:"+fxRootKind(t), fmt.Sprintf("Validate error %q on a well-formed tree", err), []string{desc})
		case why != "" && err == nil:
			e.Fail("validate-accepts:"+why, "Validate accepts a malformed tree ("+why+")", []string{desc})
		}
		// --- Hash: structurally equal, separately constructed trees hash equal (another tree is
		// hashed in between so that pooled buffers are reused with different content)
		h1 := Hash(f)
		_ = Hash((&fxNode{op: "and", kids: []*fxNode{t, t}}).build(false))
		h2 := Hash(t.build(false))
		h3 := Hash(t.build(true)) // nil vs empty Vals / Nodes
		if h1 != h2 || h1 != h3 {
			e.Fail("hash-unequal", fmt.Sprintf("Hash differs for structurally equal trees: %x / %x / %x", h1[:4], h2[:4], h3[:4]), []string{desc})
		}
		if why != "" {
			e.Case(label+" invalid:"+why, 1)
			continue
		}
		if err != nil {
			continue // reported above; Match semantics are only specified for validated trees
		}
		// --- Match == reference on every tag map, never errors
		for _, tm := range maps {
			want := fxEval(t, tm.m)
			got, merr := Match(f, tm.m)
			var class string
			if t.op == "" {
				class = fmt.Sprintf("%s %s %s %v", label, t.cmp, fxKeyState(t, tm.m), want)
				if t.cmp == "gt" || t.cmp == "gte" || t.cmp == "lt" || t.cmp == "lte" {
					if c, ok := fxNumCmp(tm.m[t.key], t.val); ok {
						class += fmt.Sprintf(" num%+d", c)
					} else {
						class += " non-numeral"
					}
				}
			} else {
				class = fmt.Sprintf("%s %s/%d depth%d %v", label, t.op, len(t.kids), fxDepth(t), want)
			}
			e.Case(class, 1)
			if merr != nil {
				e.Fail("match-error:"+fxRootKind(t), fmt.Sprintf("Match returns error %q on a validated tree", merr), []string{desc, tm.desc})
				continue
			}
			if got != want {
				sig := fxBlame(t, tm.m)
				if sig == "" {
					sig = "match:compose:" + t.op
				}
				e.Fail(sig, fmt.Sprintf("Match=%v, filter language says %v", got, want), []string{desc, tm.desc})
			}
		}
	}
	e.Sample(fmt.Sprintf("%s: %d trees x %d tag maps", label, len(trees), len(maps)))
}

func fxRootKind(t *fxNode) string {
	if t.op == "" {
		return "leaf-" + t.cmp
	}
	return t.op
}

func init() {
	vsched.Register(&vsched.Harness{
		Name: "filterx", Props: []string{"C15"}, Kind: "enum",
		Doc: "variant leaves: 13 operators x keys {k, z(never present), \"\"} x 18 values (\"\", strings, numerals incl. 01, 1.0, -0, 1e2, 19/20 fraction digits, 2^128-1, 2^128) / 9 value sets, plus malformed leaves (no cmp, unknown cmp, Val+Vals, Val on in/ex, missing Val/Vals); variant depth2: {and,or,not,xor,AND} x 0..2 children (T: 0..3) from a 19-leaf pool (every operator, 2 malformed); variant depth3 (T): the same ops x 0..2 children from leaves + depth-2 trees; all x 171 tag maps (k absent or any of the 18 values, j in {absent,a,1}, \"\" in {absent,\"\",a}). Oracle: independent validator (documented rules) == Validate verdict; Match on every validated tree never errors and equals the reference evaluator (missing key = no value, in no set; numerics by big.Rat iff both numerals match the engine grammar [+-]d+(.d{1,19})?, else false; and/or/not boolean); Hash equal for separately built structurally equal trees (nil vs empty slices, pooled buffer reused in between)",
		Variants: func(tier string) []vsched.Variant {
			if tier == "thorough" {
				return []vsched.Variant{
					{Name: "leaves", Shards: 4, BudgetS: 300},
					{Name: "depth2-kids3", Shards: 16, BudgetS: 300},
					{Name: "depth3", Shards: 16, BudgetS: 300},
				}
			}
			return []vsched.Variant{
				{Name: "leaves", Shards: 4, BudgetS: 60},
				{Name: "depth2", Shards: 8, BudgetS: 60},
			}
		},
		Enum: func(v vsched.Variant, e *vsched.Enum) {
			maps := fxTagMaps()
			switch v.Name {
			case "leaves":
				fxRun(e, fxLeaves(), maps, "leaf")
			case "depth2":
				fxRun(e, fxCompose(fxChildPool(), 2), maps, "d2")
			case "depth2-kids3":
				fxRun(e, fxCompose(fxChildPool(), 3), maps, "d2")
			case "depth3":
				small := []*fxNode{
					{key: "k", cmp: "eq", val: "a"}, {key: "k", cmp: "in", vals: []string{"", "a"}}, {key: "k", cmp: "nex"},
					{key: "k", cmp: "gte", val: "1"}, {key: "j", cmp: "ex"}, {key: "k"},
				}
				pool := append(append([]*fxNode(nil), fxChildPool()...), fxCompose(small, 2)...)
				fxRun(e, fxCompose(pool, 2), maps, "d3")
			default:
				e.Incomplete("unknown variant " + v.Name)
			}
		},
	})
}
