//go:build verif

package redispartition

import (
	"fmt"

	"github.com/centrifugal/centrifuge/internal/zzverif/vsched"
)

// partconc (C35, E1): the tag functions are called by many goroutines (every publish computes a
// partition); the property must hold for every caller, also the first ones of a process. Every
// execution starts from a cold package (ZZVerifResetGlobals re-runs the package-level
// initialisers), then 2 (quick) or 3 (thorough) threads call FindTags / TagSlot / SlotToNode
// concurrently; package-level variables written after initialisation are scheduling points (the
// rewriter's GlobalPoint), so a lazily built table or a shared scratch buffer is interleaved at
// every access. Oracle: every result equals the independent bit-serial CRC16 / hash-tag slot
// function of partx, tags of one partition count stay pairwise distinct in slot.
func init() {
	vsched.Register(&vsched.Harness{
		Name: "partconc", Props: []string{"C35"}, Kind: "sched",
		Doc: "cold package (package-level variables re-initialised before every execution), 2-3 threads calling FindTags(size) and TagSlot(tag) for every tag of one bundled partition count plus SlotToNode concurrently; scheduling points at every access of a package-level variable written after initialisation and at every sync/atomic operation; oracle: TagSlot == independent CRC16/XMODEM hash-tag slot, slots of one count pairwise distinct, SlotToNode == independent contiguous assignment",
		Variants: func(tier string) []vsched.Variant {
			if tier == "thorough" {
				return []vsched.Variant{
					{Name: "t2", Bound: 2, Shards: 1, BudgetS: 200},
					{Name: "t3", Bound: 2, Shards: 4, BudgetS: 200},
				}
			}
			return []vsched.Variant{{Name: "t2", Bound: 2, Shards: 1, BudgetS: 100}}
		},
		Sched: func(v vsched.Variant) func() {
			nthreads := 2
			if v.Name == "t3" {
				nthreads = 3
			}
			sizes := PrecomputedSizes()
			return func() {
				size := sizes[vsched.ChooseFree(len(sizes))]
				ZZVerifResetGlobals()
				type res struct {
					tags  []string
					slots []int
					node  int
					err   error
				}
				out := make([]res, nthreads)
				done := make(chan struct{}, nthreads)
				for t := 0; t < nthreads; t++ {
					t := t
					go func() {
						defer func() { done <- struct{}{} }()
						tags, err := FindTags(size)
						r := res{tags: tags, err: err}
						for _, tag := range tags {
							r.slots = append(r.slots, TagSlot(tag))
						}
						if len(r.slots) > 0 {
							r.node = SlotToNode(r.slots[t%len(r.slots)], size)
						}
						out[t] = r
					}()
				}
				for t := 0; t < nthreads; t++ {
					<-done
				}
				vsched.Quiet(true)
				owners := partxOwners(size)
				for t, r := range out {
					if r.err != nil || len(r.tags) != size {
						vsched.Failf("conc-findtags", "thread %d: FindTags(%d) = %d tags, err %v", t, size, len(r.tags), r.err)
						continue
					}
					seen := map[int]string{}
					for i, tag := range r.tags {
						want := partxKeySlot("{" + tag + "}.x")
						if r.slots[i] != want {
							vsched.Failf("conc-tagslot-differs", "thread %d of %d concurrent first callers: TagSlot(%q)=%d, Redis slot %d (size %d)", t, nthreads, tag, r.slots[i], want, size)
						}
						if other, dup := seen[r.slots[i]]; dup {
							vsched.Failf("conc-slot-duplicate", "thread %d: tags %q and %q share slot %d (size %d)", t, other, tag, r.slots[i], size)
						}
						seen[r.slots[i]] = tag
					}
					if want := owners[r.slots[t%len(r.slots)]]; r.node != want {
						vsched.Failf("conc-slottonode", "thread %d: SlotToNode(%d,%d)=%d want %d", t, r.slots[t%len(r.slots)], size, r.node, want)
					}
				}
				vsched.Logf("size=%d threads=%d %s", size, nthreads, fmt.Sprint(out[0].slots[:2]))
			}
		},
	})
}
