//go:build verif

package redispartition

import (
	"fmt"
	"math"
	"sort"
	"strings"

	"github.com/centrifugal/centrifuge/internal/zzverif/vsched"
)

// partx (C35, E2, complete): every bundled partition count, every tag, every cluster size
// 1..count, against an independent CRC16/XMODEM + Redis hash-tag slot function and an
// independent model of the contiguous slot assignment.

// partxCRC is a bit-serial CRC16/XMODEM (poly x^16+x^12+x^5+1, init 0, no reflection, no xorout),
// written as polynomial long division over the message bits.
func partxCRC(s string) uint32 {
	var reg uint32
	for i := 0; i < len(s); i++ {
		for bit := 7; bit >= 0; bit-- {
			in := uint32(s[i]>>uint(bit)) & 1
			top := (reg >> 15) & 1
			reg = (reg << 1) & 0xFFFF
			if top^in == 1 {
				reg ^= 0x1021
			}
		}
	}
	return reg
}

// partxKeySlot is Redis' keyHashSlot: the first '{', then the first '}' after it; a non-empty
// content between them is hashed alone, otherwise the whole key.
func partxKeySlot(key string) int {
	s := strings.IndexByte(key, '{')
	if s >= 0 {
		e := strings.IndexByte(key[s+1:], '}')
		if e > 0 {
			return int(partxCRC(key[s+1:s+1+e]) % 16384)
		}
	}
	return int(partxCRC(key) % 16384)
}

// partxOwners returns, for a cluster of n masters with the 16384 slots split into n contiguous
// ranges whose sizes differ by at most one (larger ranges first), the owner of every slot.
func partxOwners(n int) []int {
	owners := make([]int, 0, 16384)
	base, extra := 16384/n, 16384%n
	for node := 0; node < n; node++ {
		size := base
		if node < extra {
			size++
		}
		for k := 0; k < size; k++ {
			owners = append(owners, node)
		}
	}
	return owners
}

// partxOwnersRedisCLI reproduces `redis-cli --cluster create` (clusterManagerCommandCreate):
// float32 slots_per_node, last = lround(cursor + slots_per_node - 1), last master takes the rest.
func partxOwnersRedisCLI(n int) []int {
	owners := make([]int, 16384)
	perNode := float32(16384) / float32(n)
	first, cursor := 0, float32(0)
	for node := 0; node < n; node++ {
		last := int(math.Round(float64(cursor + perNode - 1)))
		if last > 16384 || node == n-1 {
			last = 16383
		}
		if last < first {
			last = first
		}
		for s := first; s <= last; s++ {
			owners[s] = node
		}
		first = last + 1
		cursor += perNode
	}
	return owners
}

func init() {
	vsched.Register(&vsched.Harness{
		Name: "partx", Props: []string{"C35"}, Kind: "enum",
		Doc: "every bundled partition count (PrecomputedSizes) x every tag x every cluster size 1..count; oracle: independent bit-serial CRC16/XMODEM (self-checked on the 123456789 -> 0x31C3 vector) and Redis hash-tag rule: len(tags)==count, tag usable as hash tag (non-empty, no braces, key built around it hashes to the tag's slot), TagSlot == reference slot, slots pairwise distinct, SlotToNode == independent contiguous-assignment table (at every tag slot, and on all 16384 slots for every cluster size 1..4096), per-node partition counts differ by <= 1. Variant even-split: slot ranges differ by at most one slot, larger first (the package's documented model, SlotToNode compared); variant rediscli-create: slot ranges as allocated by redis-cli --cluster create (float32 cursor + lround), balance only; variant held-tables: every ordered pair of lookups (A, then B) with A's table re-checked afterwards, and all tables fetched in both orders and held: a table never changes under its holder",
		Variants: func(tier string) []vsched.Variant {
			return []vsched.Variant{
				{Name: "even-split", Shards: 8, BudgetS: 120},
				{Name: "rediscli-create", Shards: 8, BudgetS: 120},
				{Name: "held-tables", Shards: 2, BudgetS: 120},
			}
		},
		Enum: func(v vsched.Variant, e *vsched.Enum) {
			// oracle self-check against published vectors
			for _, tv := range []struct {
				in   string
				want uint32
			}{{"123456789", 0x31C3}, {"", 0}, {"A", 0x58E5}} {
				if got := partxCRC(tv.in); got != tv.want {
					e.Fail("oracle-selfcheck", fmt.Sprintf("reference CRC16(%q)=%#x want %#x", tv.in, got, tv.want), nil)
					return
				}
			}
			if partxKeySlot("foo{bar}zap") != partxKeySlot("bar") || partxKeySlot("foo{}{bar}") != int(partxCRC("foo{}{bar}")%16384) ||
				partxKeySlot("foo{{bar}}zap") != partxKeySlot("{bar") || partxKeySlot("123456789") != 12739 {
				e.Fail("oracle-selfcheck", "reference hash-tag rule disagrees with the Redis cluster spec examples", nil)
				return
			}
			sizes := PrecomputedSizes()
			if !sort.IntsAreSorted(sizes) || len(sizes) == 0 {
				e.Fail("sizes-unsorted", fmt.Sprintf("PrecomputedSizes()=%v", sizes), nil)
			}
			if v.Name == "held-tables" {
				// Brokers keep the table they were given for as long as they live, while other brokers ask
				// for other sizes: every order of two lookups (A then B), with A's table checked again
				// after B's lookup, plus all tables fetched largest-first / smallest-first and checked at
				// the end. A table must not change under its holder, and mutating a returned table must
				// not change what later callers get.
				var n int64
				check := func(tags []string, size int, ctx string) {
					if len(tags) != size {
						e.Fail("held-table-changed", fmt.Sprintf("%s: table for %d partitions now has %d tags", ctx, size, len(tags)), []string{ctx})
						return
					}
					seen := map[int]int{}
					for i, tag := range tags {
						s := int(partxCRC(tag) % 16384)
						if j, dup := seen[s]; dup {
							e.Fail("held-table-changed", fmt.Sprintf("%s: held table for %d partitions: tags %d and %d share slot %d", ctx, size, j, i, s), []string{ctx})
							return
						}
						seen[s] = i
					}
				}
				for _, a := range sizes {
					for _, b := range sizes {
						n++
						if !e.Mine(n) {
							continue
						}
						ta, _ := FindTags(a)
						copyA := append([]string(nil), ta...)
						tb, _ := FindTags(b)
						ctx := fmt.Sprintf("FindTags(%d) held, then FindTags(%d)", a, b)
						e.Case(fmt.Sprintf("pair a>b=%v a==b=%v", a > b, a == b), len(ta)+len(tb))
						for i := range copyA {
							if i >= len(ta) || ta[i] != copyA[i] {
								e.Fail("held-table-changed", fmt.Sprintf("%s: the held table changed at index %d", ctx, i), []string{ctx})
								break
							}
						}
						check(ta, a, ctx)
						check(tb, b, ctx)
					}
				}
				for _, order := range []string{"ascending", "descending"} {
					held := map[int][]string{}
					for i := range sizes {
						sz := sizes[i]
						if order == "descending" {
							sz = sizes[len(sizes)-1-i]
						}
						held[sz], _ = FindTags(sz)
					}
					for _, sz := range sizes {
						check(held[sz], sz, "all tables fetched "+order+" and held")
					}
					e.Case("all-held "+order, len(sizes))
				}
				return
			}
			var n int64
			for _, size := range sizes {
				tags, err := FindTags(size)
				in := []string{fmt.Sprintf("FindTags(%d)", size)}
				n++
				if e.Mine(n) {
					// per-size checks (one case)
					e.Case(fmt.Sprintf("size=%d tags", size), len(tags))
					if err != nil {
						e.Fail("findtags-error", fmt.Sprintf("FindTags(%d) error: %v", size, err), in)
						continue
					}
					if len(tags) != size {
						e.Fail("tag-count", fmt.Sprintf("FindTags(%d) returned %d tags", size, len(tags)), in)
					}
					seen := map[int]int{}
					for i, tag := range tags {
						tin := []string{fmt.Sprintf("FindTags(%d)[%d]=%q", size, i, tag)}
						if tag == "" || strings.ContainsAny(tag, "{}") {
							e.Fail("tag-not-hashtag-safe", "tag is empty or contains a brace", tin)
						}
						want := int(partxCRC(tag) % 16384)
						if got := TagSlot(tag); got != want {
							e.Fail("tagslot-mismatch", fmt.Sprintf("TagSlot=%d, Redis slot=%d", got, want), tin)
						}
						// the way the brokers embed the tag: prefix.{tag}.channel
						for _, key := range []string{"centrifuge.client.{" + tag + "}.ch", "centrifuge.stream.meta.{" + tag + "}.a}b{c"} {
							if ks := partxKeySlot(key); ks != want {
								e.Fail("tag-key-slot", fmt.Sprintf("key %q hashes to slot %d, tag alone to %d", key, ks, want), tin)
							}
						}
						if j, dup := seen[want]; dup {
							e.Fail("slot-duplicate", fmt.Sprintf("tags %d (%q) and %d (%q) share slot %d", j, tags[j], i, tag, want), tin)
						}
						seen[want] = i
					}
				}
				if err != nil {
					continue
				}
				slots := make([]int, len(tags))
				for i, tag := range tags {
					slots[i] = int(partxCRC(tag) % 16384)
				}
				for nodes := 1; nodes <= size; nodes++ {
					n++
					if !e.Mine(n) {
						continue
					}
					if e.Expired() {
						return
					}
					owners := partxOwners(nodes)
					if v.Name == "rediscli-create" {
						owners = partxOwnersRedisCLI(nodes)
					}
					counts := make([]int, nodes)
					bad := false
					for i, s := range slots {
						want := owners[s]
						counts[want]++
						if got := SlotToNode(s, nodes); v.Name == "even-split" && got != want && !bad {
							bad = true
							e.Fail("slot-to-node", fmt.Sprintf("SlotToNode(%d,%d)=%d, contiguous assignment gives %d", s, nodes, got, want),
								[]string{fmt.Sprintf("size=%d tag[%d]=%q slot=%d nodes=%d", size, i, tags[i], s, nodes)})
						}
					}
					lo, hi := counts[0], counts[0]
					for _, c := range counts {
						if c < lo {
							lo = c
						}
						if c > hi {
							hi = c
						}
					}
					e.Case(fmt.Sprintf("size=%d even-split=%v spread=%d", size, 16384%nodes == 0, hi-lo), len(slots))
					if hi-lo > 1 {
						e.Fail("imbalance", fmt.Sprintf("per-node partition counts range %d..%d", lo, hi),
							[]string{fmt.Sprintf("size=%d nodes=%d counts=%v", size, nodes, counts)})
					}
				}
			}
			// SlotToNode on the whole slot space for every cluster size up to the largest partition count
			if v.Name == "even-split" && len(sizes) > 0 {
				for nodes := 1; nodes <= sizes[len(sizes)-1]; nodes++ {
					n++
					if !e.Mine(n) {
						continue
					}
					if e.Expired() {
						return
					}
					owners := partxOwners(nodes)
					for s, want := range owners {
						if got := SlotToNode(s, nodes); got != want {
							e.Fail("slot-to-node", fmt.Sprintf("SlotToNode(%d,%d)=%d, contiguous assignment gives %d", s, nodes, got, want),
								[]string{fmt.Sprintf("slot=%d nodes=%d", s, nodes)})
							break
						}
					}
					e.Case(fmt.Sprintf("slot-to-node-table even-split=%v", 16384%nodes == 0), len(owners))
				}
			}
			e.Sample(fmt.Sprintf("sizes=%v, %d (size, cluster-size) cases", sizes, n))
		},
	})
}
