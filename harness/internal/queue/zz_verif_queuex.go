//go:build verif

package queue

import (
	"fmt"
	"strconv"
	"strings"
	"time"

	"github.com/centrifugal/centrifuge/internal/zzverif/vsched"
)

// queuex (C12, E2 half): every operation sequence over the queue API from initial capacities
// {1, 2} against a slice model. The body is sequential (one ChooseFree per step, bound 0); it
// runs under the scheduler only to have the virtual clock for the delayed-shrink timer.
//
// Model: a slice of (id, data length) plus a closed flag. Oracle after every operation:
// the operation's result equals the model's (FIFO contents, counts, booleans), Len == len(model),
// Size == sum of data lengths, Closed == model.closed and, while open, Cap >= initial capacity
// and Cap >= Len. A closing operation ends the sequence with a fixed probe of every operation on
// the closed queue.

const queuexDelay = 10 * time.Millisecond

type queuexOp struct {
	name string
	term bool // closes the queue: the sequence ends (after the post-close probe)
}

var queuexOps = []queuexOp{
	{name: "Add"},
	{name: "AddMany2"},
	{name: "AddMany3"},
	{name: "Remove"},
	{name: "RemoveMany(-1)"},
	{name: "RemoveMany(1)"},
	{name: "RemoveMany(2)"},
	{name: "Into(buf4,-1)"},
	{name: "Into(buf1,2)"},
	{name: "IntoShrink(buf4,-1)"},
	{name: "IntoShrink(buf2,2)"},
	{name: "FinishCollect(0)"},
	{name: "FinishCollect(d)"},
	{name: "Advance(d/2)"},
	{name: "Advance(d)"},
	{name: "CloseRemaining", term: true},
	{name: "Close", term: true},
}

type queuexItem struct {
	id   int
	size int
}

type queuexRun struct {
	q       *Queue
	initCap int
	model   []queuexItem
	closed  bool
	nextID  int
	trace   []string
	failed  bool // an oracle clause failed: the execution stops (later deviations are consequences)
}

func (r *queuexRun) newItem() (Item, queuexItem) {
	id := r.nextID
	r.nextID++
	n := id%3 + 1
	data := []byte(strings.Repeat(string(rune('a'+id%26)), n))
	return Item{Data: data, Key: strconv.Itoa(id)}, queuexItem{id, n}
}

func queuexSame(it Item, m queuexItem) bool {
	return it.Key == strconv.Itoa(m.id) && len(it.Data) == m.size && (m.size == 0 || it.Data[0] == byte('a'+m.id%26))
}

// fail reports an oracle failure. Signatures name the violated clause only (fifo-contents,
// result-flag, len, size, closed-flag, cap-below-initial, cap-below-len); the operation and the
// sequence are in the message.
func (r *queuexRun) fail(sig, format string, a ...any) {
	if r.failed {
		return
	}
	r.failed = true
	vsched.Failf(sig, "%s; initial capacity %d, sequence %v", fmt.Sprintf(format, a...), r.initCap, r.trace)
}

// compare removed items with the first k model items and drop them from the model
func (r *queuexRun) expectRemoved(op string, got []Item, k int) {
	if len(got) != k {
		r.fail("fifo-contents", "%s returned %d items, model says %d", op, len(got), k)
	}
	for i := 0; i < k && i < len(got); i++ {
		if !queuexSame(got[i], r.model[i]) {
			r.fail("fifo-contents", "%s item %d is key=%q data=%q, model says id %d (FIFO order / contents)", op, i, got[i].Key, got[i].Data, r.model[i].id)
			break
		}
	}
	r.model = r.model[k:]
}

func queuexMin(a ...int) int {
	m := a[0]
	for _, x := range a {
		if x < m {
			m = x
		}
	}
	return m
}

func (r *queuexRun) add(k int) {
	var items []Item
	var ms []queuexItem
	for i := 0; i < k; i++ {
		it, m := r.newItem()
		items, ms = append(items, it), append(ms, m)
	}
	var ok bool
	name := "add"
	if k == 1 {
		ok = r.q.Add(items[0])
	} else {
		name = "addmany"
		ok = r.q.AddMany(items...)
	}
	if ok == r.closed {
		r.fail("result-flag", "%s returned %v on a queue with closed=%v", name, ok, r.closed)
	}
	if !r.closed {
		r.model = append(r.model, ms...)
	}
}

func (r *queuexRun) remove() {
	it, ok := r.q.Remove()
	if len(r.model) == 0 {
		if ok {
			r.fail("result-flag", "Remove returned ok on an empty queue")
		}
		return
	}
	if !ok {
		r.fail("result-flag", "Remove returned !ok with %d items queued", len(r.model))
		return
	}
	r.expectRemoved("remove", []Item{it}, 1)
}

func (r *queuexRun) removeMany(n int) {
	got, ok := r.q.RemoveMany(n)
	if len(r.model) == 0 {
		if ok || len(got) != 0 {
			r.fail("result-flag", "RemoveMany(%d) returned %d items, ok=%v on an empty queue", n, len(got), ok)
		}
		return
	}
	k := len(r.model)
	if n != -1 {
		k = queuexMin(k, n)
	}
	if !ok {
		r.fail("result-flag", "RemoveMany(%d) returned !ok with %d items queued", n, len(r.model))
	}
	r.expectRemoved("removemany", got, k)
}

func (r *queuexRun) into(bufLen, n int, shrink bool) {
	buf := make([]Item, bufLen)
	var cnt int
	var ok bool
	name := "into"
	if shrink {
		name = "intoshrink"
		cnt, ok = r.q.RemoveManyIntoShrink(buf, n)
	} else {
		cnt, ok = r.q.RemoveManyInto(buf, n)
	}
	if len(r.model) == 0 {
		if ok || cnt != 0 {
			r.fail("result-flag", "%s returned (%d, %v) on an empty queue", name, cnt, ok)
		}
		return
	}
	k := queuexMin(len(r.model), bufLen)
	if n != -1 {
		k = queuexMin(k, n)
	}
	if !ok {
		r.fail("result-flag", "%s returned !ok with %d items queued", name, len(r.model))
	}
	if cnt < 0 || cnt > bufLen {
		r.fail("fifo-contents", "%s returned count %d with a buffer of %d", name, cnt, bufLen)
		cnt = 0
	}
	r.expectRemoved(name, buf[:cnt], k)
}

func (r *queuexRun) closeRemaining() {
	got := r.q.CloseRemaining()
	if r.closed {
		if len(got) != 0 {
			r.fail("fifo-contents", "CloseRemaining on a closed queue returned %d items", len(got))
		}
		return
	}
	r.expectRemoved("closeremaining", got, len(r.model))
	r.closed = true
}

// state invariants, evaluated after every operation
func (r *queuexRun) invariants(after string) {
	if l := r.q.Len(); l != len(r.model) {
		r.fail("len", "after %s: Len() = %d, model has %d items", after, l, len(r.model))
	}
	size := 0
	for _, m := range r.model {
		size += m.size
	}
	if s := r.q.Size(); s != size {
		r.fail("size", "after %s: Size() = %d, model says %d", after, s, size)
	}
	if c := r.q.Closed(); c != r.closed {
		r.fail("closed-flag", "after %s: Closed() = %v, model says %v", after, c, r.closed)
	}
	if !r.closed {
		c := r.q.Cap()
		if c < r.initCap {
			r.fail("cap-below-initial", "after %s: Cap() = %d below the initial capacity %d", after, c, r.initCap)
		}
		if c < len(r.model) {
			r.fail("cap-below-len", "after %s: Cap() = %d below Len %d", after, c, len(r.model))
		}
	}
}

func (r *queuexRun) apply(op int) {
	switch op {
	case 0:
		r.add(1)
	case 1:
		r.add(2)
	case 2:
		r.add(3)
	case 3:
		r.remove()
	case 4:
		r.removeMany(-1)
	case 5:
		r.removeMany(1)
	case 6:
		r.removeMany(2)
	case 7:
		r.into(4, -1, false)
	case 8:
		r.into(1, 2, false)
	case 9:
		r.into(4, -1, true)
	case 10:
		r.into(2, 2, true)
	case 11:
		r.q.FinishCollect(0)
	case 12:
		r.q.FinishCollect(queuexDelay)
	case 13:
		vsched.Advance(int64(queuexDelay / 2))
	case 14:
		vsched.Advance(int64(queuexDelay))
	case 15:
		r.closeRemaining()
	case 16:
		r.q.Close()
		r.closed = true
		r.model = nil
	}
}

func queuexBody(initCap, depth int, ops []int) func() {
	return func() {
		r := &queuexRun{q: New(initCap), initCap: initCap}
		r.invariants("New")
		var codes []string
		for step := 0; step < depth; step++ {
			op := ops[vsched.ChooseFree(len(ops))]
			o := queuexOps[op]
			r.trace = append(r.trace, o.name)
			before := len(r.model)
			r.apply(op)
			r.invariants(o.name)
			codes = append(codes, fmt.Sprintf("%d:%d>%d", op, before, len(r.model)))
			if o.term || r.failed {
				break
			}
		}
		if r.failed {
			vsched.Logf("failed %s", strings.Join(codes, " "))
			return
		}
		if r.closed {
			// every operation on a closed queue; a shrink timer armed before the close must not
			// disturb anything when its deadline passes
			r.trace = append(r.trace, "probe")
			r.add(1)
			r.add(2)
			r.remove()
			r.removeMany(-1)
			r.into(2, -1, false)
			r.into(2, -1, true)
			r.q.FinishCollect(0)
			r.q.FinishCollect(queuexDelay)
			vsched.Advance(int64(3 * queuexDelay))
			r.closeRemaining()
			r.q.Close()
			r.invariants("probe")
		} else {
			// a pending shrink timer fires; then drain: contents must be the model's
			r.trace = append(r.trace, "settle")
			vsched.Advance(int64(3 * queuexDelay))
			r.invariants("settle")
			r.trace = append(r.trace, "CloseRemaining")
			r.closeRemaining()
			r.invariants("CloseRemaining")
		}
		vsched.Logf("%s", strings.Join(codes, " "))
	}
}

type queuexVar struct {
	initCap, depth int
	ops            []int
}

var queuexVars = map[string]queuexVar{}

func queuexAllOps() []int {
	var l []int
	for i := range queuexOps {
		l = append(l, i)
	}
	return l
}

// reduced alphabet for the second depth-6 variant: one operation per code path
// (without AddMany2, RemoveMany(1), RemoveMany(2), Advance(d/2))
var queuexReduced = []int{0, 2, 3, 4, 7, 8, 9, 10, 11, 12, 14, 15, 16}

func queuexVariants(tier string) []vsched.Variant {
	var out []vsched.Variant
	add := func(c, depth int, ops []int, tag string) {
		name := fmt.Sprintf("cap%d/depth%d%s", c, depth, tag)
		queuexVars[name] = queuexVar{c, depth, ops}
		out = append(out, vsched.Variant{Name: name, Bound: 0, Shards: 16, BudgetS: 280})
	}
	if tier == "thorough" {
		add(1, 6, queuexAllOps(), "")
		add(2, 5, queuexAllOps(), "")
		add(2, 6, queuexReduced, "/reduced")
	} else {
		add(1, 5, queuexAllOps(), "")
		add(2, 5, queuexAllOps(), "")
	}
	return out
}

func init() {
	vsched.Register(&vsched.Harness{
		Name: "queuex", Props: []string{"C12", "C37"}, Kind: "sched",
		Doc: "internal/queue: every operation sequence of depth <= 5 (thorough: 6 from capacity 1; from capacity 2 depth 5 plus depth 6 over a 13-operation subset), one ChooseFree per step, over {Add, AddMany 2|3, Remove, RemoveMany -1|1|2, RemoveManyInto (buf4,-1)|(buf1,2), " +
			"RemoveManyIntoShrink (buf4,-1)|(buf2,2), FinishCollect 0|d, virtual time +d/2|+d (shrink timer fires), CloseRemaining, Close} from initial capacities {1,2}; " +
			"a closing operation ends the sequence with a probe of all operations on the closed queue, otherwise the sequence ends with timer settle + drain; " +
			"oracle: slice model - results (FIFO contents, counts, ok flags), Len, Size, Closed after every operation, Cap >= initial capacity and >= Len while open",
		Variants: queuexVariants,
		Sched: func(v vsched.Variant) func() {
			c := queuexVars[v.Name]
			return queuexBody(c.initCap, c.depth, c.ops)
		},
	})
}
