//go:build verif

package bpool

import (
	"fmt"
	"strings"
	"sync"

	"github.com/centrifugal/centrifuge/internal/zzverif/vsched"
)

// bpoolx (C42): every get/put sequence over the ByteBuffer and ByteSlicesBuf pools with
// arbitrary mutations of the buffer before it is returned. The rewritten sync.Pool is a
// deterministic LIFO that starts empty in every execution, so the pool content is exactly what
// the enumerated sequence put there ("regardless of what was previously returned").
//
// Oracle (the property statement, nothing else): a buffer obtained for length L has len == 0
// and cap >= L.

// ---- the two pools behind one small interface (harness side only)

type bpoolxBuf interface {
	length() int
	capacity() int
	mutate(m int) // applies mutation m in place
}

type bpoolxBytes struct{ bb *ByteBuffer }

func (b bpoolxBytes) length() int   { return len(b.bb.B) }
func (b bpoolxBytes) capacity() int { return cap(b.bb.B) }

type bpoolxSlices struct{ sb *ByteSlicesBuf }

func (b bpoolxSlices) length() int   { return len(b.sb.B) }
func (b bpoolxSlices) capacity() int { return cap(b.sb.B) }

// mutations a user may apply before returning a buffer
var bpoolxMutNames = []string{
	"none",          // 0 untouched
	"append1",       // 1 one element appended (grows a nil buffer)
	"grow",          // 2 filled to cap and one more appended: reallocated, cap no longer a power of two
	"reslice-front", // 3 two appended, then B = B[1:]: cap-1
	"cap-minus-1",   // 4 B = B[0:0:cap-1]
	"smaller",       // 5 replaced with a fresh make(.., 2, 3)
	"full",          // 6 B = B[:cap], every element dirty
	"nil",           // 7 replaced with nil
	"shorter-dirty", // 8 filled to cap, then B = B[:1]: dirty tail behind len
}

// the "dirty" marks: first, second and last element (the oracle looks at len only, so marking
// every element of a 256 KiB buffer would only cost time)
func bpoolxMarkBytes(b []byte) []byte {
	for _, i := range []int{0, 1, len(b) - 1} {
		if i >= 0 && i < len(b) {
			b[i] = 'd'
		}
	}
	return b
}

func bpoolxMarkSlices(b [][]byte) [][]byte {
	for _, i := range []int{0, 1, len(b) - 1} {
		if i >= 0 && i < len(b) {
			b[i] = []byte("d")
		}
	}
	return b
}

func (b bpoolxBytes) mutate(m int) {
	bb := b.bb
	switch m {
	case 1:
		_, _ = bb.Write([]byte("x"))
	case 2:
		bb.B = bpoolxMarkBytes(bb.B[:cap(bb.B)])
		bb.B = append(bb.B, 'g')
	case 3:
		if cap(bb.B) >= 2 {
			bb.B = append(bb.B[:0], 'a', 'b')
			bb.B = bb.B[1:]
		}
	case 4:
		if c := cap(bb.B); c >= 2 {
			bb.B = bb.B[0:0 : c-1]
		}
	case 5:
		bb.B = make([]byte, 2, 3)
		bb.B[0], bb.B[1] = 's', 's'
	case 6:
		bb.B = bpoolxMarkBytes(bb.B[:cap(bb.B)])
	case 7:
		bb.B = nil
	case 8:
		bb.B = bpoolxMarkBytes(bb.B[:cap(bb.B)])
		if len(bb.B) > 1 {
			bb.B = bb.B[:1]
		}
	}
}

func (b bpoolxSlices) mutate(m int) {
	sb := b.sb
	x := []byte("x")
	switch m {
	case 1:
		sb.B = append(sb.B, x)
	case 2:
		sb.B = bpoolxMarkSlices(sb.B[:cap(sb.B)])
		sb.B = append(sb.B, x)
	case 3:
		if cap(sb.B) >= 2 {
			sb.B = append(sb.B[:0], x, x)
			sb.B = sb.B[1:]
		}
	case 4:
		if c := cap(sb.B); c >= 2 {
			sb.B = sb.B[0:0 : c-1]
		}
	case 5:
		sb.B = make([][]byte, 2, 3)
		sb.B[0], sb.B[1] = x, x
	case 6:
		sb.B = bpoolxMarkSlices(sb.B[:cap(sb.B)])
	case 7:
		sb.B = nil
	case 8:
		sb.B = bpoolxMarkSlices(sb.B[:cap(sb.B)])
		if len(sb.B) > 1 {
			sb.B = sb.B[:1]
		}
	}
}

type bpoolxPool struct {
	name    string
	lengths []int // small and medium lengths: 0, 1..5, 2^k+-1
	big     []int // around the largest pooled class (these allocate 100s of KiB per get)
	get     func(n int) bpoolxBuf
	put     func(b bpoolxBuf)
}

var bpoolxPools = map[string]*bpoolxPool{
	"bytes": {
		name: "bytes",
		lengths: []int{0, 1, 2, 3, 4, 5, 7, 8, 9, 15, 16, 17},
		big:     []int{9, maxBufferLength/2 + 1, maxBufferLength - 1, maxBufferLength, maxBufferLength + 1},
		get:     func(n int) bpoolxBuf { return bpoolxBytes{GetByteBuffer(n)} },
		put:     func(b bpoolxBuf) { PutByteBuffer(b.(bpoolxBytes).bb) },
	},
	"slices": {
		name:    "slices",
		lengths: []int{-1, 0, 1, 2, 3, 4, 5, 7, 8, 9, 15, 16, 17},
		big:     []int{17, maxByteSlicesBufLength/2 + 1, maxByteSlicesBufLength - 1, maxByteSlicesBufLength, maxByteSlicesBufLength + 1},
		get:     func(n int) bpoolxBuf { return bpoolxSlices{GetByteSlicesBuf(n)} },
		put:     func(b bpoolxBuf) { PutByteSlicesBuf(b.(bpoolxSlices).sb) },
	},
}

// small length sets for the deep and the two-thread variants: one or two values per size class
var bpoolxSmall = map[string][]int{
	"bytes":  {1, 3, 4, 5, 8, 9},
	"slices": {1, 3, 4, 5, 16, 17},
}

// two-thread variant: two lengths of one size class and the first of the next one
var bpoolxParLens = map[string][]int{
	"bytes":  {3, 4, 5},
	"slices": {3, 4, 5},
}

type bpoolxHeld struct {
	buf  bpoolxBuf
	want int
}

// bpoolxCheck is the oracle, applied to every buffer handed out. origin is the mutation the
// buffer underwent before it was last put ("new" for a freshly allocated one); it goes into the
// message only: one defect shows up after many mutations and must keep one signature.
func bpoolxCheck(pool string, want int, b bpoolxBuf, origin string, trace []string) {
	if b.length() != 0 {
		vsched.Failf(pool+"-dirty", "%s buffer obtained for length %d has len %d (not empty); it was last returned after mutation %q; sequence %v", pool, want, b.length(), origin, trace)
	}
	if b.capacity() < want {
		vsched.Failf(pool+"-undersized", "%s buffer obtained for length %d has cap %d; it was last returned after mutation %q; sequence %v", pool, want, b.capacity(), origin, trace)
	}
}

func bpoolxKey(b bpoolxBuf) any {
	switch x := b.(type) {
	case bpoolxBytes:
		return x.bb
	case bpoolxSlices:
		return x.sb
	}
	return nil
}

// bpoolxSeq: one thread, `depth` operations, at most two buffers held at a time.
func bpoolxSeq(p *bpoolxPool, lengths []int, depth int) func() {
	return func() {
		var held []bpoolxHeld
		origin := map[any]string{}
		var trace []string
		var classes []string
		for step := 0; step < depth; step++ {
			nGet := 0
			if len(held) < 2 {
				nGet = len(lengths)
			}
			nPut := len(held) * len(bpoolxMutNames)
			op := vsched.ChooseFree(nGet + nPut)
			if op < nGet {
				want := lengths[op]
				trace = append(trace, fmt.Sprintf("get(%d)", want))
				b := p.get(want)
				o, seen := origin[bpoolxKey(b)]
				if !seen {
					o = "new"
				}
				bpoolxCheck(p.name, want, b, o, trace)
				classes = append(classes, fmt.Sprintf("g%d:%s:c%d", want, o, b.capacity()))
				held = append(held, bpoolxHeld{b, want})
				continue
			}
			op -= nGet
			slot, m := op/len(bpoolxMutNames), op%len(bpoolxMutNames)
			h := held[slot]
			held = append(held[:slot], held[slot+1:]...)
			h.buf.mutate(m)
			trace = append(trace, fmt.Sprintf("put(#%d got for %d, %s, len %d cap %d)", slot, h.want, bpoolxMutNames[m], h.buf.length(), h.buf.capacity()))
			origin[bpoolxKey(h.buf)] = bpoolxMutNames[m]
			p.put(h.buf)
			classes = append(classes, "p:"+bpoolxMutNames[m])
		}
		vsched.Logf("%s", strings.Join(classes, " "))
	}
}

// bpoolxPar: two threads, each get(l1) / mutate / put / get(l2), every step separated by a
// scheduling point (the pool operations themselves are atomic in the deterministic pool).
func bpoolxPar(p *bpoolxPool, lengths []int) func() {
	muts := []int{0, 2, 4, 5}
	return func() {
		var wg sync.WaitGroup
		origin := map[any]string{}
		logs := make([]string, 2)
		for t := 0; t < 2; t++ {
			t := t
			l1 := lengths[vsched.ChooseFree(len(lengths))]
			m := muts[vsched.ChooseFree(len(muts))]
			l2 := lengths[vsched.ChooseFree(len(lengths))]
			wg.Add(1)
			go func() {
				defer wg.Done()
				var trace []string
				get := func(want int) bpoolxBuf {
					vsched.Visible()
					b := p.get(want)
					o, seen := origin[bpoolxKey(b)]
					if !seen {
						o = "new"
					}
					trace = append(trace, fmt.Sprintf("t%d:get(%d)", t, want))
					bpoolxCheck(p.name, want, b, o, trace)
					logs[t] += fmt.Sprintf("g%d:%s:c%d ", want, o, b.capacity())
					return b
				}
				b := get(l1)
				vsched.Visible()
				b.mutate(m)
				vsched.Visible()
				origin[bpoolxKey(b)] = bpoolxMutNames[m]
				trace = append(trace, fmt.Sprintf("t%d:put(%s)", t, bpoolxMutNames[m]))
				p.put(b)
				b2 := get(l2)
				vsched.Visible()
				origin[bpoolxKey(b2)] = "none"
				p.put(b2)
			}()
		}
		wg.Wait()
		vsched.Logf("%s| %s", logs[0], logs[1])
	}
}

type bpoolxVar struct {
	pool  string
	mode  string // seq | big | deep | par
	depth int
}

var bpoolxVars = map[string]bpoolxVar{}

func bpoolxVariants(tier string) []vsched.Variant {
	var out []vsched.Variant
	add := func(v bpoolxVar, bound, shards int) {
		name := fmt.Sprintf("%s/%s/d%d", v.pool, v.mode, v.depth)
		bpoolxVars[name] = v
		out = append(out, vsched.Variant{Name: name, Bound: bound, Shards: shards, BudgetS: 240})
	}
	for _, pool := range []string{"bytes", "slices"} {
		if tier == "thorough" {
			add(bpoolxVar{pool, "seq", 5}, 0, 16)
			add(bpoolxVar{pool, "big", 4}, 0, 16)
			add(bpoolxVar{pool, "deep", 6}, 0, 16)
			add(bpoolxVar{pool, "par", 0}, 3, 8)
		} else {
			add(bpoolxVar{pool, "seq", 4}, 0, 6)
			add(bpoolxVar{pool, "big", 3}, 0, 2)
			add(bpoolxVar{pool, "deep", 5}, 0, 6)
			add(bpoolxVar{pool, "par", 0}, 2, 4)
		}
	}
	return out
}

func init() {
	vsched.Register(&vsched.Harness{
		Name: "bpoolx", Props: []string{"C42"}, Kind: "sched",
		Doc: "ByteBuffer and ByteSlicesBuf pools on the deterministic LIFO sync.Pool: every sequence of depth d (ChooseFree per step) of get(L) " +
			"(L over 0 (slices: -1, 0), 1..5, 2^k+-1 up to 17; 'big' = {9|17, max/2+1, max-1, max, max+1}; <=2 buffers held) and put(held buffer, mutation) with mutations " +
			"{none, append, grow past cap, reslice front, cap-1, replace with smaller, fill to cap, nil, shorter with dirty tail}; 'deep' = one length per size class, one more step; " +
			"'par' = two threads get/mutate/put/get with a scheduling point between all steps; oracle: every buffer handed out has len 0 and cap >= requested length",
		Variants: bpoolxVariants,
		Sched: func(v vsched.Variant) func() {
			c := bpoolxVars[v.Name]
			p := bpoolxPools[c.pool]
			switch c.mode {
			case "seq":
				return bpoolxSeq(p, p.lengths, c.depth)
			case "big":
				return bpoolxSeq(p, p.big, c.depth)
			case "deep":
				return bpoolxSeq(p, bpoolxSmall[c.pool], c.depth)
			default:
				return bpoolxPar(p, bpoolxParLens[c.pool])
			}
		},
	})
}
