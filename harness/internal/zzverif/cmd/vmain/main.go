//go:build verif

// Command vmain is the harness binary; it exists only in the build overlay.
package main

import (
	"os"

	"github.com/centrifugal/centrifuge"
)

func main() { os.Exit(centrifuge.VerifMain(os.Args[1:])) }
