//go:build verif

package websocket

import (
	"bytes"
	"fmt"
	"io"
	"sort"
	"time"

	"github.com/centrifugal/centrifuge/internal/zzverif/vsched"
)

// wsrt (C30, E2): every message written through one of the write APIs of a Conn (server or client
// side, any write buffer size, compression off / negotiated-but-disabled / every level) must
//  1. produce bytes that an independent RFC 6455 / RFC 7692 decoder accepts (control frames <= 125
//     bytes, unfragmented, RSV1 clear; client frames masked, server frames unmasked; minimal length
//     encoding; continuation structure; RSV1 only on the first frame of a data message and only when
//     negotiated) and that decode to exactly the written (type, bytes) sequence, and
//  2. be read by a peer Conn (ReadMessage with a 4096 (sequences: 512) byte read buffer, and NextReader + 7-byte reads
//     over a conn that returns 3 bytes per Read with the minimal read buffer) as the same sequence.
// A write that returns an error must leave the wire untouched; data messages must never be refused,
// control messages over 125 bytes must always be refused.

const (
	wsrtWM     = iota // WriteMessage
	wsrtNW            // NextWriter, Write in pieces, Close
	wsrtNWOpen        // NextWriter, one Write, writer left open (closed by the next NextWriter/WriteMessage)
	wsrtWS            // NextWriter, io.WriteString in pieces, Close
	wsrtRF            // NextWriter, io.Copy from a chunked reader (ReadFrom when uncompressed), Close
	wsrtPM            // NewPreparedMessage + WritePreparedMessage
	wsrtWC            // WriteControl
)

const (
	wsrtCompOff      = -100 // permessage-deflate not negotiated
	wsrtCompDisabled = -101 // negotiated, EnableWriteCompression(false)
)

type wsrtOp struct {
	api     int
	mt      int
	size    int
	piece   int  // NW/WS: piece size (0: whole, -1: 3 bytes then the rest); RF: reader chunk (0: unlimited)
	eofData bool // RF: the last Read returns its data together with io.EOF
	kind    int  // 0 compressible ASCII, 1 noise
	seed    int
}

func (o wsrtOp) apiName() string {
	switch o.api {
	case wsrtWM:
		return "WriteMessage"
	case wsrtNW:
		return fmt.Sprintf("NextWriter/piece%d", o.piece)
	case wsrtNWOpen:
		return "NextWriter/left-open"
	case wsrtWS:
		return fmt.Sprintf("WriteString/piece%d", o.piece)
	case wsrtRF:
		return fmt.Sprintf("ReadFrom/chunk%d/eofdata%v", o.piece, o.eofData)
	case wsrtPM:
		return "Prepared"
	case wsrtWC:
		return "WriteControl"
	}
	return "?"
}

func (o wsrtOp) String() string {
	return fmt.Sprintf("%s(type=%d size=%d kind=%d seed=%d)", o.apiName(), o.mt, o.size, o.kind, o.seed)
}

func wsrtBeginsMessage(api int) bool {
	return api == wsrtWM || api == wsrtNW || api == wsrtNWOpen || api == wsrtWS || api == wsrtRF
}

type wsrtCfg struct {
	writerServer bool
	buf          int
	comp         int
	pool         bool
}

func (c wsrtCfg) side() string {
	if c.writerServer {
		return "server"
	}
	return "client"
}

func (c wsrtCfg) compName() string {
	switch c.comp {
	case wsrtCompOff:
		return "off"
	case wsrtCompDisabled:
		return "disabled"
	}
	return fmt.Sprintf("level%d", c.comp)
}

func (c wsrtCfg) String() string {
	return fmt.Sprintf("writer=%s writeBuf=%d comp=%s pool=%v", c.side(), c.buf, c.compName(), c.pool)
}

const wsrtPhrase = "the quick brown fox jumps over the lazy dog; "

func wsrtContent(mt, kind, size, seed int) []byte {
	b := make([]byte, size)
	if mt == CloseMessage {
		// close payload: code 1000 + ASCII text (size is 0 or >= 2)
		for i := range b {
			b[i] = 'a' + byte((i+seed)%26)
		}
		if size >= 2 {
			b[0], b[1] = 0x03, 0xe8
		}
		return b
	}
	if kind == 0 {
		for i := range b {
			if i%61 == 60 {
				b[i] = '0' + byte((i/61+seed)%10)
			} else {
				b[i] = wsrtPhrase[(i+seed*7)%len(wsrtPhrase)]
			}
		}
		return b
	}
	x := uint32(12345 + seed*977)
	for i := range b {
		x = x*1103515245 + 12345
		c := byte(x >> 16)
		if mt == TextMessage {
			c = 33 + c%94
		}
		b[i] = c
	}
	return b
}

// chunked reader without WriterTo.
type wsrtReader struct {
	data    []byte
	chunk   int
	eofData bool
}

func (r *wsrtReader) Read(p []byte) (int, error) {
	if len(r.data) == 0 {
		return 0, io.EOF
	}
	n := len(r.data)
	if n > len(p) {
		n = len(p)
	}
	if r.chunk > 0 && n > r.chunk {
		n = r.chunk
	}
	copy(p, r.data[:n])
	r.data = r.data[n:]
	if len(r.data) == 0 && r.eofData {
		return n, io.EOF
	}
	return n, nil
}

func wsrtNewWriter(cfg wsrtCfg) (*Conn, *vMemConn) {
	mc := &vMemConn{}
	var pool BufferPool
	if cfg.pool {
		pool = &vStackPool{}
	}
	c := newConn(mc, cfg.writerServer, 1, cfg.buf, pool, nil, nil)
	if cfg.comp != wsrtCompOff {
		c.newCompressionWriter = compressNoContextTakeover
		c.newDecompressionReader = decompressNoContextTakeover
		if cfg.comp == wsrtCompDisabled {
			c.EnableWriteCompression(false)
		} else if err := c.SetCompressionLevel(cfg.comp); err != nil {
			panic(err)
		}
	}
	return c, mc
}

// wsrtPieces calls fn for every piece of data in order (at least once, also for empty data).
func wsrtPieces(data []byte, piece int, fn func(p []byte) error) error {
	if piece == 0 || (piece == -1 && len(data) <= 3) {
		return fn(data)
	}
	if piece == -1 {
		if err := fn(data[:3]); err != nil {
			return err
		}
		return fn(data[3:])
	}
	for len(data) > piece {
		if err := fn(data[:piece]); err != nil {
			return err
		}
		data = data[piece:]
	}
	return fn(data)
}

var wsrtCopyBuf [1000]byte // used by io.CopyBuffer only when the writer has no ReadFrom (compressed)

// wsrtDo performs one write op. A writer left open is returned in open.
func wsrtDo(c *Conn, op wsrtOp, data []byte) (open io.WriteCloser, err error) {
	switch op.api {
	case wsrtWM:
		return nil, c.WriteMessage(op.mt, data)
	case wsrtWC:
		return nil, c.WriteControl(op.mt, data, time.Time{})
	case wsrtPM:
		pm, err := NewPreparedMessage(op.mt, data)
		if err != nil {
			return nil, err
		}
		return nil, c.WritePreparedMessage(pm)
	}
	w, err := c.NextWriter(op.mt)
	if err != nil {
		return nil, err
	}
	switch op.api {
	case wsrtNW:
		if err := wsrtPieces(data, op.piece, func(p []byte) error {
			n, err := w.Write(p)
			if err == nil && n != len(p) {
				err = fmt.Errorf("short write %d of %d without error", n, len(p))
			}
			return err
		}); err != nil {
			return nil, err
		}
	case wsrtNWOpen:
		if _, err := w.Write(data); err != nil {
			return nil, err
		}
		return w, nil
	case wsrtWS:
		str := string(data)
		off := 0
		if err := wsrtPieces(data, op.piece, func(p []byte) error {
			_, err := io.WriteString(w, str[off:off+len(p)])
			off += len(p)
			return err
		}); err != nil {
			return nil, err
		}
	case wsrtRF:
		n, err := io.CopyBuffer(w, &wsrtReader{data: data, chunk: op.piece, eofData: op.eofData}, wsrtCopyBuf[:])
		if err != nil {
			return nil, err
		}
		if n != int64(len(data)) {
			return nil, fmt.Errorf("io.Copy copied %d of %d without error", n, len(data))
		}
	}
	return nil, w.Close()
}

// wsrtRead lets a peer Conn read the wire; control messages are observed through the handlers.
func wsrtRead(wire []byte, readerServer, comp bool, readBuf, maxRead, chunk int) (events []vMsg, term error, reply []byte) {
	mc := &vMemConn{in: wire, maxRead: maxRead}
	c := newConn(mc, readerServer, readBuf, 16, nil, nil, nil)
	if comp {
		c.newCompressionWriter = compressNoContextTakeover
		c.newDecompressionReader = decompressNoContextTakeover
	}
	c.SetPingHandler(func(d []byte) error {
		events = append(events, vMsg{PingMessage, append([]byte{}, d...)})
		return nil
	})
	c.SetPongHandler(func(d []byte) error {
		events = append(events, vMsg{PongMessage, append([]byte{}, d...)})
		return nil
	})
	for {
		var (
			mt  int
			p   []byte
			err error
		)
		if chunk == 0 {
			mt, p, err = c.ReadMessage()
		} else {
			var r io.Reader
			mt, r, err = c.NextReader()
			if err == nil {
				buf := make([]byte, chunk)
				for {
					n, rerr := r.Read(buf)
					p = append(p, buf[:n]...)
					if rerr == io.EOF {
						break
					}
					if rerr != nil {
						err = rerr
						break
					}
				}
			}
		}
		if err != nil {
			if ce, ok := err.(*CloseError); ok && err != error(errUnexpectedEOF) {
				var pl []byte
				if !(ce.Code == 1005 && ce.Text == "") {
					pl = vClosePayload(ce.Code, ce.Text)
				}
				events = append(events, vMsg{CloseMessage, pl})
			}
			return events, err, mc.out
		}
		if p == nil {
			p = []byte{}
		}
		events = append(events, vMsg{mt, p})
	}
}

func wsrtFramesClass(n int) string {
	switch {
	case n <= 1:
		return fmt.Sprint(n)
	case n == 2:
		return "2"
	}
	return "3+"
}

// wsrtRun executes one case and returns its class.
func wsrtRun(e *vsched.Enum, cfg wsrtCfg, ops []wsrtOp, readBuf int) string {
	replay := func() []string {
		out := []string{cfg.String()}
		for _, o := range ops {
			out = append(out, o.String())
		}
		return out
	}
	c, mc := wsrtNewWriter(cfg)
	var expected []vMsg
	var open io.WriteCloser
	rejected := 0
	verdict := "ok"
	for _, op := range ops {
		data := wsrtContent(op.mt, op.kind, op.size, op.seed)
		orig := append([]byte{}, data...)
		if open != nil && !wsrtBeginsMessage(op.api) {
			if err := open.Close(); err != nil {
				e.Fail("open-writer-close-error/"+cfg.side(), err.Error(), replay())
				return "fail"
			}
			open = nil
		}
		hadOpen := open != nil
		open = nil
		before := len(mc.out)
		var err error
		func() {
			defer func() {
				if r := recover(); r != nil {
					err = fmt.Errorf("PANIC: %v", r)
					e.Fail("write-panic/"+op.apiName()+"/"+cfg.side(), fmt.Sprint(r), replay())
				}
			}()
			open, err = wsrtDo(c, op, data)
		}()
		control := op.mt >= 8
		mustReject := control && op.size > 125
		if err != nil {
			if !hadOpen && len(mc.out) != before {
				e.Fail("write-error-but-bytes-on-wire/"+cfg.side(), fmt.Sprintf("%v returned %v after writing %d bytes", op, err, len(mc.out)-before), replay())
				return "fail"
			}
			switch {
			case !control:
				e.Fail("data-write-refused/"+cfg.side(), fmt.Sprintf("%v: %v", op, err), replay())
				return "fail"
			case !mustReject && op.api == wsrtWC:
				e.Fail("control-write-refused/"+cfg.side(), fmt.Sprintf("%v: %v", op, err), replay())
				return "fail"
			case mustReject:
				verdict = "oversize-control-refused"
			default:
				// a control message <= 125 bytes refused by a streaming API (it does not fit the
				// write buffer): nothing was written, so the round-trip property is not engaged.
				verdict = "control-refused-by-writer"
			}
			rejected++
			continue
		}
		if mustReject {
			e.Fail("oversize-control-accepted/"+cfg.side(), op.String(), replay())
			return "fail"
		}
		expected = append(expected, vMsg{op.mt, orig})
	}
	if open != nil {
		if err := open.Close(); err != nil {
			e.Fail("open-writer-close-error/"+cfg.side(), err.Error(), replay())
			return "fail"
		}
	}

	wire := mc.out
	msgs, st, werr := vDecodeWire(wire, !cfg.writerServer, cfg.comp != wsrtCompOff)
	if werr != "" {
		e.Fail("wire-invalid:"+werr+"/"+cfg.side(), fmt.Sprintf("independent decoder rejects the %d wire bytes: %s", len(wire), werr), replay())
		return "fail"
	}
	if i, ok := vEqMsgs(msgs, expected); !ok {
		e.Fail("wire-content-mismatch/"+cfg.side(), fmt.Sprintf("decoded %d messages, written %d; first difference at %d: got %v want %v", len(msgs), len(expected), i, wsrtAt(msgs, i), wsrtAt(expected, i)), replay())
		return "fail"
	}

	endsWithClose := len(expected) > 0 && expected[len(expected)-1].mt == CloseMessage
	for _, rc := range [][3]int{{readBuf, 0, 0}, {1, 3, 7}} {
		var events []vMsg
		var term error
		func() {
			defer func() {
				if r := recover(); r != nil {
					term = fmt.Errorf("PANIC: %v", r)
					e.Fail("read-panic/"+cfg.side(), fmt.Sprint(r), replay())
				}
			}()
			events, term, _ = wsrtRead(wire, !cfg.writerServer, cfg.comp != wsrtCompOff, rc[0], rc[1], rc[2])
		}()
		if i, ok := vEqMsgs(events, expected); !ok {
			e.Fail("peer-read-mismatch/"+cfg.side(), fmt.Sprintf("reader(readBuf=%d,maxRead=%d,chunk=%d) observed %d messages, written %d; first difference at %d: got %v want %v; terminal error %v", rc[0], rc[1], rc[2], len(events), len(expected), i, wsrtAt(events, i), wsrtAt(expected, i), term), replay())
			return "fail"
		}
		if endsWithClose {
			if _, ok := term.(*CloseError); !ok || term == error(errUnexpectedEOF) {
				e.Fail("peer-read-terminal/"+cfg.side(), fmt.Sprintf("after a close message the reader ended with %v", term), replay())
				return "fail"
			}
		} else if term != error(errUnexpectedEOF) {
			e.Fail("peer-read-terminal/"+cfg.side(), fmt.Sprintf("at the end of the stream the reader ended with %v", term), replay())
			return "fail"
		}
	}
	comp := "plain"
	if st.compressed > 0 {
		comp = "deflated"
	}
	return fmt.Sprintf("%s frames=%s len%d %s", verdict, wsrtFramesClass(st.maxFrames), st.maxLenForm, comp)
}

func wsrtAt(m []vMsg, i int) string {
	if i < len(m) {
		return m[i].String()
	}
	return "<none>"
}

func wsrtSizes(buf int, dense int) []int {
	set := map[int]bool{}
	for _, s := range []int{0, 1, 2, 3, 4, 5, 6, 124, 125, 126, 127, buf - 1, buf, buf + 1, 2*buf - 1, 2 * buf, 2*buf + 1,
		2*buf + 27, 2*buf + 28, 2*buf + 29, 3*buf + 1, 65535, 65536, 65537} {
		if s >= 0 {
			set[s] = true
		}
	}
	for s := 0; s <= dense; s++ {
		set[s] = true
	}
	var out []int
	for s := range set {
		out = append(out, s)
	}
	sort.Ints(out)
	return out
}

func wsrtSingleAPIs(buf int, thorough bool) []wsrtOp {
	out := []wsrtOp{
		{api: wsrtWM},
		{api: wsrtNW, piece: 0}, {api: wsrtNW, piece: 1}, {api: wsrtNW, piece: 13}, {api: wsrtNW, piece: -1}, {api: wsrtNW, piece: buf + 1},
		{api: wsrtWS, piece: 0}, {api: wsrtWS, piece: 13},
		{api: wsrtRF, piece: 0}, {api: wsrtRF, piece: 1}, {api: wsrtRF, piece: 13, eofData: true}, {api: wsrtRF, piece: 0, eofData: true},
		{api: wsrtPM},
	}
	if thorough {
		out = append(out, wsrtOp{api: wsrtNW, piece: 4}, wsrtOp{api: wsrtNW, piece: buf}, wsrtOp{api: wsrtNW, piece: 2*buf + 29},
			wsrtOp{api: wsrtWS, piece: 1}, wsrtOp{api: wsrtRF, piece: buf + 1})
	}
	return out
}

func wsrtComps(thorough bool) []int {
	if thorough {
		return []int{wsrtCompOff, wsrtCompDisabled, -2, -1, 0, 1, 2, 3, 4, 5, 6, 7, 8, 9}
	}
	return []int{wsrtCompOff, wsrtCompDisabled, -2, 1, 9}
}

func wsrtEnumSingle(e *vsched.Enum, thorough bool) {
	bufs := []int{16, 31, 256, 4096, 65536} // 31: fragment lengths that are not a multiple of the 4-byte mask key
	var n int64
	for _, server := range []bool{true, false} {
		for _, buf := range bufs {
			dense := 0
			if thorough && buf <= 256 {
				dense = 2*buf + 40
			}
			sizes := wsrtSizes(buf, dense)
			if !thorough && buf == 65536 {
				sizes = []int{0, 1, buf - 1, buf, buf + 1, 2*buf + 28, 2*buf + 29}
			}
			for _, comp := range wsrtComps(thorough) {
				cfg := wsrtCfg{writerServer: server, buf: buf, comp: comp, pool: buf == 256}
				if !thorough && buf == 65536 && comp != wsrtCompOff && comp != 1 {
					continue
				}
				// data messages
				kinds := [][2]int{{TextMessage, 0}, {BinaryMessage, 1}}
				if thorough {
					kinds = [][2]int{{TextMessage, 0}, {TextMessage, 1}, {BinaryMessage, 0}, {BinaryMessage, 1}}
				}
				for _, tk := range kinds {
					for _, api := range wsrtSingleAPIs(buf, thorough) {
						for _, size := range sizes {
							n++
							if !e.Mine(n) {
								continue
							}
							if e.Expired() {
								return
							}
							op := api
							op.mt, op.kind, op.size, op.seed = tk[0], tk[1], size, 1
							class := wsrtRun(e, cfg, []wsrtOp{op}, 4096)
							e.Case(fmt.Sprintf("single %s %s comp=%s %s", cfg.side(), op.apiName(), cfg.compName(), class), 1)
						}
					}
				}
				// control messages
				for _, mt := range []int{CloseMessage, PingMessage, PongMessage} {
					for _, api := range []wsrtOp{{api: wsrtWC}, {api: wsrtWM}, {api: wsrtNW}, {api: wsrtNW, piece: 1}, {api: wsrtPM}} {
						for _, size := range []int{0, 1, 2, 3, 15, 16, 17, 124, 125, 126, 127, 200} {
							if mt == CloseMessage && size == 1 {
								continue // not a close payload (RFC 6455 5.5.1: a body starts with a 2-byte code)
							}
							n++
							if !e.Mine(n) {
								continue
							}
							op := api
							op.mt, op.kind, op.size, op.seed = mt, 1, size, 2
							class := wsrtRun(e, cfg, []wsrtOp{op}, 4096)
							e.Case(fmt.Sprintf("control %s %s type=%d %s", cfg.side(), op.apiName(), mt, class), 1)
						}
					}
				}
			}
		}
	}
	if e.ShardK == 0 {
		e.Sample(fmt.Sprintf("%d single-message cases in the domain", n))
	}
}

func wsrtEnumSeq(e *vsched.Enum, thorough bool) {
	var n int64
	bufs := []int{16, 31, 256}
	comps := []int{wsrtCompOff, 1}
	if thorough {
		comps = []int{wsrtCompOff, wsrtCompDisabled, -2, 1, 9}
	}
	for _, server := range []bool{true, false} {
		for _, buf := range bufs {
			sizes := []int{0, 1, buf + 1}
			if thorough {
				sizes = []int{0, 1, 5, buf + 1, 2*buf + 29}
			}
			var alpha []wsrtOp
			for _, api := range []wsrtOp{{api: wsrtWM}, {api: wsrtNW, piece: 13}, {api: wsrtNWOpen}, {api: wsrtWS, piece: 5}, {api: wsrtRF, piece: 7}, {api: wsrtPM}, {api: wsrtWC, mt: PingMessage}} {
				for _, s := range sizes {
					o := api
					o.size = s
					alpha = append(alpha, o)
				}
			}
			var last []wsrtOp // additional alphabet of the final position: close messages
			for _, s := range []int{0, 2, 125} {
				last = append(last, wsrtOp{api: wsrtWC, mt: CloseMessage, size: s}, wsrtOp{api: wsrtWM, mt: CloseMessage, size: s})
			}
			for _, comp := range comps {
				for _, pool := range []bool{false, true} {
					cfg := wsrtCfg{writerServer: server, buf: buf, comp: comp, pool: pool}
					var rec func(prefix []wsrtOp, length int)
					rec = func(prefix []wsrtOp, length int) {
						if len(prefix) == length {
							n++
							if !e.Mine(n) {
								return
							}
							ops := make([]wsrtOp, len(prefix))
							for i, o := range prefix {
								if o.mt == 0 {
									o.mt = TextMessage + i%2
								}
								o.seed = i + 1
								o.kind = i % 2
								ops[i] = o
							}
							class := wsrtRun(e, cfg, ops, 512)
							lastOp := ops[len(ops)-1]
							e.Case(fmt.Sprintf("seq%d %s last=%d/%d comp=%s %s", len(ops), cfg.side(), lastOp.api, lastOp.mt, cfg.compName(), class), len(ops))
							return
						}
						a := alpha
						if len(prefix) == length-1 {
							a = append(append([]wsrtOp{}, alpha...), last...)
						}
						for _, o := range a {
							if e.Expired() {
								return
							}
							rec(append(prefix, o), length)
						}
					}
					rec(nil, 2)
					rec(nil, 3)
				}
			}
		}
	}
	if e.ShardK == 0 {
		e.Sample(fmt.Sprintf("%d message sequences in the domain", n))
	}
}

// truncWriter component check: every way to cut a stream of L bytes into writes (optionally with
// one empty write inserted) must pass everything but the last four bytes downstream, in order, and
// keep the last four bytes in p.
type wsrtSink struct{ b []byte }

func (s *wsrtSink) Write(p []byte) (int, error) { s.b = append(s.b, p...); return len(p), nil }
func (s *wsrtSink) Close() error                { return nil }

func wsrtEnumTrunc(e *vsched.Enum, maxL int) {
	var n int64
	for L := 0; L <= maxL; L++ {
		stream := make([]byte, L)
		for i := range stream {
			stream[i] = byte(i + 1)
		}
		cuts := 0
		if L > 1 {
			cuts = L - 1
		}
		for mask := 0; mask < 1<<uint(cuts); mask++ {
			var parts [][]byte
			start := 0
			for i := 1; i < L; i++ {
				if mask&(1<<uint(i-1)) != 0 {
					parts = append(parts, stream[start:i])
					start = i
				}
			}
			if L > 0 {
				parts = append(parts, stream[start:])
			}
			for empty := -1; empty <= len(parts); empty++ {
				n++
				if !e.Mine(n) {
					continue
				}
				sink := &wsrtSink{}
				tw := &truncWriter{w: sink}
				var lens []int
				for i := 0; i <= len(parts); i++ {
					if i == empty {
						_, _ = tw.Write(nil)
						lens = append(lens, 0)
					}
					if i < len(parts) {
						_, _ = tw.Write(parts[i])
						lens = append(lens, len(parts[i]))
					}
				}
				keep := L
				if keep > 4 {
					keep = 4
				}
				okDown := bytes.Equal(sink.b, stream[:L-keep])
				okTail := tw.n == keep && bytes.Equal(tw.p[:keep], stream[L-keep:])
				class := fmt.Sprintf("trunc parts=%s L>=4:%v", wsrtFramesClass(len(parts)), L >= 4)
				e.Case(class, len(lens))
				if !okDown {
					e.Fail("truncwriter-downstream", fmt.Sprintf("downstream got %x want %x", sink.b, stream[:L-keep]), []string{fmt.Sprintf("write lengths %v", lens)})
				}
				if !okTail {
					e.Fail("truncwriter-tail", fmt.Sprintf("held back n=%d p=%x want %x", tw.n, tw.p, stream[L-keep:]), []string{fmt.Sprintf("write lengths %v", lens)})
				}
			}
		}
	}
	if e.ShardK == 0 {
		e.Sample(fmt.Sprintf("%d write patterns in the domain", n))
	}
}

func init() {
	vsched.Register(&vsched.Harness{
		Name: "wsrt", Props: []string{"C30"}, Kind: "enum",
		Doc: "single: {WriteMessage, NextWriter pieces 0/1/13/3+rest/buf+1, WriteString, ReadFrom chunks (EOF with/without data), Prepared} x {text,binary} x {compressible,noise} x sizes around 0..6,125,126,buf,2buf,2(buf+14),65536 x write buffer {16,256(pooled),4096,65536} x compression {off, negotiated-disabled, levels} x writer {server,client}, plus control messages {WriteControl, WriteMessage, NextWriter, Prepared} x {close,ping,pong} x sizes 0..200; seq: all pairs and triples over 7 APIs x 3 sizes (+ close last), pool on/off; trunc: all cuts of streams <= L into truncWriter writes. Oracle: independent RFC 6455/7692 wire decoder (mask direction, control <= 125 unfragmented, minimal lengths, continuation structure, RSV bits) decodes exactly the written (type, bytes) sequence, and a peer Conn (two read configurations) reads the same sequence; a failed write leaves the wire untouched",
		Variants: func(tier string) []vsched.Variant {
			if tier == "thorough" {
				return []vsched.Variant{{Name: "single-deep", Shards: 16, BudgetS: 900}, {Name: "seq-deep", Shards: 16, BudgetS: 900}, {Name: "trunc-16", Shards: 4, BudgetS: 300}}
			}
			return []vsched.Variant{{Name: "single", Shards: 16, BudgetS: 240}, {Name: "seq", Shards: 16, BudgetS: 240}, {Name: "trunc-11", Shards: 1, BudgetS: 60}}
		},
		Enum: func(v vsched.Variant, e *vsched.Enum) {
			switch v.Name {
			case "single":
				wsrtEnumSingle(e, false)
			case "single-deep":
				wsrtEnumSingle(e, true)
			case "seq":
				wsrtEnumSeq(e, false)
			case "seq-deep":
				wsrtEnumSeq(e, true)
			case "trunc-11":
				wsrtEnumTrunc(e, 11)
			case "trunc-16":
				wsrtEnumTrunc(e, 16)
			}
		},
	})
}
