//go:build verif

package websocket

// Reference WebSocket frame decoder for harness "wsread" (C29). Written from the MUSTs of
// RFC 6455 (sections 5.2, 5.4, 5.5, 7.4, 8.1) and RFC 7692 (sections 6, 6.1, 7.2.2). It shares no
// code with conn.go; the only common dependency is the standard library inflater.
//
// The decoder consumes the complete peer byte stream at once and reports
//   - the data messages a conforming decoder extracts (a message exists only once its FIN frame
//     is complete),
//   - the ping payloads it has to answer,
//   - how decoding ends ("terminal"), plus the set of alternative terminals a different but still
//     conforming decoder (lazy vs. eager limit check, streaming vs. buffering inflater) may reach.

import (
	"bytes"
	"compress/flate"
	"io"
	"unicode/utf8"
)

type wsrCfg struct {
	server      bool  // decoding side is the server: peer frames MUST be masked (5.1); else MUST NOT be
	deflate     bool  // permessage-deflate negotiated (no context takeover)
	readLimit   int64 // max wire payload bytes of one message, 0 = unlimited
	decompLimit int64 // max inflated bytes of one compressed message, 0 = unlimited
}

type wsrMsg struct {
	typ  int
	data []byte
}

const (
	wsrEOF       = iota // peer stream ended (cleanly between frames or inside a frame)
	wsrViolation        // protocol violation
	wsrTooBig           // read limit exceeded
	wsrClose            // valid Close frame received
	wsrInflate          // compressed message does not inflate
)

var wsrTermName = [...]string{"eof", "violation", "toobig", "close", "inflate"}

type wsrResult struct {
	msgs      []wsrMsg
	pings     [][]byte
	term      int
	reason    string // violation reason (stable identifier)
	closeCode int
	closeText string
	// alternatives that are equally conforming
	altEOF       bool // the frame that trips the limit is itself incomplete in the stream
	altTooBig    bool // a limit is exceeded as well (frame that is also a violation; streaming inflater already saw too much output)
	altInflate   bool // a streaming inflater has already seen corrupt input
	altClose     bool // close code whose validity RFC 6455 leaves open: plain close is fine, too
	altViolation bool // ... or rejecting it is fine, too
	// early: the DEFLATE stream of the compressed message in progress when decoding ended had already
	// reached its final block (BFINAL = 1) in the bytes received so far. A streaming inflater hands
	// that message out before the rest of the frame / the FIN frame arrives, so the reader may have
	// returned it in addition to msgs (see wsrAllowEarlyFinal).
	early *wsrMsg
	frames       int  // complete frames consumed
}

// close codes: RFC 6455 7.4.1 / 7.4.2.
//
//	+1 defined by RFC 6455 or in the application/registered ranges 3000-4999: must be accepted
//	-1 MUST NOT appear on the wire (1005, 1006, 1015) or "not used" (0-999): violation
//	 0 everything else (1004, 1012-1014, 1016-2999, >= 5000): the RFC gives no MUST either way
func wsrCloseCodeStatus(code int) int {
	switch {
	case code < 1000, code == 1005, code == 1006, code == 1015:
		return -1
	case code >= 1000 && code <= 1003, code >= 1007 && code <= 1011, code >= 3000 && code <= 4999:
		return 1
	}
	return 0
}

var wsrFlate = flate.NewReader(bytes.NewReader(nil))

const (
	wsrInfOK      = iota // stream ended with a final block
	wsrInfShort          // ran out of input
	wsrInfCorrupt        // invalid DEFLATE data
)

func wsrInflateRaw(in []byte) ([]byte, int) {
	_ = wsrFlate.(flate.Resetter).Reset(bytes.NewReader(in), nil)
	out, err := io.ReadAll(wsrFlate)
	switch err {
	case nil:
		return out, wsrInfOK
	case io.ErrUnexpectedEOF:
		return out, wsrInfShort
	}
	return out, wsrInfCorrupt
}

// RFC 7692 7.2.2: append 00 00 ff ff and inflate. The result is a DEFLATE stream that ends at a
// block boundary without a final block; an empty final stored block is added so that a library
// inflater can tell "ended at a block boundary" from "ran out of input inside a block".
func wsrInflateMessage(payload []byte) ([]byte, bool) {
	in := make([]byte, 0, len(payload)+9)
	in = append(in, payload...)
	in = append(in, 0x00, 0x00, 0xff, 0xff, 0x01, 0x00, 0x00, 0xff, 0xff)
	out, st := wsrInflateRaw(in)
	return out, st == wsrInfOK
}

// wsrAllowEarlyFinal: accept that a compressed message whose DEFLATE stream has ended is returned
// although the peer stream breaks off (or is rejected) before the end of the message's last frame.
const wsrAllowEarlyFinal = true

func wsrDecode(cfg wsrCfg, in []byte) (r wsrResult) {
	pos := 0
	inMsg := false
	msgType := 0
	msgComp := false
	var msgBuf []byte
	var msgLen int64
	var partial []byte // received part of the data frame payload in which the stream ends
	avail := func() int64 { return int64(len(in) - pos) }

	// What a streaming inflater has seen of the message in progress when decoding ends: it may
	// already have met corrupt data, produced more than the decompressed limit, or finished.
	defer func() {
		if !inMsg || !msgComp {
			return
		}
		out, st := wsrInflateRaw(append(append([]byte(nil), msgBuf...), partial...))
		if st == wsrInfCorrupt {
			r.altInflate = true
		}
		if cfg.decompLimit > 0 && int64(len(out)) > cfg.decompLimit {
			r.altTooBig = true
		} else if st == wsrInfOK && wsrAllowEarlyFinal {
			r.early = &wsrMsg{msgType, out}
		}
	}()

	for {
		if avail() < 2 {
			r.term = wsrEOF
			return
		}
		b0, b1 := in[pos], in[pos+1]
		pos += 2
		fin := b0&0x80 != 0
		rsv1 := b0&0x40 != 0
		rsv2 := b0&0x20 != 0
		rsv3 := b0&0x10 != 0
		op := int(b0 & 0x0f)
		masked := b1&0x80 != 0
		l7 := int64(b1 & 0x7f)
		isCtl := op == 8 || op == 9 || op == 10
		isData := op == 0 || op == 1 || op == 2

		reason := ""
		switch {
		case rsv2: // 5.2: MUST be 0 unless an extension defines it
			reason = "rsv2"
		case rsv3:
			reason = "rsv3"
		case rsv1 && !cfg.deflate:
			reason = "rsv1-no-ext"
		case !isCtl && !isData: // 5.2: unknown opcode => fail the connection
			reason = "opcode-reserved"
		case rsv1 && isCtl: // RFC 7692 6.1
			reason = "rsv1-control"
		case rsv1 && op == 0: // RFC 7692 6.1
			reason = "rsv1-continuation"
		case isCtl && !fin: // 5.5: control frames MUST NOT be fragmented
			reason = "control-fragmented"
		case isCtl && l7 > 125: // 5.5: control frames MUST have a payload length of 125 bytes or less
			reason = "control-len"
		case masked != cfg.server: // 5.1
			reason = "mask"
		case op == 0 && !inMsg: // 5.4
			reason = "continuation-unexpected"
		case (op == 1 || op == 2) && inMsg: // 5.4
			reason = "data-in-fragmented"
		}
		if reason != "" {
			r.term, r.reason = wsrViolation, reason
			if isData && l7 <= 125 && cfg.readLimit > 0 && msgLen+l7 > cfg.readLimit {
				r.altTooBig = true
			}
			return
		}

		n := l7
		switch l7 {
		case 126:
			if avail() < 2 {
				r.term = wsrEOF
				return
			}
			n = int64(in[pos])<<8 | int64(in[pos+1])
			pos += 2
			if n < 126 { // 5.2: the minimal number of bytes MUST be used to encode the length
				reason = "len16-nonminimal"
			}
		case 127:
			if avail() < 8 {
				r.term = wsrEOF
				return
			}
			if in[pos]&0x80 != 0 { // 5.2: the most significant bit MUST be 0
				r.term, r.reason = wsrViolation, "len64-msb"
				return
			}
			n = 0
			for i := 0; i < 8; i++ {
				n = n<<8 | int64(in[pos+i])
			}
			pos += 8
			if n < 65536 {
				reason = "len64-nonminimal"
			}
		}
		if reason != "" {
			r.term, r.reason = wsrViolation, reason
			if cfg.readLimit > 0 && msgLen+n > cfg.readLimit {
				r.altTooBig = true
			}
			return
		}

		var key [4]byte
		if masked {
			if avail() < 4 {
				r.term = wsrEOF
				return
			}
			copy(key[:], in[pos:pos+4])
			pos += 4
		}

		if isData {
			if op != 0 {
				inMsg, msgType, msgComp, msgBuf, msgLen = true, op, rsv1, nil, 0
			}
			// the declared length is all a decoder needs to know that the limit is exceeded
			if cfg.readLimit > 0 && msgLen+n > cfg.readLimit {
				r.term = wsrTooBig
				r.altEOF = avail() < n
				return
			}
		}

		if avail() < n {
			r.term = wsrEOF
			if isData {
				partial = append([]byte(nil), in[pos:]...)
				if masked {
					for i := range partial {
						partial[i] ^= key[i%4]
					}
				}
			}
			return
		}
		payload := make([]byte, n)
		copy(payload, in[pos:pos+int(n)])
		pos += int(n)
		if masked {
			for i := range payload {
				payload[i] ^= key[i%4]
			}
		}
		r.frames++

		switch op {
		case 9:
			r.pings = append(r.pings, payload)
			continue
		case 10:
			continue
		case 8:
			switch {
			case len(payload) == 0:
				r.term, r.closeCode = wsrClose, 1005
				return
			case len(payload) == 1: // 5.5.1: if there is a body, the first two bytes MUST be the status code
				r.term, r.reason = wsrViolation, "close-1byte"
				return
			}
			code := int(payload[0])<<8 | int(payload[1])
			st := wsrCloseCodeStatus(code)
			if st < 0 {
				r.term, r.reason = wsrViolation, "close-code"
				return
			}
			if !utf8.Valid(payload[2:]) { // 5.5.1 + 8.1
				r.term, r.reason = wsrViolation, "close-utf8"
				return
			}
			r.term, r.closeCode, r.closeText = wsrClose, code, string(payload[2:])
			if st == 0 {
				r.altClose, r.altViolation = true, true
				r.reason = "close-code-unspecified"
			}
			return
		}

		// data frame
		msgBuf = append(msgBuf, payload...)
		msgLen += n
		if !fin {
			continue
		}
		data := msgBuf
		if msgComp {
			out, ok := wsrInflateMessage(msgBuf)
			if cfg.decompLimit > 0 && int64(len(out)) > cfg.decompLimit {
				r.term = wsrTooBig
				return
			}
			if !ok {
				r.term = wsrInflate
				return
			}
			data = out
		}
		r.msgs = append(r.msgs, wsrMsg{msgType, data})
		inMsg, msgBuf, msgLen, msgComp = false, nil, 0, false
	}
}

// wsrWritten decodes what the reader wrote back to the peer. The reader only ever writes control
// frames; they must be well-formed for the writing side (5.1: a client masks, a server does not).
type wsrCtl struct {
	op      int
	payload []byte
}

func wsrWritten(writerIsServer bool, out []byte) ([]wsrCtl, string) {
	var fs []wsrCtl
	pos := 0
	for pos < len(out) {
		if len(out)-pos < 2 {
			return fs, "short header"
		}
		b0, b1 := out[pos], out[pos+1]
		pos += 2
		if b0&0x70 != 0 {
			return fs, "rsv bits"
		}
		if b0&0x80 == 0 {
			return fs, "no FIN"
		}
		op := int(b0 & 0x0f)
		if op != 8 && op != 9 && op != 10 {
			return fs, "not a control frame"
		}
		masked := b1&0x80 != 0
		if masked == writerIsServer {
			return fs, "mask bit"
		}
		n := int(b1 & 0x7f)
		if n > 125 {
			return fs, "control length"
		}
		var key [4]byte
		if masked {
			if len(out)-pos < 4 {
				return fs, "short mask"
			}
			copy(key[:], out[pos:])
			pos += 4
		}
		if len(out)-pos < n {
			return fs, "short payload"
		}
		p := make([]byte, n)
		copy(p, out[pos:pos+n])
		pos += n
		if masked {
			for i := range p {
				p[i] ^= key[i%4]
			}
		}
		if op == 8 {
			if n == 1 {
				return fs, "close with 1 byte"
			}
			if n >= 2 {
				if wsrCloseCodeStatus(int(p[0])<<8|int(p[1])) < 0 {
					return fs, "close code not allowed on the wire"
				}
				if !utf8.Valid(p[2:]) {
					return fs, "close reason not UTF-8"
				}
			}
		}
		fs = append(fs, wsrCtl{op, p})
	}
	return fs, ""
}
