//go:build verif

package websocket

// wsread (C29, E2): the real Conn reader is fed scripted peer byte streams through an in-memory
// net.Conn and compared with the reference decoder of zz_verif_wsref.go.

import (
	"bytes"
	"fmt"
	"io"
	"net"
	"strings"
	"time"

	"github.com/centrifugal/centrifuge/internal/zzverif/vsched"
)

// ---------------------------------------------------------------------------------------------
// in-memory net.Conn

type wsrAddr struct{}

func (wsrAddr) Network() string { return "mem" }
func (wsrAddr) String() string  { return "mem" }

type wsrPipe struct {
	in    []byte
	pos   int
	chunk int // max bytes per Read, 0 = unlimited
	out   []byte
}

func (p *wsrPipe) Read(b []byte) (int, error) {
	if p.pos >= len(p.in) {
		return 0, io.EOF
	}
	n := len(p.in) - p.pos
	if n > len(b) {
		n = len(b)
	}
	if p.chunk > 0 && n > p.chunk {
		n = p.chunk
	}
	copy(b, p.in[p.pos:p.pos+n])
	p.pos += n
	return n, nil
}
func (p *wsrPipe) Write(b []byte) (int, error)      { p.out = append(p.out, b...); return len(b), nil }
func (p *wsrPipe) Close() error                     { return nil }
func (p *wsrPipe) LocalAddr() net.Addr              { return wsrAddr{} }
func (p *wsrPipe) RemoteAddr() net.Addr             { return wsrAddr{} }
func (p *wsrPipe) SetDeadline(time.Time) error      { return nil }
func (p *wsrPipe) SetReadDeadline(time.Time) error  { return nil }
func (p *wsrPipe) SetWriteDeadline(time.Time) error { return nil }

// ---------------------------------------------------------------------------------------------
// frames

type wsrFrame struct {
	name    string
	b0      byte
	payload []byte
	enc     int  // 0 minimal, 16 forced 16-bit, 64 forced 64-bit, -1 64-bit with the MSB set
	badMask bool // mask bit wrong for the receiving side
	big     bool // long payload: only header and the first/last 16 payload bytes are truncation points
}

var wsrMaskKey = [4]byte{0x37, 0xfa, 0x21, 0x3d}

// bytes serialises the frame as sent to a receiver that is the server (masked) or the client.
// hdr is the number of bytes before the payload.
func (f wsrFrame) bytes(toServer bool) (b []byte, hdr int) {
	masked := toServer != f.badMask
	n := len(f.payload)
	b = append(b, f.b0)
	mb := byte(0)
	if masked {
		mb = 0x80
	}
	enc := f.enc
	if enc == 0 {
		switch {
		case n >= 65536:
			enc = 64
		case n > 125:
			enc = 16
		default:
			enc = 7
		}
	}
	switch enc {
	case 7:
		b = append(b, mb|byte(n))
	case 16:
		b = append(b, mb|126, byte(n>>8), byte(n))
	case 64, -1:
		top := byte(0)
		if enc == -1 {
			top = 0x80
		}
		b = append(b, mb|127, top, 0, 0, 0, byte(n>>24), byte(n>>16), byte(n>>8), byte(n))
	}
	if masked {
		b = append(b, wsrMaskKey[:]...)
	}
	hdr = len(b)
	b = append(b, f.payload...)
	if masked {
		for i := hdr; i < len(b); i++ {
			b[i] ^= wsrMaskKey[(i-hdr)%4]
		}
	}
	return b, hdr
}

func wsrRep(c byte, n int) []byte { return bytes.Repeat([]byte{c}, n) }

func wsrClosePayload(code int, text string) []byte {
	return append([]byte{byte(code >> 8), byte(code)}, text...)
}

// RFC 7692 section 7.2.3 test vectors ("Hello").
var (
	wsrHello       = []byte{0xf2, 0x48, 0xcd, 0xc9, 0xc9, 0x07, 0x00}                         // 7.2.3.1
	wsrHelloStored = []byte{0x00, 0x05, 0x00, 0xfa, 0xff, 0x48, 0x65, 0x6c, 0x6c, 0x6f, 0x00} // 7.2.3.3
	wsrHelloFinal  = []byte{0xf3, 0x48, 0xcd, 0xc9, 0xc9, 0x07, 0x00, 0x00}                   // 7.2.3.4 (BFINAL = 1)
)

const (
	wsrFin  = 0x80
	wsrRsv1 = 0x40
	wsrRsv2 = 0x20
	wsrRsv3 = 0x10
)

// the alphabet: every header dimension varied one at a time from the baseline "text FIN 'a'".
func wsrAlphabet(withBig bool) []wsrFrame {
	a := []wsrFrame{}
	add := func(name string, b0 byte, payload []byte) *wsrFrame {
		a = append(a, wsrFrame{name: name, b0: b0, payload: payload})
		return &a[len(a)-1]
	}
	// data frames {text, binary, continuation} x FIN x payload {"", "a"}
	for _, op := range []struct {
		n string
		o byte
	}{{"text", 1}, {"bin", 2}, {"cont", 0}} {
		for _, fin := range []byte{wsrFin, 0} {
			for _, p := range []string{"", "a"} {
				fn := "FIN"
				if fin == 0 {
					fn = "more"
				}
				add(fmt.Sprintf("%s-%s-%q", op.n, fn, p), fin|op.o, []byte(p))
			}
		}
	}
	// permessage-deflate
	add("text-FIN-rsv1-hello", wsrFin|wsrRsv1|1, wsrHello)
	add("text-more-rsv1-hello[0:3]", wsrRsv1|1, wsrHello[:3])
	add("cont-FIN-hello[3:]", wsrFin|0, wsrHello[3:])
	add("text-FIN-rsv1-hello-stored", wsrFin|wsrRsv1|1, wsrHelloStored)
	add("bin-FIN-rsv1-hello-bfinal", wsrFin|wsrRsv1|2, wsrHelloFinal)
	add("text-FIN-rsv1-empty", wsrFin|wsrRsv1|1, []byte{0x00}) // RFC 7692 7.2.3.6
	add("text-FIN-rsv1-corrupt", wsrFin|wsrRsv1|1, []byte{0x07}) // BTYPE = 11 (reserved)
	add("cont-FIN-rsv1-a", wsrFin|wsrRsv1|0, []byte("a"))
	// control frames
	add("ping-empty", wsrFin|9, nil)
	add("ping-p", wsrFin|9, []byte("p"))
	add("ping-125", wsrFin|9, wsrRep('q', 125))
	add("ping-126", wsrFin|9, wsrRep('q', 126))
	add("ping-more", 9, []byte("p"))
	add("ping-rsv1", wsrFin|wsrRsv1|9, []byte("p"))
	add("pong-x", wsrFin|10, []byte("x"))
	add("close-empty", wsrFin|8, nil)
	add("close-1byte", wsrFin|8, []byte{0x03})
	add("close-1000", wsrFin|8, wsrClosePayload(1000, ""))
	add("close-1000-bye", wsrFin|8, wsrClosePayload(1000, "bye"))
	add("close-3000", wsrFin|8, wsrClosePayload(3000, ""))
	add("close-999", wsrFin|8, wsrClosePayload(999, ""))
	add("close-1005", wsrFin|8, wsrClosePayload(1005, ""))
	add("close-1006", wsrFin|8, wsrClosePayload(1006, ""))
	add("close-1012", wsrFin|8, wsrClosePayload(1012, "")) // not defined by RFC 6455: either verdict
	add("close-1000-badutf8", wsrFin|8, wsrClosePayload(1000, "\xff"))
	// malformed singles
	add("text-FIN-a-rsv2", wsrFin|wsrRsv2|1, []byte("a"))
	add("text-FIN-a-rsv3", wsrFin|wsrRsv3|1, []byte("a"))
	add("op3-FIN-a", wsrFin|3, []byte("a"))
	add("op11-FIN", wsrFin|11, nil)
	add("text-FIN-a-badmask", wsrFin|1, []byte("a")).badMask = true
	add("text-FIN-a-len16", wsrFin|1, []byte("a")).enc = 16
	add("text-FIN-a-len64", wsrFin|1, []byte("a")).enc = 64
	add("text-FIN-len64msb", wsrFin|1, nil).enc = -1
	// length boundaries
	add("text-FIN-125", wsrFin|1, wsrRep('b', 125))
	add("bin-FIN-126", wsrFin|2, wsrRep('c', 126))
	if withBig {
		add("bin-FIN-65535", wsrFin|2, wsrRep('d', 65535)).big = true
		add("bin-FIN-65536", wsrFin|2, wsrRep('e', 65536)).big = true
	}
	return a
}

// ---------------------------------------------------------------------------------------------
// configurations

type wsrConf struct {
	wsrCfg
	chunk int // bytes per net.Conn Read (0: everything available)
	rbuf  int // read buffer size
}

func (c wsrConf) String() string {
	side := "client"
	if c.server {
		side = "server"
	}
	return fmt.Sprintf("side=%s deflate=%v readLimit=%d decompLimit=%d chunk=%d rbuf=%d", side, c.deflate, c.readLimit, c.decompLimit, c.chunk, c.rbuf)
}

func wsrConfs() []wsrConf {
	var cs []wsrConf
	for _, server := range []bool{true, false} {
		for _, deflate := range []bool{false, true} {
			base := wsrConf{wsrCfg: wsrCfg{server: server, deflate: deflate}, rbuf: 512}
			cs = append(cs, base)
			slow := base
			slow.chunk, slow.rbuf = 1, 125
			cs = append(cs, slow)
			// wire sizes in the alphabet: 0, 1, 2 (3), 7 and 11 (compressed Hello), 125, 126
			limits := []int64{1, 2, 125}
			if deflate {
				limits = []int64{1, 2, 6, 7, 125}
			}
			for _, l := range limits {
				c := base
				c.readLimit = l
				cs = append(cs, c)
			}
			if deflate {
				// "Hello" inflates to 5 bytes
				for _, d := range []int64{4, 5, 6} {
					c := base
					c.decompLimit = d
					cs = append(cs, c)
				}
				c := base
				c.readLimit, c.decompLimit = 7, 4
				cs = append(cs, c)
			}
		}
	}
	return cs
}

// ---------------------------------------------------------------------------------------------
// driver

type wsrRun struct {
	msgs     []wsrMsg
	err      error
	out      []byte
	panicked any
	noTerm   bool
}

func wsrDrive(cf wsrConf, in []byte) (r wsrRun) {
	p := &wsrPipe{in: in, chunk: cf.chunk}
	defer func() {
		r.out = p.out
		if x := recover(); x != nil {
			r.panicked = x
		}
	}()
	c := newConn(p, cf.server, cf.rbuf, 64, nil, nil, nil)
	if cf.deflate {
		c.newCompressionWriter = compressNoContextTakeover
		c.newDecompressionReader = decompressNoContextTakeover
	}
	c.SetReadLimit(cf.readLimit)
	c.SetDecompressedReadLimit(cf.decompLimit)
	limit := len(in)/2 + 2 // every message needs at least a two-byte frame
	for i := 0; i < limit; i++ {
		mt, data, err := c.ReadMessage()
		if err != nil {
			r.err = err
			return
		}
		r.msgs = append(r.msgs, wsrMsg{mt, data})
	}
	r.noTerm = true
	return
}

func wsrHex(b []byte) string {
	if len(b) <= 48 {
		return fmt.Sprintf("%x", b)
	}
	return fmt.Sprintf("%x..(%d bytes)..%x", b[:24], len(b)-32, b[len(b)-8:])
}

func wsrMsgsString(ms []wsrMsg) string {
	var s []string
	for _, m := range ms {
		s = append(s, fmt.Sprintf("%d:%s", m.typ, wsrHex(m.data)))
	}
	return "[" + strings.Join(s, " ") + "]"
}

func wsrHasClose(ctl []wsrCtl, code int) bool {
	for _, f := range ctl {
		if f.op == 8 && len(f.payload) >= 2 && int(f.payload[0])<<8|int(f.payload[1]) == code {
			return true
		}
	}
	return false
}

func wsrAnyClose(ctl []wsrCtl) bool {
	for _, f := range ctl {
		if f.op == 8 {
			return true
		}
	}
	return false
}

// wsrCheck runs one stream under one configuration and applies the oracle. It returns the class.
//
// The package under test is not rewritten, so it runs on the real clock: the close frames the reader
// writes back go through WriteControl with a one second deadline, and a process that is stalled for
// longer than that (overloaded machine) legitimately writes nothing. The reader is a deterministic
// function of its input otherwise, so a failure is reported only if it repeats identically.
func wsrCheck(e *vsched.Enum, cf wsrConf, in []byte, desc func() []string) string {
	class, sig, msg, detail := wsrCheckOnce(cf, in, desc)
	if sig == "" {
		return class
	}
	for i := 0; i < 2; i++ {
		_, sig2, _, _ := wsrCheckOnce(cf, in, desc)
		if sig2 != sig {
			return class
		}
	}
	e.Fail(sig, msg, detail)
	return class
}

func wsrCheckOnce(cf wsrConf, in []byte, desc func() []string) (class, failSig, failMsg string, failDetail []string) {
	ref := wsrDecode(cf.wsrCfg, in)
	run := wsrDrive(cf, in)

	class = wsrTermName[ref.term]
	switch ref.term {
	case wsrViolation:
		class += ":" + ref.reason
	case wsrClose:
		class += fmt.Sprintf(":%d", ref.closeCode)
		if ref.closeText != "" {
			class += "+text"
		}
	}
	if ref.altEOF || ref.altTooBig || ref.altInflate || ref.altClose || ref.early != nil {
		class += fmt.Sprintf(" alt(eof=%v big=%v inf=%v close=%v early=%v)", ref.altEOF, ref.altTooBig, ref.altInflate, ref.altClose, ref.early != nil)
	}
	nm := len(ref.msgs)
	if nm > 2 {
		nm = 2
	}
	class += fmt.Sprintf(" msgs=%d pings=%v lim=%v/%v", nm, len(ref.pings) > 0, cf.readLimit > 0, cf.decompLimit > 0)

	fail := func(sig, msg string) {
		d := desc()
		d = append(d, "reference: "+class+" messages="+wsrMsgsString(ref.msgs),
			fmt.Sprintf("reader: messages=%s err=%v wrote=%s", wsrMsgsString(run.msgs), run.err, wsrHex(run.out)))
		failSig, failMsg, failDetail = sig, msg, d
	}

	// never panics
	if run.panicked != nil {
		fail("panic:"+class[:strings.IndexAny(class+" ", " ")], fmt.Sprintf("reader panicked: %v", run.panicked))
		return
	}
	if run.noTerm {
		fail("no-termination", "ReadMessage keeps returning messages after the peer stream is exhausted")
		return
	}
	ctl, bad := wsrWritten(cf.server, run.out)
	if bad != "" {
		fail("written-malformed", "bytes written back to the peer are not well-formed control frames: "+bad)
		return
	}
	for _, m := range run.msgs {
		if m.typ != TextMessage && m.typ != BinaryMessage {
			fail("message-type", fmt.Sprintf("ReadMessage returned message type %d", m.typ))
			return
		}
	}

	var pongs [][]byte
	for _, f := range ctl {
		switch f.op {
		case 10:
			pongs = append(pongs, f.payload)
		case 9:
			fail("written-ping", "reader wrote a ping")
			return
		}
	}

	peerClose, isPeerClose := run.err.(*CloseError)
	if isPeerClose && peerClose == errUnexpectedEOF {
		isPeerClose = false
	}
	w1002 := wsrHasClose(ctl, CloseProtocolError)
	w1007 := wsrHasClose(ctl, CloseInvalidFramePayloadData)
	w1009 := wsrHasClose(ctl, CloseMessageTooBig)
	wAny := wsrAnyClose(ctl)

	// the reader got past the point where the reference stops: more messages or more pongs than the
	// reference has messages (plus the one a streaming inflater may hand out early) or pings
	allowed := len(ref.msgs)
	if ref.early != nil {
		allowed++
	}
	wentOn := len(run.msgs) > allowed || len(pongs) > len(ref.pings)

	// which acceptable terminal did the reader reach?
	okViolation := !isPeerClose && (w1002 || (ref.reason == "close-utf8" && w1007))
	okTooBig := !isPeerClose && w1009
	okClose := isPeerClose && peerClose.Code == ref.closeCode && peerClose.Text == ref.closeText && wAny && !w1002 && !w1009
	okEOF := !isPeerClose && !wAny
	okInflate := !isPeerClose
	matched := false
	switch ref.term {
	case wsrViolation:
		matched = okViolation
	case wsrTooBig:
		matched = okTooBig
	case wsrClose:
		matched = okClose
	case wsrEOF:
		matched = okEOF
	case wsrInflate:
		matched = okInflate
	}
	primary := matched
	if !matched {
		matched = (ref.altEOF && okEOF) || (ref.altTooBig && okTooBig) || (ref.altInflate && okInflate && !w1002 && !w1009) ||
			(ref.altViolation && okViolation)
	}
	if !matched && len(run.msgs) < len(ref.msgs) {
		fail("stopped-early@"+wsrTermName[ref.term], fmt.Sprintf("the read loop ended after %d messages although the peer stream holds %d complete, valid messages before its end / first violation", len(run.msgs), len(ref.msgs)))
		return
	}
	if !matched || wentOn {
		carriedOn := wentOn || isPeerClose || run.err == errUnexpectedEOF
		switch ref.term {
		case wsrViolation:
			if carriedOn {
				fail("violation-accepted:"+ref.reason, "protocol violation ("+ref.reason+") is not rejected: the reader carries on decoding")
			} else {
				fail("violation-no-1002:"+ref.reason, "protocol violation ("+ref.reason+") ends the read loop but no protocol-error (1002) close frame is written back")
			}
		case wsrTooBig:
			if carriedOn {
				fail("limit-not-enforced", "message exceeds the read limit but the reader carries on")
			} else {
				fail("limit-no-1009", "read limit exceeded without a message-too-big (1009) close frame")
			}
		case wsrClose:
			fail("close-handling", fmt.Sprintf("valid close frame (%d) must end the read loop with that CloseError and a close frame in reply", ref.closeCode))
		case wsrEOF:
			switch {
			case wentOn:
				fail("messages-extra@eof", "reader returned more messages / pongs than the peer stream contains")
			case w1002:
				fail("valid-rejected", "a stream without any violation was answered with a protocol-error close frame")
			default:
				fail("eof-handling", "end of a violation-free peer stream must end the read loop with an error and without a close frame")
			}
		case wsrInflate:
			fail("inflate-handling", "undecodable compressed message must end the read loop with an error and no further messages")
		}
		return
	}

	// exactly the messages of the reference (plus, possibly, the early one)
	want := ref.msgs
	if len(run.msgs) == len(ref.msgs)+1 && ref.early != nil {
		want = append(append([]wsrMsg(nil), ref.msgs...), *ref.early)
	}
	if len(run.msgs) != len(want) {
		fail("messages-missing@"+wsrTermName[ref.term], fmt.Sprintf("reader returned %d messages, reference %d", len(run.msgs), len(ref.msgs)))
		return
	}
	for i := range want {
		if run.msgs[i].typ != want[i].typ {
			fail("messages-type", fmt.Sprintf("message %d has type %d, reference %d", i, run.msgs[i].typ, want[i].typ))
			return
		}
		if !bytes.Equal(run.msgs[i].data, want[i].data) {
			fail("messages-content", fmt.Sprintf("message %d differs from the reference", i))
			return
		}
	}

	// interleaved control frames: pongs answer pings (5.5.2/5.5.3: same application data; answering
	// only the most recent ping is allowed), so pongs must be a subsequence of the pings and, when
	// the reader got as far as the reference, the last ping must have been answered.
	j := 0
	for _, pg := range pongs {
		for j < len(ref.pings) && !bytes.Equal(ref.pings[j], pg) {
			j++
		}
		if j == len(ref.pings) {
			fail("pong-unsolicited", "pong written that answers no ping (or out of order)")
			return
		}
		j++
	}
	if primary && len(ref.pings) > 0 {
		if len(pongs) == 0 || !bytes.Equal(pongs[len(pongs)-1], ref.pings[len(ref.pings)-1]) {
			fail("ping-unanswered", "the last ping was not answered with a pong carrying the same payload")
			return
		}
	}
	return
}

// ---------------------------------------------------------------------------------------------
// enumeration

// truncation points inside the last frame (1..len): every one, unless the frame is "big" (or
// edges is set and the payload is >= 64 bytes): then every header byte and the first / last 16
// payload bytes only.
func wsrCuts(f wsrFrame, n, hdr int, edges bool) []int {
	var cs []int
	big := f.big || (edges && len(f.payload) >= 64)
	for t := 1; t <= n; t++ {
		if big && t > hdr+16 && t < n-16 {
			continue
		}
		cs = append(cs, t)
	}
	// complete frame first (the first failing input reported is then an untruncated one if there is one)
	for i, j := 0, len(cs)-1; i < j; i, j = i+1, j-1 {
		cs[i], cs[j] = cs[j], cs[i]
	}
	return cs
}

func wsrSequences(v vsched.Variant, e *vsched.Enum, maxLen int, withBig, edges bool) {
	alpha := wsrAlphabet(withBig)
	confs := wsrConfs()
	type ser struct {
		b   []byte
		hdr int
	}
	enc := map[bool][]ser{}
	for _, side := range []bool{true, false} {
		for _, f := range alpha {
			b, h := f.bytes(side)
			enc[side] = append(enc[side], ser{b, h})
		}
	}
	var caseNo int64
	idx := make([]int, 0, maxLen)
	var rec func(target int)
	visit := func() {
		caseNo++
		if !e.Mine(caseNo) {
			return
		}
		for _, cf := range confs {
			var prefix []byte
			for _, i := range idx[:max(len(idx)-1, 0)] {
				prefix = append(prefix, enc[cf.server][i].b...)
			}
			cuts := []int{0}
			var last ser
			var lf wsrFrame
			if len(idx) > 0 {
				lf = alpha[idx[len(idx)-1]]
				last = enc[cf.server][idx[len(idx)-1]]
				cuts = wsrCuts(lf, len(last.b), last.hdr, edges)
			}
			full := append(append([]byte(nil), prefix...), last.b...)
			for _, t := range cuts {
				in := full[:len(prefix)+t]
				desc := func() []string {
					var names []string
					for _, i := range idx {
						names = append(names, alpha[i].name)
					}
					return []string{cf.String(), fmt.Sprintf("frames=%v, stream cut after %d of %d bytes of the last frame", names, t, len(last.b)), "peer bytes: " + wsrHex(in)}
				}
				class := wsrCheck(e, cf, in, desc)
				e.Case(class, len(idx))
				if caseNo%977 == 0 && t == len(last.b) {
					e.Sample(strings.Join(desc(), " | ") + " => " + class)
				}
			}
		}
	}
	// shortest sequences first, so that the first failing input reported for a signature is a short one
	rec = func(target int) {
		if len(idx) == target {
			visit()
			return
		}
		if e.Expired() {
			return
		}
		for i := range alpha {
			idx = append(idx, i)
			rec(target)
			idx = idx[:len(idx)-1]
		}
	}
	for l := 0; l <= maxLen; l++ {
		rec(l)
	}
}

// wsrProduct: the full product of header bits for a single frame, alone and as the second frame
// after "text more 'a'" (so that both fragmentation states are covered).
func wsrProduct(v vsched.Variant, e *vsched.Enum) {
	body := append(wsrClosePayload(1000, ""), wsrRep('a', 70000)...)
	type lenEnc struct {
		n, enc int
		big    bool
	}
	lens := []lenEnc{{0, 0, false}, {1, 0, false}, {2, 0, false}, {125, 0, false}, {1, 16, false}, {126, 0, false}, {1, 64, false}, {65536, 0, true}, {0, -1, false}}
	var confs []wsrConf
	for _, server := range []bool{true, false} {
		for _, deflate := range []bool{false, true} {
			confs = append(confs, wsrConf{wsrCfg: wsrCfg{server: server, deflate: deflate}, rbuf: 512})
		}
	}
	first := wsrFrame{name: "text-more-a", b0: 1, payload: []byte("a")}
	var caseNo int64
	for b0 := 0; b0 < 256; b0++ {
		for _, badMask := range []bool{false, true} {
			for _, le := range lens {
				for _, withFirst := range []bool{false, true} {
					caseNo++
					if !e.Mine(caseNo) {
						continue
					}
					if e.Expired() {
						return
					}
					f := wsrFrame{name: fmt.Sprintf("b0=%02x len=%d enc=%d badmask=%v", b0, le.n, le.enc, badMask), b0: byte(b0), payload: body[:le.n], enc: le.enc, badMask: badMask, big: le.big}
					for _, cf := range confs {
						var prefix []byte
						if withFirst {
							prefix, _ = first.bytes(cf.server)
						}
						fb, hdr := f.bytes(cf.server)
						full := append(append([]byte(nil), prefix...), fb...)
						for _, t := range wsrCuts(f, len(fb), hdr, false) {
							in := full[:len(prefix)+t]
							desc := func() []string {
								return []string{cf.String(), fmt.Sprintf("frame {%s} afterTextMore=%v, stream cut after %d of %d bytes of the frame", f.name, withFirst, t, len(fb)), "peer bytes: " + wsrHex(in)}
							}
							class := wsrCheck(e, cf, in, desc)
							e.Case(class, 1)
						}
					}
				}
			}
		}
	}
}

func wsrSelfTest() {
	for _, p := range [][]byte{wsrHello, wsrHelloStored, wsrHelloFinal} {
		out, ok := wsrInflateMessage(p)
		if !ok || string(out) != "Hello" {
			panic(fmt.Sprintf("wsread self-test: RFC 7692 vector %x inflates to %q ok=%v", p, out, ok))
		}
	}
	if out, ok := wsrInflateMessage([]byte{0x00}); !ok || len(out) != 0 {
		panic("wsread self-test: empty compressed payload")
	}
	if _, ok := wsrInflateMessage([]byte{0x07}); ok {
		panic("wsread self-test: reserved block type accepted")
	}
}

func init() {
	vsched.Register(&vsched.Harness{
		Name: "wsread", Props: []string{"C29"}, Kind: "enum",
		Doc: "real Conn reader fed through an in-memory net.Conn; variant seq: all sequences of <= 2 (quick) / <= 3 (thorough) frames over a 47-frame alphabet " +
			"(data {text,bin,cont} x FIN x {'', 'a'}; RSV1 with the RFC 7692 'Hello' vectors whole/fragmented/stored/BFINAL, empty, corrupt, RSV1 on continuation and ping; " +
			"ping ''/'p'/125/126/non-final, pong, close empty/1 byte/1000/1000+text/3000/999/1005/1006/1012/bad UTF-8; RSV2, RSV3, opcodes 3 and 11, wrong mask bit, " +
			"non-minimal 16/64-bit lengths, 64-bit length with MSB set, 125/126/65535/65536-byte payloads [65535/65536 only in sequences of <= 2]), every truncation of every stream " +
			"(for the two 64K frames, and in seq3 for the four 125/126-byte frames: every header byte and the first/last 16 payload bytes), x server/client x deflate on/off x read limits {none,1,2,6,7,125} x decompressed limits {none,4,5,6} x " +
			"1-byte-at-a-time delivery; variant hdr: full product of byte 0 (256) x mask bit x 9 length encodings, alone and after a non-final text frame, every truncation. " +
			"Oracle (reference decoder written from the RFC 6455/7692 MUSTs, stdlib inflater): same data messages; violation => error + 1002 close frame (1007 also accepted for a non-UTF-8 close reason); " +
			"read limit => error + 1009 close frame; valid close => CloseError with that code/text + close frame in reply; violation-free stream => no close frame; " +
			"pongs echo pings; everything written back is a well-formed control frame; no panic. Data-message UTF-8 validation is not checked.",
		Variants: func(tier string) []vsched.Variant {
			if tier == "thorough" {
				return []vsched.Variant{{Name: "seq3", Shards: 16, BudgetS: 1200}, {Name: "seq2-big", Shards: 8, BudgetS: 1200}, {Name: "hdr", Shards: 7, BudgetS: 1200}}
			}
			return []vsched.Variant{{Name: "seq2-big", Shards: 11, BudgetS: 300}, {Name: "hdr", Shards: 5, BudgetS: 300}}
		},
		Enum: func(v vsched.Variant, e *vsched.Enum) {
			wsrSelfTest()
			switch v.Name {
			case "seq2-big":
				wsrSequences(v, e, 2, true, false)
			case "seq3":
				wsrSequences(v, e, 3, false, true)
			case "hdr":
				wsrProduct(v, e)
			}
		},
	})
}
