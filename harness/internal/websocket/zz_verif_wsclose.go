//go:build verif

package websocket

import (
	"fmt"
	"strings"
	"time"

	"github.com/centrifugal/centrifuge/internal/zzverif/vsched"
)

// wsclose (C31, E2)
//
// recv: a Conn (server or client side) receives one close frame built by an independent encoder:
// every 16-bit close code without reason and with a short reason, plus a code-class x reason matrix
// (valid UTF-8 of 1..4 byte sequences, maximal length, and every kind of ill-formed sequence).
// Reference (RFC 6455 7.4, RFC 3629): codes 0-999, 1004, 1005, 1006, 1015, 1016-2999 and >= 5000
// are forbidden on the wire; 1000-1003, 1007-1011 and 3000-4999 are allowed; 1012-1014 (registered
// after the RFC) are not asserted. Forbidden code or ill-formed reason => the frame is rejected: the
// read does not end with a CloseError carrying that code and CloseCode() does not report it as
// received. Allowed code and well-formed reason => CloseError{code, reason}, CloseCode() == (code,
// incoming). Whatever the Conn writes in response must be valid frames (independent decoder).
//
// first: sequences of up to three close events on one Conn - close frames sent through every write
// API and received (valid / forbidden) close frames. Ground truth is the wire: the first close
// frame that was actually written (decoded from the conn's output) or validly received determines
// CloseCode() (code and direction).

// independent UTF-8 well-formedness check (RFC 3629 / Unicode table 3-7)
func wscloseUTF8OK(b []byte) bool {
	for i := 0; i < len(b); {
		c := b[i]
		need := 0
		lo, hi := byte(0x80), byte(0xbf)
		switch {
		case c <= 0x7f:
			i++
			continue
		case c >= 0xc2 && c <= 0xdf:
			need = 1
		case c == 0xe0:
			need, lo = 2, 0xa0
		case c >= 0xe1 && c <= 0xec, c == 0xee, c == 0xef:
			need = 2
		case c == 0xed:
			need, hi = 2, 0x9f
		case c == 0xf0:
			need, lo = 3, 0x90
		case c >= 0xf1 && c <= 0xf3:
			need = 3
		case c == 0xf4:
			need, hi = 3, 0x8f
		default:
			return false
		}
		if i+need >= len(b) {
			return false // truncated sequence
		}
		if b[i+1] < lo || b[i+1] > hi {
			return false
		}
		for k := 2; k <= need; k++ {
			if b[i+k] < 0x80 || b[i+k] > 0xbf {
				return false
			}
		}
		i += need + 1
	}
	return true
}

// "forbidden", "allowed" or "unasserted"
func wscloseCodeClass(code int) string {
	switch {
	case code < 1000:
		return "forbidden"
	case code <= 1003:
		return "allowed"
	case code <= 1006:
		return "forbidden"
	case code <= 1011:
		return "allowed"
	case code <= 1014:
		return "unasserted"
	case code <= 2999:
		return "forbidden"
	case code <= 4999:
		return "allowed"
	}
	return "forbidden"
}

func wscloseCodeRange(code int) string {
	switch {
	case code < 1000:
		return "0-999"
	case code <= 1015:
		return "1000-1015"
	case code <= 2999:
		return "1016-2999"
	case code <= 3999:
		return "3000-3999"
	case code <= 4999:
		return "4000-4999"
	}
	return "5000+"
}

type wscloseConn struct {
	c  *Conn
	mc *vMemConn
}

func wscloseNew(server bool) *wscloseConn {
	mc := &vMemConn{}
	return &wscloseConn{c: newConn(mc, server, 1, 16, nil, nil, nil), mc: mc}
}

// feed appends bytes to what the conn can read.
func (w *wscloseConn) feed(b []byte) { w.mc.in = append(w.mc.in, b...) }

var wscloseKey = [4]byte{0x37, 0xfa, 0x21, 0x3d}

func wscloseRecvCase(e *vsched.Enum, server bool, payload []byte, label string) string {
	side := "client"
	if server {
		side = "server"
	}
	replay := []string{fmt.Sprintf("%s-side Conn receives close frame with payload %x (%s)", side, payload, label)}
	w := wscloseNew(server)
	w.feed(vEncodeFrame(TextMessage, true, server, wscloseKey, []byte("hi")))
	w.feed(vEncodeFrame(CloseMessage, true, server, wscloseKey, payload))
	w.feed(vEncodeFrame(PingMessage, true, server, wscloseKey, []byte("late")))
	pings := 0
	w.c.SetPingHandler(func([]byte) error { pings++; return nil })

	var verdict string
	code := -1
	switch {
	case len(payload) == 0:
		verdict = "allowed-empty"
	case len(payload) == 1:
		verdict = "unasserted-1byte"
	default:
		code = int(payload[0])<<8 | int(payload[1])
		verdict = wscloseCodeClass(code)
		if verdict != "forbidden" && !wscloseUTF8OK(payload[2:]) {
			verdict = "bad-utf8"
		}
	}
	var err error
	var panicked interface{}
	func() {
		defer func() { panicked = recover() }()
		var mt int
		var p []byte
		mt, p, err = w.c.ReadMessage()
		if err != nil || mt != TextMessage || string(p) != "hi" {
			e.Fail("recv-close:preceding-message/"+side, fmt.Sprintf("mt=%d p=%q err=%v", mt, p, err), replay)
		}
		_, _, err = w.c.ReadMessage()
	}()
	if panicked != nil {
		e.Fail("recv-close:panic/"+verdict+"/"+side, fmt.Sprint(panicked), replay)
		return verdict
	}
	if err == nil {
		e.Fail("recv-close:no-error/"+verdict+"/"+side, "ReadMessage returned a message after a close frame", replay)
		return verdict
	}
	if pings != 0 {
		e.Fail("recv-close:frames-processed-after-close/"+side, "a ping after the close frame reached the handler", replay)
	}
	ce, isCE := err.(*CloseError)
	gotCode, gotIn := w.c.CloseCode()
	switch verdict {
	case "forbidden", "bad-utf8":
		if isCE && ce.Code == code {
			e.Fail("recv-close:"+verdict+"-accepted/"+wscloseCodeRange(code)+"/"+side, fmt.Sprintf("read ended with %v", err), replay)
		}
		if gotIn && gotCode == code {
			e.Fail("recv-close:"+verdict+"-recorded/"+wscloseCodeRange(code)+"/"+side, fmt.Sprintf("CloseCode()=(%d,%v)", gotCode, gotIn), replay)
		}
	case "allowed", "allowed-empty":
		wantCode, wantText := 1005, ""
		if code >= 0 {
			wantCode, wantText = code, string(payload[2:])
		}
		if !isCE || ce.Code != wantCode || ce.Text != wantText {
			e.Fail("recv-close:allowed-not-delivered/"+wscloseCodeRange(wantCode)+"/"+side, fmt.Sprintf("read ended with %v, want CloseError{%d,%q}", err, wantCode, wantText), replay)
		}
		if gotCode != wantCode || !gotIn {
			e.Fail("recv-close:first-close-not-recorded/"+side, fmt.Sprintf("CloseCode()=(%d,%v) want (%d,true)", gotCode, gotIn, wantCode), replay)
		}
	}
	// whatever was written in response must be valid frames from this side
	if _, _, werr := vDecodeWire(w.mc.out, !server, false); werr != "" {
		e.Fail("recv-close:response-wire-invalid:"+werr+"/"+side, fmt.Sprintf("response bytes %x", w.mc.out), replay)
	}
	return verdict
}

type wscloseReason struct {
	label string
	b     []byte
}

func wscloseReasons() []wscloseReason {
	long := make([]byte, 123)
	for i := range long {
		long[i] = 'a' + byte(i%26)
	}
	longMB := []byte{}
	for len(longMB)+3 <= 123 {
		longMB = append(longMB, 0xe2, 0x82, 0xac)
	}
	return []wscloseReason{
		{"ascii", []byte("bye")}, {"2byte", []byte("\xc3\xa9")}, {"3byte", []byte("\xe2\x82\xac")}, {"4byte", []byte("\xf0\x9d\x84\x9e")},
		{"max-ascii-123", long}, {"max-3byte-123", longMB}, {"nul", []byte{0}}, {"max-scalar", []byte("\xf4\x8f\xbf\xbf")}, {"e0a080", []byte("\xe0\xa0\x80")},
		{"lone-continuation", []byte{0x80}}, {"truncated-2byte", []byte{0xc3}}, {"truncated-3byte", []byte{0xe2, 0x82}}, {"truncated-4byte", []byte{0xf0, 0x9d, 0x84}},
		{"overlong-2byte", []byte{0xc0, 0xaf}}, {"overlong-3byte", []byte{0xe0, 0x80, 0xaf}}, {"overlong-4byte", []byte{0xf0, 0x80, 0x80, 0xaf}},
		{"surrogate", []byte{0xed, 0xa0, 0x80}}, {"beyond-10ffff", []byte{0xf4, 0x90, 0x80, 0x80}}, {"ff", []byte{0xff}}, {"f5", []byte{0xf5, 0x80, 0x80, 0x80}},
		{"valid-then-invalid", []byte{'o', 'k', 0x80}}, {"invalid-then-valid", []byte{0xc3, 'o', 'k'}}, {"bad-second-byte", []byte{0xe2, 0x28, 0xa1}}, {"bad-third-byte", []byte{0xe2, 0x82, 0x28}},
	}
}

func wscloseEnumRecv(e *vsched.Enum) {
	var n int64
	for _, server := range []bool{true, false} {
		run := func(payload []byte, label string) {
			n++
			if !e.Mine(n) {
				return
			}
			v := wscloseRecvCase(e, server, payload, label)
			rng := "none"
			if len(payload) >= 2 {
				rng = wscloseCodeRange(int(payload[0])<<8 | int(payload[1]))
			}
			e.Case(fmt.Sprintf("recv server=%v %s %s %s", server, v, rng, label), 1)
		}
		run(nil, "empty")
		run([]byte{0x03}, "one-byte")
		for code := 0; code <= 0xffff; code++ {
			if e.Expired() {
				return
			}
			run(vClosePayload(code, ""), "no-reason")
			run(vClosePayload(code, "bye"), "reason-bye")
		}
		for _, code := range []int{1000, 1003, 1007, 1011, 3000, 3999, 4000, 4999, 0, 999, 1004, 1005, 1006, 1015, 1016, 2999, 5000, 65535, 1012, 1014} {
			for _, r := range wscloseReasons() {
				run(append(vClosePayload(code, ""), r.b...), "reason-"+r.label)
			}
		}
	}
	if e.ShardK == 0 {
		e.Sample(fmt.Sprintf("%d received close frames in the domain", n))
	}
}

// ---- first close frame wins ----

type wscloseEv struct {
	kind string // "send" or "recv"
	api  int    // send: wsrtWC, wsrtWM, wsrtNW, wsrtPM
	code int
}

func (ev wscloseEv) String() string {
	if ev.kind == "recv" {
		return fmt.Sprintf("recv(%d)", ev.code)
	}
	return fmt.Sprintf("send[%s](%d)", wsrtOp{api: ev.api}.apiName(), ev.code)
}

// wscloseCollector stands in for *vsched.Enum inside one case so that the case can be repeated when
// the process was stalled: the Conn answers received close frames through WriteControl with a real
// one-second deadline (writeWait), so a case that took longer than wscloseStall of wall time ran
// outside the oracle's premise "the write deadline has not expired".
type wscloseCollector struct{ fails [][3]string }

func (c *wscloseCollector) Fail(sig, msg string, replay []string) {
	c.fails = append(c.fails, [3]string{sig, msg, strings.Join(replay, "\n")})
}

const wscloseStall = 300 * time.Millisecond

func wscloseFirstCase(e *vsched.Enum, server bool, evs []wscloseEv) string {
	for attempt := 0; ; attempt++ {
		col := &wscloseCollector{}
		start := time.Now()
		class := wscloseFirstCaseOnce(col, server, evs)
		if len(col.fails) > 0 && time.Since(start) > wscloseStall && attempt < 5 {
			continue
		}
		for _, f := range col.fails {
			e.Fail(f[0], f[1], strings.Split(f[2], "\n"))
		}
		return class
	}
}

func wscloseFirstCaseOnce(e *wscloseCollector, server bool, evs []wscloseEv) string {
	side := "client"
	if server {
		side = "server"
	}
	var replay []string
	replay = append(replay, side+"-side Conn")
	for _, ev := range evs {
		replay = append(replay, ev.String())
	}
	w := wscloseNew(server)
	wantCode, wantIn, decided := 0, false, false
	readerDead := false
	firstVia := "none"
	for _, ev := range evs {
		before := len(w.mc.out)
		if ev.kind == "recv" {
			w.feed(vEncodeFrame(CloseMessage, true, server, wscloseKey, vClosePayload(ev.code, "")))
			_, _, err := w.c.ReadMessage()
			if err == nil {
				e.Fail("first-close:recv-no-error/"+side, "ReadMessage returned nil error for a close frame", replay)
			}
			if !readerDead {
				readerDead = true
				if wscloseCodeClass(ev.code) == "allowed" && !decided {
					wantCode, wantIn, decided = ev.code, true, true
					firstVia = "recv"
				}
			}
		} else {
			op := wsrtOp{api: ev.api, mt: CloseMessage}
			_, _ = wsrtDo(w.c, op, vClosePayload(ev.code, ""))
		}
		// ground truth for outgoing frames: what was actually written
		msgs, _, werr := vDecodeWire(w.mc.out[before:], !server, false)
		if werr != "" {
			e.Fail("first-close:wire-invalid:"+werr+"/"+side, fmt.Sprintf("%x", w.mc.out[before:]), replay)
		}
		for _, m := range msgs {
			if m.mt == CloseMessage && !decided {
				c := 1005
				if len(m.data) >= 2 {
					c = int(m.data[0])<<8 | int(m.data[1])
				}
				wantCode, wantIn, decided = c, false, true
				firstVia = "sent"
				if ev.kind == "send" && ev.api == wsrtWC {
					firstVia = "sent-via-WriteControl"
				} else if ev.kind == "send" {
					firstVia = "sent-via-message-writer" // WriteMessage / NextWriter / WritePreparedMessage
				} else {
					firstVia = "sent-in-reply-to-rejected-frame"
				}
			}
		}
		gotCode, gotIn := w.c.CloseCode()
		if gotCode != wantCode || gotIn != wantIn {
			e.Fail("first-close:closecode-mismatch/first-"+firstVia, fmt.Sprintf("after %v: CloseCode()=(%d,incoming=%v), first close frame observed on the connection: (%d,incoming=%v)", ev, gotCode, gotIn, wantCode, wantIn), replay)
			return "fail " + firstVia
		}
	}
	return fmt.Sprintf("first-%s n=%d", firstVia, len(evs))
}

func wscloseEnumFirst(e *vsched.Enum, maxLen int) {
	var alpha []wscloseEv
	for _, api := range []int{wsrtWC, wsrtWM, wsrtNW, wsrtPM} {
		for _, code := range []int{1000, 4001} {
			alpha = append(alpha, wscloseEv{"send", api, code})
		}
	}
	for _, code := range []int{1001, 3005, 1005, 5000} {
		alpha = append(alpha, wscloseEv{"recv", 0, code})
	}
	var n int64
	for _, server := range []bool{true, false} {
		var rec func(prefix []wscloseEv)
		rec = func(prefix []wscloseEv) {
			if len(prefix) > 0 {
				n++
				if e.Mine(n) {
					evs := append([]wscloseEv{}, prefix...)
					e.Case(fmt.Sprintf("first server=%v %s", server, wscloseFirstCase(e, server, evs)), len(evs))
				}
			}
			if len(prefix) == maxLen {
				return
			}
			for _, ev := range alpha {
				rec(append(prefix, ev))
			}
		}
		rec(nil)
	}
	if e.ShardK == 0 {
		e.Sample(fmt.Sprintf("%d close event sequences in the domain", n))
	}
}

func init() {
	vsched.Register(&vsched.Harness{
		Name: "wsclose", Props: []string{"C31"}, Kind: "enum",
		Doc: "recv: server- and client-side Conn receive a close frame (independent encoder) for every code 0..65535 without and with a reason, empty and 1-byte payloads, and 20 codes x 24 reasons (well-formed 1-4 byte UTF-8, 123-byte maxima, every ill-formed class); reference RFC 6455 7.4 code classes and an independent RFC 3629 validator: forbidden code / ill-formed reason => not delivered as CloseError with that code and not recorded by CloseCode(); allowed => CloseError{code,reason} and CloseCode()==(code,incoming); responses are valid frames. first: all sequences of <= L close events {send via WriteControl/WriteMessage/NextWriter/Prepared x 2 codes, receive 2 allowed + 2 forbidden codes}; ground truth = first close frame actually written (decoded from the wire) or validly received; CloseCode() must equal it after every event",
		Variants: func(tier string) []vsched.Variant {
			if tier == "thorough" {
				return []vsched.Variant{{Name: "recv", Shards: 8, BudgetS: 300}, {Name: "first-len4", Shards: 8, BudgetS: 300}}
			}
			return []vsched.Variant{{Name: "recv", Shards: 8, BudgetS: 60}, {Name: "first-len3", Shards: 2, BudgetS: 60}}
		},
		Enum: func(v vsched.Variant, e *vsched.Enum) {
			switch v.Name {
			case "recv":
				wscloseEnumRecv(e)
			case "first-len3":
				wscloseEnumFirst(e, 3)
			case "first-len4":
				wscloseEnumFirst(e, 4)
			}
		},
	})
}
