//go:build verif

package websocket

import (
	"bytes"
	"compress/flate"
	"errors"
	"fmt"
	"io"
	"net"
	"time"
)

// Shared harness doubles for the websocket harnesses (C30, C31): an in-memory net.Conn and an
// independent RFC 6455 / RFC 7692 wire decoder. Nothing here calls the code under test.

type vAddr struct{}

func (vAddr) Network() string { return "mem" }
func (vAddr) String() string  { return "mem" }

// vMemConn is a net.Conn double: Read serves the preloaded bytes `in` (at most maxRead bytes per
// call when maxRead > 0) and then returns io.EOF; Write appends to `out`. Deadlines are no-ops.
type vMemConn struct {
	in      []byte
	rpos    int
	maxRead int
	out     []byte
	closed  bool
}

func (c *vMemConn) Read(p []byte) (int, error) {
	if c.closed {
		return 0, errors.New("vMemConn: read on closed conn")
	}
	if c.rpos >= len(c.in) {
		return 0, io.EOF
	}
	n := len(c.in) - c.rpos
	if n > len(p) {
		n = len(p)
	}
	if c.maxRead > 0 && n > c.maxRead {
		n = c.maxRead
	}
	copy(p, c.in[c.rpos:c.rpos+n])
	c.rpos += n
	return n, nil
}

func (c *vMemConn) Write(p []byte) (int, error) {
	if c.closed {
		return 0, errors.New("vMemConn: write on closed conn")
	}
	c.out = append(c.out, p...)
	return len(p), nil
}

func (c *vMemConn) Close() error                       { c.closed = true; return nil }
func (c *vMemConn) LocalAddr() net.Addr                { return vAddr{} }
func (c *vMemConn) RemoteAddr() net.Addr               { return vAddr{} }
func (c *vMemConn) SetDeadline(_ time.Time) error      { return nil }
func (c *vMemConn) SetReadDeadline(_ time.Time) error  { return nil }
func (c *vMemConn) SetWriteDeadline(_ time.Time) error { return nil }

// vStackPool is a deterministic BufferPool (LIFO).
type vStackPool struct {
	items []interface{}
	gets  int
	puts  int
}

func (p *vStackPool) Get() interface{} {
	p.gets++
	if len(p.items) == 0 {
		return nil
	}
	x := p.items[len(p.items)-1]
	p.items = p.items[:len(p.items)-1]
	return x
}

func (p *vStackPool) Put(x interface{}) { p.puts++; p.items = append(p.items, x) }

// ---- independent wire decoder ----

type vFrame struct {
	fin, rsv1, rsv2, rsv3, masked bool
	op                            int
	lenForm                       int // 7, 16 or 64 (bits of the length encoding used)
	payload                       []byte
}

// vParseFrames splits b into RFC 6455 frames (payload unmasked). errStr is "" when b is a whole
// number of well-formed frames.
func vParseFrames(b []byte) (frames []vFrame, errStr string) {
	for len(b) > 0 {
		if len(b) < 2 {
			return frames, "truncated-header"
		}
		f := vFrame{
			fin: b[0]&0x80 != 0, rsv1: b[0]&0x40 != 0, rsv2: b[0]&0x20 != 0, rsv3: b[0]&0x10 != 0,
			op: int(b[0] & 0x0f), masked: b[1]&0x80 != 0, lenForm: 7,
		}
		n := uint64(b[1] & 0x7f)
		b = b[2:]
		switch n {
		case 126:
			if len(b) < 2 {
				return frames, "truncated-length16"
			}
			n = uint64(b[0])<<8 | uint64(b[1])
			b = b[2:]
			f.lenForm = 16
			if n < 126 {
				return frames, "non-minimal-length16"
			}
		case 127:
			if len(b) < 8 {
				return frames, "truncated-length64"
			}
			n = 0
			for i := 0; i < 8; i++ {
				n = n<<8 | uint64(b[i])
			}
			b = b[8:]
			f.lenForm = 64
			if n>>63 != 0 {
				return frames, "length64-msb-set"
			}
			if n < 65536 {
				return frames, "non-minimal-length64"
			}
		}
		var key [4]byte
		if f.masked {
			if len(b) < 4 {
				return frames, "truncated-mask"
			}
			copy(key[:], b[:4])
			b = b[4:]
		}
		if uint64(len(b)) < n {
			return frames, "truncated-payload"
		}
		f.payload = make([]byte, n)
		copy(f.payload, b[:n])
		if f.masked {
			for i := range f.payload {
				f.payload[i] ^= key[i%4]
			}
		}
		b = b[n:]
		frames = append(frames, f)
	}
	return frames, ""
}

type vMsg struct {
	mt   int
	data []byte
}

func (m vMsg) String() string {
	if len(m.data) <= 12 {
		return fmt.Sprintf("{type %d, %d bytes %x}", m.mt, len(m.data), m.data)
	}
	return fmt.Sprintf("{type %d, %d bytes %x..}", m.mt, len(m.data), m.data[:12])
}

// vInflate decodes one permessage-deflate message payload as RFC 7692 section 7.2.2 says: append
// 00 00 ff ff and inflate; the stream has no final block, so the decoder ends with an unexpected EOF.
func vInflate(p []byte) ([]byte, error) {
	in := make([]byte, 0, len(p)+4)
	in = append(in, p...)
	in = append(in, 0x00, 0x00, 0xff, 0xff)
	if vInflater == nil {
		vInflater = flate.NewReader(bytes.NewReader(in))
	} else if err := vInflater.(flate.Resetter).Reset(bytes.NewReader(in), nil); err != nil {
		return nil, err
	}
	out, err := io.ReadAll(vInflater)
	if err == io.ErrUnexpectedEOF {
		err = nil
	}
	return out, err
}

// the decoder's own inflater (harness code is single-threaded), reused to keep allocation low
var vInflater io.ReadCloser

type vWireStats struct {
	frames     int
	maxFrames  int // largest number of frames in one message
	maxLenForm int
	compressed int
	control    int
}

// vDecodeWire checks that b is a valid sequence of RFC 6455 frames sent by a client
// (fromClient: every frame masked) or by a server (no frame masked) and reassembles the messages.
// compNegotiated tells whether permessage-deflate was negotiated (RSV1 allowed on the first frame of
// a data message). errStr names the first violated rule ("" = valid).
func vDecodeWire(b []byte, fromClient, compNegotiated bool) (msgs []vMsg, st vWireStats, errStr string) {
	frames, perr := vParseFrames(b)
	if perr != "" {
		return nil, st, perr
	}
	var (
		inProgress bool
		curType    int
		curData    []byte
		curComp    bool
		curFrames  int
	)
	for _, f := range frames {
		st.frames++
		if f.lenForm > st.maxLenForm {
			st.maxLenForm = f.lenForm
		}
		if f.rsv2 || f.rsv3 {
			return msgs, st, "rsv2-or-rsv3-set"
		}
		if f.masked != fromClient {
			if fromClient {
				return msgs, st, "client-frame-not-masked"
			}
			return msgs, st, "server-frame-masked"
		}
		switch f.op {
		case 8, 9, 10:
			if !f.fin {
				return msgs, st, "control-frame-fragmented"
			}
			if len(f.payload) > 125 {
				return msgs, st, "control-frame-over-125"
			}
			if f.rsv1 {
				return msgs, st, "control-frame-rsv1"
			}
			st.control++
			msgs = append(msgs, vMsg{f.op, f.payload})
			continue
		case 1, 2:
			if inProgress {
				return msgs, st, "data-frame-inside-fragmented-message"
			}
			if f.rsv1 && !compNegotiated {
				return msgs, st, "rsv1-without-negotiation"
			}
			inProgress, curType, curData, curComp, curFrames = true, f.op, nil, f.rsv1, 0
		case 0:
			if !inProgress {
				return msgs, st, "continuation-without-start"
			}
			if f.rsv1 {
				return msgs, st, "rsv1-on-continuation"
			}
		default:
			return msgs, st, "reserved-opcode"
		}
		curData = append(curData, f.payload...)
		curFrames++
		if f.fin {
			if curFrames > st.maxFrames {
				st.maxFrames = curFrames
			}
			data := curData
			if curComp {
				st.compressed++
				var err error
				data, err = vInflate(curData)
				if err != nil {
					return msgs, st, "inflate-error"
				}
			}
			if data == nil {
				data = []byte{}
			}
			msgs = append(msgs, vMsg{curType, data})
			inProgress = false
		}
	}
	if inProgress {
		return msgs, st, "unfinished-message"
	}
	return msgs, st, ""
}

// vEncodeFrame is an independent frame encoder used to feed received frames to a Conn.
func vEncodeFrame(op int, fin bool, masked bool, key [4]byte, payload []byte) []byte {
	b0 := byte(op)
	if fin {
		b0 |= 0x80
	}
	out := []byte{b0}
	mb := byte(0)
	if masked {
		mb = 0x80
	}
	switch {
	case len(payload) < 126:
		out = append(out, mb|byte(len(payload)))
	case len(payload) < 65536:
		out = append(out, mb|126, byte(len(payload)>>8), byte(len(payload)))
	default:
		out = append(out, mb|127)
		for s := 56; s >= 0; s -= 8 {
			out = append(out, byte(uint64(len(payload))>>uint(s)))
		}
	}
	if masked {
		out = append(out, key[:]...)
		for i, c := range payload {
			out = append(out, c^key[i%4])
		}
	} else {
		out = append(out, payload...)
	}
	return out
}

func vClosePayload(code int, text string) []byte {
	p := []byte{byte(code >> 8), byte(code)}
	return append(p, text...)
}

func vEqMsgs(a, b []vMsg) (int, bool) {
	for i := 0; i < len(a) && i < len(b); i++ {
		if a[i].mt != b[i].mt || !bytes.Equal(a[i].data, b[i].data) {
			return i, false
		}
	}
	if len(a) != len(b) {
		if len(a) < len(b) {
			return len(a), false
		}
		return len(b), false
	}
	return 0, true
}
