//go:build verif

package websocket

import (
	"bufio"
	"bytes"
	"crypto/sha1"
	"encoding/base64"
	"fmt"
	"io"
	"net"
	"net/http"
	"net/url"
	"sort"
	"strings"
	"time"

	"github.com/centrifugal/centrifuge/internal/zzverif/vsched"
)

// wsupg (C31, E2): Upgrader.Upgrade over upgrade-request header combinations, with a harness
// http.ResponseWriter (+ http.Hijacker for HTTP/1.1; Flush/SetReadDeadline/SetWriteDeadline for
// HTTP/2 extended CONNECT) over an in-memory net.Conn.
//
// Reference acceptance predicate (independent of the code under test):
//   HTTP/1.1: Connection token list contains "upgrade" && Upgrade token list contains "websocket"
//             && method == GET && Sec-WebSocket-Version == 13 && Sec-WebSocket-Key is the base64
//             encoding of 16 bytes && origin check passes
//   HTTP/2:   :protocol == websocket && method == CONNECT && version 13 && origin check passes
//   other:    rejected
// origin check: custom CheckOrigin verdict, else no Origin header or Origin host[:port] equal
// (ASCII case-insensitive) to the request Host.
// Accepted: 101 response on the hijacked conn with Upgrade/Connection headers, the RFC accept key
// base64(sha1(key + GUID)), the negotiated subprotocol (one the client offered and the server
// supports; negotiated whenever a single-line offer contains a supported one) and
// permessage-deflate iff enabled and offered; the returned Conn works as a server conn.
// Rejected: error, nil Conn, no 101 on the wire, an HTTP error status.

type wsupgH1Writer struct {
	hdr      http.Header
	status   int
	body     bytes.Buffer
	conn     *vMemConn
	hijacked bool
	bufSize  int
}

func (w *wsupgH1Writer) Header() http.Header { return w.hdr }
func (w *wsupgH1Writer) WriteHeader(code int) {
	if w.status == 0 {
		w.status = code
	}
}
func (w *wsupgH1Writer) Write(p []byte) (int, error) {
	if w.status == 0 {
		w.status = 200
	}
	return w.body.Write(p)
}
func (w *wsupgH1Writer) Hijack() (net.Conn, *bufio.ReadWriter, error) {
	w.hijacked = true
	return w.conn, bufio.NewReadWriter(bufio.NewReaderSize(w.conn, w.bufSize), bufio.NewWriterSize(w.conn, w.bufSize)), nil
}

// HTTP/2 extended CONNECT response writer: no Hijacker; body writes go to the tunnel.
type wsupgH2Writer struct {
	hdr     http.Header
	status  int
	tunnel  bytes.Buffer
	flushes int
}

func (w *wsupgH2Writer) Header() http.Header { return w.hdr }
func (w *wsupgH2Writer) WriteHeader(code int) {
	if w.status == 0 {
		w.status = code
	}
}
func (w *wsupgH2Writer) Write(p []byte) (int, error) {
	if w.status == 0 {
		w.status = 200
	}
	return w.tunnel.Write(p)
}
func (w *wsupgH2Writer) Flush()                               { w.flushes++ }
func (w *wsupgH2Writer) SetReadDeadline(_ time.Time) error  { return nil }
func (w *wsupgH2Writer) SetWriteDeadline(_ time.Time) error { return nil }

type wsupgBody struct{ closed bool }

func (b *wsupgBody) Read(p []byte) (int, error) { return 0, io.EOF }
func (b *wsupgBody) Close() error               { b.closed = true; return nil }

// one labelled header alternative; nil lines = header absent
type wsupgAlt struct {
	label string
	lines []string
}

type wsupgReq struct {
	major       int
	method      string
	connection  wsupgAlt
	upgrade     wsupgAlt
	version     wsupgAlt
	key         wsupgAlt
	origin      wsupgAlt
	protocol    wsupgAlt // :protocol pseudo header (HTTP/2)
	checkOrigin string   // "default", "allow", "deny"
	host        string
	// negotiation
	serverProtos []string // nil: Upgrader.Subprotocols unset
	offerProtos  wsupgAlt
	enableComp   bool
	offerExt     wsupgAlt
	respHeader   bool
	bufSize      int // Upgrader Read/WriteBufferSize (0: reuse hijacked buffers)
}

func (r wsupgReq) String() string {
	return fmt.Sprintf("HTTP/%d %s Host=%q Connection=%q Upgrade=%q Sec-WebSocket-Version=%q Sec-WebSocket-Key=%q(%s) Origin=%q :protocol=%q CheckOrigin=%s Subprotocols=%q Sec-WebSocket-Protocol=%q EnableCompression=%v Sec-WebSocket-Extensions=%q responseHeader=%v bufSize=%d",
		r.major, r.method, r.host, r.connection.lines, r.upgrade.lines, r.version.lines, r.key.lines, r.key.label, r.origin.lines, r.protocol.lines,
		r.checkOrigin, r.serverProtos, r.offerProtos.lines, r.enableComp, r.offerExt.lines, r.respHeader, r.bufSize)
}

// ---- reference model ----

func wsupgRefListHas(lines []string, want string) bool {
	for _, l := range lines {
		for _, el := range strings.Split(l, ",") {
			if strings.EqualFold(strings.Trim(el, " \t"), want) {
				return true
			}
		}
	}
	return false
}

const wsupgB64 = "ABCDEFGHIJKLMNOPQRSTUVWXYZabcdefghijklmnopqrstuvwxyz0123456789+/"

// 16 bytes in base64 = 22 alphabet characters + "==".
func wsupgRefKeyValid(lines []string) bool {
	if len(lines) == 0 {
		return false
	}
	k := lines[0]
	if len(k) != 24 || k[22:] != "==" {
		return false
	}
	for i := 0; i < 22; i++ {
		if !strings.ContainsRune(wsupgB64, rune(k[i])) {
			return false
		}
	}
	return true
}

func wsupgRefOriginOK(r wsupgReq) bool {
	switch r.checkOrigin {
	case "allow":
		return true
	case "deny":
		return false
	}
	if len(r.origin.lines) == 0 {
		return true
	}
	o := r.origin.lines[0]
	i := strings.Index(o, "://")
	if i < 0 {
		return false
	}
	rest := o[i+3:]
	if j := strings.IndexAny(rest, "/?#"); j >= 0 {
		rest = rest[:j]
	}
	return strings.EqualFold(rest, r.host)
}

func wsupgRefAccept(r wsupgReq) (bool, string) {
	switch r.major {
	case 1:
		switch {
		case !wsupgRefListHas(r.connection.lines, "upgrade"):
			return false, "h1-no-connection-upgrade"
		case !wsupgRefListHas(r.upgrade.lines, "websocket"):
			return false, "h1-no-upgrade-websocket"
		case r.method != "GET":
			return false, "h1-method"
		case !wsupgRefListHas(r.version.lines, "13"):
			return false, "h1-version"
		case !wsupgRefKeyValid(r.key.lines):
			return false, "h1-key"
		case !wsupgRefOriginOK(r):
			return false, "h1-origin"
		}
		return true, "h1-accept"
	case 2:
		switch {
		case len(r.protocol.lines) == 0 || r.protocol.lines[0] != "websocket":
			return false, "h2-no-protocol"
		case r.method != "CONNECT":
			return false, "h2-method"
		case !wsupgRefListHas(r.version.lines, "13"):
			return false, "h2-version"
		case !wsupgRefOriginOK(r):
			return false, "h2-origin"
		}
		return true, "h2-accept"
	}
	return false, "bad-http-major"
}

func wsupgRefOffered(lines []string) []string {
	var out []string
	for _, l := range lines {
		for _, el := range strings.Split(l, ",") {
			if t := strings.Trim(el, " \t"); t != "" {
				out = append(out, t)
			}
		}
	}
	return out
}

func wsupgRefExtOffered(lines []string) bool {
	for _, l := range lines {
		for _, el := range strings.Split(l, ",") {
			name := el
			if i := strings.Index(el, ";"); i >= 0 {
				name = el[:i]
			}
			if strings.Trim(name, " \t") == "permessage-deflate" {
				return true
			}
		}
	}
	return false
}

func wsupgRefAcceptKey(key string) string {
	if key == "dGhlIHNhbXBsZSBub25jZQ==" {
		return "s3pPLMBiTxaQ9kYGzzhZRbK+xOo=" // literal from RFC 6455 section 1.3
	}
	h := sha1.Sum([]byte(key + "258EAFA5-E914-47DA-95CA-C5AB0DC85B11"))
	return base64.StdEncoding.EncodeToString(h[:])
}

func wsupgContains(l []string, s string) bool {
	for _, x := range l {
		if x == s {
			return true
		}
	}
	return false
}

// ---- one case ----

func wsupgRun(e *vsched.Enum, r wsupgReq) string {
	replay := []string{r.String()}
	hdr := http.Header{}
	set := func(name string, a wsupgAlt) {
		if a.lines != nil {
			hdr[name] = append([]string{}, a.lines...)
		}
	}
	set("Connection", r.connection)
	set("Upgrade", r.upgrade)
	set("Sec-Websocket-Version", r.version)
	set("Sec-Websocket-Key", r.key)
	set("Origin", r.origin)
	set(":protocol", r.protocol)
	set("Sec-Websocket-Protocol", r.offerProtos)
	set("Sec-Websocket-Extensions", r.offerExt)
	body := &wsupgBody{}
	req := &http.Request{Method: r.method, URL: &url.URL{Path: "/connection/websocket"}, Proto: fmt.Sprintf("HTTP/%d.%d", r.major, 2-r.major),
		ProtoMajor: r.major, ProtoMinor: 2 - r.major, Header: hdr, Host: r.host, Body: body, RemoteAddr: "mem"}
	if r.major == 1 {
		req.ProtoMinor = 1
		req.Proto = "HTTP/1.1"
	}
	u := &Upgrader{ReadBufferSize: r.bufSize, WriteBufferSize: r.bufSize, EnableCompression: r.enableComp}
	if r.serverProtos != nil {
		u.Subprotocols = r.serverProtos
	}
	switch r.checkOrigin {
	case "allow":
		u.CheckOrigin = func(*http.Request) bool { return true }
	case "deny":
		u.CheckOrigin = func(*http.Request) bool { return false }
	}
	var respHeader http.Header
	if r.respHeader {
		respHeader = http.Header{"Set-Cookie": {"k=v"}}
	}
	mc := &vMemConn{}
	h1 := &wsupgH1Writer{hdr: http.Header{}, conn: mc, bufSize: 4096}
	h2 := &wsupgH2Writer{hdr: http.Header{}}
	var w http.ResponseWriter = h1
	if r.major == 2 {
		w = h2
	}

	wantAccept, class := wsupgRefAccept(r)

	var (
		conn     *Conn
		sub      string
		err      error
		panicked interface{}
	)
	func() {
		defer func() { panicked = recover() }()
		conn, sub, err = u.Upgrade(w, req, respHeader)
	}()
	if panicked != nil {
		e.Fail("upgrade-panic:"+class, fmt.Sprintf("Upgrade panicked (Sec-WebSocket-Key class %s): %v", r.key.label, panicked), replay)
		return class + " PANIC"
	}
	status := h1.status
	if r.major == 2 {
		status = h2.status
	}
	if !wantAccept {
		if err == nil || conn != nil {
			e.Fail("invalid-upgrade-accepted:"+class, fmt.Sprintf("reference rejects (%s) but Upgrade returned conn=%v err=%v", class, conn != nil, err), replay)
			return class
		}
		if bytes.Contains(mc.out, []byte(" 101 ")) || status == 101 || (status >= 200 && status < 300) {
			e.Fail("rejected-upgrade-success-response:"+class, fmt.Sprintf("status %d, wire %q", status, mc.out), replay)
		}
		if status < 400 {
			e.Fail("rejected-upgrade-no-error-status:"+class, fmt.Sprintf("status %d", status), replay)
		}
		return fmt.Sprintf("%s status=%d", class, status)
	}
	if err != nil || conn == nil {
		e.Fail("valid-upgrade-rejected:"+class, fmt.Sprintf("reference accepts but Upgrade returned err=%v (status %d)", err, status), replay)
		return class
	}

	// negotiation reference
	offered := wsupgRefOffered(r.offerProtos.lines)
	wantSubPossible := false
	for _, o := range offered {
		if wsupgContains(r.serverProtos, o) {
			wantSubPossible = true
		}
	}
	if sub != "" && (!wsupgContains(offered, sub) || !wsupgContains(r.serverProtos, sub)) {
		e.Fail("subprotocol-not-offered-or-unsupported", fmt.Sprintf("negotiated %q, offered %q, supported %q", sub, offered, r.serverProtos), replay)
	}
	if sub == "" && wantSubPossible && len(r.offerProtos.lines) == 1 {
		e.Fail("subprotocol-not-negotiated", fmt.Sprintf("offered %q, supported %q, none selected", offered, r.serverProtos), replay)
	}
	wantComp := r.enableComp && wsupgRefExtOffered(r.offerExt.lines)
	if conn.IsCompressionNegotiated() != wantComp {
		e.Fail("compression-negotiation", fmt.Sprintf("IsCompressionNegotiated=%v, reference %v", conn.IsCompressionNegotiated(), wantComp), replay)
	}

	// response
	var respHdr http.Header
	var after []byte // bytes written by the server after the handshake response
	if r.major == 1 {
		if !h1.hijacked || h1.status != 0 || h1.body.Len() != 0 {
			e.Fail("h1-accept-response-path", fmt.Sprintf("hijacked=%v status=%d body=%q", h1.hijacked, h1.status, h1.body.String()), replay)
		}
		if mc.closed {
			e.Fail("h1-accept-conn-closed", "net.Conn closed after a successful upgrade", replay)
		}
		i := bytes.Index(mc.out, []byte("\r\n\r\n"))
		if i < 0 || i+4 != len(mc.out) {
			e.Fail("h1-response-framing", fmt.Sprintf("response %q", mc.out), replay)
			return class
		}
		lines := strings.Split(string(mc.out[:i]), "\r\n")
		if lines[0] != "HTTP/1.1 101 Switching Protocols" {
			e.Fail("h1-status-line", lines[0], replay)
		}
		respHdr = http.Header{}
		for _, l := range lines[1:] {
			j := strings.Index(l, ":")
			if j <= 0 {
				e.Fail("h1-response-header-syntax", l, replay)
				continue
			}
			respHdr.Add(l[:j], strings.Trim(l[j+1:], " \t"))
		}
		if !strings.EqualFold(respHdr.Get("Upgrade"), "websocket") || !strings.EqualFold(respHdr.Get("Connection"), "upgrade") {
			e.Fail("h1-upgrade-connection-headers", fmt.Sprintf("Upgrade=%q Connection=%q", respHdr.Get("Upgrade"), respHdr.Get("Connection")), replay)
		}
		want := wsupgRefAcceptKey(r.key.lines[0])
		if got := respHdr["Sec-Websocket-Accept"]; len(got) != 1 || got[0] != want {
			e.Fail("accept-key", fmt.Sprintf("Sec-WebSocket-Accept %q want %q", got, want), replay)
		}
	} else {
		if h2.status != 200 || h2.flushes == 0 {
			e.Fail("h2-accept-response", fmt.Sprintf("status=%d flushes=%d", h2.status, h2.flushes), replay)
		}
		respHdr = h2.hdr
		if len(respHdr["Sec-Websocket-Accept"]) != 0 {
			// not forbidden, just unexpected; RFC 8441 says the key/accept processing is not done
		}
	}
	if got := respHdr["Sec-Websocket-Protocol"]; (sub == "" && len(got) != 0) || (sub != "" && (len(got) != 1 || got[0] != sub)) {
		e.Fail("subprotocol-response-header", fmt.Sprintf("returned %q, response header %q", sub, got), replay)
	}
	ext := respHdr["Sec-Websocket-Extensions"]
	if wantComp {
		if len(ext) != 1 || !wsupgRefExtOffered(ext) || strings.Contains(ext[0], ",") {
			e.Fail("extension-response-header", fmt.Sprintf("compression negotiated, response header %q", ext), replay)
		}
	} else if len(ext) != 0 {
		e.Fail("extension-response-header", fmt.Sprintf("compression not negotiated, response header %q", ext), replay)
	}
	if r.respHeader {
		if got := respHdr["Set-Cookie"]; len(got) != 1 || got[0] != "k=v" {
			e.Fail("response-header-not-copied", fmt.Sprintf("Set-Cookie %q", got), replay)
		}
	}

	// the returned Conn is a working server-side connection
	mark := len(mc.out)
	tmark := h2.tunnel.Len()
	payload := []byte("hello hello hello hello")
	if werr := conn.WriteMessage(TextMessage, payload); werr != nil {
		e.Fail("accepted-conn-write", werr.Error(), replay)
		return class
	}
	if r.major == 1 {
		after = mc.out[mark:]
	} else {
		after = h2.tunnel.Bytes()[tmark:]
	}
	msgs, st, werr := vDecodeWire(after, false, wantComp)
	if werr != "" || len(msgs) != 1 || msgs[0].mt != TextMessage || !bytes.Equal(msgs[0].data, payload) {
		e.Fail("accepted-conn-wire", fmt.Sprintf("decoder: %q msgs=%v", werr, msgs), replay)
	}
	if wantComp != (st.compressed == 1) {
		e.Fail("accepted-conn-compression", fmt.Sprintf("negotiated=%v but compressed frames=%d", wantComp, st.compressed), replay)
	}
	return fmt.Sprintf("%s sub=%v comp=%v", class, sub != "", wantComp)
}

// ---- alphabets ----

var (
	wsupgAbsent = wsupgAlt{"absent", nil}

	wsupgConnection = []wsupgAlt{
		wsupgAbsent, {"upgrade", []string{"upgrade"}}, {"Upgrade", []string{"Upgrade"}}, {"keepalive+Upgrade", []string{"keep-alive, Upgrade"}},
		{"Upgrade+keepalive-nospace", []string{"Upgrade,keep-alive"}}, {"keepalive", []string{"keep-alive"}}, {"close", []string{"close"}},
		{"upgradex", []string{"upgradex"}}, {"xupgrade", []string{"x-upgrade"}}, {"two-lines", []string{"keep-alive", "Upgrade"}}, {"ows", []string{" \tUPGRADE\t "}},
		{"empty", []string{""}},
	}
	wsupgUpgrade = []wsupgAlt{
		wsupgAbsent, {"websocket", []string{"websocket"}}, {"WebSocket", []string{"WebSocket"}}, {"h2c+websocket", []string{"h2c, websocket"}},
		{"h2c", []string{"h2c"}}, {"websockets", []string{"websockets"}}, {"empty", []string{""}},
	}
	wsupgMethods  = []string{"GET", "POST", "CONNECT", "HEAD"}
	wsupgVersions = []wsupgAlt{wsupgAbsent, {"13", []string{"13"}}, {"8", []string{"8"}}, {"130", []string{"130"}}, {"1", []string{"1"}}, {"empty", []string{""}}}
	wsupgKeys     = []wsupgAlt{
		wsupgAbsent,
		{"valid-rfc-sample", []string{"dGhlIHNhbXBsZSBub25jZQ=="}},
		{"valid-2", []string{"x3JJHMbDL1EzLkh9GBhXDw=="}},
		{"empty", []string{""}},
		{"len20-15bytes", []string{"AAAAAAAAAAAAAAAAAAAA"}},
		{"len28-20bytes", []string{"AAAAAAAAAAAAAAAAAAAAAAAAAAA="}},
		{"len24-badchar", []string{"dGhlIHNhbXBsZSBub25jZ*=="}},
		{"len24-unpadded-18bytes", []string{"dGhlIHNhbXBsZSBub25jZQAA"}},
		{"len24-onepad-17bytes", []string{"dGhlIHNhbXBsZSBub25jZQA="}},
		{"len24-padding-only", []string{"========================"}},
		{"len23", []string{"dGhlIHNhbXBsZSBub25jZQ="}},
	}
	wsupgOrigins = []wsupgAlt{
		wsupgAbsent, {"same", []string{"http://example.com"}}, {"same-case-https", []string{"https://EXAMPLE.com"}}, {"same-with-path", []string{"http://example.com/app"}},
		{"other", []string{"http://evil.example"}}, {"suffix-attack", []string{"http://example.com.evil.example"}}, {"other-port", []string{"http://example.com:8443"}},
		{"null", []string{"null"}}, {"malformed", []string{"http://%zz"}},
	}
	wsupgProtocol = []wsupgAlt{wsupgAbsent, {"websocket", []string{"websocket"}}, {"other", []string{"webtransport"}}}

	wsupgServerProtos = [][]string{nil, {}, {"a", "b"}, {"b"}}
	wsupgOfferProtos  = []wsupgAlt{wsupgAbsent, {"a", []string{"a"}}, {"b,a", []string{"b, a"}}, {"c", []string{"c"}}, {"c,b", []string{"c,b"}}, {"A", []string{"A"}}, {"ows", []string{" a "}}, {"two-lines-c-b", []string{"c", "b"}}}
	wsupgOfferExt     = []wsupgAlt{wsupgAbsent, {"pmd", []string{"permessage-deflate"}}, {"pmd-cmwb", []string{"permessage-deflate; client_max_window_bits"}},
		{"foo+pmd", []string{"foo, permessage-deflate; client_no_context_takeover"}}, {"webkit", []string{"x-webkit-deflate-frame"}}, {"pmd-x", []string{"permessage-deflate-x"}},
		{"param-named-pmd", []string{"foo; permessage-deflate"}}, {"two-lines", []string{"foo", "permessage-deflate"}}}
)

func wsupgValidH1() wsupgReq {
	return wsupgReq{major: 1, method: "GET", connection: wsupgConnection[1], upgrade: wsupgUpgrade[1], version: wsupgVersions[1], key: wsupgKeys[1],
		origin: wsupgAbsent, protocol: wsupgAbsent, checkOrigin: "default", host: "example.com", offerProtos: wsupgAbsent, offerExt: wsupgAbsent, bufSize: 256}
}

func wsupgValidH2() wsupgReq {
	return wsupgReq{major: 2, method: "CONNECT", connection: wsupgAbsent, upgrade: wsupgAbsent, version: wsupgVersions[1], key: wsupgAbsent,
		origin: wsupgAbsent, protocol: wsupgProtocol[1], checkOrigin: "default", host: "example.com", offerProtos: wsupgAbsent, offerExt: wsupgAbsent, bufSize: 256}
}

// acceptance: full product of the request-validity dimensions.
func wsupgEnumAccept(e *vsched.Enum, thorough bool) {
	var n int64
	hosts := []string{"example.com"}
	if thorough {
		hosts = []string{"example.com", "example.com:8443"}
	}
	checks := []string{"default", "allow", "deny"}
	run := func(r wsupgReq) {
		n++
		if !e.Mine(n) {
			return
		}
		e.Case(wsupgRun(e, r), 1)
	}
	for _, host := range hosts {
		// HTTP/1.1
		for _, c := range wsupgConnection {
			for _, up := range wsupgUpgrade {
				for _, m := range wsupgMethods {
					if e.Expired() {
						return
					}
					for _, v := range wsupgVersions {
						for _, k := range wsupgKeys {
							for _, o := range wsupgOrigins {
								for _, co := range checks {
									if co != "default" && !thorough && o.label != "absent" && o.label != "other" {
										continue
									}
									r := wsupgValidH1()
									r.host, r.connection, r.upgrade, r.method, r.version, r.key, r.origin, r.checkOrigin = host, c, up, m, v, k, o, co
									run(r)
								}
							}
						}
					}
				}
			}
		}
		// HTTP/2 extended CONNECT, and unsupported majors
		for _, major := range []int{2, 0, 3} {
			for _, p := range wsupgProtocol {
				for _, m := range wsupgMethods {
					for _, v := range wsupgVersions {
						for _, k := range []wsupgAlt{wsupgAbsent, wsupgKeys[1], wsupgKeys[7]} {
							for _, o := range wsupgOrigins {
								for _, co := range checks {
									for _, cu := range []int{0, 1} { // with / without HTTP/1.1 upgrade headers
										r := wsupgValidH2()
										r.major, r.host, r.protocol, r.method, r.version, r.key, r.origin, r.checkOrigin = major, host, p, m, v, k, o, co
										if cu == 1 {
											r.connection, r.upgrade = wsupgConnection[1], wsupgUpgrade[1]
										}
										run(r)
									}
								}
							}
						}
					}
				}
			}
		}
	}
	if e.ShardK == 0 {
		e.Sample(fmt.Sprintf("%d upgrade requests in the acceptance domain", n))
	}
}

// negotiation: valid (and a few invalid) requests x subprotocol / extension / buffer dimensions.
func wsupgEnumNegotiate(e *vsched.Enum, thorough bool) {
	var n int64
	bases := []wsupgReq{wsupgValidH1(), wsupgValidH2()}
	bad := wsupgValidH1()
	bad.version = wsupgVersions[2]
	bases = append(bases, bad)
	withOrigin := wsupgValidH1()
	withOrigin.origin = wsupgOrigins[2]
	withOrigin.key = wsupgKeys[2]
	bases = append(bases, withOrigin)
	bufs := []int{0, 256}
	if thorough {
		bufs = []int{0, 1, 256, 4096}
	}
	for _, base := range bases {
		for _, sp := range wsupgServerProtos {
			for _, op := range wsupgOfferProtos {
				for _, ec := range []bool{false, true} {
					for _, oe := range wsupgOfferExt {
						for _, rh := range []bool{false, true} {
							for _, bs := range bufs {
								n++
								if !e.Mine(n) {
									continue
								}
								r := base
								r.serverProtos, r.offerProtos, r.enableComp, r.offerExt, r.respHeader, r.bufSize = sp, op, ec, oe, rh, bs
								class := wsupgRun(e, r)
								e.Case(fmt.Sprintf("neg %s server=%d offer=%s ext=%s/%v", class, len(sp), op.label, oe.label, ec), 1)
							}
						}
					}
				}
			}
		}
	}
	if e.ShardK == 0 {
		e.Sample(fmt.Sprintf("%d upgrade requests in the negotiation domain", n))
	}
}

var _ = sort.Strings

func init() {
	vsched.Register(&vsched.Harness{
		Name: "wsupg", Props: []string{"C31"}, Kind: "enum",
		Doc: "accept: full product HTTP major {1,2,0,3} x Connection (12 values: token lists, case, OWS, two lines, near-misses) x Upgrade (7) x method {GET,POST,CONNECT,HEAD} x Sec-WebSocket-Version (6) x Sec-WebSocket-Key (11: valid, absent, wrong lengths, bad char, 24 chars decoding to 17/18 bytes) x Origin (9: absent, same, case, path, other, suffix attack, other port, null, malformed) x CheckOrigin {default, allow, deny} x :protocol (3); negotiate: valid h1/h2 + invalid x Upgrader.Subprotocols (4) x offered protocols (8) x EnableCompression x offered extensions (8) x responseHeader x buffer sizes. Oracle: reference acceptance predicate; 101 response with independently computed Sec-WebSocket-Accept = base64(sha1(key+GUID)); negotiated subprotocol offered and supported; permessage-deflate iff enabled and offered; returned Conn writes valid unmasked frames (independent decoder); rejected requests get an error status and no 101",
		Variants: func(tier string) []vsched.Variant {
			if tier == "thorough" {
				return []vsched.Variant{{Name: "accept-deep", Shards: 16, BudgetS: 600}, {Name: "negotiate-deep", Shards: 4, BudgetS: 300}}
			}
			return []vsched.Variant{{Name: "accept", Shards: 16, BudgetS: 60}, {Name: "negotiate", Shards: 2, BudgetS: 60}}
		},
		Enum: func(v vsched.Variant, e *vsched.Enum) {
			switch v.Name {
			case "accept":
				wsupgEnumAccept(e, false)
			case "accept-deep":
				wsupgEnumAccept(e, true)
			case "negotiate":
				wsupgEnumNegotiate(e, false)
			case "negotiate-deep":
				wsupgEnumNegotiate(e, true)
			}
		},
	})
}
