//go:build verif

package dissolve

import (
	"fmt"

	"github.com/centrifugal/centrifuge/internal/zzverif/vsched"
)

// dissolveq (C40, E2): the dissolver's job queue (ring buffer with grow / shrink) under every
// operation sequence. "Deferred jobs run until they succeed" rests on the queue handing out
// exactly the jobs that were put in, once each, in order, across its resize steps.
//
// Alphabet: a (Add next job), r (Remove), c (Close, then one Add and one Remove as probes).
// Reference: a slice of job ids. Every removed job is called and must report the id of the
// reference head; Remove on an empty queue returns (nil, false); Add succeeds iff open; at the end
// the queue is drained and must yield the reference.
func init() {
	vsched.Register(&vsched.Harness{
		Name: "dissolveq", Props: []string{"C40"}, Kind: "sched",
		Doc: "dissolver job queue (ring buffer, initial capacity 2, grow on full, shrink on Remove): every sequence over {Add, Remove, Close} of length <= 14 (quick) / 17 (thorough); reference: a slice of job ids; oracle: Remove returns the oldest queued job (identified by calling it) or (nil,false) on empty, Add succeeds iff open, the final drain yields the reference in order",
		Variants: func(tier string) []vsched.Variant {
			if tier == "thorough" {
				return []vsched.Variant{{Name: "len17", Bound: 0, Shards: 8, NoCache: true, MaxSteps: 1 << 30, BudgetS: 280}}
			}
			return []vsched.Variant{{Name: "len14", Bound: 0, Shards: 2, NoCache: true, MaxSteps: 1 << 30, BudgetS: 100}}
		},
		Sched: func(v vsched.Variant) func() {
			maxLen := 14
			if v.Name == "len17" {
				maxLen = 17
			}
			const prefixLen = 5
			return func() {
				chunk := vsched.ChooseFree(1 << prefixLen)
				vsched.Quiet(true)
				prefix := make([]byte, prefixLen)
				for i := range prefix {
					prefix[i] = "ar"[(chunk>>uint(i))&1]
				}
				nseq := 0
				wrapped := 0
				lastRun := -1
				run := func(seq []byte) {
					nseq++
					q := newQueue().(*queueImpl)
					var ref []int
					next := 0
					closed := false
					fail := func(sig, format string, a ...any) {
						vsched.Failf("dissolveq-"+sig, "sequence %q: %s", string(seq), fmt.Sprintf(format, a...))
					}
					mk := func(id int) Job { return func() error { lastRun = id; return nil } }
					sawWrap := false
					for _, op := range seq {
						switch op {
						case 'a':
							next++
							ok := q.Add(mk(next))
							if ok == closed {
								fail("add-result", "Add returned %v on a queue closed=%v", ok, closed)
								return
							}
							if ok {
								ref = append(ref, next)
							}
						case 'r':
							j, ok := q.Remove()
							if len(ref) == 0 || closed {
								if ok {
									fail("remove-from-empty", "Remove returned a job from an empty / closed queue")
									return
								}
								continue
							}
							if !ok || j == nil {
								fail("fifo-order", "Remove returned nothing, queued jobs %v", ref)
								return
							}
							lastRun = -1
							_ = j()
							if lastRun != ref[0] {
								fail("fifo-order", "Remove returned job %d, the oldest queued job is %d (queued %v)", lastRun, ref[0], ref)
								return
							}
							ref = ref[1:]
						case 'c':
							q.Close()
							closed = true
							ref = nil
						}
						if q.head > q.tail && q.cnt > 0 {
							sawWrap = true
						}
						if q.Closed() != closed {
							fail("closed-flag", "Closed()=%v want %v", q.Closed(), closed)
							return
						}
					}
					if sawWrap {
						wrapped++
					}
					for len(ref) > 0 {
						j, ok := q.Remove()
						if !ok || j == nil {
							fail("fifo-order", "final drain returned nothing, queued jobs %v", ref)
							return
						}
						lastRun = -1
						_ = j()
						if lastRun != ref[0] {
							fail("fifo-order", "final drain returned job %d, want %d (queued %v)", lastRun, ref[0], ref)
							return
						}
						ref = ref[1:]
					}
					if _, ok := q.Remove(); ok {
						fail("remove-from-empty", "drained queue still returns a job")
					}
				}
				var rec func(seq []byte)
				rec = func(seq []byte) {
					run(seq)
					if len(seq) >= maxLen {
						return
					}
					run(append(append([]byte{}, seq...), 'c', 'a', 'r'))
					for _, op := range []byte("ar") {
						rec(append(append([]byte{}, seq...), op))
					}
				}
				rec(prefix)
				if chunk == 0 {
					var short func(seq []byte)
					short = func(seq []byte) {
						run(seq)
						if len(seq) < prefixLen-1 {
							for _, op := range []byte("ar") {
								short(append(append([]byte{}, seq...), op))
							}
						}
					}
					short(nil)
				}
				vsched.Logf("prefix=%s sequences=%d wrapped-at-some-point=%d", string(prefix), nseq, wrapped)
			}
		},
	})
}
