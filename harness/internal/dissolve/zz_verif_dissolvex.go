//go:build verif

package dissolve

import (
	"errors"
	"fmt"
	"sync"
	"time"

	"github.com/centrifugal/centrifuge/internal/zzverif/vsched"
)

// dissolvex (C40): the deferred-work queue under all worker / submitter / closer interleavings
// and all failure patterns.
//
// Interpretation (DESIGN.md C40 - a job a worker already holds cannot be recalled):
//   (a) without Close every accepted job is run until it returns nil: exactly fails+1 runs;
//   (b) no job is run again after a run of it returned nil;
//   (c) no job that was still queued when Close returned is ever run: every run that starts
//       after Close took effect belongs to a job its worker had dequeued before that; this
//       covers "no retry starts after Close returned" (a retry must be re-queued and dequeued);
//   (d) a job submitted after Close returned is rejected and never run; Submit fails only
//       if Close had begun.
//
// Observation of "dequeued": the Dissolver's queue field is an interface; the harness wraps the
// real queue and notes, immediately after the real Wait / Close return (no scheduling point lies
// between the real unlock and the note), who dequeued and when Close took effect.

type dissolvexRun struct {
	start  int // sequence number of the run's start
	deq    int // sequence number at which the running worker dequeued it
	tid    int
	result bool // true: returned nil
	done   bool
}

type dissolvexState struct {
	seq       int
	lastDeq   map[int]int // worker thread id -> seq of its latest successful dequeue
	closeDone int         // seq at which Close took effect (0: not yet)
}

func (s *dissolvexState) tick() int { s.seq++; return s.seq }

type dissolvexQueue struct {
	inner queue
	st    *dissolvexState
}

func (q *dissolvexQueue) Add(j Job) bool { return q.inner.Add(j) }
func (q *dissolvexQueue) Remove() (Job, bool) {
	j, ok := q.inner.Remove()
	if ok {
		q.st.lastDeq[vsched.ThreadID()] = q.st.tick()
	}
	return j, ok
}
func (q *dissolvexQueue) Close() {
	q.inner.Close()
	if q.st.closeDone == 0 {
		q.st.closeDone = q.st.tick()
	}
}
func (q *dissolvexQueue) Closed() bool { return q.inner.Closed() }
func (q *dissolvexQueue) Wait() (Job, bool) {
	j, ok := q.inner.Wait()
	if ok {
		q.st.lastDeq[vsched.ThreadID()] = q.st.tick()
	}
	return j, ok
}

type dissolvexCfg struct {
	jobs       int
	closer     bool // a concurrent closer thread
	prefill    int  // jobs submitted before Run()
	submitters int  // 1: main thread order j0, j1, ...; 2: the jobs are split over two threads
	fails      string // job i fails its first fails[i]-'0' runs; "*": f in {0,1} chosen per job by ChooseFree
	workers    int    // 0: two workers
}

func (c dissolvexCfg) name() string {
	w := ""
	if c.workers > 0 {
		w = fmt.Sprintf("w%d/", c.workers)
	}
	return fmt.Sprintf("%sj%d/closer-%v/prefill%d/sub%d/fail-%s", w, c.jobs, c.closer, c.prefill, c.submitters, c.fails)
}

var dissolvexCfgs = map[string]dissolvexCfg{}

func dissolvexVariants(tier string) []vsched.Variant {
	var out []vsched.Variant
	add := func(c dissolvexCfg, bound, shards int) {
		dissolvexCfgs[c.name()] = c
		out = append(out, vsched.Variant{Name: c.name(), Bound: bound, Shards: shards, BudgetS: 280, Iterate: false})
	}
	// every failure pattern over {0,1,2} for two jobs is a variant of its own (a ChooseFree at the
	// start of the body would put almost the whole tree under two root children and defeat sharding)
	var pat2 []string
	for a := 0; a <= 2; a++ {
		for b := 0; b <= 2; b++ {
			pat2 = append(pat2, fmt.Sprintf("%d%d", a, b))
		}
	}
	heavy := func(p string) int { return int(p[0]-'0') + int(p[1]-'0') }
	for _, p := range pat2 {
		sh := 1 + heavy(p)
		if tier == "thorough" {
			add(dissolvexCfg{jobs: 2, closer: false, prefill: 0, submitters: 1, fails: p}, 3, sh)
			add(dissolvexCfg{jobs: 2, closer: true, prefill: 0, submitters: 1, fails: p}, 2, sh)
			if heavy(p) < 4 {
				add(dissolvexCfg{jobs: 2, closer: true, prefill: 2, submitters: 1, fails: p}, 3, 2*sh)
			} else {
				add(dissolvexCfg{jobs: 2, closer: true, prefill: 2, submitters: 1, fails: p}, 2, sh)
			}
		} else {
			add(dissolvexCfg{jobs: 2, closer: false, prefill: 0, submitters: 1, fails: p}, 2, 1)
			if heavy(p) < 4 { // pattern 22 with a concurrent submitter and closer: thorough tier only
				add(dissolvexCfg{jobs: 2, closer: true, prefill: 0, submitters: 1, fails: p}, 2, sh)
			}
			add(dissolvexCfg{jobs: 2, closer: true, prefill: 2, submitters: 1, fails: p}, 2, (sh+1)/2)
		}
	}
	// a single worker: a job submitted while the only worker is between "queue is empty" and its
	// wait must still run (with two workers the other one usually picks it up and hides a lost wake-up)
	for _, p := range []string{"00", "10", "01"} {
		if tier == "thorough" {
			add(dissolvexCfg{jobs: 2, workers: 1, submitters: 1, fails: p}, 3, 2)
			add(dissolvexCfg{jobs: 2, workers: 1, closer: true, submitters: 1, fails: p}, 2, 2)
		} else {
			add(dissolvexCfg{jobs: 2, workers: 1, submitters: 1, fails: p}, 2, 1)
		}
	}
	if tier == "thorough" {
		add(dissolvexCfg{jobs: 3, closer: true, prefill: 3, submitters: 1, fails: "*"}, 2, 8)
		for _, p := range []string{"000", "100", "010", "001", "110", "011", "111", "201"} {
			if p != "111" && p != "201" {
				add(dissolvexCfg{jobs: 3, closer: true, prefill: 1, submitters: 2, fails: p}, 1, 4)
			}
			add(dissolvexCfg{jobs: 3, closer: false, prefill: 1, submitters: 2, fails: p}, 1, 2)
		}
	} else {
		add(dissolvexCfg{jobs: 3, closer: true, prefill: 3, submitters: 1, fails: "*"}, 1, 2)
	}
	return out
}

func init() {
	vsched.Register(&vsched.Harness{
		Name: "dissolvex", Props: []string{"C40"}, Kind: "sched",
		Doc: "dissolve.New(2) (w1 variants: New(1)) with 2-3 jobs, each failing its first f runs (two jobs: every pattern over f in {0,1,2}, one variant each; three jobs: f in {0,1}); jobs submitted before Run (prefill) and by 1-2 submitter threads; " +
			"optional concurrent closer; deviation bound 1-3; oracle: no closer => every job runs exactly f+1 times (last run nil); never a run after a successful run; " +
			"every run that starts after Close took effect was dequeued by its worker before that; Submit fails only once Close began; a job submitted after Close is rejected and never runs",
		Variants: dissolvexVariants,
		Sched:    func(v vsched.Variant) func() { return dissolvexBody(dissolvexCfgs[v.Name]) },
	})
}

func dissolvexBody(cfg dissolvexCfg) func() {
	return func() {
		st := &dissolvexState{lastDeq: map[int]int{}}
		fails := make([]int, cfg.jobs)
		for i := range fails {
			if cfg.fails == "*" {
				fails[i] = vsched.ChooseFree(2)
			} else {
				fails[i] = int(cfg.fails[i] - '0')
			}
		}
		runs := make([][]*dissolvexRun, cfg.jobs+1) // the last one is the late job
		submitStart := make([]int, cfg.jobs+1)
		submitRet := make([]int, cfg.jobs+1)
		submitErr := make([]error, cfg.jobs+1)
		closeStart := 0
		var order []int // job ids in the order their runs started

		nw := 2
		if cfg.workers > 0 {
			nw = cfg.workers
		}
		d := New(nw)
		d.queue = &dissolvexQueue{inner: d.queue, st: st}

		mkJob := func(i int) Job {
			return func() error {
				vsched.Visible()
				tid := vsched.ThreadID()
				r := &dissolvexRun{start: st.tick(), deq: st.lastDeq[tid], tid: tid}
				runs[i] = append(runs[i], r)
				order = append(order, i)
				n := len(runs[i])
				r.done = true
				if i < cfg.jobs && n <= fails[i] {
					return errors.New("again")
				}
				r.result = true
				return nil
			}
		}
		submit := func(i int) {
			submitStart[i] = st.tick()
			submitErr[i] = d.Submit(mkJob(i))
			submitRet[i] = st.tick()
		}

		// in case a retry path sleeps (virtual time): let such timers fire during the concurrent phase
		vsched.SetHorizon(int64(5 * time.Second))

		for i := 0; i < cfg.prefill; i++ {
			submit(i)
		}
		_ = d.Run()

		var wg sync.WaitGroup
		if cfg.closer {
			wg.Add(1)
			go func() {
				defer wg.Done()
				closeStart = st.tick()
				_ = d.Close()
			}()
		}
		if cfg.submitters <= 1 {
			// the main thread is the submitter
			for i := cfg.prefill; i < cfg.jobs; i++ {
				submit(i)
			}
		} else {
			for s := 0; s < 2; s++ {
				s := s
				wg.Add(1)
				go func() {
					defer wg.Done()
					for i := cfg.prefill + s; i < cfg.jobs; i += 2 {
						submit(i)
					}
				}()
			}
		}
		wg.Wait()
		vsched.Advance(int64(10 * time.Second)) // workers drain the queue, retries included

		if !cfg.closer {
			// (a) everything accepted has run to success
			for i := 0; i < cfg.jobs; i++ {
				if submitErr[i] != nil {
					vsched.Failf("submit-rejected-open", "Submit of job %d failed although the dissolver was never closed: %v", i, submitErr[i])
					continue
				}
				n := len(runs[i])
				if n == 0 || !runs[i][n-1].result {
					vsched.Failf("not-run-until-success", "job %d (fails its first %d runs) was run %d times and never succeeded; no Close was called", i, fails[i], n)
				}
			}
			closeStart = st.tick()
			_ = d.Close()
		}

		// (d) a job submitted after Close returned
		late := cfg.jobs
		submit(late)
		vsched.Advance(int64(10 * time.Second))
		if submitErr[late] == nil {
			vsched.Failf("submit-accepted-after-close", "Submit after Close returned nil")
		}
		if len(runs[late]) != 0 {
			vsched.Failf("run-after-close:late-job", "a job submitted after Close returned was run")
		}

		for i := 0; i < cfg.jobs; i++ {
			// Submit fails only once Close began
			if submitErr[i] != nil && (closeStart == 0 || closeStart > submitRet[i]) {
				vsched.Failf("submit-rejected-before-close", "Submit of job %d failed before Close began", i)
			}
			if submitErr[i] != nil && len(runs[i]) > 0 {
				vsched.Failf("rejected-job-ran", "job %d was rejected by Submit but run %d times", i, len(runs[i]))
			}
			// (b) nothing after success; never more than fails+1 runs
			for k, r := range runs[i] {
				if r.result && k != len(runs[i])-1 {
					vsched.Failf("run-after-success", "job %d was run again after it succeeded (%d runs, fails %d)", i, len(runs[i]), fails[i])
				}
			}
			// (c) runs after Close took effect only for jobs already in a worker's hands
			for k, r := range runs[i] {
				if st.closeDone != 0 && r.start > st.closeDone && r.deq > st.closeDone {
					vsched.Failf("run-after-close:dequeued-after-close", "run %d of job %d started after Close returned and its worker dequeued it after Close returned", k+1, i)
				}
				if r.deq == 0 {
					vsched.Failf("harness:run-without-dequeue", "run %d of job %d on a thread whose dequeue the harness did not see", k+1, i)
				}
			}
		}

		// observation log: per job runs/fails and whether Close cut it
		s := ""
		for i := 0; i < cfg.jobs; i++ {
			ok := len(runs[i]) > 0 && runs[i][len(runs[i])-1].result
			s += fmt.Sprintf("[f%d r%d ok=%v rej=%v]", fails[i], len(runs[i]), ok, submitErr[i] != nil)
		}
		vsched.Logf("%s order=%v", s, order)
		_ = submitStart
	}
}
