//go:build verif

package recovery

import (
	"fmt"
	"sort"

	"github.com/centrifugal/centrifuge/internal/zzverif/vsched"
	"github.com/centrifugal/protocol"
)

// mergex (C39, E2): MergePublications on every pair of publication lists over a small offset
// alphabet (duplicates and filtered placeholders included) against an independent reference.

type mergexPub struct {
	off      uint64
	filtered bool
}

func mergexAlphabet(maxOff uint64) []mergexPub {
	var a []mergexPub
	for o := uint64(1); o <= maxOff; o++ {
		a = append(a, mergexPub{o, false}, mergexPub{o, true})
	}
	return a
}

func mergexLists(alpha []mergexPub, maxLen int) [][]mergexPub {
	out := [][]mergexPub{nil}
	frontier := [][]mergexPub{nil}
	for l := 1; l <= maxLen; l++ {
		var next [][]mergexPub
		for _, p := range frontier {
			for _, x := range alpha {
				q := append(append([]mergexPub(nil), p...), x)
				next = append(next, q)
			}
		}
		out = append(out, next...)
		frontier = next
	}
	return out
}

func mergexBuild(l []mergexPub, tag string) []*protocol.Publication {
	var ps []*protocol.Publication
	for i, x := range l {
		p := &protocol.Publication{Offset: x.off, Data: []byte(fmt.Sprintf("%s%d", tag, i))}
		if x.filtered {
			p.Time = -1
		}
		ps = append(ps, p)
	}
	return ps
}

// reference: union sorted by offset, one publication per non-filtered offset, no placeholders;
// failure iff buffered non-empty and two consecutive delivered offsets leave a hole that the
// placeholders do not cover completely.
func mergexRef(rec, buf []mergexPub) (offs []uint64, maxSeen uint64, ok bool) {
	all := append(append([]mergexPub(nil), rec...), buf...)
	have := map[uint64]bool{}
	skipped := map[uint64]bool{}
	for _, x := range all {
		if x.off > maxSeen {
			maxSeen = x.off
		}
		if x.filtered {
			skipped[x.off] = true
		} else {
			have[x.off] = true
		}
	}
	for o := range have {
		offs = append(offs, o)
	}
	sort.Slice(offs, func(i, j int) bool { return offs[i] < offs[j] })
	ok = true
	if len(buf) > 0 {
		for i := 1; i < len(offs); i++ {
			for o := offs[i-1] + 1; o < offs[i]; o++ {
				if !skipped[o] {
					ok = false
				}
			}
		}
	}
	return
}

func init() {
	vsched.Register(&vsched.Harness{
		Name: "mergex", Props: []string{"C39", "C01", "C02"}, Kind: "enum",
		Doc: "all pairs (recovered, buffered) of publication lists of length <= L over offsets 1..M, each entry real or filtered placeholder (Time == -1); oracle: result offsets = sorted distinct non-filtered offsets, no placeholder in the result, ok == reference gap verdict, maxSeenOffset == max offset on success",
		Variants: func(tier string) []vsched.Variant {
			if tier == "thorough" {
				return []vsched.Variant{{Name: "len3-off5", Shards: 16, BudgetS: 600}}
			}
			return []vsched.Variant{{Name: "len3-off4", Shards: 8, BudgetS: 60}}
		},
		Enum: func(v vsched.Variant, e *vsched.Enum) {
			maxLen, maxOff := 3, uint64(4)
			if v.Name == "len3-off5" {
				maxOff = 5
			}
			lists := mergexLists(mergexAlphabet(maxOff), maxLen)
			var n int64
			for _, rec := range lists {
				if e.Expired() {
					return
				}
				for _, buf := range lists {
					n++
					if !e.Mine(n) {
						continue
					}
					got, maxSeen, ok := MergePublications(mergexBuild(rec, "r"), mergexBuild(buf, "b"))
					wantOffs, wantMax, wantOK := mergexRef(rec, buf)
					class := fmt.Sprintf("ok=%v n=%d buf=%v", wantOK, len(wantOffs), len(buf) > 0)
					e.Case(class, 1)
					in := []string{fmt.Sprintf("recovered=%v buffered=%v (off,filtered)", rec, buf)}
					if ok != wantOK {
						e.Fail("verdict", fmt.Sprintf("MergePublications ok=%v, reference %v", ok, wantOK), in)
						continue
					}
					if !ok {
						if got != nil {
							e.Fail("failure-returns-pubs", "publications returned on failure", in)
						}
						continue
					}
					if maxSeen != wantMax {
						e.Fail("max-seen", fmt.Sprintf("maxSeenOffset=%d want %d", maxSeen, wantMax), in)
					}
					if len(got) != len(wantOffs) {
						e.Fail("content", fmt.Sprintf("got %d publications want offsets %v", len(got), wantOffs), in)
						continue
					}
					for i, p := range got {
						if p.Time == -1 {
							e.Fail("placeholder", "filtered placeholder in result", in)
						}
						if p.Offset != wantOffs[i] {
							e.Fail("content", fmt.Sprintf("offset[%d]=%d want %v", i, p.Offset, wantOffs), in)
							break
						}
					}
					if n%200003 == 0 {
						e.Sample(in[0])
					}
				}
			}
			e.Sample(fmt.Sprintf("%d pairs of lists enumerated", n))
		},
	})
}
