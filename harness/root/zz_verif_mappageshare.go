//go:build verif

package centrifuge

import (
	"context"
	"fmt"
	"sort"
	"strings"
	"time"

	"github.com/centrifugal/centrifuge/internal/zzverif/vsched"
	"github.com/centrifugal/protocol"
)

// mappageshare (C22, E1): two connections load the same state page of a map channel at the same
// time while the node coalesces broker reads (Config.UseSingleFlight): one of them has a tags
// filter that drops entries, the other has none. A coalesced read hands both callers the same
// page; each connection's state must still be exactly the broker state its filter admits.
//
// Channel "ps": five keys k1..k5 tagged t=a, b, a, b, a. ChooseFree picks the filtered side's
// filter (client filter t=a / server filter t=b) and the mode (ephemeral / recoverable). Thread F
// and thread U each send the first state page request (limit 10: one page). Oracle: the keys of the
// state page each connection received == the keys its filter admits, in the order the broker
// returns them alone.
func init() {
	vsched.Register(&vsched.Harness{
		Name: "mappageshare", Props: []string{"C22"}, Kind: "sched",
		Doc: "node with UseSingleFlight, map channel with five tagged keys; two connections request the same first state page concurrently, one with a tags filter (client filter or server filter, ChooseFree) that drops entries, one without; ephemeral / recoverable mode (ChooseFree); preemption bound 1 (thorough 2); oracle: each connection's state page holds exactly the keys its filter admits",
		Variants: func(tier string) []vsched.Variant {
			if tier == "thorough" {
				return []vsched.Variant{{Name: "state-page", Bound: 2, Shards: 8, BudgetS: 280}}
			}
			return []vsched.Variant{{Name: "state-page", Bound: 1, Shards: 4, BudgetS: 100}}
		},
		Sched: func(v vsched.Variant) func() {
			const ch = "ps"
			return func() {
				pick := vsched.ChooseFree(4)
				serverFilter := pick%2 == 1
				recoverable := pick/2 == 1
				vsched.Quiet(true)
				n := vNewNode(func(c *Config) {
					c.UseSingleFlight = true
					c.Map.GetMapChannelOptions = func(string) MapChannelOptions {
						o := MapChannelOptions{KeyTTL: time.Hour, Mode: MapModeEphemeral}
						if recoverable {
							o.Mode = MapModeRecoverable
						}
						return o
					}
				})
				vInstallMapBrokerFor(n, ch)
				n.OnConnect(func(c *Client) {
					c.OnSubscribe(func(e SubscribeEvent, cb SubscribeCallback) {
						o := SubscribeOptions{Type: SubscriptionTypeMap, AllowTagsFilter: true}
						if c.UserID() == "f" && serverFilter {
							o.ServerTagsFilter = vhServerFilter()
						}
						cb(SubscribeReply{Options: o}, nil)
					})
				})
				if err := n.Run(); err != nil {
					panic(err)
				}
				for i, tag := range []string{"a", "b", "a", "b", "a"} {
					if _, err := n.MapPublish(context.Background(), ch, fmt.Sprintf("k%d", i+1), MapPublishOptions{Data: []byte(`{"v":1}`), Tags: map[string]string{"t": tag}}); err != nil {
						panic(err)
					}
				}
				mk := func(user string) *vClient {
					t := vNewTransport()
					t.emulation = true
					cl := vNewClient(n, t, &Credentials{UserID: user})
					cl.connect()
					return cl
				}
				f, u := mk("f"), mk("u")
				vsched.WaitIdle()
				vsched.Quiet(false)
				page := func(cl *vClient, filtered bool) string {
					req := &protocol.SubscribeRequest{Channel: ch, Type: int32(SubscriptionTypeMap), Phase: MapPhaseState, Limit: 10}
					if filtered && !serverFilter {
						req.Tf = vhClientFilter()
					}
					cl.cmd(&protocol.Command{Subscribe: req})
					vsched.WaitIdle()
					for _, fr := range cl.t.frames {
						if fr.Reply.Id > 1 && fr.Reply.Error != nil {
							return fmt.Sprintf("error %d", fr.Reply.Error.Code)
						}
						if s := fr.Reply.Subscribe; s != nil {
							var keys []string
							for _, p := range s.State {
								keys = append(keys, p.Key)
							}
							sort.Strings(keys)
							return strings.Join(keys, ",")
						}
					}
					return "no reply"
				}
				var gotF, gotU string
				done := make(chan struct{}, 2)
				go func() { gotF = page(f, true); done <- struct{}{} }()
				go func() { gotU = page(u, false); done <- struct{}{} }()
				<-done
				<-done
				vsched.WaitIdle()
				vsched.Quiet(true)
				wantF := "k1,k3,k5"
				if serverFilter {
					wantF = "k2,k4"
				}
				kind := map[bool]string{false: "client-filter", true: "server-filter"}[serverFilter] + ":" + map[bool]string{false: "ephemeral", true: "recoverable"}[recoverable]
				vsched.Logf("%s: filtered %s | unfiltered %s", kind, gotF, gotU)
				if gotF != wantF {
					vsched.Failf("shared-page-filtered-state-differs:"+kind, "the filtered connection's state page holds [%s], its filter admits [%s]", gotF, wantF)
				}
				if gotU != "k1,k2,k3,k4,k5" {
					vsched.Failf("shared-page-unfiltered-state-differs:"+kind, "the unfiltered connection's state page holds [%s], the broker state is [k1,k2,k3,k4,k5] (the other connection's filter admitted [%s])", gotU, wantF)
				}
				_ = f.close()
				_ = u.close()
				vsched.WaitIdle()
			}
		},
	})
}
