//go:build verif

package centrifuge

import (
	"fmt"

	"github.com/centrifugal/centrifuge/internal/zzverif/vsched"
	"github.com/centrifugal/protocol"
)

// cachex (C03): cache recovery delivers the newest visible publication.
//
// Same world as recoverx, subscriptions in RecoveryModeCache. Probe domain per history:
//   offset 0..top+1 x epoch {current, "", previous, foreign} x RecoveryMaxPublicationLimit
//   x tags filters {none, client, server, both} x {client recover, server-forced AutoCacheRecover}
//   x delta {not negotiated, fossil negotiated}
// Handler modes: none / handler answers "not populated" / handler publishes (tag a or b) and answers
// "populated". In the last mode a probe changes the history of its channel, so every probe gets
// its own channel carrying the same history (the model mirrors the handler's publication).

type vcxParams struct {
	depth   int
	size    int
	limits  []int
	handler string // "none" | "notpop" | "pop"
	delta   bool   // include the delta-negotiated probes
}

func vcxParamsOf(v vsched.Variant) vcxParams {
	switch v.Name {
	case "q-none-d4-s2":
		return vcxParams{depth: 4, size: 2, limits: []int{0, 1}, handler: "none"}
	case "q-notpop-d3-s2":
		return vcxParams{depth: 3, size: 2, limits: []int{0, 1}, handler: "notpop", delta: true}
	case "q-pop-d3-s2":
		return vcxParams{depth: 3, size: 2, limits: []int{0, 1}, handler: "pop"}
	case "t-none-d5-s1":
		return vcxParams{depth: 5, size: 1, limits: []int{0, 1, 2}, handler: "none"}
	case "t-none-d5-s2":
		return vcxParams{depth: 5, size: 2, limits: []int{0, 1, 2}, handler: "none", delta: true}
	case "t-none-d5-s3":
		return vcxParams{depth: 5, size: 3, limits: []int{0, 1, 2}, handler: "none"}
	case "t-notpop-d4-s2":
		return vcxParams{depth: 4, size: 2, limits: []int{0, 1, 2}, handler: "notpop", delta: true}
	case "t-pop-d4-s2":
		return vcxParams{depth: 4, size: 2, limits: []int{0, 1, 2}, handler: "pop"}
	}
	panic("cachex: unknown variant " + v.Name)
}

// vcxProbe is one point of the probe domain (epoch by label index, resolved per channel).
type vcxProbe struct {
	limit  int
	off    uint64
	epochI int // 0 current, 1 empty, 2 previous, 3 foreign
	filter vhFilterSel
	auto   bool
	delta  bool
	popTag string // handler mode "pop": tag of the publication the handler adds
}

var vcxEpochLabels = [...]string{"cur", "empty", "prev", "foreign"}

func (p vcxProbe) String() string {
	return fmt.Sprintf("probe{offset=%d epoch=%s limit=%d filters=%s auto=%v delta=%v pop=%s}", p.off, vcxEpochLabels[p.epochI], p.limit, p.filter, p.auto, p.delta, p.popTag)
}

// vcxDomain lists the probes for a channel whose top offset is at most maxTop.
func vcxDomain(p vcxParams, maxTop uint64) []vcxProbe {
	var out []vcxProbe
	deltas := []bool{false}
	if p.delta {
		deltas = append(deltas, true)
	}
	popTags := []string{""}
	if p.handler == "pop" {
		popTags = []string{"a", "b"}
	}
	for _, limit := range p.limits {
		for off := uint64(0); off <= maxTop+1; off++ {
			for ei := 0; ei < 4; ei++ {
				for _, fs := range vhFilterSels {
					for _, auto := range []bool{false, true} {
						for _, d := range deltas {
							for _, pt := range popTags {
								out = append(out, vcxProbe{limit: limit, off: off, epochI: ei, filter: fs, auto: auto, delta: d, popTag: pt})
							}
						}
					}
				}
			}
		}
	}
	return out
}

func init() {
	vsched.Register(&vsched.Harness{
		Name: "cachex", Props: []string{"C03"}, Kind: "sched",
		Doc: "E2 under the virtual clock. Same channel-history world as recoverx (ops {pub tag a, pub tag b, RemoveHistory, advance>HistoryTTL, advance>metaTTL}; quick depth<=4 (handler variants depth<=3), HistorySize 2, " +
			"RecoveryMaxPublicationLimit {0,1}; thorough depth<=5 (handler variants depth<=4), sizes 1..3, limits {0,1,2}), subscriptions in RecoveryModeCache. Probes on fresh clients: offset 0..top+1 x epoch {current, empty, previous, foreign} " +
			"x limit x filters {none, client, server, both} x {client recover, server-forced AutoCacheRecover} x delta {no, fossil (variants q-notpop, t-none-d5-s2, t-notpop)}; cache-empty handler in {absent, answers not-populated, publishes tag a|b and answers populated " +
			"(then every probe runs on its own channel carrying the same history)}. Oracle: at most one publication unless delta is negotiated; every delivered publication is the newest retained one both filters admit; " +
			"recovered == (newest publication still in history || client (offset, epoch) == current position); when recovered, the client is not at the current position and the newest visible publication lies within the recovery limit, it is delivered.",
		Variants: func(tier string) []vsched.Variant {
			if tier == "thorough" {
				var vs []vsched.Variant
				for _, n := range []string{"t-none-d5-s1", "t-none-d5-s2", "t-none-d5-s3", "t-notpop-d4-s2", "t-pop-d4-s2"} {
					vs = append(vs, vsched.Variant{Name: n, Bound: 0, Shards: 16, NoCache: true, BudgetS: 280})
				}
				return vs
			}
			return []vsched.Variant{
				{Name: "q-none-d4-s2", Bound: 0, Shards: 16, NoCache: true, BudgetS: 90},
				{Name: "q-notpop-d3-s2", Bound: 0, Shards: 8, NoCache: true, BudgetS: 90},
				{Name: "q-pop-d3-s2", Bound: 0, Shards: 16, NoCache: true, BudgetS: 90},
			}
		},
		Sched: func(v vsched.Variant) func() {
			p := vcxParamsOf(v)
			nh := vhCount(p.depth)
			return func() {
				idx := vsched.ChooseFree(nh)
				vsched.Quiet(true)
				ops := vhDecode(idx)
				maxTop := uint64(0)
				for _, op := range ops {
					if op == vhOpPubA || op == vhOpPubB {
						maxTop++
					}
				}
				domain := vcxDomain(p, maxTop)
				nch := 1
				if p.handler == "pop" {
					nch = len(domain)
				}
				var w *vhWorld
				var cur vcxProbe
				handlerCalls := 0
				w = vhNewWorld(p.size, nch, func(n *Node) {
					if p.handler == "none" {
						return
					}
					n.OnCacheEmpty(func(e CacheEmptyEvent) (CacheEmptyReply, error) {
						handlerCalls++
						if p.handler == "pop" {
							w.publishOn(w.byName[e.Channel], cur.popTag)
							return CacheEmptyReply{Populated: true}, nil
						}
						return CacheEmptyReply{Populated: false}, nil
					})
				})
				for _, op := range ops {
					w.apply(op)
				}
				if nch == 1 {
					w.prime(w.chans[0])
				}
				vsched.Logf("ops=%s size=%d handler=%s state: %s", vhOpsString(ops), p.size, p.handler, w.chans[0].stateString())
				if w.failed {
					return
				}
				var st vcxStats
				newestKept := len(w.chans[0].retained) > 0
				for i, pr := range domain {
					m := w.chans[0]
					if nch > 1 {
						m = w.chans[i]
					}
					if pr.off > m.top+1 {
						continue
					}
					if nch > 1 {
						w.prime(m)
						if w.failed {
							return
						}
					}
					cur = pr
					vcxProbeOne(w, m, p, ops, pr, &st)
				}
				w.n.config.RecoveryMaxPublicationLimit = 0
				vsched.Logf("probes=%d recovered_true=%d recovered_false=%d delivered=%d handler_calls=%d", st.probes, st.nTrue, st.nFalse, st.delivered, handlerCalls)
				if st.nTrue == 0 && newestKept {
					// the newest publication is in history: the probes cannot all be refused (vacuity guard)
					w.fail("vacuity-guard:no-recovered-true-verdict", "ops=%s: %d probes, none answered recovered=true", vhOpsString(ops), st.probes)
				}
			}
		},
	})
}

type vcxStats struct{ probes, nTrue, nFalse, delivered int }

func vcxProbeOne(w *vhWorld, m *vhModel, p vcxParams, ops []int, pr vcxProbe, st *vcxStats) {
	var ep string
	switch pr.epochI {
	case 0:
		ep = m.curEpoch()
	case 1:
		ep = ""
	case 2:
		var ok bool
		if ep, ok = m.prevEpoch(); !ok {
			return
		}
	case 3:
		ep = vhForeignEpoch
	}
	before := m.stateString()
	w.n.config.RecoveryMaxPublicationLimit = pr.limit
	req := &protocol.SubscribeRequest{Recover: !pr.auto, Offset: pr.off, Epoch: ep}
	r := w.subscribeProbe(m, vhSubCfg{mode: RecoveryModeCache, filter: pr.filter, auto: pr.auto, delta: pr.delta}, req)
	st.probes++
	desc := func() string {
		return fmt.Sprintf("ops=%s size=%d handler=%s state-before{%s} state-after{%s} %s reply=%s",
			vhOpsString(ops), p.size, p.handler, before, m.stateString(), pr, r.kind())
	}
	cls := fmt.Sprintf("ep=%s,f=%s,auto=%v,delta=%v,lim=%d", vcxEpochLabels[pr.epochI], pr.filter, pr.auto, pr.delta, pr.limit)
	if r.sub == nil {
		w.fail("cache-no-subscribe-reply:"+cls, "%s", desc())
		return
	}
	s := r.sub

	// ---- reference (on the model state after the probe: the populate handler may have published)
	newestPresent := len(m.retained) > 0 && m.retained[len(m.retained)-1].off == m.top
	holds := pr.off == m.top && ep == m.curEpoch()
	wantRecovered := newestPresent || holds
	var visible *vhPub // newest retained publication both filters admit
	visibleRank := 0   // 1 = newest retained
	for i := len(m.retained) - 1; i >= 0; i-- {
		if pr.filter.admits(m.retained[i].tag) {
			q := m.retained[i]
			visible = &q
			visibleRank = len(m.retained) - i
			break
		}
	}
	deltaNegotiated := s.Delta

	if s.Recovered {
		st.nTrue++
	} else {
		st.nFalse++
	}
	st.delivered += len(s.Publications)

	if !deltaNegotiated && len(s.Publications) > 1 {
		w.fail("cache-more-than-one-publication", "%s", desc())
	}
	for _, q := range s.Publications {
		if visible == nil || q.Offset != visible.off || vhPubData(q, deltaNegotiated) != visible.data {
			w.fail("cache-delivered-not-newest-visible:f="+pr.filter.String(), "%s newest-visible=%v", desc(), visible)
			break
		}
	}
	if s.Recovered != wantRecovered {
		var why string
		switch {
		case wantRecovered && newestPresent && (visible == nil || (pr.limit > 0 && visibleRank > pr.limit)):
			// the newest publication is retained, but no retained publication within the
			// recovery limit passes the filters
			why = "newest-in-history-but-none-admitted-by-filters"
		case wantRecovered && newestPresent:
			why = "newest-in-history"
		case wantRecovered && m.top == 0:
			why = "client-holds-current-position-offset0"
		case wantRecovered:
			why = "client-holds-current-position"
		default:
			why = "newest-absent-and-position-differs"
		}
		w.fail(fmt.Sprintf("cache-recovered=%v-want-%v:%s", s.Recovered, wantRecovered, why), "%s", desc())
	}
	if s.Recovered && !holds && visible != nil && (pr.limit == 0 || visibleRank <= pr.limit) && len(s.Publications) == 0 {
		w.fail("cache-newest-visible-not-delivered:f="+pr.filter.String(), "%s newest-visible=%v", desc(), *visible)
	}
}
