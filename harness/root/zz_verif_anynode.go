//go:build verif

package centrifuge

import (
	"fmt"
	"sort"
	"strings"
	"time"

	"github.com/centrifugal/centrifuge/internal/zzverif/vsched"
)

// anynode (C27): Node.Subscribe / Unsubscribe / Disconnect / Refresh must have the same effect on
// a matching connection whether it lives on the calling node or on another node.
//
// Two nodes A and B joined by the loop-back Controller double (vLoopController). The connection
// always lives on A; placement "local" calls the operation on A, placement "remote" calls it on B
// (the command then travels A <- control bytes <- B through the real encoder, Controller
// interface, HandleControl and decoder). For each placement a fresh, identically specified
// connection is created, the operation applied, the outcome rendered, the connection closed.
//
// One execution = (operation variant, targeting mode) by ChooseFree; inside it every subset of the
// operation's options up to the size bound is enumerated.
//
// Oracle: the rendered outcome (ChannelContext of every channel, connection expiry/info, pushes
// byte-for-byte modulo client/session id, unsubscribe / disconnect callbacks, join / leave
// publications, presence entry, transport close + disconnect) is equal in both placements.
// Signature: one per lost option name (see vC27Compare), otherwise the names of the option set.

// ---- targeting modes ---------------------------------------------------------------------------

type vC27Mode struct {
	userKind int // 0: by user id, 1: "" + all users, 2: anonymous connection targeted by ""
	client   bool
	session  bool
	label    int // 0 none, 1 matching, 2 not matching
}

func (m vC27Mode) String() string {
	s := []string{"user", "allusers", "anonymous"}[m.userKind]
	if m.client {
		s += "+client"
	}
	if m.session {
		s += "+session"
	}
	switch m.label {
	case 1:
		s += "+label"
	case 2:
		s += "+label(nomatch)"
	}
	return s
}

// vC27Modes: thorough = user kind x every subset of {client, session} x label none/match/no-match
// (36); quick = user kind x {none, client, session, label, label(no match), client+session+label} (18).
func vC27Modes(all bool) []vC27Mode {
	var l []vC27Mode
	for uk := 0; uk < 3; uk++ {
		for _, cl := range []bool{false, true} {
			for _, se := range []bool{false, true} {
				for lb := 0; lb < 3; lb++ {
					k := 0
					if cl {
						k++
					}
					if se {
						k++
					}
					if lb != 0 {
						k++
					}
					if all || k <= 1 || (k == 3 && lb == 1) {
						l = append(l, vC27Mode{uk, cl, se, lb})
					}
				}
			}
		}
	}
	return l
}

func (m vC27Mode) connUser() string {
	if m.userKind == 2 {
		return ""
	}
	return "u"
}

func (m vC27Mode) callUser() string {
	if m.userKind == 0 {
		return "u"
	}
	return ""
}

func (m vC27Mode) labelFilter() *FilterNode {
	switch m.label {
	case 1:
		return &FilterNode{Key: "region", Cmp: "eq", Val: "eu"}
	case 2:
		return &FilterNode{Key: "region", Cmp: "eq", Val: "us"}
	}
	return nil
}

// ---- environment -------------------------------------------------------------------------------

type vC27Env struct {
	// sibling: "" or "subscribed": a second connection of the same user (same labels) on the CALLING
	// node, holding a server-side subscription to ch and a client-side one to cs, exists while the
	// operation runs (Subscribe fails on it with "already subscribed", the other calls apply to it)
	sibling string
	byID    string // client id of the current sibling (its own frames / joins / leaves are not part of the outcome)
	a, b  *vSoNode
	epoch string
	top   uint64
	now   int64
}

const vC27Ch = "ch" // channel with a history stream of three publications
const vC27Cs = "cs" // channel the connection subscribes to client-side

func vC27NewEnv() *vC27Env {
	ctl := &vLoopController{}
	e := &vC27Env{}
	e.a = vNewSoNode(ctl, nil)
	e.b = vNewSoNode(ctl, nil)
	for i := 1; i <= 3; i++ {
		res, err := e.a.n.Publish(vC27Ch, []byte(fmt.Sprintf(`{"p":%d}`, i)), WithHistory(10, time.Hour))
		if err != nil {
			panic(err)
		}
		e.epoch, e.top = res.Epoch, res.Offset
	}
	e.now = time.Now().Unix()
	vsched.WaitIdle()
	if len(ctl.handlers) != 2 || ctl.sent == 0 {
		panic("verif: loop controller not wired")
	}
	return e
}

// newConn creates the connection under test on node A.
func (e *vC27Env) newConn(m vC27Mode, serverSubs, clientSubs map[string]SubscribeOptions) *vSoConn {
	sp := &vSoConn{user: m.connUser(), info: []byte(`{"i":0}`), expireAt: e.now + 100, labels: map[string]string{"region": "eu"},
		serverSubs: serverSubs, clientOpts: clientSubs}
	if sp.clientOpts == nil {
		sp.clientOpts = map[string]SubscribeOptions{}
	}
	e.a.connect(sp)
	vsched.WaitIdle()
	return sp
}

func (e *vC27Env) dropConn(sp *vSoConn) {
	_ = sp.cl.close()
	delete(e.a.specs, sp.cl.c.ID())
	vsched.WaitIdle()
	if nc := e.a.n.Hub().NumClients(); nc != 0 {
		panic(fmt.Sprintf("verif: %d clients left after case", nc))
	}
}

// bystander creates the sibling connection on the calling node (nil when the variant has none).
func (e *vC27Env) bystander(m vC27Mode, remote bool) *vSoConn {
	e.byID = ""
	if e.sibling == "" {
		return nil
	}
	so := SubscribeOptions{EmitPresence: true, EmitJoinLeave: true, PushJoinLeave: true}
	by := &vSoConn{user: m.connUser(), info: []byte(`{"i":9}`), expireAt: e.now + 100, labels: map[string]string{"region": "eu"},
		serverSubs: map[string]SubscribeOptions{vC27Ch: so}, clientOpts: map[string]SubscribeOptions{vC27Cs: so}}
	node := e.a
	if remote {
		node = e.b
	}
	node.connect(by)
	vsched.WaitIdle()
	e.byID = by.cl.c.ID()
	return by
}

func (e *vC27Env) dropBystander(by *vSoConn, remote bool) {
	if by == nil {
		return
	}
	node := e.a
	if remote {
		node = e.b
	}
	_ = by.cl.close()
	delete(node.specs, by.cl.c.ID())
	vsched.WaitIdle()
	e.byID = ""
}

type vC27Marks struct{ frames, joins, leaves int }

func (e *vC27Env) marks(sp *vSoConn) vC27Marks {
	return vC27Marks{len(sp.cl.t.frames), len(e.a.rb.joins), len(e.a.rb.leaves)}
}

func vInfoDesc(i *ClientInfo) string {
	if i == nil {
		return "-"
	}
	return fmt.Sprintf("{conn=%s chan=%s}", i.ConnInfo, i.ChanInfo)
}

// outcome renders everything observable about the connection, one field per line.
func (e *vC27Env) outcome(sp *vSoConn, mk vC27Marks) []string {
	c := sp.cl.c
	id, sess := c.ID(), c.sessionID()
	norm := func(s string) string {
		s = strings.ReplaceAll(s, id, "<cid>")
		if sess != "" {
			s = strings.ReplaceAll(s, sess, "<sid>")
		}
		return s
	}
	var l []string
	t := sp.cl.t
	l = append(l, fmt.Sprintf("transport: closed=%v disconnect=%d/%s", t.closed, t.closeDisc.Code, t.closeDisc.Reason))
	c.mu.RLock()
	l = append(l, fmt.Sprintf("connection: status=%d exp=%d info=%s", c.status, c.exp-e.now, c.info))
	chs := map[string]ChannelContext{}
	for ch, ctx := range c.channels {
		chs[ch] = ctx
	}
	c.mu.RUnlock()
	var names []string
	for ch := range chs {
		names = append(names, ch)
	}
	sort.Strings(names)
	for _, ch := range names {
		x := chs[ch]
		ep := x.streamPosition.Epoch
		if ep == e.epoch && ep != "" {
			ep = "<cur>"
		}
		exp := x.expireAt
		if exp != 0 {
			exp -= e.now
		}
		pct := x.positionCheckTime
		if pct != 0 {
			pct -= e.now
		}
		l = append(l, fmt.Sprintf("channel %s: flags=%#x offset=%d epoch=%s expireAt=%d info=%s source=%d metaTTL=%d posCheck=%d pending=%v",
			ch, x.flags, x.streamPosition.Offset, ep, exp, x.info, x.Source, x.metaTTLSeconds, pct, x.subscribingCh != nil))
	}
	npush := 0
	for _, f := range t.frames[mk.frames:] {
		if e.byID != "" && strings.Contains(string(f.Raw), e.byID) {
			continue // join / leave push about the sibling: the two nodes of the double share no broker
		}
		raw := norm(string(f.Raw))
		raw = strings.ReplaceAll(raw, e.epoch, "<cur>")
		l = append(l, fmt.Sprintf("push %d: %s", npush, raw))
		npush++
	}
	l = append(l, fmt.Sprintf("unsubscribe events: %v", sp.unsubs))
	l = append(l, fmt.Sprintf("disconnect events: %v", sp.discs))
	var js, ls []string
	for _, j := range e.a.rb.joins[mk.joins:] {
		if e.byID == "" || !strings.Contains(j, e.byID) {
			js = append(js, norm(j))
		}
	}
	for _, j := range e.a.rb.leaves[mk.leaves:] {
		if e.byID == "" || !strings.Contains(j, e.byID) {
			ls = append(ls, norm(j))
		}
	}
	l = append(l, fmt.Sprintf("joins: %v", js))
	l = append(l, fmt.Sprintf("leaves: %v", ls))
	for _, ch := range []string{vC27Ch, vC27Cs} {
		pr, err := e.a.n.Presence(ch)
		if err != nil {
			panic(err)
		}
		l = append(l, fmt.Sprintf("presence %s: %s", ch, vInfoDesc(pr.Presence[id])))
	}
	sp2, err := e.a.n.History(vC27Ch)
	if err != nil {
		panic(err)
	}
	if sp2.Offset != e.top || sp2.Epoch != e.epoch {
		panic("verif: stream changed between cases")
	}
	return l
}

// ---- subset enumeration + attribution ----------------------------------------------------------

func vSubsets(n, maxSize int) [][]int {
	var out [][]int
	var rec func(start int, cur []int)
	rec = func(start int, cur []int) {
		out = append(out, append([]int(nil), cur...))
		if len(cur) == maxSize {
			return
		}
		for i := start; i < n; i++ {
			rec(i+1, append(cur, i))
		}
	}
	rec(0, nil)
	sort.SliceStable(out, func(i, j int) bool { return len(out[i]) < len(out[j]) })
	return out
}

func vSelKey(sel []int) string { return fmt.Sprint(sel) }

// vOptName strips the value label ("recover_since#stale-epoch" -> "recover_since").
func vOptName(s string) string {
	if i := strings.IndexByte(s, '#'); i >= 0 {
		return s[:i]
	}
	return s
}

func vWithout(sel []int, drop []int) []int {
	var out []int
	for _, x := range sel {
		keep := true
		for _, d := range drop {
			if d == x {
				keep = false
			}
		}
		if keep {
			out = append(out, x)
		}
	}
	return out
}

// vC27Compare runs every option subset in both placements and reports differences.
// names[i] is "option" or "option#value-label" (several values of one option share the option name).
//
// Attribution: option i is "lost" when it has an effect with the connection on the calling node
// (local[S] != local[S-i] for some enumerated S) but never one with the connection on another
// node (remote[S] == remote[S-i] for every enumerated S containing i). Every difference that is
// explained by the lost options (remote[S] == local[S - lost]) is reported under
// "option-lost:<name>"; any other difference under "differs:<names of S>" for the minimal such S.
func vC27Compare(op, ctx string, names []string, maxSize int, run func(sel []int, remote bool) []string) (cases, classes, diffs int) {
	subsets := vSubsets(len(names), maxSize)
	local := map[string]string{}
	remote := map[string]string{}
	distinct := map[string]bool{}
	for _, sel := range subsets {
		k := vSelKey(sel)
		local[k] = strings.Join(run(sel, false), "\n")
		remote[k] = strings.Join(run(sel, true), "\n")
		distinct[local[k]] = true
		cases++
	}
	classes = len(distinct)
	selNames := func(sel []int) string {
		var l []string
		for _, i := range sel {
			l = append(l, names[i])
		}
		return strings.Join(l, ", ")
	}
	firstDiff := func(a, b string) string {
		ll, rl := strings.Split(a, "\n"), strings.Split(b, "\n")
		for i := 0; i < len(ll) && i < len(rl); i++ {
			if ll[i] != rl[i] {
				return fmt.Sprintf("connection on the calling node: %q; connection on another node: %q", ll[i], rl[i])
			}
		}
		return fmt.Sprintf("%d vs %d observation lines", len(ll), len(rl))
	}
	localEffect := make([]bool, len(names))
	remoteEffect := make([]bool, len(names))
	for _, sel := range subsets {
		k := vSelKey(sel)
		for _, i := range sel {
			k2 := vSelKey(vWithout(sel, []int{i}))
			if local[k] != local[k2] {
				localEffect[i] = true
			}
			if remote[k] != remote[k2] {
				remoteEffect[i] = true
			}
		}
	}
	var lost []int
	for i := range names {
		if localEffect[i] && !remoteEffect[i] {
			lost = append(lost, i)
		}
	}
	reported := map[string]bool{}
	unexplained := map[string]bool{}
	for _, sel := range subsets {
		k := vSelKey(sel)
		if local[k] == remote[k] {
			continue
		}
		diffs++
		if remote[k] == local[vSelKey(vWithout(sel, lost))] {
			// explained by the lost options; witness = a set where dropping the option changes the local outcome
			for _, i := range sel {
				isLost := false
				for _, x := range lost {
					if x == i {
						isLost = true
					}
				}
				sig := "c27-" + op + "-option-lost:" + vOptName(names[i])
				if !isLost || reported[sig] || local[k] == local[vSelKey(vWithout(sel, []int{i}))] {
					continue
				}
				reported[sig] = true
				vsched.Failf(sig, "Node.%s %s with options {%s}: option %s has no effect on a connection on another node: %s", op, ctx, selNames(sel), names[i], firstDiff(local[k], remote[k]))
			}
			continue
		}
		// an unexplained difference is reported for the minimal option sets only
		unexplained[k] = true
		covered := false
		for _, sub := range vSubsets(len(sel), len(sel)-1) {
			var pick []int
			for _, i := range sub {
				pick = append(pick, sel[i])
			}
			if len(pick) < len(sel) && unexplained[vSelKey(pick)] { // proper subsets only (the empty set has none)
				covered = true
			}
		}
		if covered {
			continue
		}
		var nl []string
		for _, i := range sel {
			nl = append(nl, vOptName(names[i]))
		}
		if len(nl) == 0 {
			nl = []string{"no-options"}
		}
		sig := "c27-" + op + "-differs:" + strings.Join(nl, "+")
		if !reported[sig] {
			reported[sig] = true
			vsched.Failf(sig, "Node.%s %s with options {%s}: %s", op, ctx, selNames(sel), firstDiff(local[k], remote[k]))
		}
	}
	return
}

// ---- the four operations -----------------------------------------------------------------------

type vC27SubOpt struct {
	name string
	mk   func(e *vC27Env) SubscribeOption
}

var vC27SubOpts = []vC27SubOpt{
	{"expire_at", func(e *vC27Env) SubscribeOption { return WithExpireAt(e.now + 3600) }},
	{"channel_info", func(e *vC27Env) SubscribeOption { return WithChannelInfo([]byte(`{"ci":1}`)) }},
	{"emit_presence", func(e *vC27Env) SubscribeOption { return WithEmitPresence(true) }},
	{"emit_join_leave", func(e *vC27Env) SubscribeOption { return WithEmitJoinLeave(true) }},
	{"push_join_leave", func(e *vC27Env) SubscribeOption { return WithPushJoinLeave(true) }},
	{"positioning", func(e *vC27Env) SubscribeOption { return WithPositioning(true) }},
	{"recovery", func(e *vC27Env) SubscribeOption { return WithRecovery(true) }},
	{"recovery_mode", func(e *vC27Env) SubscribeOption { return WithRecoveryMode(RecoveryModeCache) }},
	{"subscribe_data", func(e *vC27Env) SubscribeOption { return WithSubscribeData([]byte(`{"d":1}`)) }},
	{"recover_since", func(e *vC27Env) SubscribeOption { return WithRecoverSince(&StreamPosition{Offset: 1, Epoch: e.epoch}) }},
	{"recover_since#stale-epoch", func(e *vC27Env) SubscribeOption { return WithRecoverSince(&StreamPosition{Offset: 1, Epoch: "stale"}) }},
	{"auto_cache_recover", func(e *vC27Env) SubscribeOption { return WithAutoCacheRecover(true) }},
	{"subscribe_source", func(e *vC27Env) SubscribeOption { return WithSubscribeSource(7) }},
	{"history_meta_ttl", func(e *vC27Env) SubscribeOption { return WithSubscribeHistoryMetaTTL(2 * time.Hour) }},
}

func (e *vC27Env) caller(remote bool) *Node {
	if remote {
		return e.b.n
	}
	return e.a.n
}

func vC27Subscribe(e *vC27Env, m vC27Mode, maxSize int) (int, int, int) {
	var names []string
	for _, o := range vC27SubOpts {
		names = append(names, o.name)
	}
	return vC27Compare("Subscribe", "("+m.String()+")", names, maxSize, func(sel []int, remote bool) []string {
		sp := e.newConn(m, nil, nil)
		var opts []SubscribeOption
		for _, i := range sel {
			opts = append(opts, vC27SubOpts[i].mk(e))
		}
		if m.client {
			opts = append(opts, WithSubscribeClient(sp.cl.c.ID()))
		}
		if m.session {
			opts = append(opts, WithSubscribeSession(sp.cl.c.sessionID()))
		}
		if f := m.labelFilter(); f != nil {
			opts = append(opts, WithSubscribeLabelFilter(f))
		}
		if m.userKind == 1 {
			opts = append(opts, WithSubscribeAllUsers(true))
		}
		by := e.bystander(m, remote)
		mk := e.marks(sp)
		_ = e.caller(remote).Subscribe(m.callUser(), vC27Ch, opts...)
		vsched.WaitIdle()
		out := e.outcome(sp, mk)
		e.dropBystander(by, remote)
		e.dropConn(sp)
		return out
	})
}

// The connection of the unsubscribe / disconnect / refresh cases: server-side subscription to
// "ch" and client-side subscription to "cs", both with presence and join/leave.
func (e *vC27Env) subscribedConn(m vC27Mode) *vSoConn {
	so := SubscribeOptions{EmitPresence: true, EmitJoinLeave: true, PushJoinLeave: true}
	return e.newConn(m, map[string]SubscribeOptions{vC27Ch: so}, map[string]SubscribeOptions{vC27Cs: so})
}

func vC27Unsubscribe(e *vC27Env, m vC27Mode, channel string) (int, int, int) {
	names := []string{"custom_unsubscribe"}
	return vC27Compare("Unsubscribe", "("+m.String()+", channel "+channel+")", names, 1, func(sel []int, remote bool) []string {
		sp := e.subscribedConn(m)
		var opts []UnsubscribeOption
		if len(sel) > 0 {
			opts = append(opts, WithCustomUnsubscribe(Unsubscribe{Code: 2777, Reason: "custom reason"}))
		}
		if m.client {
			opts = append(opts, WithUnsubscribeClient(sp.cl.c.ID()))
		}
		if m.session {
			opts = append(opts, WithUnsubscribeSession(sp.cl.c.sessionID()))
		}
		if f := m.labelFilter(); f != nil {
			opts = append(opts, WithUnsubscribeLabelFilter(f))
		}
		if m.userKind == 1 {
			opts = append(opts, WithUnsubscribeAllUsers(true))
		}
		by := e.bystander(m, remote)
		mk := e.marks(sp)
		_ = e.caller(remote).Unsubscribe(m.callUser(), channel, opts...)
		vsched.WaitIdle()
		out := e.outcome(sp, mk)
		e.dropBystander(by, remote)
		e.dropConn(sp)
		return out
	})
}

func vC27Disconnect(e *vC27Env, m vC27Mode) (int, int, int) {
	names := []string{"custom_disconnect", "client_whitelist#other", "client_whitelist#self"}
	return vC27Compare("Disconnect", "("+m.String()+")", names, 3, func(sel []int, remote bool) []string {
		sp := e.subscribedConn(m)
		var opts []DisconnectOption
		for _, i := range sel {
			switch i {
			case 0:
				opts = append(opts, WithCustomDisconnect(Disconnect{Code: 4777, Reason: "custom reason"}))
			case 1:
				opts = append(opts, WithDisconnectClientWhitelist([]string{"someone-else"}))
			case 2:
				opts = append(opts, WithDisconnectClientWhitelist([]string{"someone-else", sp.cl.c.ID()}))
			}
		}
		if m.client {
			opts = append(opts, WithDisconnectClient(sp.cl.c.ID()))
		}
		if m.session {
			opts = append(opts, WithDisconnectSession(sp.cl.c.sessionID()))
		}
		if f := m.labelFilter(); f != nil {
			opts = append(opts, WithDisconnectLabelFilter(f))
		}
		if m.userKind == 1 {
			opts = append(opts, WithDisconnectAllUsers(true))
		}
		by := e.bystander(m, remote)
		mk := e.marks(sp)
		_ = e.caller(remote).Disconnect(m.callUser(), opts...)
		vsched.WaitIdle()
		out := e.outcome(sp, mk)
		e.dropBystander(by, remote)
		e.dropConn(sp)
		return out
	})
}

func vC27Refresh(e *vC27Env, m vC27Mode) (int, int, int) {
	names := []string{"refresh_expired", "refresh_expire_at#future", "refresh_expire_at#past", "refresh_info"}
	return vC27Compare("Refresh", "("+m.String()+")", names, 4, func(sel []int, remote bool) []string {
		sp := e.subscribedConn(m)
		var opts []RefreshOption
		for _, i := range sel {
			switch i {
			case 0:
				opts = append(opts, WithRefreshExpired(true))
			case 1:
				opts = append(opts, WithRefreshExpireAt(e.now+7200))
			case 2:
				opts = append(opts, WithRefreshExpireAt(e.now-5))
			case 3:
				opts = append(opts, WithRefreshInfo([]byte(`{"i":1}`)))
			}
		}
		if m.client {
			opts = append(opts, WithRefreshClient(sp.cl.c.ID()))
		}
		if m.session {
			opts = append(opts, WithRefreshSession(sp.cl.c.sessionID()))
		}
		if f := m.labelFilter(); f != nil {
			opts = append(opts, WithRefreshLabelFilter(f))
		}
		if m.userKind == 1 {
			opts = append(opts, WithRefreshAllUsers(true))
		}
		by := e.bystander(m, remote)
		mk := e.marks(sp)
		_ = e.caller(remote).Refresh(m.callUser(), opts...)
		vsched.WaitIdle()
		out := e.outcome(sp, mk)
		e.dropBystander(by, remote)
		e.dropConn(sp)
		return out
	})
}

func init() {
	vsched.Register(&vsched.Harness{
		Name: "anynode", Props: []string{"C27"}, Kind: "sched",
		Doc: "two nodes joined by a loop-back Controller; connection on A, Node.Subscribe/Unsubscribe/Disconnect/Refresh called on A (local) and on B (remote) for every subset of the With* options (all of them for unsubscribe/disconnect/refresh; up to size 3 (quick) / 4 (thorough) of the 14 subscribe option values) x 18 (quick) / 36 (thorough) targeting modes (user / all-users / anonymous x client x session x label filter none/match/no-match); sibling/* variants: the same with a second connection of the same user on the calling node that already holds the subscriptions; oracle: ChannelContext, connection expiry+info, pushes, callbacks, join/leave, presence, disconnect equal in both placements; signature per lost option name",
		Variants: func(tier string) []vsched.Variant {
			if tier == "thorough" {
				return []vsched.Variant{
					{Name: "subscribe-le4-allmodes", Bound: 0, Shards: 12, MaxSteps: 1 << 30},
					{Name: "unsubscribe-allmodes", Bound: 0, Shards: 1, MaxSteps: 1 << 30},
					{Name: "disconnect-allmodes", Bound: 0, Shards: 1, MaxSteps: 1 << 30},
					{Name: "refresh-allmodes", Bound: 0, Shards: 2, MaxSteps: 1 << 30},
					{Name: "sibling/subscribe-le2-allmodes", Bound: 0, Shards: 6, MaxSteps: 1 << 30},
					{Name: "sibling/unsubscribe-allmodes", Bound: 0, Shards: 1, MaxSteps: 1 << 30},
					{Name: "sibling/disconnect-allmodes", Bound: 0, Shards: 1, MaxSteps: 1 << 30},
					{Name: "sibling/refresh-allmodes", Bound: 0, Shards: 2, MaxSteps: 1 << 30},
				}
			}
			return []vsched.Variant{
				{Name: "subscribe-le3", Bound: 0, Shards: 9, MaxSteps: 1 << 30, BudgetS: 150},
				{Name: "unsubscribe", Bound: 0, Shards: 2, MaxSteps: 1 << 30, BudgetS: 150},
				{Name: "disconnect", Bound: 0, Shards: 2, MaxSteps: 1 << 30, BudgetS: 150},
				{Name: "refresh", Bound: 0, Shards: 2, MaxSteps: 1 << 30, BudgetS: 150},
				// a sibling connection of the same user on the calling node (already subscribed): what
				// happens to it there must not change what the call does to the connection elsewhere
				{Name: "sibling/subscribe-le2", Bound: 0, Shards: 2, MaxSteps: 1 << 30, BudgetS: 150},
				{Name: "sibling/unsubscribe", Bound: 0, Shards: 2, MaxSteps: 1 << 30, BudgetS: 150},
				{Name: "sibling/disconnect", Bound: 0, Shards: 2, MaxSteps: 1 << 30, BudgetS: 150},
				{Name: "sibling/refresh", Bound: 0, Shards: 2, MaxSteps: 1 << 30, BudgetS: 150},
			}
		},
		Sched: func(v vsched.Variant) func() {
			modes := vC27Modes(strings.HasSuffix(v.Name, "-allmodes"))
			opName := strings.TrimSuffix(v.Name, "-allmodes")
			sibling := ""
			if strings.HasPrefix(opName, "sibling/") {
				sibling, opName = "subscribed", strings.TrimPrefix(opName, "sibling/")
			}
			return func() {
				m := modes[vsched.ChooseFree(len(modes))]
				vsched.Quiet(true)
				e := vC27NewEnv()
				e.sibling = sibling
				var cases, classes, diffs int
				switch opName {
				case "subscribe-le3", "subscribe-le4", "subscribe-le2", "subscribe-le1":
					maxSize := int(opName[len(opName)-1] - '0')
					cases, classes, diffs = vC27Subscribe(e, m, maxSize)
				case "unsubscribe":
					for _, ch := range []string{vC27Ch, vC27Cs, "nosuch"} {
						c, k, d := vC27Unsubscribe(e, m, ch)
						cases, classes, diffs = cases+c, classes+k, diffs+d
					}
				case "disconnect":
					cases, classes, diffs = vC27Disconnect(e, m)
				case "refresh":
					cases, classes, diffs = vC27Refresh(e, m)
				}
				vsched.Logf("%s mode=%s option-sets=%d distinct-local-outcomes=%d differing=%d", v.Name, m, cases, classes, diffs)
			}
		},
	})
}
