//go:build verif

package centrifuge

import (
	"fmt"

	"github.com/centrifugal/centrifuge/internal/zzverif/vsched"
	"github.com/centrifugal/protocol"
)

// recoverx (C02): stream recovery is exact or explicitly refused.
//
// One execution = one operation history over {publish tag a, publish tag b, RemoveHistory,
// advance past HistoryTTL, advance past the meta TTL} on one channel of a fresh Node (memory
// broker, virtual clock), chosen by one ChooseFree; then EVERY subscribe probe
//   offset in 0..top+1  x  epoch in {current, "", previous, foreign}
//   x RecoveryMaxPublicationLimit  x  reject-unrecovered flag  x  filters {none, client, server, both}
// is run on a fresh client of that node and compared with the reference model.

type vrxParams struct {
	depth  int
	size   int
	limits []int
}

func vrxParamsOf(v vsched.Variant) vrxParams {
	switch v.Name {
	case "q-d4-s2":
		return vrxParams{depth: 4, size: 2, limits: []int{0, 1}}
	case "t-d5-s1":
		return vrxParams{depth: 5, size: 1, limits: []int{0, 1, 2}}
	case "t-d5-s2":
		return vrxParams{depth: 5, size: 2, limits: []int{0, 1, 2}}
	case "t-d5-s3":
		return vrxParams{depth: 5, size: 3, limits: []int{0, 1, 2}}
	}
	panic("recoverx: unknown variant " + v.Name)
}

// vrxEpochs returns the epoch values a probe may send, with a label each.
func vrxEpochs(m *vhModel) (vals []string, labels []string) {
	vals = append(vals, m.curEpoch(), "")
	labels = append(labels, "cur", "empty")
	if p, ok := m.prevEpoch(); ok {
		vals = append(vals, p)
		labels = append(labels, "prev")
	}
	vals = append(vals, vhForeignEpoch)
	labels = append(labels, "foreign")
	return
}

func init() {
	vsched.Register(&vsched.Harness{
		Name: "recoverx", Props: []string{"C02"}, Kind: "sched",
		Doc: "E2 under the virtual clock. One execution = one channel history over {pub tag a, pub tag b, RemoveHistory, advance>HistoryTTL, advance>metaTTL} " +
			"(quick: all of depth<=4, HistorySize 2, RecoveryMaxPublicationLimit {0,1}; thorough: depth<=5, sizes 1..3, limits {0,1,2}) on a fresh Node with the memory broker, " +
			"then every subscribe probe offset 0..top+1 x epoch {current, empty, previous, foreign} x limit x reject-unrecovered flag x tags filters {none, client, server, both} " +
			"on fresh clients of that node. Reference: log of everything ever published per epoch + retained window. Oracle: recovered=true => epoch equal (or empty in the request), " +
			"every publication in (offset, top] still retained, reply = exactly those the filters admit, in order, and the limit did not truncate; recovered=false => no publications; " +
			"with the flag => error 112 instead of recovered=false. Vacuity guard: every execution must see at least one recovered=true verdict (count is part of the log).",
		Variants: func(tier string) []vsched.Variant {
			if tier == "thorough" {
				return []vsched.Variant{
					{Name: "t-d5-s1", Bound: 0, Shards: 16, NoCache: true, BudgetS: 280},
					{Name: "t-d5-s2", Bound: 0, Shards: 16, NoCache: true, BudgetS: 280},
					{Name: "t-d5-s3", Bound: 0, Shards: 16, NoCache: true, BudgetS: 280},
				}
			}
			return []vsched.Variant{{Name: "q-d4-s2", Bound: 0, Shards: 16, NoCache: true, BudgetS: 90}}
		},
		Sched: func(v vsched.Variant) func() {
			p := vrxParamsOf(v)
			nh := vhCount(p.depth)
			return func() {
				idx := vsched.ChooseFree(nh)
				vsched.Quiet(true)
				ops := vhDecode(idx)
				w := vhNewWorld(p.size, 1, nil)
				for _, op := range ops {
					w.apply(op)
				}
				m := w.chans[0]
				w.prime(m)
				vsched.Logf("ops=%s size=%d state: %s", vhOpsString(ops), p.size, m.stateString())
				if w.failed {
					return
				}
				vrxProbeAll(w, m, p, ops)
			}
		},
	})
}

func vrxProbeAll(w *vhWorld, m *vhModel, p vrxParams, ops []int) {
	epochs, elabels := vrxEpochs(m)
	var nTrue, nFalse, nErr, nRefusedRecoverable, nProbes int
	for _, limit := range p.limits {
		w.n.config.RecoveryMaxPublicationLimit = limit
		for off := uint64(0); off <= m.top+1; off++ {
			for ei, ep := range epochs {
				for _, reject := range []bool{false, true} {
					for _, fs := range vhFilterSels {
						req := &protocol.SubscribeRequest{Recover: true, Offset: off, Epoch: ep}
						if reject {
							req.Flag = subscriptionFlagRejectUnrecovered
						}
						r := w.subscribeProbe(m, vhSubCfg{mode: RecoveryModeStream, filter: fs}, req)
						nProbes++
						desc := func() string {
							return fmt.Sprintf("ops=%s size=%d limit=%d state{%s} probe{offset=%d epoch=%s reject=%v filters=%s} reply=%s",
								vhOpsString(ops), p.size, limit, m.stateString(), off, elabels[ei], reject, fs, r.kind())
						}
						cls := fmt.Sprintf("ep=%s,rej=%v,f=%s,lim=%d", elabels[ei], reject, fs, limit)

						// ---- reference verdict ingredients
						epochOK := ep == "" || ep == m.curEpoch()
						allAfter, keptAfter := m.after(off)
						missing := len(allAfter) != len(keptAfter) // a publication after the offset is gone from history
						truncated := limit > 0 && len(allAfter) > limit
						var admitted []vhPub
						for _, q := range allAfter {
							if fs.admits(q.tag) {
								admitted = append(admitted, q)
							}
						}
						recoverable := epochOK && !missing && !truncated && off <= m.top

						switch {
						case r.errCode != 0:
							nErr++
							if !(reject && r.errCode == ErrorUnrecoverablePosition.Code) {
								w.fail("stream-unexpected-error:"+fmt.Sprint(r.errCode)+":"+cls, "%s", desc())
							} else if recoverable {
								nRefusedRecoverable++
							}
						case r.sub == nil:
							w.fail("stream-no-subscribe-reply:"+cls, "%s", desc())
						case r.sub.Recovered:
							nTrue++
							s := r.sub
							if !epochOK {
								w.fail("stream-recovered-true-epoch-differs:ep="+elabels[ei], "%s", desc())
							}
							if s.Epoch != m.curEpoch() {
								w.fail("stream-recovered-true-reply-epoch-not-current", "%s reply.epoch=%q", desc(), s.Epoch)
							}
							if missing {
								w.fail("stream-recovered-true-publication-missing", "%s ever-published-after-offset=%s retained=%s", desc(), vhPubsString(allAfter), vhPubsString(keptAfter))
							}
							if truncated {
								w.fail("stream-recovered-true-limit-truncated", "%s publications-after-offset=%d limit=%d", desc(), len(allAfter), limit)
							}
							if !vhSamePubs(s.Publications, admitted, false) {
								w.fail("stream-recovered-true-publications-not-exact:f="+fs.String(), "%s want=%s", desc(), vhPubsString(admitted))
							}
						default:
							nFalse++
							if len(r.sub.Publications) != 0 {
								w.fail("stream-recovered-false-with-publications", "%s", desc())
							}
							if reject {
								w.fail("stream-reject-flag-ignored", "%s", desc())
							}
							if recoverable {
								nRefusedRecoverable++
							}
						}
					}
				}
			}
		}
	}
	w.n.config.RecoveryMaxPublicationLimit = 0
	vsched.Logf("probes=%d recovered_true=%d recovered_false=%d unrecoverable_error=%d refused_although_recoverable=%d", nProbes, nTrue, nFalse, nErr, nRefusedRecoverable)
	if nTrue == 0 {
		w.fail("vacuity-guard:no-recovered-true-verdict", "ops=%s size=%d: %d probes, none answered recovered=true", vhOpsString(ops), p.size, nProbes)
	}
}
