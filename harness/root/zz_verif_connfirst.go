//go:build verif

package centrifuge

import (
	"context"
	"encoding/base64"
	"fmt"
	"io"
	"sort"
	"strings"
	"sync"
	"time"

	"github.com/centrifugal/centrifuge/internal/zzverif/vsched"
	"github.com/centrifugal/protocol"
)

// connfirst (C11, E1): the connect reply is the first server message; dictionary compression
// encoder discipline.
//
// Reader thread R issues the connect command (OnConnecting returns two server-side
// subscriptions: "s1" positioned + recoverable, "s2" plain with join/leave pushes) and optional
// follow-up steps (rpc command, transport close). Racing threads, one per operation:
//   send   poll n.Hub().UserConnections("u") and Client.Send to what is found
//   nsub   Node.Subscribe("u", "other")
//   pub    Node.Publish to s2 and (with history) to s1
//   ndisc  Node.Disconnect("u")
//   close  the ClientCloseFunc (what a stale timer / transport teardown does)
// Transports:
//   rec   recording vTransport, no dictionary
//   dict  recording double implementing DictionaryAwareTransport exactly as the interface
//         documents it (the next frame written after SetDictionaryCompression goes out raw,
//         every later one through Encode) + recording DictionaryConnection
//   ws    the real websocketTransport over an in-memory net.Conn (server side of an Upgrade),
//         recording DictionaryConnection whose Encode prefixes 'Z'; oracle on the parsed wire
// Oracle (statement of C11):
//   (a) the first message the server writes is the reply to the connect command; no push
//       precedes it;
//   (b) with a dictionary negotiated the frame carrying the connect reply is written raw, every
//       later frame went through Encode;
//   (c) the encoder is closed exactly once when the connection is gone, no Encode after Close,
//       and Close never overlaps an Encode.

type cfCfg struct {
	transport string
	reader    string   // comma separated steps of the reader thread
	racers    []string // one thread each
	rwq       bool     // ConnectReply.ReplyWithoutQueue
	wdelay    bool     // ConnectReply.WriteDelay 10 ms (the batching writer goroutine)
	flushed   bool     // with wdelay: the setup lets the delay elapse, the connect batch is on the wire before the concurrent phase
	subs      string   // server-side subscriptions of the connect reply: s1 (positioned) | s2 (plain, join/leave) | s1+s2
}

func (c cfCfg) name() string {
	wd := ""
	if c.wdelay {
		wd = "/wdelay"
	}
	if c.flushed {
		wd += "-flushed"
	}
	return fmt.Sprintf("%s/R:%s/%s/rwq%v/subs:%s%s", c.transport, c.reader, strings.Join(c.racers, "+"), c.rwq, c.subs, wd)
}

var cfCfgs = map[string]cfCfg{}

func cfVariants(tier string) []vsched.Variant {
	var out []vsched.Variant
	add := func(c cfCfg, bound, shards, budget int) {
		cfCfgs[c.name()] = c
		out = append(out, vsched.Variant{Name: c.name(), Bound: bound, Shards: shards, BudgetS: budget})
	}
	type x struct {
		tr, reader, racers, subs string
		rwq                      bool
		bound, shards            int
	}
	mk := func(l []x, budget int) {
		for _, v := range l {
			add(cfCfg{transport: v.tr, reader: v.reader, racers: strings.Split(v.racers, "+"), rwq: v.rwq, subs: v.subs}, v.bound, v.shards, budget)
		}
	}
	if tier == "quick" {
		// bound 1 where one variant stays below ~4k executions, else bound 0 (all orders at blocking points)
		mk([]x{
			{"rec", "connect", "send", "s2", false, 1, 2},
			{"rec", "connect", "pub", "s1", false, 1, 2},
			{"rec", "connect", "pub", "s2", false, 1, 2},
			{"rec", "connect", "nsub", "s1", false, 0, 1},
			{"rec", "connect", "close", "none", false, 1, 2},
			{"rec", "connect", "send", "s1+s2", false, 0, 1},
			{"dict", "connect", "send", "s1", false, 1, 2},
			{"dict", "connect", "nsub", "s2", false, 0, 1},
			{"dict", "connect,close", "pub", "s2", false, 0, 1},
			{"dict", "rpc", "close", "s2", true, 2, 4},
			{"dict", "none", "pub,ndisc", "s2", false, 1, 2},
			{"dict", "connect", "close", "none", false, 1, 2},
			{"ws", "connect", "send", "s2", false, 1, 2},
			{"ws", "connect", "nsub", "s1", false, 0, 1},
			{"ws", "connect", "pub", "s2", false, 0, 1},
			{"ws", "connect", "ndisc", "s2", false, 0, 6},
			{"ws", "rpc", "close", "s2", true, 2, 4},
			{"ws", "none", "pub,ndisc", "s2", false, 1, 2},
		}, 100)
		add(cfCfg{transport: "dict", reader: "rpc", racers: []string{"close"}, subs: "s2", wdelay: true}, 2, 4, 100)
		// the first frame of a dictionary connection is never encoded: with the connect batch already
		// flushed, the reply of the concurrent phase is the first encoded frame (timer first + one preemption)
		add(cfCfg{transport: "dict", reader: "rpc", racers: []string{"close"}, subs: "s2", wdelay: true, flushed: true}, 2, 4, 100)
		return out
	}
	l := []x{
		{"rec", "connect", "send", "s2", false, 1, 2},
		{"rec", "connect", "send", "s1", false, 1, 2},
		{"rec", "connect", "send,ndisc", "s2", false, 0, 4},
		{"rec", "connect", "close", "none", false, 2, 8},
		{"rec", "connect", "send", "s1+s2", false, 1, 4},
		{"rec", "connect", "nsub", "s1", false, 1, 6},
		{"rec", "connect", "pub", "s1", false, 1, 2},
		{"rec", "connect", "pub", "s2", false, 1, 2},
		{"rec", "connect,close", "pub", "s2", false, 1, 4},
		{"rec", "connect", "ndisc", "s2", false, 0, 4},
		{"rec", "connect", "pub+nsub", "s1+s2", false, 0, 8},

		{"dict", "connect", "send", "s1", false, 1, 2},
		{"dict", "connect", "send", "s2", false, 1, 2},
		{"dict", "connect", "pub", "s2", false, 1, 2},
		{"dict", "connect,close", "pub", "s2", false, 1, 4},
		{"dict", "connect", "close", "none", false, 2, 8},
		{"dict", "connect", "ndisc", "s2", false, 0, 4},
		{"dict", "connect,rpc", "ndisc", "s2", true, 0, 4},
		{"dict", "rpc", "close", "s2", true, 2, 4},
		{"dict", "rpc", "ndisc", "s2", true, 2, 8},
		{"dict", "none", "pub,ndisc", "s2", false, 2, 8},

		{"ws", "connect", "send", "s2", false, 1, 2},
		{"ws", "connect", "send", "s1+s2", false, 1, 4},
		{"ws", "connect", "nsub", "s1", false, 1, 6},
		{"ws", "connect", "pub", "s1", false, 1, 2},
		{"ws", "connect", "close", "none", false, 2, 8},
		{"ws", "connect", "ndisc", "s2", false, 0, 4},
		{"ws", "connect,rpc", "ndisc", "s2", true, 0, 4},
		{"ws", "rpc", "close", "s2", true, 2, 4},
		{"ws", "rpc", "ndisc", "s2", true, 2, 8},
		{"ws", "none", "pub,ndisc", "s2", false, 2, 8},
	}
	mk(l, 280)
	add(cfCfg{transport: "dict", reader: "rpc", racers: []string{"close"}, subs: "s2", wdelay: true}, 2, 4, 280)
	add(cfCfg{transport: "dict", reader: "rpc", racers: []string{"ndisc"}, subs: "s2", wdelay: true}, 2, 8, 280)
	add(cfCfg{transport: "dict", reader: "rpc", racers: []string{"close"}, subs: "s2", wdelay: true, flushed: true}, 3, 8, 280)
	add(cfCfg{transport: "dict", reader: "rpc", racers: []string{"ndisc"}, subs: "s2", wdelay: true, flushed: true}, 2, 8, 280)
	add(cfCfg{transport: "ws", reader: "rpc", racers: []string{"close"}, subs: "s2", wdelay: true}, 2, 8, 280)
	return out
}

// cfWriterClass: how frames reach the transport (part of the encoder-discipline signatures).
func cfWriterClass(c cfCfg) string {
	switch {
	case c.rwq:
		return ":reply-without-queue"
	case c.wdelay:
		return ":write-delay"
	}
	return ":queued"
}

func init() {
	vsched.Register(&vsched.Harness{
		Name: "connfirst", Props: []string{"C11"}, Kind: "sched",
		Doc:      "node; reader thread: connect command (server-side subscriptions s1 positioned+recoverable and/or s2 plain with join/leave) then optional rpc / transport close (reader steps not starting with connect: the connection is established before the concurrent phase); racing threads from {send: poll Hub().UserConnections(u) + Client.Send, nsub: Node.Subscribe(u, other), pub: Node.Publish to s2 and s1, ndisc: Node.Disconnect(u), close: ClientCloseFunc}; ReplyWithoutQueue on/off, WriteDelay 0 / 10 ms (batching writer); transports: recording vTransport, recording DictionaryAwareTransport double + recording DictionaryConnection, real websocketTransport over an in-memory net.Conn with the recording DictionaryConnection (wire parsed by an independent frame parser); deviation bound 1 (preemptions; thread order at blocking points is free), bound 0 for the variants with many threads in the quick tier; oracle: first message written is the reply to the connect command and no push precedes it; with a dictionary the connect reply frame is raw, every later frame passed through Encode; encoder closed exactly once, no Encode after or overlapping Close",
		Variants: cfVariants,
		Sched:    func(v vsched.Variant) func() { return cfBody(cfCfgs[v.Name]) },
	})
}

// ---- recording DictionaryConnection ----------------------------------------------------------

type cfDictConn struct {
	encodes     int
	closes      int
	inEncode    int
	inClose     int
	afterClose  int // Encode calls that started after a Close completed
	overlap     int // Close while an Encode is running, or Encode while a Close is running
	dictionary  int // Dictionary() calls
	encodedData [][]byte
}

func (d *cfDictConn) Dictionary() *protocol.Dictionary {
	d.dictionary++
	// JSON connection: the dictionary bytes travel base64 encoded
	return &protocol.Dictionary{Id: "d1", DataB64: base64.StdEncoding.EncodeToString([]byte("dictionary-bytes"))}
}

func (d *cfDictConn) Encode(frame []byte) ([]byte, bool) {
	vsched.Visible()
	if d.closes > 0 {
		d.afterClose++
	}
	if d.inClose > 0 {
		d.overlap++
	}
	d.inEncode++
	vsched.Visible() // the encoder is working: a Close scheduled here overlaps it
	d.inEncode--
	d.encodes++
	d.encodedData = append(d.encodedData, append([]byte(nil), frame...))
	return append([]byte{'Z'}, frame...), true
}

func (d *cfDictConn) Close() {
	vsched.Visible()
	if d.inEncode > 0 {
		d.overlap++
	}
	d.inClose++
	vsched.Visible()
	d.inClose--
	d.closes++
}

type cfEngine struct{ conns []*cfDictConn }

func (e *cfEngine) NewDictionaryConnection(p DictionaryConnectionParams) DictionaryConnection {
	if p.ClientFlags&ConnectionFlagDictionaryCompression == 0 {
		return nil
	}
	c := &cfDictConn{}
	e.conns = append(e.conns, c)
	return c
}

// ---- DictionaryAwareTransport double ---------------------------------------------------------

// cfWire is one frame put on the wire.
type cfWire struct {
	encoded bool
	msgs    []*protocol.Reply
}

type cfDictTransport struct {
	*vTransport
	pending DictionaryConnection
	active  DictionaryConnection
	sets    int
	closes  int
	wires   []cfWire
}

func (t *cfDictTransport) SetDictionaryCompression(cc DictionaryConnection) {
	vsched.Visible()
	t.sets++
	t.pending = cc
}

func (t *cfDictTransport) CloseDictionaryCompression() {
	vsched.Visible()
	t.closes++
	if t.active != nil {
		cc := t.active
		t.active = nil
		cc.Close()
		return
	}
	if t.pending != nil {
		cc := t.pending
		t.pending = nil
		cc.Close()
	}
}

func (t *cfDictTransport) write(msgs ...[]byte) error {
	vsched.Visible()
	vt := t.vTransport
	vt.writes++
	if vt.closed {
		vt.afterClose += len(msgs)
		return io.EOF
	}
	w := cfWire{}
	if t.active != nil {
		_, _ = t.active.Encode([]byte(strings.Join(cfStrings(msgs), "\n")))
		w.encoded = true
	} else if t.pending != nil {
		t.active, t.pending = t.pending, nil
	}
	for _, m := range msgs {
		r := vt.decode(m)
		w.msgs = append(w.msgs, r)
		vt.frames = append(vt.frames, vFrame{Reply: r, Batch: vt.writes, Raw: append([]byte(nil), m...)})
	}
	t.wires = append(t.wires, w)
	return nil
}

func (t *cfDictTransport) Write(m []byte) error         { return t.write(m) }
func (t *cfDictTransport) WriteMany(ms ...[]byte) error { return t.write(ms...) }

func cfStrings(bs [][]byte) []string {
	out := make([]string, len(bs))
	for i, b := range bs {
		out[i] = string(b)
	}
	return out
}

// ---- independent parser of server-to-client WebSocket frames ---------------------------------

type cfWSFrame struct {
	opcode  byte
	fin     bool
	payload []byte
}

func cfParseWS(b []byte) ([]cfWSFrame, string) {
	var out []cfWSFrame
	for len(b) > 0 {
		if len(b) < 2 {
			return out, "truncated-header"
		}
		if b[0]&0x70 != 0 {
			return out, "rsv-set"
		}
		if b[1]&0x80 != 0 {
			return out, "server-frame-masked"
		}
		f := cfWSFrame{opcode: b[0] & 0x0f, fin: b[0]&0x80 != 0}
		n := int(b[1] & 0x7f)
		hdr := 2
		switch n {
		case 126:
			if len(b) < 4 {
				return out, "truncated-length"
			}
			n = int(b[2])<<8 | int(b[3])
			hdr = 4
		case 127:
			if len(b) < 10 {
				return out, "truncated-length"
			}
			n = 0
			for i := 2; i < 10; i++ {
				n = n<<8 | int(b[i])
			}
			hdr = 10
		}
		if n < 0 || len(b) < hdr+n {
			return out, "truncated-payload"
		}
		f.payload = append([]byte(nil), b[hdr:hdr+n]...)
		b = b[hdr+n:]
		out = append(out, f)
	}
	return out, ""
}

// ---- body ---------------------------------------------------------------------------------------

func cfBody(cfg cfCfg) func() {
	return func() {
		vsched.Quiet(true)
		engine := &cfEngine{}
		n := vNewNode(func(c *Config) {
			if cfg.transport != "rec" {
				c.DictionaryCompression = engine
			}
		})
		subs := map[string]SubscribeOptions{}
		if strings.Contains(cfg.subs, "s1") {
			subs["s1"] = SubscribeOptions{EnableRecovery: true, EnablePositioning: true}
		}
		if strings.Contains(cfg.subs, "s2") {
			subs["s2"] = SubscribeOptions{EmitJoinLeave: true, PushJoinLeave: true}
		}
		n.OnConnecting(func(ctx context.Context, e ConnectEvent) (ConnectReply, error) {
			return ConnectReply{
				Credentials:       &Credentials{UserID: "u"},
				ReplyWithoutQueue: cfg.rwq,
				Subscriptions:     subs,
				WriteDelay:        map[bool]time.Duration{true: 10 * time.Millisecond}[cfg.wdelay],
			}, nil
		})
		n.OnConnect(func(c *Client) {
			c.OnRPC(func(e RPCEvent, cb RPCCallback) { cb(RPCReply{Data: []byte(`{"r":1}`)}, nil) })
		})
		if err := n.Run(); err != nil {
			panic(err)
		}
		if _, err := n.Publish("s1", []byte(`{"pre":1}`), WithHistory(10, time.Minute)); err != nil {
			panic(err)
		}

		var rec *vTransport
		var dt *cfDictTransport
		var wsOut *wstcConn
		var cl *vClient
		switch cfg.transport {
		case "rec":
			rec = vNewTransport()
			cl = vNewClient(n, rec, nil)
		case "dict":
			dt = &cfDictTransport{vTransport: vNewTransport()}
			c, cf, err := NewClient(context.Background(), n, dt)
			if err != nil {
				panic(err)
			}
			cl = &vClient{c: c, t: dt.vTransport, close: cf}
		case "ws":
			conn, mc, err := wstcNewConn(4096)
			if err != nil {
				panic(err)
			}
			wsOut = mc
			grace := make(chan struct{})
			close(grace)
			wt := newWebsocketTransport(conn, websocketTransportOptions{protoType: ProtocolTypeJSON, protoMajor: 1}, grace, false)
			c, cf, err := NewClient(context.Background(), n, wt)
			if err != nil {
				panic(err)
			}
			cl = &vClient{c: c, close: cf}
		}
		connectCmd := func() bool {
			return cl.cmd(&protocol.Command{Connect: &protocol.ConnectRequest{Flag: ConnectionFlagDictionaryCompression}})
		}
		if !strings.HasPrefix(cfg.reader, "connect") {
			// the concurrent phase starts on an established connection
			if !connectCmd() {
				panic("connfirst: connect refused")
			}
		}
		vsched.WaitIdle()
		if cfg.flushed {
			vsched.Advance(int64(20 * time.Millisecond)) // the writer's delay elapses: the connect batch is written
		}
		if cfg.wdelay {
			vsched.SetHorizon(int64(50 * time.Millisecond)) // the batching writer's delay may elapse
		}
		vsched.Quiet(false)

		// ---- concurrent phase
		waitRegistered := func() bool {
			if len(n.Hub().UserConnections("u")) > 0 {
				return true
			}
			vsched.Yield()
			return len(n.Hub().UserConnections("u")) > 0
		}
		var notes []string
		note := func(s string) { notes = append(notes, s) }
		var wg sync.WaitGroup
		wg.Add(1)
		go func() { // R: the connection's reader
			defer wg.Done()
			proceed := true
			for _, st := range strings.Split(cfg.reader, ",") {
				switch st {
				case "none":
				case "connect":
					proceed = connectCmd()
				case "rpc":
					if proceed {
						proceed = cl.cmd(&protocol.Command{Rpc: &protocol.RPCRequest{Method: "m"}})
					}
				case "close":
					_ = cl.close()
				default:
					panic("unknown reader step " + st)
				}
			}
		}()
		for _, r := range cfg.racers {
			r := r
			wg.Add(1)
			go func() {
				defer wg.Done()
				for _, r := range strings.Split(r, ",") { // sequential steps of this racer
					switch r {
					case "send":
						if waitRegistered() {
							conns := n.Hub().UserConnections("u")
							ids := make([]string, 0, len(conns))
							for id := range conns {
								ids = append(ids, id)
							}
							sort.Strings(ids)
							for _, id := range ids {
								_ = conns[id].Send([]byte(`{"hello":1}`))
							}
							note("send:found")
						}
					case "nsub":
						if waitRegistered() {
							note("nsub:found")
						}
						_ = n.Subscribe("u", "other")
					case "pub":
						if waitRegistered() {
							note("pub:found")
						}
						if strings.Contains(cfg.subs, "s2") {
							_, _ = n.Publish("s2", []byte(`{"p":2}`))
						}
						if strings.Contains(cfg.subs, "s1") {
							_, _ = n.Publish("s1", []byte(`{"p":1}`), WithHistory(10, time.Minute))
						}
					case "ndisc":
						if waitRegistered() {
							note("ndisc:found")
						}
						_ = n.Disconnect("u")
					case "close":
						_ = cl.close()
					default:
						panic("unknown racer " + r)
					}
				}
			}()
		}
		wg.Wait()
		vsched.WaitIdle()
		vsched.Quiet(true)
		// the connection goes away: the encoder must have been closed exactly once afterwards
		_ = cl.close()
		vsched.WaitIdle()

		// ---- wire as a list of frames
		var wires []cfWire
		dec := &vTransport{proto: ProtocolTypeJSON}
		switch cfg.transport {
		case "rec":
			last := -1
			for _, f := range rec.frames {
				if f.Batch != last {
					wires = append(wires, cfWire{})
					last = f.Batch
				}
				wires[len(wires)-1].msgs = append(wires[len(wires)-1].msgs, f.Reply)
			}
		case "dict":
			wires = dt.wires
		case "ws":
			frames, perr := cfParseWS(wsOut.out)
			if perr != "" {
				vsched.Failf("ws-wire-malformed:"+perr, "bytes after the handshake do not parse as server frames: %x", wsOut.out)
			}
			// reassemble fragmented messages (continuation frames, opcode 0)
			var msgs []cfWSFrame
			open := false
			for _, f := range frames {
				switch {
				case f.opcode == 1 || f.opcode == 2:
					msgs = append(msgs, f)
					open = !f.fin
				case f.opcode == 0 && open:
					msgs[len(msgs)-1].payload = append(msgs[len(msgs)-1].payload, f.payload...)
					open = !f.fin
				case f.opcode == 0:
					vsched.Failf("ws-wire-malformed:stray-continuation", "continuation frame without a started message")
				}
			}
			for _, f := range msgs {
				w := cfWire{}
				payload := f.payload
				if f.opcode == 2 {
					w.encoded = true
					if len(payload) == 0 || payload[0] != 'Z' {
						vsched.Failf("ws-binary-frame-not-from-encoder", "binary frame on a JSON connection that the encoder did not produce: %q", payload)
						continue
					}
					payload = payload[1:]
				}
				for _, line := range strings.Split(string(payload), "\n") {
					if line == "" {
						continue
					}
					w.msgs = append(w.msgs, dec.decode([]byte(line)))
				}
				wires = append(wires, w)
			}
		}

		// ---- observation log
		var desc []string
		for _, w := range wires {
			var l []string
			for _, m := range w.msgs {
				l = append(l, strings.Replace(vFrame{Reply: m}.describe(), cl.c.ID(), "A", -1))
			}
			s := strings.Join(l, " & ")
			if w.encoded {
				s = "Z(" + s + ")"
			}
			desc = append(desc, s)
		}
		sort.Strings(notes)
		vsched.Logf("wire=%v notes=%v", desc, notes)
		all := strings.Join(desc, " | ")

		// ---- oracle (a): the connect reply comes first
		const connectID = 1
		isConnectReply := func(m *protocol.Reply) bool { return m.Id == connectID }
		replyWire, replyIdx := -1, -1
		for i, w := range wires {
			for j, m := range w.msgs {
				if isConnectReply(m) && replyWire < 0 {
					replyWire, replyIdx = i, j
				}
			}
		}
		pushKind := func(m *protocol.Reply) string {
			if m.Push == nil {
				if m.Id != 0 {
					return "reply-to-later-command"
				}
				return "ping"
			}
			d := vFrame{Reply: m}.describe()
			if i := strings.IndexAny(d, "[("); i > 0 {
				d = d[:i]
			}
			return d
		}
		if len(wires) > 0 {
			first := wires[0].msgs[0]
			if !isConnectReply(first) {
				when := "reply-never-written"
				if replyWire >= 0 {
					when = "reply-written-later"
				}
				// the signature names what overtook the reply, so that a different kind of message
				// getting ahead of it is a different finding
				vsched.Failf("first-message-not-connect-reply:"+when+":"+pushKind(first), "the first message the server wrote is a %s (%s), not the reply to the connect command (%s): %s", pushKind(first), strings.Replace(vFrame{Reply: first}.describe(), cl.c.ID(), "A", -1), when, all)
			}
		}

		// ---- oracle (b), (c): dictionary discipline
		if cfg.transport == "rec" {
			return
		}
		if len(engine.conns) > 1 {
			vsched.Failf("dictionary-connection-created-twice", "NewDictionaryConnection called %d times for one connection", len(engine.conns))
		}
		if len(engine.conns) == 0 {
			for _, w := range wires {
				if w.encoded {
					vsched.Failf("encoded-without-dictionary", "encoded frame although no dictionary connection exists: %s", all)
				}
			}
			return
		}
		cc := engine.conns[0]
		vsched.Logf("encodes=%d closes=%d", cc.encodes, cc.closes)
		negotiated := replyWire >= 0 && wires[replyWire].msgs[replyIdx].Connect != nil && wires[replyWire].msgs[replyIdx].Connect.Flag&ConnectionFlagDictionaryCompression != 0
		if replyWire >= 0 && wires[replyWire].encoded {
			vsched.Failf("connect-reply-encoded", "the frame carrying the connect reply went through the dictionary encoder (wire frame %d): %s", replyWire, all)
		}
		if negotiated {
			for i := replyWire + 1; i < len(wires); i++ {
				if !wires[i].encoded {
					vsched.Failf("raw-frame-after-connect-reply"+cfWriterClass(cfg), "dictionary negotiated in the connect reply but wire frame %d was written without the encoder: %s", i, all)
					break
				}
			}
		}
		switch {
		case cc.closes == 0:
			vsched.Failf("encoder-never-closed", "connection gone but DictionaryConnection.Close was never called (encodes=%d): %s", cc.encodes, all)
		case cc.closes > 1:
			vsched.Failf("encoder-closed-twice", "DictionaryConnection.Close called %d times", cc.closes)
		}
		if cc.afterClose > 0 {
			vsched.Failf("encode-after-close"+cfWriterClass(cfg), "%d Encode calls after DictionaryConnection.Close (reader steps %s, racers %v): %s", cc.afterClose, cfg.reader, cfg.racers, all)
		}
		if cc.overlap > 0 {
			vsched.Failf("close-overlaps-encode"+cfWriterClass(cfg), "DictionaryConnection.Close ran concurrently with Encode %d times: %s", cc.overlap, all)
		}
	}
}
