//go:build verif

package centrifuge

import (
	"os"
	"bytes"
	"context"
	"fmt"
	"io"
	"sort"
	"strings"
	"sync"
	"time"

	"github.com/centrifugal/centrifuge/internal/zzverif/vsched"
	"github.com/centrifugal/protocol"
)

// cmdseq (C09): commands are gated by authentication and answered exactly once.
//
// Alphabet: 15 methods {connect, connect followed by the first server ping, connect the
// application refuses, subscribe a, unsubscribe a, publish, presence, presence_stats, history,
// rpc, send, refresh, sub_refresh, ping, no method} x ids {0,1,2} (an id is "repeated" when a
// sequence uses it twice), plus - at the frame entry points - a truncated frame, a garbage frame
// and an empty frame. All sequences up to length 3 (quick) / 4 (thorough); a sequence is fed
// until the entry point says "stop reading" (the transport reader contract), so every sequence of
// the bound is covered although only sequences whose prefix leaves the connection open are
// actually extended.
//
// Entry points: "cmd" Client.HandleCommand; "frame" HandleReadFrame with one command per frame in
// the real JSON / Protobuf client encoding; "batch" HandleReadFrame with the whole sequence in one
// frame. Handler modes: every application callback answers ok / with an *Error / with a
// *Disconnect.
//
// Oracle (the three clauses of the statement), evaluated after every command (cmd, frame) or at
// the end (batch):
//   gate   while the connection has not successfully connected (reference state machine: fresh,
//          refused) a command other than connect must close the transport with the bad-request
//          disconnect and invoke no application handler
//   reply  a command with id v gets exactly one reply with id v unless the connection closed
//          (then at most one); no reply carries an id that was not asked
//   pong   an empty command on a connected connection with no unanswered server ping must close it

type vC09Letter struct {
	method string
	id     uint32
	raw    []byte // malformed frame (frame entry only)
}

func (l vC09Letter) String() string {
	if l.raw != nil {
		return "frame:" + l.method
	}
	return fmt.Sprintf("%s#%d", l.method, l.id)
}

var vC09Methods = []string{"connect", "connect+ping", "connect+pingpong", "connect-refused", "connect-suberr", "subscribe", "unsubscribe", "publish", "presence",
	"presence_stats", "history", "rpc", "send", "refresh", "sub_refresh", "ping", "none", "wait"}

func (l vC09Letter) command() *protocol.Command {
	c := &protocol.Command{Id: l.id}
	switch l.method {
	case "connect", "connect+ping", "connect+pingpong":
		c.Connect = &protocol.ConnectRequest{}
	case "connect-refused":
		c.Connect = &protocol.ConnectRequest{Token: "refuse"}
	case "connect-suberr":
		// credentials are accepted, then a connect-time server-side subscription fails (already
		// expired): the connect is answered with an error after the connection was authenticated
		c.Connect = &protocol.ConnectRequest{Token: "suberr"}
	case "subscribe":
		c.Subscribe = &protocol.SubscribeRequest{Channel: "a"}
	case "unsubscribe":
		c.Unsubscribe = &protocol.UnsubscribeRequest{Channel: "a"}
	case "publish":
		c.Publish = &protocol.PublishRequest{Channel: "a", Data: []byte(`{}`)}
	case "presence":
		c.Presence = &protocol.PresenceRequest{Channel: "a"}
	case "presence_stats":
		c.PresenceStats = &protocol.PresenceStatsRequest{Channel: "a"}
	case "history":
		c.History = &protocol.HistoryRequest{Channel: "a"}
	case "rpc":
		c.Rpc = &protocol.RPCRequest{Method: "m", Data: []byte(`{}`)}
	case "send":
		c.Send = &protocol.SendRequest{Data: []byte(`{}`)}
	case "refresh":
		c.Refresh = &protocol.RefreshRequest{Token: "t"}
	case "sub_refresh":
		c.SubRefresh = &protocol.SubRefreshRequest{Channel: "a", Token: "t"}
	case "ping":
		c.Ping = &protocol.PingRequest{}
	case "none":
	default:
		panic("verif: unknown method " + l.method)
	}
	return c
}

func (l vC09Letter) isConnect() bool { return strings.HasPrefix(l.method, "connect") && l.raw == nil }
func (l vC09Letter) isEmpty() bool   { return l.method == "none" && l.id == 0 && l.raw == nil }
func (l vC09Letter) isWait() bool    { return l.method == "wait" }

func vC09Encode(proto ProtocolType, c *protocol.Command) []byte {
	var b []byte
	var err error
	if proto == ProtocolTypeJSON {
		b, err = protocol.NewJSONCommandEncoder().Encode(c)
	} else {
		b, err = protocol.NewProtobufCommandEncoder().Encode(c)
	}
	if err != nil {
		panic(err)
	}
	return b
}

func vC09Alphabet(proto ProtocolType, entry string, nIDs uint32) []vC09Letter {
	var l []vC09Letter
	for _, m := range vC09Methods {
		if (m == "connect+ping" || m == "connect+pingpong" || m == "wait") && entry == "batch" {
			continue // needs virtual time to pass between two commands
		}
		if m == "wait" {
			// not a command: virtual time passes (pong timeout + 100 ms, so that the server's pong check
			// of an answered ping runs while the next ping is not yet due)
			l = append(l, vC09Letter{method: m, id: 0})
			continue
		}
		for id := uint32(0); id < nIDs; id++ {
			l = append(l, vC09Letter{method: m, id: id})
		}
	}
	if entry != "cmd" && entry != "cmdi" {
		full := vC09Encode(proto, vC09Letter{method: "subscribe", id: 1}.command())
		garbage := []byte("\x00\x01garbage")
		if proto == ProtocolTypeProtobuf {
			garbage = []byte{0xff, 0xff, 0xff, 0xff, 0xff, 0xff, 0xff, 0xff, 0xff, 0xff, 0x01, 0x02}
		}
		l = append(l, vC09Letter{method: "truncated", raw: full[:len(full)/2]},
			vC09Letter{method: "garbage", raw: garbage}, vC09Letter{method: "empty", raw: []byte{}})
	}
	return l
}

// ---- environment -------------------------------------------------------------------------------

type vC09Env struct {
	n        *Node
	hmode    string // ok | err | disc
	async    bool
	wg       *sync.WaitGroup
	handlers []string // application handler invocations of the current sequence
}

func (e *vC09Env) hit(name string) {
	vsched.Visible()
	e.handlers = append(e.handlers, name)
}

func (e *vC09Env) answer() error {
	switch e.hmode {
	case "err":
		return ErrorLimitExceeded
	case "disc":
		return DisconnectInvalidToken
	}
	return nil
}

// complete runs a handler callback: inline, or on its own thread (async variant).
func (e *vC09Env) complete(f func()) {
	if !e.async {
		f()
		return
	}
	e.wg.Add(1)
	go func() {
		defer e.wg.Done()
		f()
	}()
}

func vC09NewEnv(hmode string, async bool) *vC09Env {
	e := &vC09Env{hmode: hmode, async: async, wg: &sync.WaitGroup{}}
	n := vNewNode(nil)
	e.n = n
	n.OnConnecting(func(ctx context.Context, ev ConnectEvent) (ConnectReply, error) {
		e.hit("connecting")
		if ev.Token == "refuse" {
			return ConnectReply{}, ErrorPermissionDenied
		}
		if ev.Token == "suberr" {
			return ConnectReply{Credentials: &Credentials{UserID: "u", ExpireAt: time.Now().Unix() + 1000}, ClientSideRefresh: true,
				Subscriptions: map[string]SubscribeOptions{"srv": {ExpireAt: time.Now().Unix() - 10}}}, nil
		}
		return ConnectReply{Credentials: &Credentials{UserID: "u", ExpireAt: time.Now().Unix() + 1000}, ClientSideRefresh: true}, nil
	})
	n.OnCommandRead(func(c *Client, ev CommandReadEvent) error {
		e.hit("command_read")
		return nil
	})
	n.OnCommandProcessed(func(c *Client, ev CommandProcessedEvent) {
		e.hit("command_processed")
	})
	n.OnConnect(func(c *Client) {
		e.hit("connect")
		exp := time.Now().Unix() + 1000
		c.OnSubscribe(func(ev SubscribeEvent, cb SubscribeCallback) {
			e.hit("subscribe")
			e.complete(func() {
				cb(SubscribeReply{Options: SubscribeOptions{ExpireAt: exp, EmitPresence: true}, ClientSideRefresh: true}, e.answer())
			})
		})
		c.OnUnsubscribe(func(ev UnsubscribeEvent) { e.hit("unsubscribe") })
		c.OnPublish(func(ev PublishEvent, cb PublishCallback) {
			e.hit("publish")
			e.complete(func() { cb(PublishReply{}, e.answer()) })
		})
		c.OnPresence(func(ev PresenceEvent, cb PresenceCallback) {
			e.hit("presence")
			e.complete(func() { cb(PresenceReply{}, e.answer()) })
		})
		c.OnPresenceStats(func(ev PresenceStatsEvent, cb PresenceStatsCallback) {
			e.hit("presence_stats")
			e.complete(func() { cb(PresenceStatsReply{}, e.answer()) })
		})
		c.OnHistory(func(ev HistoryEvent, cb HistoryCallback) {
			e.hit("history")
			e.complete(func() { cb(HistoryReply{}, e.answer()) })
		})
		c.OnRPC(func(ev RPCEvent, cb RPCCallback) {
			e.hit("rpc")
			e.complete(func() { cb(RPCReply{Data: []byte(`{}`)}, e.answer()) })
		})
		c.OnMessage(func(ev MessageEvent) { e.hit("message") })
		c.OnRefresh(func(ev RefreshEvent, cb RefreshCallback) {
			e.hit("refresh")
			e.complete(func() { cb(RefreshReply{ExpireAt: exp}, e.answer()) })
		})
		c.OnSubRefresh(func(ev SubRefreshEvent, cb SubRefreshCallback) {
			e.hit("sub_refresh")
			e.complete(func() { cb(SubRefreshReply{ExpireAt: exp}, e.answer()) })
		})
		c.OnDisconnect(func(ev DisconnectEvent) { e.hit("disconnect") })
	})
	if err := n.Run(); err != nil {
		panic(err)
	}
	return e
}

// ---- one sequence ------------------------------------------------------------------------------

type vC09Conn struct {
	cl *vClient
}

func (e *vC09Env) newConn(proto ProtocolType) *vClient {
	t := vNewTransport()
	t.proto = proto
	t.ping = PingPongConfig{PingInterval: 10 * time.Second, PongTimeout: 8 * time.Second}
	if proto == ProtocolTypeJSON {
		return vNewClient(e.n, t, nil)
	}
	c, cf, err := NewClient(context.Background(), e.n, vRawPBTransport{t})
	if err != nil {
		panic(err)
	}
	return &vClient{c: c, t: t, close: cf}
}

// vRawPBTransport records Protobuf replies the way a transport receives them: one bare
// (not length-prefixed) Reply per message. (vTransport.decode expects a length prefix, which
// only the transports' own framing adds.)
type vRawPBTransport struct{ *vTransport }

func (w vRawPBTransport) Write(m []byte) error         { return w.writePB(m) }
func (w vRawPBTransport) WriteMany(ms ...[]byte) error { return w.writePB(ms...) }

func (w vRawPBTransport) writePB(msgs ...[]byte) error {
	vsched.Visible()
	t := w.vTransport
	t.writes++
	if t.closed {
		t.afterClose += len(msgs)
		return io.EOF
	}
	for _, m := range msgs {
		var r protocol.Reply
		if err := r.UnmarshalVT(m); err != nil {
			panic(fmt.Sprintf("verif transport: cannot decode protobuf reply %q: %v", m, err))
		}
		t.frames = append(t.frames, vFrame{Reply: &r, Batch: t.writes, Raw: append([]byte(nil), m...)})
	}
	return nil
}

func vIsPingFrame(f vFrame) bool {
	r := f.Reply
	return r.Id == 0 && r.Error == nil && r.Push == nil && r.Connect == nil && r.Subscribe == nil && r.Unsubscribe == nil &&
		r.Publish == nil && r.Presence == nil && r.PresenceStats == nil && r.History == nil && r.Rpc == nil && r.Refresh == nil && r.SubRefresh == nil
}

// replyCounts counts the replies per id among frames[from:].
func vReplyCounts(t *vTransport, from int) map[uint32]int {
	m := map[uint32]int{}
	for _, f := range t.frames[from:] {
		if f.Reply.Id != 0 {
			m[f.Reply.Id]++
		}
	}
	return m
}

// runSeq feeds seq to a fresh connection and applies the oracle. It returns whether the
// connection is still open afterwards and a short class string describing the outcome.
func (e *vC09Env) runSeq(proto ProtocolType, entry string, seq []vC09Letter) (open bool, class string) {
	cl := e.newConn(proto)
	t := cl.t
	e.handlers = e.handlers[:0]
	var names []string
	for _, l := range seq {
		names = append(names, l.String())
	}
	replay := fmt.Sprintf("proto=%s entry=%s handlers=%s sequence=[%s]", proto.toProto(), entry, e.hmode, strings.Join(names, " "))
	fail := func(sig, format string, a ...any) {
		vsched.Failf(sig, "%s: %s", replay, fmt.Sprintf(format, a...))
	}
	defer func() {
		if p := recover(); p != nil {
			if vsched.Killed() {
				panic(p)
			}
			fail("c09-panic", "panic: %v", p)
			open, class = false, "panic"
		}
		_ = cl.close()
		vsched.WaitIdle()
	}()

	// reference state machine
	seqStartsWithPing := len(seq) > 0 && (seq[0].method == "connect+ping" || seq[0].method == "connect+pingpong")
	state := "fresh"    // fresh | refused | connected | unknown
	pingOut := "no"     // no | yes | unknown: is there an unanswered server ping
	fed := map[uint32]int{}
	stopped := false
	var steps []string

	check := func(i int, l vC09Letter, frames0, handlers0 int, batchEnd bool) {
		closed := t.closed
		// gate
		if (state == "fresh" || state == "refused") && !l.isConnect() && l.method != "wait" {
			switch {
			case !closed:
				fail("c09-gate-not-closed", "command %d (%s) before a successful connect left the connection open", i, l)
			case t.closeDisc.Code != DisconnectBadRequest.Code:
				fail("c09-gate-wrong-disconnect", "command %d (%s) before a successful connect closed with %d, want bad request", i, l, t.closeDisc.Code)
			}
			if len(e.handlers) != handlers0 {
				fail("c09-gate-handler-invoked", "command %d (%s) before a successful connect invoked %v", i, l, e.handlers[handlers0:])
			}
		}
		// reply
		if !batchEnd {
			got := vReplyCounts(t, frames0)
			for id, k := range got {
				if id != l.id || l.raw != nil {
					fail("c09-unsolicited-reply", "command %d (%s) produced %d replies with id %d", i, l, k, id)
				}
			}
			if l.id != 0 && l.raw == nil {
				k := got[l.id]
				if k > 1 {
					fail("c09-duplicate-reply:"+l.method, "command %d (%s) got %d replies", i, l, k)
				}
				if k == 0 && !closed {
					fail("c09-no-reply:"+l.method, "command %d (%s) got no reply and the connection stays open", i, l)
				}
			}
		}
		// pong
		if l.isEmpty() && state == "connected" && pingOut == "no" && !closed {
			fail("c09-pong-without-ping-accepted", "empty command %d with no unanswered server ping left the connection open", i)
		}
	}

	waits := 0
	advance := func(l vC09Letter) {
		// reference transition (independent of the implementation's answers)
		if l.isWait() {
			waits++
			switch {
			case state != "connected":
				state = "unknown" // the stale timer may fire: no claim
			case pingOut == "yes":
				state = "unknown" // unanswered ping: the server closes with no-pong
			case pingOut == "no" && waits == 1 && seqStartsWithPing:
				// the answered ping's pong check has run, the next ping is not due yet: still no ping out
			default:
				pingOut = "unknown"
			}
			return
		}
		switch state {
		case "fresh":
			switch {
			case l.isConnect() && l.id != 0 && l.method != "connect-refused" && l.method != "connect-suberr":
				state = "connected"
				if l.method == "connect+ping" {
					pingOut = "yes"
				}
				// connect+pingpong: the first ping was answered right away, none is outstanding
			case l.isConnect() && l.id != 0:
				state = "refused"
			default:
				state = "unknown" // closed by the gate, or an id-less connect: nothing more is required
			}
		case "refused":
			state = "unknown"
		case "connected":
			if l.id == 0 && l.method != "send" && l.raw == nil {
				if l.isEmpty() && pingOut == "yes" {
					pingOut = "no" // the pong answered the ping
				} else if !l.isEmpty() {
					pingOut = "unknown" // an id-less non-empty command: not a pong by the protocol, no claim
				}
			}
		}
	}

	feed := func(frame []byte, c *protocol.Command) bool {
		if entry == "cmd" || entry == "cmdi" {
			return cl.c.HandleCommand(c, 0)
		}
		return HandleReadFrame(cl.c, bytes.NewReader(frame), 65536)
	}

	if entry == "batch" {
		var buf bytes.Buffer
		for i, l := range seq {
			if l.raw != nil {
				buf.Write(l.raw)
			} else {
				if proto == ProtocolTypeJSON && i > 0 {
					buf.WriteByte('\n')
				}
				buf.Write(vC09Encode(proto, l.command()))
			}
		}
		proceed := feed(buf.Bytes(), nil)
		vsched.WaitIdle()
		closed := t.closed
		// Which commands were fed is not observable in one frame; the reference machine runs as far
		// as it makes claims. Replies are attributed by id, so exactness is checked for ids carried by
		// one command only (the per-command entry points cover repeated ids precisely).
		methodsOf := map[uint32][]string{}
		for i, l := range seq {
			if (state == "fresh" || state == "refused") && !l.isConnect() {
				h0 := len(e.handlers)
				if i == 0 {
					h0 = 0 // nothing may have run at all
				}
				check(i, l, 0, h0, true)
				break
			}
			if l.id != 0 && l.raw == nil {
				fed[l.id]++
				methodsOf[l.id] = append(methodsOf[l.id], l.method)
			}
			if l.isEmpty() && state == "connected" && pingOut == "no" && !closed {
				fail("c09-pong-without-ping-accepted", "empty command %d with no unanswered server ping left the connection open", i)
			}
			advance(l)
			if state == "unknown" {
				break
			}
		}
		got := vReplyCounts(t, 0)
		for id, k := range got {
			if k > fed[id] {
				if fed[id] == 0 {
					fail("c09-unsolicited-reply", "%d replies with id %d, %d commands carried it", k, id, fed[id])
				} else if fed[id] == 1 {
					fail("c09-duplicate-reply:"+methodsOf[id][0], "%d replies with id %d, one command carried it", k, id)
				} else {
					fail("c09-duplicate-reply", "%d replies with id %d, %d commands carried it", k, id, fed[id])
				}
			}
		}
		if !closed {
			for id, k := range fed {
				if k == 1 && got[id] == 0 {
					fail("c09-no-reply:"+methodsOf[id][0], "no reply with id %d and the connection stays open", id)
				}
			}
		}
		open = proceed && !closed
		return open, fmt.Sprintf("batch closed=%v/%d replies=%d handlers=%d", closed, t.closeDisc.Code, len(t.frames), len(e.handlers))
	}

	for i, l := range seq {
		frames0, handlers0 := len(t.frames), len(e.handlers)
		var proceed bool
		if l.isWait() {
			vsched.Advance(int64(8100 * time.Millisecond))
			proceed = true
		} else if l.raw != nil {
			proceed = feed(l.raw, nil)
		} else {
			c := l.command()
			proceed = feed(vC09Encode(proto, c), c)
		}
		vsched.WaitIdle()
		if l.method == "connect+ping" && proceed && !t.closed {
			// let virtual time run until the server's first ping is written
			for k := 0; k < 12; k++ {
				vsched.Advance(vSec)
				pinged := false
				for _, f := range t.frames[frames0:] {
					if vIsPingFrame(f) {
						pinged = true
					}
				}
				if pinged {
					break
				}
			}
		}
		if l.method == "connect+pingpong" && proceed && !t.closed {
			// ... and the client answers it with a pong at once
			for k := 0; k < 12; k++ {
				vsched.Advance(vSec)
				pinged := false
				for _, f := range t.frames[frames0:] {
					if vIsPingFrame(f) {
						pinged = true
					}
				}
				if pinged {
					_ = feed(vC09Encode(proto, &protocol.Command{}), &protocol.Command{})
					vsched.WaitIdle()
					break
				}
			}
		}
		check(i, l, frames0, handlers0, false)
		advance(l)
		steps = append(steps, fmt.Sprintf("%v/%d", t.closed, len(t.frames)-frames0))
		// entry "cmdi": a transport that ignores the reader verdict (the emulation, SSE and HTTP-stream
		// handlers do) keeps feeding commands as long as the connection has not been closed
		if (!proceed && entry != "cmdi") || t.closed {
			stopped = true
			open = false
			// (with the wait letter the instant of the first server ping - jittered by the node's
			// random source, which advances from run to run - decides whether an extension of an open
			// prefix is still open when it is re-run: an early stop is an ordinary end of the sequence)
			break
		}
	}
	if !stopped {
		open = true
	}
	if os.Getenv("VERIF_DEBUG_SEQ") != "" && len(seq) > 0 && seq[0].method == os.Getenv("VERIF_DEBUG_SEQ") {
		fmt.Fprintf(os.Stderr, "DEBUG %s open=%v closed=%v/%d steps=%v handlers=%v frames=%d\n", replay, open, t.closed, t.closeDisc.Code, steps, e.handlers, len(t.frames))
	}
	return open, fmt.Sprintf("closed=%v/%d steps=%v handlers=%d", t.closed, t.closeDisc.Code, steps, len(e.handlers))
}

// ---- enumeration -------------------------------------------------------------------------------

type vC09Stats struct {
	seqs    int
	classes map[string]int
}

func (e *vC09Env) dfs(proto ProtocolType, entry string, alpha []vC09Letter, prefix []vC09Letter, maxLen int, st *vC09Stats) {
	for _, l := range alpha {
		seq := append(append([]vC09Letter(nil), prefix...), l)
		open, class := e.runSeq(proto, entry, seq)
		st.seqs++
		st.classes[class]++
		if open && len(seq) < maxLen {
			e.dfs(proto, entry, alpha, seq, maxLen, st)
		}
	}
}

func vC09Variants(tier string) []vsched.Variant {
	var vs []vsched.Variant
	hmodes := []string{"ok", "err"}
	if tier == "thorough" {
		hmodes = []string{"ok", "err", "disc"}
	}
	for _, proto := range []string{"json", "protobuf"} {
		for _, entry := range []string{"cmd", "frame", "batch"} {
			for _, h := range hmodes {
				if tier != "thorough" && (entry == "batch" && h != "ok" || entry == "cmd" && proto == "protobuf") {
					continue // quick tier: batch frames with ok handlers only; HandleCommand does not depend on the encoding
				}
				shards := 2
				if entry == "batch" {
					shards = 1
				}
				vs = append(vs, vsched.Variant{Name: fmt.Sprintf("%s-%s-%s-len3-ids3", proto, entry, h), Bound: 0, Shards: shards, MaxSteps: 1 << 30, BudgetS: 280})
				if tier == "thorough" && h != "disc" {
					vs = append(vs, vsched.Variant{Name: fmt.Sprintf("%s-%s-%s-len4-ids2", proto, entry, h), Bound: 0, Shards: 4, MaxSteps: 1 << 30, BudgetS: 280})
				}
			}
		}
	}
	// the reader verdict ignored (HandleCommand returned false but the connection was not closed)
	vs = append(vs, vsched.Variant{Name: "json-cmdi-ok-len3-ids3", Bound: 0, Shards: 2, MaxSteps: 1 << 30, BudgetS: 280})
	if tier == "thorough" {
		vs = append(vs, vsched.Variant{Name: "json-cmdi-err-len3-ids3", Bound: 0, Shards: 2, MaxSteps: 1 << 30, BudgetS: 280},
			vsched.Variant{Name: "protobuf-cmdi-ok-len4-ids2", Bound: 0, Shards: 4, MaxSteps: 1 << 30, BudgetS: 280})
	}
	if tier == "thorough" {
		vs = append(vs, vsched.Variant{Name: "async-ok-m7", Bound: 1, Shards: 8, MaxSteps: 1 << 22, BudgetS: 280},
			vsched.Variant{Name: "async-err-m7", Bound: 1, Shards: 8, MaxSteps: 1 << 22, BudgetS: 280},
			vsched.Variant{Name: "async-ok-m2", Bound: 2, Shards: 16, MaxSteps: 1 << 22, BudgetS: 280})
	} else {
		vs = append(vs, vsched.Variant{Name: "async-ok-m3", Bound: 1, Shards: 6, MaxSteps: 1 << 22, BudgetS: 280},
			vsched.Variant{Name: "async-err-m3", Bound: 1, Shards: 6, MaxSteps: 1 << 22, BudgetS: 280})
	}
	return vs
}

// the first 2 / 3 / 7 methods are used by the -m2 / -m3 / -m7 variants
var vC09AsyncMethods = []string{"rpc", "subscribe", "publish", "history", "presence", "presence_stats", "refresh"}

func init() {
	vsched.Register(&vsched.Harness{
		Name: "cmdseq", Props: []string{"C09"}, Kind: "sched",
		Doc: "all command sequences of length <= 3 (quick) / 4 (thorough) over 17 methods (incl. a connect whose first server ping is answered, a connect the application refuses and a connect that fails in a connect-time server-side subscription) x ids {0,1,2} (+ truncated / garbage / empty frames, + a wait of pong-timeout + 100 ms of virtual time) through HandleCommand (cmdi: the reader verdict ignored, commands keep coming until the connection is closed, as the emulation / SSE / HTTP-stream handlers do), HandleReadFrame (one command per frame, whole sequence in one frame) in real JSON and Protobuf encodings, handlers answering ok / *Error / *Disconnect; async-*: two commands whose handler callbacks complete on separate threads, all interleavings within the deviation bound; oracle: authentication gate (bad-request close, zero handler invocations), exactly one reply per id unless closed, pong without ping closes",
		Variants: vC09Variants,
		Sched: func(v vsched.Variant) func() {
			if strings.HasPrefix(v.Name, "async-") {
				p := strings.Split(v.Name, "-")
				return vC09Async(p[1], int(p[2][1]-'0'))
			}
			parts := strings.Split(v.Name, "-")
			proto := ProtocolTypeJSON
			if parts[0] == "protobuf" {
				proto = ProtocolTypeProtobuf
			}
			entry, hmode := parts[1], parts[2]
			maxLen := 3
			if parts[3] == "len4" {
				maxLen = 4
			}
			nIDs := uint32(3)
			if parts[4] == "ids2" {
				nIDs = 2
			}
			alpha := vC09Alphabet(proto, entry, nIDs)
			return func() {
				// The executions partition the sequences by their 2nd (and, for length 4, 3rd) letter;
				// executions are kept short on purpose.
				second := vsched.ChooseFree(len(alpha))
				third := -1
				vsched.Quiet(true)
				getThird := func() int {
					if third < 0 {
						vsched.Quiet(false)
						third = vsched.ChooseFree(len(alpha))
						vsched.Quiet(true)
					}
					return third
				}
				e := vC09NewEnv(hmode, false)
				st := &vC09Stats{classes: map[string]int{}}
				type seqClass struct {
					seq   []vC09Letter
					class string
				}
				var open2 []seqClass
				for _, l1 := range alpha {
					open, class := e.runSeq(proto, entry, []vC09Letter{l1})
					if second == 0 {
						st.seqs++ // sequences of length 1 are counted by the first execution only
						st.classes[class]++
					}
					if !open {
						continue
					}
					seq := []vC09Letter{l1, alpha[second]}
					open, class = e.runSeq(proto, entry, seq)
					if open && maxLen > 2 {
						open2 = append(open2, seqClass{seq, class})
					}
					if !open || maxLen < 4 {
						st.seqs++
						st.classes[class]++
					}
				}
				for _, sc := range open2 {
					if maxLen == 3 {
						e.dfs(proto, entry, alpha, sc.seq, maxLen, st)
						continue
					}
					th := getThird()
					if th == 0 {
						st.seqs++ // open sequences of length 2 are counted by the execution with third == 0
						st.classes[sc.class]++
					}
					seq3 := append(append([]vC09Letter(nil), sc.seq...), alpha[th])
					open, class := e.runSeq(proto, entry, seq3)
					st.seqs++
					st.classes[class]++
					if open {
						e.dfs(proto, entry, alpha, seq3, maxLen, st)
					}
				}
				thirdName := ""
				if third >= 0 {
					thirdName = " third=" + alpha[third].String()
				}
				var cs []string
				for c, k := range st.classes {
					cs = append(cs, fmt.Sprintf("%s x%d", c, k))
				}
				sort.Strings(cs)
				vsched.Logf("%s second=%s%s sequences=%d outcome-classes=%d", v.Name, alpha[second], thirdName, st.seqs, len(cs))
				for _, c := range cs {
					vsched.Logf("  %s", c)
				}
			}
		},
	})
}

// vC09Async: connect, then two commands (every ordered pair of the callback-carrying methods,
// ids 1 and 2) whose handler callbacks are completed by separate threads.
func vC09Async(hmode string, nm int) func() {
	return func() {
		pick := vsched.ChooseFree(nm * nm)
		m1, m2 := vC09AsyncMethods[pick/nm], vC09AsyncMethods[pick%nm]
		vsched.Quiet(true)
		e := vC09NewEnv(hmode, false)
		cl := e.newConn(ProtocolTypeJSON)
		if !cl.c.HandleCommand(vC09Letter{method: "connect", id: 9}.command(), 0) {
			panic("verif: connect refused")
		}
		vsched.WaitIdle()
		e.async = true
		frames0 := len(cl.t.frames)
		vsched.Quiet(false)
		p1 := cl.c.HandleCommand(vC09Letter{method: m1, id: 1}.command(), 0)
		p2 := false
		if p1 {
			p2 = cl.c.HandleCommand(vC09Letter{method: m2, id: 2}.command(), 0)
		}
		e.wg.Wait()
		vsched.WaitIdle()
		vsched.Quiet(true)
		got := vReplyCounts(cl.t, frames0)
		closed := cl.t.closed
		vsched.Logf("async %s#1 %s#2 handlers=%s proceed=%v/%v closed=%v replies=%v", m1, m2, hmode, p1, p2, closed, vFramesFrom(cl.t, frames0))
		replay := fmt.Sprintf("handlers=%s (callbacks on separate threads) sequence=[connect#9 %s#1 %s#2]", hmode, m1, m2)
		for id, k := range got {
			m := map[uint32]string{1: m1, 2: m2}[id]
			if m == "" || (id == 2 && !p1) {
				vsched.Failf("c09-unsolicited-reply", "%s: %d replies with id %d", replay, k, id)
			} else if k > 1 {
				vsched.Failf("c09-duplicate-reply:"+m, "%s: %d replies with id %d", replay, k, id)
			}
		}
		if !closed {
			if got[1] == 0 {
				vsched.Failf("c09-no-reply:"+m1, "%s: no reply with id 1 and the connection stays open", replay)
			}
			if p1 && got[2] == 0 {
				vsched.Failf("c09-no-reply:"+m2, "%s: no reply with id 2 and the connection stays open", replay)
			}
		}
	}
}
