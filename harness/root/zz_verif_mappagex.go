//go:build verif

package centrifuge

import (
	"context"
	"fmt"
	"math"
	"sort"
	"strings"

	"github.com/centrifugal/centrifuge/internal/zzverif/vsched"
)

// mappagex (C21): for every state of a small key universe (every subset, every assignment of
// scores including ties and the int64 extremes), built in two different ways on a fresh
// MemoryMapBroker, the state is paginated with every page size in every direction (also with an
// ascending and a descending paginator interleaved page by page on the same broker) and every
// key is read alone. No clock is involved (state does not change while it is paginated), so this
// is a self-enumerating harness.

type mpCfg struct {
	name     string
	mode     MapMode
	ordered  bool
	universe []string
	scores   []int64
	shards   int
}

var mpCfgs = map[string]*mpCfg{}

var (
	mpPlainKeys = []string{"a", "b", "c", "d", "e"}
	mpOddKeys   = []string{"-1", "a", "a\x00", "a\x00b", "b"}
	mpScoresQ   = []int64{math.MinInt64, -1, 0, 1, math.MaxInt64}
	mpScoresT   = []int64{math.MinInt64, math.MinInt64 + 1, -1, 0, 1, math.MaxInt64 - 1, math.MaxInt64}
)

func mpVariants(tier string) []vsched.Variant {
	var out []vsched.Variant
	add := func(c *mpCfg) {
		mpCfgs[c.name] = c
		out = append(out, vsched.Variant{Name: c.name, Shards: c.shards, BudgetS: 280})
	}
	if tier != "thorough" {
		add(&mpCfg{name: "ordered/persistent/plain-keys", mode: MapModePersistent, ordered: true, universe: mpPlainKeys, scores: mpScoresQ, shards: 8})
		add(&mpCfg{name: "unordered/persistent/plain-keys", mode: MapModePersistent, universe: mpPlainKeys, scores: []int64{0, 1}, shards: 1})
		add(&mpCfg{name: "unordered/ephemeral/odd-keys", mode: MapModeEphemeral, universe: mpOddKeys, scores: []int64{0}, shards: 1})
		add(&mpCfg{name: "ordered/recoverable/odd-keys", mode: MapModeRecoverable, ordered: true, universe: mpOddKeys, scores: []int64{math.MinInt64, 0, math.MaxInt64}, shards: 2})
		return out
	}
	for _, mode := range []MapMode{MapModePersistent, MapModeRecoverable, MapModeEphemeral} {
		for ui, u := range [][]string{mpPlainKeys, mpOddKeys} {
			un := []string{"plain-keys", "odd-keys"}[ui]
			add(&mpCfg{name: "ordered/" + mxModeName(mode) + "/" + un, mode: mode, ordered: true, universe: u, scores: mpScoresT, shards: 16})
			add(&mpCfg{name: "unordered/" + mxModeName(mode) + "/" + un, mode: mode, universe: u, scores: []int64{0, 1, -1}, shards: 2})
		}
	}
	return out
}

func init() {
	vsched.Register(&vsched.Harness{
		Name: "mappagex", Props: []string{"C21"}, Kind: "enum",
		Doc: "MemoryMapBroker state pagination: every subset of a 5-key universe (plain keys a-e; odd keys containing NUL / looking like a score) x every score assignment from " +
			"{MinInt64,-1,0,1,MaxInt64} (thorough: 7 values), built directly or through churn (read first, publish all, warm the sort cache, remove / re-score); page sizes 1..6 and -1, " +
			"ascending / descending / unordered, plus interleaved ascending+descending paginators on one broker; oracle: concatenated pages = reference sort order with every key exactly once, " +
			"every page with a continuation cursor is non-empty and not larger than the limit, at most n pages, single-key reads return exactly the stored entry (or nothing)",
		Variants: mpVariants,
		Enum:     func(v vsched.Variant, e *vsched.Enum) { mpEnum(mpCfgs[v.Name], e) },
	})
}

type mpEntry struct {
	key   string
	score int64
	data  string
	off   uint64
}

func mpKeyName(k string) string { return strings.ReplaceAll(k, "\x00", "\\0") }

func mpEnum(cfg *mpCfg, e *vsched.Enum) {
	n := len(cfg.universe)
	base := len(cfg.scores) + 1 // digit 0: key absent, digit i: score[i-1]
	total := int64(1)
	for i := 0; i < n; i++ {
		total *= int64(base)
	}
	digits := make([]int, n)
	for idx := int64(0); idx < total; idx++ {
		if e.Expired() {
			return
		}
		if !e.Mine(idx) {
			continue
		}
		x := idx
		for i := 0; i < n; i++ {
			digits[i] = int(x % int64(base))
			x /= int64(base)
		}
		for _, build := range []string{"direct", "churn"} {
			mpCase(cfg, e, digits, build)
		}
	}
}

func mpCase(cfg *mpCfg, e *vsched.Enum, digits []int, build string) {
	ctx := context.Background()
	const ch = "c1"
	chanCfg := mxChanCfgFor(cfg.mode, cfg.ordered, 0)
	resolve := func(string) MapChannelOptions { return chanCfg.options() }
	b := vNewMapBroker(resolve, &vMapRecorder{}, false, ch)

	var replay []string
	ops := 0
	var top uint64
	state := map[string]*mpEntry{}
	publish := func(k string, score int64, data string) {
		ops++
		replay = append(replay, fmt.Sprintf("publish %s score=%d data=%s", mpKeyName(k), score, data))
		if _, err := b.Publish(ctx, ch, k, MapPublishOptions{Data: []byte(data), score: score}); err != nil {
			panic(err)
		}
		var off uint64
		if cfg.mode.HasStream() {
			top++
			off = top
		}
		state[k] = &mpEntry{key: k, score: score, data: data, off: off}
	}
	remove := func(k string) {
		ops++
		replay = append(replay, "remove "+mpKeyName(k))
		if _, err := b.Remove(ctx, ch, k, MapRemoveOptions{}); err != nil {
			panic(err)
		}
		if cfg.mode.HasStream() {
			top++
		}
		delete(state, k)
	}
	switch build {
	case "direct":
		for i, k := range cfg.universe {
			if digits[i] > 0 {
				publish(k, cfg.scores[digits[i]-1], "v-"+mpKeyName(k))
			}
		}
	case "churn":
		replay = append(replay, "read state (channel created by a read)")
		if _, err := b.ReadState(ctx, ch, MapReadStateOptions{Limit: -1}); err != nil {
			panic(err)
		}
		for i := len(cfg.universe) - 1; i >= 0; i-- {
			publish(cfg.universe[i], 0, "old")
		}
		replay = append(replay, "read state desc, asc (sort cache warm)")
		for _, asc := range []bool{false, true} {
			if _, err := b.ReadState(ctx, ch, MapReadStateOptions{Limit: 2, Asc: asc}); err != nil {
				panic(err)
			}
		}
		for i, k := range cfg.universe {
			if digits[i] == 0 {
				remove(k)
			} else {
				publish(k, cfg.scores[digits[i]-1], "v-"+mpKeyName(k))
			}
		}
	}

	// reference order
	want := func(asc bool) []string {
		var ks []string
		for k := range state {
			ks = append(ks, k)
		}
		sort.Strings(ks)
		if !cfg.ordered {
			return ks
		}
		sort.SliceStable(ks, func(i, j int) bool {
			a, c := state[ks[i]], state[ks[j]]
			if a.score != c.score {
				if asc {
					return a.score < c.score
				}
				return a.score > c.score
			}
			if asc {
				return ks[i] < ks[j]
			}
			return ks[i] > ks[j]
		})
		return ks
	}
	ties := false
	{
		seen := map[int64]bool{}
		for _, s := range state {
			if seen[s.score] {
				ties = true
			}
			seen[s.score] = true
		}
	}
	orderName := func(asc bool) string {
		if !cfg.ordered {
			return "unordered"
		}
		if asc {
			return "asc"
		}
		return "desc"
	}
	fail := func(sig, msg string, extra ...string) {
		e.Fail(sig, msg, append(append([]string{"variant " + cfg.name + " build " + build}, replay...), extra...))
	}

	type paginator struct {
		asc    bool
		limit  int
		cursor string
		got    []string
		pages  int
		done   bool
		log    []string
	}
	// step reads one page; returns false when the paginator is finished (or failed).
	step := func(p *paginator) {
		ops++
		res, err := b.ReadState(ctx, ch, MapReadStateOptions{Limit: p.limit, Cursor: p.cursor, Asc: p.asc})
		p.pages++
		var ks []string
		for _, pub := range res.Publications {
			ks = append(ks, mpKeyName(pub.Key))
		}
		p.log = append(p.log, fmt.Sprintf("ReadState(limit=%d asc=%v cursor=%q) -> %v next=%q err=%v", p.limit, p.asc, p.cursor, ks, res.Cursor, err))
		if err != nil {
			fail("page-error:"+orderName(p.asc), err.Error(), p.log...)
			p.done = true
			return
		}
		if p.limit > 0 && len(res.Publications) > p.limit {
			fail("page-too-large:"+orderName(p.asc), fmt.Sprintf("page of %d entries for limit %d", len(res.Publications), p.limit), p.log...)
		}
		if len(res.Publications) == 0 && res.Cursor != "" {
			fail("no-progress:empty-page-with-cursor:"+orderName(p.asc), "empty page with a continuation cursor", p.log...)
			p.done = true
			return
		}
		for _, pub := range res.Publications {
			p.got = append(p.got, pub.Key)
			st := state[pub.Key]
			if st == nil || string(pub.Data) != st.data || pub.Offset != st.off || pub.Removed || (cfg.ordered && pub.Score != st.score) {
				fail("page-entry-mismatch:"+orderName(p.asc), fmt.Sprintf("page entry %s differs from the stored entry", mxPubsDesc([]*Publication{pub})), p.log...)
			}
		}
		if res.Cursor == "" {
			p.done = true
			return
		}
		if p.pages > len(state)+1 {
			fail("no-progress:too-many-pages:"+orderName(p.asc), fmt.Sprintf("%d pages for %d keys and still a cursor", p.pages, len(state)), p.log...)
			p.done = true
			return
		}
		p.cursor = res.Cursor
	}
	check := func(p *paginator, interleaved bool) {
		w := want(p.asc)
		sfx := orderName(p.asc)
		if interleaved {
			sfx += ":interleaved"
		}
		count := map[string]int{}
		for _, k := range p.got {
			count[k]++
		}
		bad := ""
		for _, k := range w {
			if count[k] > 1 {
				bad = "page-duplicate-key:"
			}
		}
		if bad == "" {
			for _, k := range w {
				if count[k] == 0 {
					bad = "page-missing-key:"
				}
			}
		}
		if bad == "" && len(p.got) != len(w) {
			bad = "page-phantom-key:"
		}
		if bad == "" {
			for i := range w {
				if w[i] != p.got[i] {
					bad = "page-order:"
					if ties {
						bad = "page-order-ties:"
					}
					break
				}
			}
		}
		if bad != "" {
			var wn, gn []string
			for _, k := range w {
				wn = append(wn, mpKeyName(k))
			}
			for _, k := range p.got {
				gn = append(gn, mpKeyName(k))
			}
			fail(bad+sfx, fmt.Sprintf("limit %d: pages concatenate to %v, reference order %v", p.limit, gn, wn), p.log...)
		}
		cls := fmt.Sprintf("%s/%s/n%d/l%d/p%d/ties=%v/il=%v", build, orderName(p.asc), len(w), p.limit, p.pages, ties, interleaved)
		e.Case(cls, p.pages)
	}

	dirs := []bool{false}
	if cfg.ordered {
		dirs = []bool{false, true}
	}
	limits := []int{1, 2, 3, 4, 5, 6, -1}
	for _, limit := range limits {
		for _, asc := range dirs {
			p := &paginator{asc: asc, limit: limit}
			for !p.done {
				step(p)
			}
			check(p, false)
		}
		if cfg.ordered && limit > 0 && limit < 4 {
			// two paginators of opposite direction, one page each in turn
			pa, pd := &paginator{asc: true, limit: limit}, &paginator{asc: false, limit: limit}
			for !pa.done || !pd.done {
				if !pd.done {
					step(pd)
				}
				if !pa.done {
					step(pa)
				}
			}
			check(pd, true)
			check(pa, true)
		}
	}
	// limit 0: position only
	if res, err := b.ReadState(ctx, ch, MapReadStateOptions{Limit: 0}); err != nil || len(res.Publications) != 0 || res.Cursor != "" {
		fail("limit-zero-returns-entries", fmt.Sprintf("Limit 0 returned %s cursor %q err %v", mxPubsDesc(res.Publications), res.Cursor, err))
	}
	// single-key reads (Cursor and Limit are documented to be ignored)
	for _, k := range cfg.universe {
		for _, o := range []MapReadStateOptions{{Key: k}, {Key: k, Limit: 0, Cursor: "zzz", Asc: true}} {
			ops++
			res, err := b.ReadState(ctx, ch, o)
			st := state[k]
			switch {
			case err != nil:
				fail("key-read-error", err.Error())
			case st == nil && len(res.Publications) != 0:
				fail("key-read-phantom", fmt.Sprintf("key %s is absent but read %s", mpKeyName(k), mxPubsDesc(res.Publications)))
			case st != nil && len(res.Publications) != 1:
				fail("key-read-count", fmt.Sprintf("key %s is stored but read %s", mpKeyName(k), mxPubsDesc(res.Publications)))
			case st != nil:
				p := res.Publications[0]
				if p.Key != k || string(p.Data) != st.data || p.Offset != st.off || p.Removed || (cfg.ordered && p.Score != st.score) {
					fail("key-read-mismatch", fmt.Sprintf("key %s read %s, stored %s@%d score %d", mpKeyName(k), mxPubsDesc(res.Publications), st.data, st.off, st.score))
				}
			}
		}
	}
	e.Case(fmt.Sprintf("keyreads/%s/n%d", build, len(state)), ops)
	e.State()
}
