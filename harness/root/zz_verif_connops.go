//go:build verif

package centrifuge

import (
	"errors"
	"fmt"
	"sort"
	"strings"
	"sync"
	"time"

	"github.com/centrifugal/centrifuge/internal/zzverif/vhelp"
	"github.com/centrifugal/centrifuge/internal/zzverif/vsched"
	"github.com/centrifugal/protocol"
	"github.com/prometheus/client_golang/prometheus"
)

// connops (E1): concurrent connection-lifecycle operations on one actor connection, observed by
// a second connection, with one oracle per property:
//   C04 routing == subscription state, C05 nothing survives a closed connection, C06 presence,
//   C07 join/leave pairing, C08 callback order, C10 push bracketing.
// Each property registers the same scenarios with its own oracle switched on.

type connopsCfg struct {
	ops        []string // concurrent operations, one thread each
	presub     bool     // actor subscribed before the concurrent phase
	async      bool     // subscribe callback completed by a separate thread
	positioned bool     // channel with history + recovery
	presence   bool
	joinLeave  bool
	horizon    time.Duration // virtual-time window during the concurrent phase (timer-first deviations)
	delta      bool          // the actor subscribes with fossil delta (positioned channels)
	bound      int           // deviation bound override for this scenario (0: the set's bound; -1: bound 0)
	slowBroker bool          // Broker.Subscribe of connopsSlowCh takes 7 s of virtual time (op oslow holds the channel's subLock that long)
	failLeave  bool          // the broker may fail PublishLeave (environment choice, one deviation per failure)
	batch      bool          // per-channel batching for ch (MaxSize 1: every push goes through a channel writer)
	failPresRm bool          // the presence manager may fail RemovePresence (environment choice)
}

// connopsPresence: the environment answer "the presence backend fails the removal".
type connopsPresence struct{ PresenceManager }

func (p connopsPresence) RemovePresence(ch string, clientID string, userID string) error {
	if !vschedQuiet() && vsched.Choose(2) == 1 {
		return errors.New("presence: i/o timeout")
	}
	return p.PresenceManager.RemovePresence(ch, clientID, userID)
}

// connopsLeaveBroker: the environment answer "the broker fails the leave publication".
type connopsLeaveBroker struct{ Broker }

func (b connopsLeaveBroker) PublishLeave(ch string, info *ClientInfo) error {
	if !vschedQuiet() && vsched.Choose(2) == 1 {
		return errors.New("broker: i/o timeout")
	}
	return b.Broker.PublishLeave(ch, info)
}

// connopsSlowBroker: the environment answer "the broker is slow": Subscribe for one channel
// takes 7 s of virtual time. Node.addSubscription calls it holding the channel's subLock.
type connopsSlowBroker struct {
	Broker
	ch string
}

func (b connopsSlowBroker) Subscribe(chs ...string) error {
	for _, ch := range chs {
		if ch == b.ch && !vschedQuiet() {
			vsched.Sleep(int64(7 * time.Second))
		}
	}
	return b.Broker.Subscribe(chs...)
}

// connopsSlowCh is a channel whose subLock is the one of "ch" (the lock table is striped by a hash
// of the channel name; two channels sharing a stripe is an ordinary situation).
var connopsSlowCh = func() string {
	for i := 0; ; i++ {
		name := fmt.Sprintf("slow%d", i)
		if index(name, numSubLocks) == index("ch", numSubLocks) {
			return name
		}
	}
}()

func (c connopsCfg) name() string {
	n := fmt.Sprintf("%s/presub%v/async%v/pos%v/pres%v/jl%v/h%d", strings.Join(c.ops, "+"), c.presub, c.async, c.positioned, c.presence, c.joinLeave, c.horizon/time.Second)
	if c.delta {
		n += "/delta"
	}
	if c.slowBroker {
		n += "/slowbroker"
	}
	if c.failLeave {
		n += "/leave-may-fail"
	}
	if c.batch {
		n += "/batched"
	}
	if c.failPresRm {
		n += "/presence-removal-may-fail"
	}
	return n
}

var connopsCfgs = map[string]connopsCfg{}

type connopsSet struct {
	prop   string
	quick  []connopsCfg
	thor   []connopsCfg
	qBound int
	tBound int
	doc    string
}

func connopsRegister(s connopsSet) {
	mk := func(tier string) []vsched.Variant {
		cfgs, bound, shards, budget := s.quick, s.qBound, 1, 200
		if tier == "thorough" {
			cfgs, bound, shards, budget = append(append([]connopsCfg{}, s.quick...), s.thor...), s.tBound, 4, 150
		}
		var out []vsched.Variant
		for _, c := range cfgs {
			connopsCfgs[c.name()] = c
			b, sh := bound, shards
			if c.bound > b {
				b, sh = c.bound, 4
			}
			if c.bound < 0 { // all orders at blocking points only
				b, sh = 0, 2
			}
			out = append(out, vsched.Variant{Name: c.name(), Bound: b, Shards: sh, BudgetS: budget})
		}
		return out
	}
	prop := s.prop
	vsched.Register(&vsched.Harness{
		Name: "connops-" + prop, Props: []string{prop}, Kind: "sched",
		Doc:      "node, actor connection A (user u) and observer connection O; one thread per operation from {sub: client subscribe, unsub: client unsubscribe, nsub: Node.Subscribe(u,ch), nunsub: Node.Unsubscribe(u,ch), disc: Client.Disconnect, ndisc: Node.Disconnect(u), close: transport close, pub: publish to ch, tick: presence tick, resub: unsubscribe+subscribe}, sync/async subscribe callback, positioned or not, then settle + marker publication; oracle " + prop + ": " + s.doc,
		Variants: mk,
		Sched:    func(v vsched.Variant) func() { return connopsBody(connopsCfgs[v.Name], prop) },
	})
}

func init() {
	// An op string is one thread; commas separate sequential steps of that thread. All client
	// commands of A are issued by ONE thread (the connection's reader processes commands
	// sequentially); concurrency comes from asynchronous subscribe callbacks, server-side API
	// calls, publications, ticks and closes.
	c := func(presub, async, pos bool, ops ...string) connopsCfg {
		return connopsCfg{ops: ops, presub: presub, async: async, positioned: pos, presence: true, joinLeave: true}
	}
	withH := func(x connopsCfg, h time.Duration) connopsCfg { x.horizon = h; return x }
	withDelta := func(x connopsCfg) connopsCfg { x.delta = true; return x }
	withB := func(x connopsCfg, b int) connopsCfg { x.bound = b; return x }
	withSlow := func(x connopsCfg) connopsCfg { x.slowBroker = true; return x }
	withLeaveFail := func(x connopsCfg) connopsCfg { x.failLeave = true; return x }
	withBatch := func(x connopsCfg) connopsCfg { x.batch = true; return x }
	withPresFail := func(x connopsCfg) connopsCfg { x.failPresRm = true; return x }
	connopsRegister(connopsSet{prop: "C04", qBound: 1, tBound: 2,
		doc: "marker delivered to A iff A reports itself subscribed, at most once; exactly one hub routing entry with A's generation iff subscribed; none for a closed connection",
		quick: []connopsCfg{
			c(false, true, false, "sub,unsub"), c(false, false, false, "sub", "nunsub"), c(false, false, false, "sub", "nsub"), c(true, false, false, "unsub", "nsub"),
			c(false, false, false, "nsub", "nunsub"), c(false, true, false, "sub", "disc"), c(true, true, false, "unsub,sub", "nunsub"), c(false, true, true, "sub,unsub"),
			withH(c(false, true, false, "sub,unsub,sub"), 6*time.Second),
			withDelta(c(true, false, true, "unsub", "pub")), withDelta(c(true, false, false, "unsub", "pub")),
			// a server-side subscribe held up on the channel's subLock stripe (slow broker answering another
			// channel's first subscribe) beyond the 5 s wait gate of a client unsubscribe, then a retry and a
			// fresh subscribe queue up behind it: no deviation needed, virtual time advances at quiescence
			withB(withSlow(withH(c(false, false, false, "oslow", "nsub", "unsub,unsub,sub"), 8*time.Second)), -1),
			// the subscription ends while the broker fails the leave publication; a batched channel is left and entered again
			withLeaveFail(c(true, false, false, "unsub")), withLeaveFail(c(true, false, false, "nunsub")), withLeaveFail(c(true, false, false, "unsub,sub")),
			withBatch(c(true, false, false, "unsub,sub")), withBatch(c(true, false, false, "nunsub,nsub")),
		},
		thor: []connopsCfg{
			c(false, true, false, "sub,unsub", "nsub"), c(true, false, false, "unsub", "nsub", "disc"), c(false, true, true, "sub,unsub", "pub"),
			c(true, true, false, "unsub,sub", "nunsub", "nsub"), c(false, false, false, "nsub", "nunsub", "sub"), withH(c(false, true, false, "sub,unsub,sub", "nunsub"), 6*time.Second),
			// a server-side subscribe held up beyond the 5 s wait gate of a client unsubscribe (preempted, timer
			// first, reader preferred over the stalled thread: three deviations), then a retry and a fresh
			// subscribe before it resumes; budget-capped
			withB(withH(c(false, false, false, "nsub", "unsub,unsub,sub"), 6*time.Second), 3),
		}})
	connopsRegister(connopsSet{prop: "C10", qBound: 1, tBound: 2,
		doc: "no publication / join / leave push for ch on A before the subscribe reply (or subscribe push) and none after the unsubscribe reply (or unsubscribe push) until a new bracket opens",
		quick: []connopsCfg{
			withB(withSlow(withH(c(false, false, false, "oslow", "nsub", "unsub,unsub,sub"), 8*time.Second)), -1), // see C04
			c(false, false, false, "sub", "pub"), c(false, false, true, "sub", "pub"), c(true, false, false, "unsub", "pub"), c(true, false, true, "unsub", "pub"),
			c(false, false, false, "nsub", "pub"), c(true, false, false, "nunsub", "pub"), c(false, false, false, "sub", "ojoin"), c(true, false, false, "unsub", "ojoin"),
			c(true, false, false, "unsub,sub", "pub"), c(false, true, false, "sub,unsub", "pub"),
			c(false, false, true, "nsub", "pub"), c(true, false, true, "nunsub", "pub"),
		},
		thor: []connopsCfg{
			c(false, true, true, "sub,unsub", "pub"), c(false, false, false, "nsub", "pub", "nunsub"), c(true, false, true, "unsub,sub", "pub"), c(false, true, false, "sub,unsub", "pub", "ojoin"),
		}})
	connopsRegister(connopsSet{prop: "C07", qBound: 1, tBound: 2,
		doc: "observer's join/leave pushes for A alternate join,leave,...; a still-subscribed A ends with join, otherwise with leave or nothing; number of leaves equals the number of unsubscribe callbacks; number of joins equals the number of established subscriptions (ended + still open)",
		quick: []connopsCfg{
			withPresFail(c(true, false, false, "unsub")), withPresFail(c(true, false, false, "nunsub")), withPresFail(c(true, false, false, "close")), // the presence backend may fail the removal: the leave is still due
			withB(withSlow(withH(c(false, false, false, "oslow", "nsub", "unsub,unsub,sub"), 8*time.Second)), -1), // see C04
			c(false, true, false, "sub,unsub"), c(false, true, false, "sub", "disc"), c(false, false, false, "sub", "ndisc"), c(false, false, false, "nsub", "disc"),
			c(false, false, false, "nsub", "nunsub"), c(false, true, false, "sub,close"), c(true, false, false, "unsub,sub", "disc"),
		},
		thor: []connopsCfg{c(false, true, false, "sub,unsub", "disc"), c(false, false, false, "nsub", "nunsub", "ndisc"), c(true, true, false, "unsub,sub,close", "nunsub")}})
	connopsRegister(connopsSet{prop: "C06", qBound: 1, tBound: 2,
		doc: "at quiescence the channel presence contains A (with its user) iff A holds a subscription with presence",
		quick: []connopsCfg{
			withB(withSlow(withH(c(false, false, false, "oslow", "nsub", "unsub,unsub,sub"), 8*time.Second)), -1), // see C04
			c(false, false, false, "sub", "tick"), c(true, false, false, "unsub", "tick"), c(true, false, false, "disc", "tick"), c(false, true, false, "sub,unsub", "tick"),
			c(true, false, false, "unsub,sub", "tick"), c(false, false, false, "nsub", "tick"), c(true, false, false, "nunsub", "tick"),
		},
		thor: []connopsCfg{c(true, false, false, "tick", "tick", "unsub"), c(false, true, false, "sub", "disc", "tick"), c(true, true, false, "unsub,sub,close", "tick")}})
	connopsRegister(connopsSet{prop: "C05", qBound: 1, tBound: 2,
		doc: "after A is closed and operations settle: no hub client/user/session entry, no routing entry, no presence entry, subscription and connection gauges back to the values before A connected",
		quick: []connopsCfg{
			withLeaveFail(c(true, false, false, "unsub")), withLeaveFail(c(true, false, false, "nunsub")), withLeaveFail(c(true, false, false, "close")), // the broker may fail the leave publication
			withB(withSlow(withH(c(false, false, false, "oslow", "nsub", "unsub,unsub,sub"), 8*time.Second)), -1), // see C04
			c(false, false, false, "sub", "disc"), c(false, true, false, "sub,close"), c(false, false, true, "sub", "ndisc"), c(false, false, false, "nsub", "disc"),
			c(true, false, false, "tick", "disc"), c(true, true, false, "unsub,sub,close"), c(false, true, true, "sub", "disc"),
		},
		thor: []connopsCfg{c(false, true, false, "sub", "nsub", "disc"), c(true, false, false, "tick", "unsub", "ndisc"), c(false, true, true, "sub", "pub", "ndisc")}})
	connopsRegister(connopsSet{prop: "C08", qBound: 1, tBound: 2,
		doc: "callback log: disconnect at most once and only after connect; no alive after disconnect; exactly one unsubscribe callback per established subscription that ended; none of A's callbacks before its connect callback",
		quick: []connopsCfg{
			withLeaveFail(c(true, false, false, "unsub")), withLeaveFail(c(true, false, false, "nunsub")), withLeaveFail(c(true, false, false, "close")), // the broker may fail the leave publication
			withB(withSlow(withH(c(false, false, false, "oslow", "nsub", "unsub,unsub,sub"), 8*time.Second)), -1), // see C04
			c(true, false, false, "tick", "disc"), c(false, false, false, "sub", "disc"), c(true, false, false, "unsub", "disc"), c(true, false, false, "nunsub", "close"),
			c(true, false, false, "disc", "ndisc"), c(false, true, false, "sub,unsub"), c(true, false, false, "unsub", "nunsub"),
		},
		thor: []connopsCfg{c(true, false, false, "tick", "disc", "close"), c(false, true, false, "sub,unsub", "disc"), c(true, false, false, "unsub", "nunsub", "ndisc")}})
}

func vGaugeSum(g *prometheus.GaugeVec) float64 { return vhelp.GaugeSum(g) }

func connopsBody(cfg connopsCfg, prop string) func() {
	return func() {
		vsched.Quiet(true)
		const ch = "ch"
		var events []string // callback log
		ev := func(format string, a ...any) {
			vsched.Visible()
			events = append(events, fmt.Sprintf(format, a...))
		}
		n := vNewNode(func(c *Config) {
			if cfg.batch {
				c.GetChannelBatchConfig = func(name string) ChannelBatchConfig {
					if name == ch {
						return ChannelBatchConfig{MaxSize: 1}
					}
					return ChannelBatchConfig{}
				}
			}
		})
		var actorID string
		subOpts := func() SubscribeOptions {
			o := SubscribeOptions{EmitPresence: cfg.presence, EmitJoinLeave: cfg.joinLeave, PushJoinLeave: true}
			if cfg.positioned {
				o.EnableRecovery = true
				o.EnablePositioning = true
			}
			if cfg.delta {
				o.AllowedDeltaTypes = []DeltaType{DeltaTypeFossil}
			}
			return o
		}
		n.OnConnect(func(c *Client) {
			who := "O"
			if c.UserID() == "u" {
				who = "A"
				ev("A:connect")
			}
			c.OnSubscribe(func(e SubscribeEvent, cb SubscribeCallback) {
				if who == "A" {
					ev("A:subscribe:%s", e.Channel)
				}
				reply := SubscribeReply{Options: subOpts()}
				if who == "A" && cfg.async && !vschedQuiet() {
					go cb(reply, nil)
					return
				}
				cb(reply, nil)
			})
			c.OnUnsubscribe(func(e UnsubscribeEvent) {
				if who == "A" {
					ev("A:unsubscribe:%s:%d", e.Channel, e.Code)
				}
			})
			c.OnDisconnect(func(e DisconnectEvent) {
				if who == "A" {
					ev("A:disconnect:%d", e.Code)
				}
			})
			c.OnAlive(func() {
				if who == "A" {
					ev("A:alive")
				}
			})
		})
		if cfg.slowBroker {
			n.SetBroker(connopsSlowBroker{Broker: n.broker, ch: connopsSlowCh})
		}
		if cfg.failLeave {
			n.SetBroker(connopsLeaveBroker{Broker: n.broker})
		}
		if cfg.failPresRm {
			n.SetPresenceManager(connopsPresence{PresenceManager: n.presenceManager})
		}
		if err := n.Run(); err != nil {
			panic(err)
		}
		connGauge0 := vGaugeSum(n.metrics.connectionsInflight)
		obs := vNewClient(n, vNewTransport(), &Credentials{UserID: "o"})
		obs.connect()
		obs.subscribe(ch)
		vsched.WaitIdle()
		connGauge1 := vGaugeSum(n.metrics.connectionsInflight)
		subGauge1 := vGaugeSum(n.metrics.subscriptionsInflight)
		act := vNewClient(n, vNewTransport(), &Credentials{UserID: "u"})
		act.connect()
		if cfg.delta {
			act.delta = string(DeltaTypeFossil)
		}
		actorID = act.c.ID()
		pubN := 0
		publish := func(tag string) {
			pubN++
			data := []byte(fmt.Sprintf(`{"%s":%d}`, tag, pubN))
			var err error
			if cfg.positioned {
				_, err = n.Publish(ch, data, WithHistory(10, time.Minute), WithDelta(cfg.delta))
			} else {
				_, err = n.Publish(ch, data, WithDelta(cfg.delta))
			}
			if err != nil {
				panic(err)
			}
		}
		if cfg.positioned {
			publish("pre")
		}
		if cfg.presub {
			act.subscribe(ch)
		}
		if cfg.batch && cfg.presub {
			publish("setup") // the channel writer of the connection exists from here on
		}
		vsched.WaitIdle()
		vschedSetQuiet(false)
		vsched.Quiet(false)
		if cfg.horizon > 0 {
			vsched.SetHorizon(int64(cfg.horizon))
		}

		// ---- concurrent phase
		var wg sync.WaitGroup
		for _, op := range cfg.ops {
			op := op
			wg.Add(1)
			go func() {
				defer wg.Done()
				for _, step := range strings.Split(op, ",") {
					connopsStep(step, cfg, n, act, publish)
				}
			}()
		}
		wg.Wait()
		vsched.WaitIdle()
		if cfg.horizon > 0 {
			vsched.Advance(int64(cfg.horizon))
		}
		vsched.Quiet(true)
		vschedSetQuiet(true)
		framesBeforeMarker := len(act.t.frames)
		publish("marker")
		vsched.WaitIdle()

		// ---- observations
		closed := act.c.status == statusClosed
		subscribed := act.c.IsSubscribed(ch)
		for _, l := range act.t.log() {
			vsched.Logf("A %s", l)
		}
		for _, f := range obs.t.frames {
			if p := f.Reply.Push; p != nil && (p.Join != nil && p.Join.Info.GetClient() == actorID || p.Leave != nil && p.Leave.Info.GetClient() == actorID) {
				vsched.Logf("O %s", strings.Replace(f.describe(), actorID, "A", 1))
			}
		}
		vsched.Logf("events=%v closed=%v subscribed=%v", events, closed, subscribed)
		all := strings.Join(act.t.log(), " | ")

		switch prop {
		case "C04":
			markers := 0
			for _, f := range act.t.frames[framesBeforeMarker:] {
				if p := f.Reply.Push; p != nil && p.Channel == ch && p.Pub != nil && strings.Contains(string(p.Pub.Data), "marker") {
					markers++
				}
			}
			if subscribed && markers != 1 {
				vsched.Failf("subscribed-not-routed", "A reports subscribed but received the marker %d times: %s", markers, all)
			}
			if !subscribed && markers != 0 {
				vsched.Failf("routed-not-subscribed", "A is not subscribed (closed=%v) but received the marker %d times: %s", closed, markers, all)
			}
			sub, has := vHubSub(n, ch, actorID)
			if subscribed {
				if !has {
					vsched.Failf("no-hub-entry", "A subscribed but no routing entry: %s", all)
				} else if sub.subGen != act.c.channels[ch].subGen {
					vsched.Failf("hub-gen-mismatch", "routing entry generation %d, client generation %d", sub.subGen, act.c.channels[ch].subGen)
				}
			} else if has {
				vsched.Failf("stale-hub-entry", "A not subscribed (closed=%v) but a routing entry exists: %s", closed, all)
			}
			if len(act.c.Channels()) != boolInt(subscribed) {
				vsched.Failf("channels-mismatch", "Channels()=%v but IsSubscribed=%v (reservation left behind?)", act.c.Channels(), subscribed)
			}
		case "C10":
			open := false
			everOpen := false
			// closing frames seen so far vs. subscriptions that really ended (unsubscribe callbacks):
			// an unsubscribe push that ended nothing (Client.Unsubscribe sends it unconditionally) is
			// its own class of finding
			closes := 0
			c10UnsubCB := 0
			for _, e := range events {
				if strings.HasPrefix(e, "A:unsubscribe:"+ch) {
					c10UnsubCB++
				}
			}
			for _, f := range act.t.frames {
				r := f.Reply
				switch {
				case r.Subscribe != nil && r.Error == nil:
					open, everOpen = true, true
				case r.Unsubscribe != nil && r.Error == nil:
					open = false
					closes++
				case r.Push != nil && r.Push.Channel == ch && r.Push.Subscribe != nil:
					open, everOpen = true, true
				case r.Push != nil && r.Push.Channel == ch && r.Push.Unsubscribe != nil:
					open = false
					closes++
				case r.Push != nil && r.Push.Channel == ch && (r.Push.Pub != nil || r.Push.Join != nil || r.Push.Leave != nil):
					if !open {
						kind := "publication"
						if r.Push.Join != nil {
							kind = "join"
						} else if r.Push.Leave != nil {
							kind = "leave"
						}
						pos := "non-positioned"
						if cfg.positioned {
							pos = "positioned"
						}
						when := "before-open"
						if everOpen {
							when = "after-close"
						}
						if everOpen && closes > c10UnsubCB && !closed {
							when = "after-unsubscribe-push-that-ended-nothing"
						}
						vsched.Failf("push-outside-bracket:"+kind+":"+pos+":"+when+":"+strings.Split(connopsCtx(cfg), ":")[0], "%s push for %s outside a subscription bracket (%s): %s", kind, ch, when, all)
					}
				}
			}
		case "C07":
			state := 0 // 0: out, 1: joined
			joins, leaves := 0, 0
			for _, f := range obs.t.frames {
				p := f.Reply.Push
				if p == nil || p.Channel != ch {
					continue
				}
				if p.Join != nil && p.Join.Info.GetClient() == actorID {
					joins++
					if state == 1 {
						vsched.Failf("double-join:"+connopsCtx(cfg), "observer saw two joins of A without a leave in between")
					}
					state = 1
				}
				if p.Leave != nil && p.Leave.Info.GetClient() == actorID {
					leaves++
					if state == 0 {
						vsched.Failf("leave-before-join:"+connopsCtx(cfg), "observer saw a leave of A without a preceding join")
					}
					state = 0
				}
			}
			if subscribed && state != 1 {
				vsched.Failf("missing-join:"+connopsCtx(cfg), "A is subscribed but the observer's last event for it is not a join (joins=%d leaves=%d)", joins, leaves)
			}
			if !subscribed && state != 0 {
				vsched.Failf("missing-leave:"+connopsCtx(cfg), "A is not subscribed (closed=%v) but the observer's last event for it is a join (joins=%d leaves=%d)", closed, joins, leaves)
			}
			unsubCB := 0
			for _, e := range events {
				if strings.HasPrefix(e, "A:unsubscribe:"+ch) {
					unsubCB++
				}
			}
			if leaves != unsubCB {
				vsched.Failf("leave-count:"+connopsCtx(cfg), "observer saw %d leaves of A but %d subscriptions of A ended (unsubscribe callbacks): %v", leaves, unsubCB, events)
			}
			if established := unsubCB + boolInt(subscribed); joins != established {
				vsched.Failf("join-count:"+connopsCtx(cfg), "observer saw %d joins of A but %d subscriptions of A were established (ended %d, still subscribed %v): %v | %s", joins, established, unsubCB, subscribed, events, all)
			}
		case "C06":
			res, err := n.Presence(ch)
			if err != nil {
				panic(err)
			}
			info, present := res.Presence[actorID]
			// the signature names the scenario (operation lists + callback mode), so that a finding
			// recorded for one history does not cover the same symptom in another
			scen := fmt.Sprintf("%s/async%v", strings.Join(cfg.ops, "+"), cfg.async)
			if subscribed && !present {
				vsched.Failf("presence-missing:"+scen, "A holds a subscription with presence but is absent from the channel presence: %v", events)
			}
			if subscribed && present && info.UserID != "u" {
				vsched.Failf("presence-wrong-info", "presence entry of A has user %q", info.UserID)
			}
			if !subscribed && present {
				vsched.Failf("presence-stale:"+scen, "A is not subscribed (closed=%v) but still present: %v", closed, events)
			}
			st, _ := n.PresenceStats(ch)
			users := map[string]bool{}
			for _, i := range res.Presence {
				users[i.UserID] = true
			}
			if st.NumClients != len(res.Presence) || st.NumUsers != len(users) {
				vsched.Failf("presence-stats", "stats %d/%d but presence has %d clients / %d users", st.NumClients, st.NumUsers, len(res.Presence), len(users))
			}
		case "C05":
			if !closed {
				break
			}
			if _, ok := n.hub.UserConnections("u")[actorID]; ok || len(n.hub.UserConnections("u")) != 0 {
				vsched.Failf("hub-client-left", "closed connection still registered in the hub")
			}
			if _, has := vHubSub(n, ch, actorID); has {
				vsched.Failf("routing-entry-left", "closed connection still has a routing entry: %v", events)
			}
			if n.hub.NumSubscriptions() != 1 || n.hub.NumClients() != 1 {
				vsched.Failf("hub-counts", "hub counts clients=%d subscriptions=%d after close (want 1/1: the observer)", n.hub.NumClients(), n.hub.NumSubscriptions())
			}
			if res, _ := n.Presence(ch); res.Presence[actorID] != nil {
				vsched.Failf("presence-left", "closed connection still in presence: %v", events)
			}
			if g := vGaugeSum(n.metrics.connectionsInflight); g != connGauge1 {
				vsched.Failf("conn-gauge", "connections_inflight=%v, before A connected %v (initial %v)", g, connGauge1, connGauge0)
			}
			if g := vGaugeSum(n.metrics.subscriptionsInflight); g != subGauge1 {
				vsched.Failf("sub-gauge", "subscriptions_inflight=%v, before A connected %v", g, subGauge1)
			}
			if len(act.c.channels) != 0 || len(act.c.mapSubscribing) != 0 {
				vsched.Failf("client-state-left", "closed client still holds channels=%d mapSubscribing=%d", len(act.c.channels), len(act.c.mapSubscribing))
			}
		case "C08":
			disc := -1
			conn := -1
			established := 0
			for _, f := range act.t.frames {
				if f.Reply.Subscribe != nil && f.Reply.Error == nil || f.Reply.Push != nil && f.Reply.Push.Subscribe != nil {
					established++
				}
			}
			unsubCB := 0
			for i, e := range events {
				switch {
				case e == "A:connect":
					if conn >= 0 {
						vsched.Failf("connect-twice", "connect callback ran twice: %v", events)
					}
					conn = i
				case strings.HasPrefix(e, "A:disconnect"):
					if disc >= 0 {
						vsched.Failf("disconnect-twice", "disconnect callback ran twice: %v", events)
					}
					if conn < 0 {
						vsched.Failf("disconnect-without-connect", "disconnect callback without connect callback: %v", events)
					}
					disc = i
				case e == "A:alive":
					if disc >= 0 {
						vsched.Failf("alive-after-disconnect", "alive callback after the disconnect callback: %v", events)
					}
				case strings.HasPrefix(e, "A:unsubscribe"):
					unsubCB++
				}
				if conn < 0 && strings.HasPrefix(e, "A:") && e != "A:connect" {
					vsched.Failf("callback-before-connect", "%s before the connect callback: %v", e, events)
				}
			}
			ended := established - boolInt(subscribed)
			if unsubCB > established {
				vsched.Failf("unsubscribe-cb-extra", "%d unsubscribe callbacks for %d established subscriptions: %v | %s", unsubCB, established, events, all)
			}
			hasClose, hasSub := false, false
			for _, op := range cfg.ops {
				if strings.Contains(op, "disc") || strings.Contains(op, "close") {
					hasClose = true
				}
				if strings.Contains(op, "sub") && !strings.HasPrefix(op, "unsub") && op != "nunsub" || strings.Contains(op, ",sub") {
					hasSub = true
				}
			}
			// a subscribe whose reply was written can still be rolled back by a concurrent close
			// (never established); only without that race is the count exact
			if !(hasClose && hasSub) && unsubCB != ended {
				vsched.Failf("unsubscribe-cb-count", "%d established subscriptions ended but %d unsubscribe callbacks ran: %v | %s", ended, unsubCB, events, all)
			}
			if closed && disc < 0 {
				vsched.Failf("disconnect-cb-missing", "connection closed after a successful connect but the disconnect callback never ran: %v", events)
			}
		}
	}
}

func connopsStep(op string, cfg connopsCfg, n *Node, act *vClient, publish func(string)) {
	const ch = "ch"
	switch op {
	case "sub":
		act.subscribe(ch)
	case "unsub":
		// was the unsubscribe command issued while the subscribe was still in flight (it then
		// parks on the wait gate) or after the commit? (read without locking: one thread runs)
		// (decided by what the command did, not by the state before it: the command parked on a
		// channel iff it found the reservation of an in-flight subscribe and waited on its gate)
		inFlightBefore := false
		if cc, ok := act.c.channels[ch]; ok && !channelHasFlag(cc.flags, flagSubscribed) {
			inFlightBefore = true
		}
		waits := vsched.ChanBlocks()
		act.unsubscribe(ch)
		if inFlightBefore && vsched.ChanBlocks() > waits {
			vConnopsUnsubInFlight = true
		}
	case "nsub":
		opts := []SubscribeOption{WithEmitPresence(cfg.presence), WithEmitJoinLeave(cfg.joinLeave), WithPushJoinLeave(true)}
		if cfg.positioned {
			opts = append(opts, WithRecovery(true), WithPositioning(true))
		}
		_ = n.Subscribe("u", ch, opts...)
	case "nunsub":
		_ = n.Unsubscribe("u", ch)
	case "disc":
		act.c.Disconnect(DisconnectForceNoReconnect)
	case "ndisc":
		_ = n.Disconnect("u")
	case "close":
		_ = act.close()
	case "pub":
		publish("p")
	case "tick":
		act.c.updatePresence()
	case "oslow":
		// another connection is the first subscriber of a channel on the same subLock stripe; the
		// broker takes 7 s for it (cfg.slowBroker), the stripe stays locked that long
		o3 := vNewClient(n, vNewTransport(), &Credentials{UserID: "o3"})
		o3.connect()
		o3.subscribe(connopsSlowCh)
		_ = o3.close() // leaves nothing behind in the hub and the gauges
	case "ojoin":
		// another connection joins and leaves the channel
		o2 := vNewClient(n, vNewTransport(), &Credentials{UserID: "o2"})
		o2.connect()
		o2.subscribe(ch)
		o2.unsubscribe(ch)
	default:
		panic("unknown op " + op)
	}
}

// connopsCtx names the subscription path and the racing operations of a scenario, so that a
// signature identifies the call sites involved (client-side vs server-side subscribe etc.).
func connopsCtx(cfg connopsCfg) string {
	path := "none"
	var racers []string
	seen := map[string]bool{}
	for _, op := range cfg.ops {
		for _, st := range strings.Split(op, ",") {
			switch st {
			case "sub":
				if path == "none" {
					path = "client-side"
				} else if path == "server-side" {
					path = "both"
				}
			case "nsub":
				if path == "none" {
					path = "server-side"
				} else if path == "client-side" {
					path = "both"
				}
			default:
				if !seen[st] {
					seen[st] = true
					racers = append(racers, st)
				}
			}
		}
	}
	if path == "none" && cfg.presub {
		path = "client-side"
	}
	// racer class: which kind of operation races the subscribe (exact op names and the
	// callback mode are left out so that one root cause has one signature)
	closeRacer, unsubRacer := false, false
	for _, r := range racers {
		switch r {
		case "disc", "ndisc", "close":
			closeRacer = true
		case "unsub", "nunsub":
			unsubRacer = true
		}
	}
	class := "none"
	switch {
	case closeRacer && unsubRacer:
		class = "close+unsubscribe"
	case closeRacer:
		class = "close"
	case unsubRacer:
		class = "unsubscribe"
		if path == "client-side" && vConnopsUnsubInFlight {
			// the client unsubscribe was issued while its subscribe was still in flight: it waits
			// on the subscribe's gate and must only be released once the join is out
			class = "unsubscribe-while-subscribe-in-flight"
		}
	}
	return path + ":" + class
}

func boolInt(b bool) int {
	if b {
		return 1
	}
	return 0
}

// vHubSub returns the routing entry of (channel, client id).
func vHubSub(n *Node, ch, uid string) (subInfo, bool) {
	s := n.hub.subShards[index(ch, numHubShards)]
	s.mu.RLock()
	defer s.mu.RUnlock()
	m, ok := s.subs[ch]
	if !ok {
		return subInfo{}, false
	}
	si, ok := m[uid]
	return si, ok
}

// harness-level flag: handlers behave synchronously during the quiet setup phase
var vConnopsUnsubInFlight bool

var vQuietFlag = true

func vschedQuiet() bool     { return vQuietFlag }
func vschedSetQuiet(q bool) { vQuietFlag = q }

func init() {
	vsched.OnReset(func() {
		vQuietFlag = true
		vConnopsUnsubInFlight = false
	})
}

var _ = sort.Strings
var _ = protocol.Command{}
