//go:build verif

package centrifuge

import (
	"fmt"
	"sort"
	"strings"

	"github.com/centrifugal/centrifuge/internal/zzverif/vsched"
)

// unsuball (C28): Node.Unsubscribe(user, "") must unsubscribe every matching connection from all
// of its channels with the usual per-channel effects.
//
// One execution = one (targeting mode, subscription option set) pair chosen by ChooseFree; inside
// it every subscription configuration of the target connection is enumerated on one node (the
// connections of a case are closed before the next case starts, so cases are independent).
//
// Domain: channels {a,b,c}, each absent / client-side / server-side on the first connection
// (3^3 = 27 configurations, 0..3 subscriptions); a second connection carries the mirrored
// configuration. Targeting modes: see vC28Modes.
//
// Oracle (per matching connection, first violated clause is reported):
//   still-subscribed      Channels() is not empty afterwards
//   unsubscribe-callback  not exactly one OnUnsubscribe event per former channel (right channel,
//                         server-side flag and code)
//   leave                 not exactly one leave publication per former channel that emits join/leave
//   presence              presence of the former channel still lists the connection
//   unsubscribe-push      not exactly one unsubscribe push per former channel (right code)

var vC28Modes = []string{"user", "client", "session", "label", "allusers", "allusers+label", "user+custom", "anonymous"}

type vC28Opt struct {
	name     string
	presence bool
	joinLv   bool
}

var vC28Opts = []vC28Opt{{"presence+joinleave", true, true}, {"plain", false, false}, {"presence", true, false}, {"joinleave", false, true}}

func vC28Config(k int) [3]int { return [3]int{k % 3, (k / 3) % 3, (k / 9) % 3} }

func vC28Spec(user string, labels map[string]string, cfg [3]int, o vC28Opt) *vSoConn {
	sp := &vSoConn{user: user, labels: labels, serverSubs: map[string]SubscribeOptions{}, clientOpts: map[string]SubscribeOptions{}}
	so := SubscribeOptions{EmitPresence: o.presence, EmitJoinLeave: o.joinLv}
	for i, ch := range []string{"a", "b", "c"} {
		switch cfg[i] {
		case 1:
			sp.clientOpts[ch] = so
		case 2:
			sp.serverSubs[ch] = so
		}
	}
	return sp
}

func init() {
	vsched.Register(&vsched.Harness{
		Name: "unsuball", Props: []string{"C28"}, Kind: "sched",
		Doc: "Node.Unsubscribe(user,\"\"): 8 targeting modes x subscription option sets (ChooseFree) x 27 subscription configurations of channels {a,b,c} (absent/client-side/server-side) on two connections; oracle: Channels() empty, one unsubscribe callback / leave / presence removal / unsubscribe push per former channel of every matching connection",
		Variants: func(tier string) []vsched.Variant {
			if tier == "thorough" {
				return []vsched.Variant{{Name: "opts4", Bound: 0, Shards: 16}}
			}
			return []vsched.Variant{{Name: "opts2", Bound: 0, Shards: 16}}
		},
		Sched: func(v vsched.Variant) func() {
			nOpts := 2
			if v.Name == "opts4" {
				nOpts = 4
			}
			return func() {
				pick := vsched.ChooseFree(len(vC28Modes) * nOpts)
				mode := vC28Modes[pick%len(vC28Modes)]
				opt := vC28Opts[pick/len(vC28Modes)]
				vsched.Quiet(true)
				s := vNewSoNode(nil, nil)
				vsched.Logf("mode=%s opts=%s", mode, opt.name)
				for k := 0; k < 27; k++ {
					vC28Case(s, mode, opt, k)
				}
			}
		},
	})
}

func vC28Case(s *vSoNode, mode string, opt vC28Opt, k int) {
	n := s.n
	user1, user2 := "u", "u"
	switch mode {
	case "allusers", "allusers+label":
		user2 = "w"
	case "anonymous":
		user1, user2 = "", ""
	}
	c1 := vC28Spec(user1, map[string]string{"region": "eu"}, vC28Config(k), opt)
	c2 := vC28Spec(user2, map[string]string{"region": "us"}, vC28Config(26-k), opt)
	s.connect(c1)
	s.connect(c2)
	vsched.WaitIdle()

	unsub := unsubscribeServer
	var opts []UnsubscribeOption
	callUser := user1
	match2 := true
	switch mode {
	case "client":
		opts = append(opts, WithUnsubscribeClient(c1.cl.c.ID()))
		match2 = false
	case "session":
		opts = append(opts, WithUnsubscribeSession(c1.cl.c.sessionID()))
		match2 = false
	case "label":
		opts = append(opts, WithUnsubscribeLabelFilter(&FilterNode{Key: "region", Cmp: "eq", Val: "eu"}))
		match2 = false
	case "allusers":
		callUser = ""
		opts = append(opts, WithUnsubscribeAllUsers(true))
	case "allusers+label":
		callUser = ""
		opts = append(opts, WithUnsubscribeAllUsers(true), WithUnsubscribeLabelFilter(&FilterNode{Key: "region", Cmp: "eq", Val: "eu"}))
		match2 = false
	case "user+custom":
		unsub = Unsubscribe{Code: 2777, Reason: "custom"}
		opts = append(opts, WithCustomUnsubscribe(unsub))
	}

	type before struct {
		sp     *vSoConn
		chans  []string
		frames int
		match  bool
	}
	var bs []before
	for i, sp := range []*vSoConn{c1, c2} {
		bs = append(bs, before{sp: sp, chans: vSortedChannels(sp.cl.c), frames: len(sp.cl.t.frames), match: i == 0 || match2})
	}
	leaves0 := len(s.rb.leaves)

	err := n.Unsubscribe(callUser, "", opts...)
	vsched.WaitIdle()

	for i, b := range bs {
		sp := b.sp
		id := sp.cl.c.ID()
		after := vSortedChannels(sp.cl.c)
		pushes := vFramesFrom(sp.cl.t, b.frames)
		vsched.Logf("case %d conn%d match=%v before=%v after=%v unsubs=%v pushes=[%s] err=%v", k, i+1, b.match, b.chans, after, sp.unsubs, pushes, err)
		if !b.match {
			continue
		}
		replay := fmt.Sprintf("mode=%s opts=%s config=%d connection %d subscribed to %v (client-side %v, server-side %v): Node.Unsubscribe(%q, \"\")",
			mode, opt.name, k, i+1, b.chans, vKeys(sp.clientOpts), vKeys(sp.serverSubs), callUser)
		fail := func(clause, format string, a ...any) {
			vsched.Failf("c28-"+clause, "%s: %s", replay, fmt.Sprintf(format, a...))
		}
		// the clauses are checked in order; only the first violated one is reported per connection
		func() {
			if err != nil {
				fail("error", "returned %v", err)
				return
			}
			if len(after) != 0 {
				fail("still-subscribed", "Channels() = %v afterwards", after)
				return
			}
			for _, ch := range b.chans {
				_, server := sp.serverSubs[ch]
				want := fmt.Sprintf("%s/%v/%d", ch, server, unsub.Code)
				if got := vCount(sp.unsubs, want); got != 1 || vCountPrefix(sp.unsubs, ch+"/") != 1 {
					fail("unsubscribe-callback", "channel %s: want exactly one OnUnsubscribe %s, got events %v", ch, want, sp.unsubs)
					return
				}
			}
			for _, ch := range b.chans {
				wantLeave := 0
				if opt.joinLv {
					wantLeave = 1
				}
				if got := vCount(s.rb.leaves[leaves0:], ch+"/"+id); got != wantLeave {
					fail("leave", "channel %s: %d leave publications, want %d", ch, got, wantLeave)
					return
				}
			}
			for _, ch := range b.chans {
				if !opt.presence {
					continue
				}
				pr, perr := n.Presence(ch)
				if perr != nil {
					fail("presence", "channel %s: presence error %v", ch, perr)
					return
				}
				if _, ok := pr.Presence[id]; ok {
					fail("presence", "channel %s: presence still lists the connection", ch)
					return
				}
			}
			for _, ch := range b.chans {
				want := fmt.Sprintf("unsub[%s](%d)", ch, unsub.Code)
				got, exact := 0, 0
				for _, f := range sp.cl.t.frames[b.frames:] {
					if p := f.Reply.Push; p != nil && p.Unsubscribe != nil && p.Channel == ch {
						got++
						if f.describe() == want {
							exact++
						}
					}
				}
				if got != 1 || exact != 1 {
					fail("unsubscribe-push", "channel %s: want exactly one push %s, got pushes [%s]", ch, want, pushes)
					return
				}
			}
		}()
	}
	// end of case: close both connections so the next case starts from an empty hub
	for _, sp := range []*vSoConn{c1, c2} {
		_ = sp.cl.close()
		delete(s.specs, sp.cl.c.ID())
	}
	vsched.WaitIdle()
	if nc := n.Hub().NumClients(); nc != 0 {
		panic(fmt.Sprintf("verif: %d clients left after case", nc))
	}
}

func vKeys(m map[string]SubscribeOptions) []string {
	var l []string
	for k := range m {
		l = append(l, k)
	}
	sort.Strings(l)
	return l
}

func vCountPrefix(l []string, p string) int {
	k := 0
	for _, x := range l {
		if strings.HasPrefix(x, p) {
			k++
		}
	}
	return k
}

// unsuballrace (C28, E1): Node.Unsubscribe(user, "") racing other server-side operations on the
// same connection. The statement quantifies over every subscription state of the target; with
// concurrent callers that includes states reached while another call is in flight.
//
// One connection of user u holding {a (server-side), c (client-side)}. Threads:
//   T1: Node.Unsubscribe(u, "")
//   T2: Node.Subscribe(u, "b") ; Node.Unsubscribe(u, "")            (variant two-passes)
//   T2: Node.Subscribe(u, "b") ; Node.Unsubscribe(u, "", session)   (variant by-session)
//   T2: Client.Unsubscribe("") through Hub().UserConnections        (variant client-api)
// Oracle at quiescence: T2's unsubscribe-all started after its own subscribe to b had returned,
// so whatever T1 did, no channel may be left: Channels() empty, no routing entry, exactly one
// unsubscribe callback per channel that was ever established (a, b, c).
func init() {
	vsched.Register(&vsched.Harness{
		Name: "unsuballrace", Props: []string{"C28"}, Kind: "sched",
		Doc: "one connection holding {a server-side, c client-side}; thread T1: Node.Unsubscribe(u, \"\"); thread T2: Node.Subscribe(u, b) then an unsubscribe-all (Node.Unsubscribe by user / by session, or Client.Unsubscribe(\"\")); every interleaving within the preemption bound; oracle: at quiescence Channels() is empty, the hub holds no subscription of the connection, and every established channel got exactly one unsubscribe callback",
		Variants: func(tier string) []vsched.Variant {
			// delay bounding (every departure from the default scheduler counts, also at blocking points):
			// the write path behind every unsubscribe push wakes several goroutines, and the free
			// orders among them multiply without touching the property
			if tier == "thorough" {
				return []vsched.Variant{
					{Name: "two-passes", Bound: 3, Delay: true, Shards: 8, BudgetS: 280},
					{Name: "by-session", Bound: 3, Delay: true, Shards: 8, BudgetS: 280},
					{Name: "client-api", Bound: 3, Delay: true, Shards: 8, BudgetS: 280},
					{Name: "two-passes-presence", Bound: 2, Delay: true, Shards: 8, BudgetS: 280},
					{Name: "two-passes-lifo", Bound: 3, Delay: true, LIFO: true, Shards: 8, BudgetS: 280},
				}
			}
			return []vsched.Variant{
				{Name: "two-passes", Bound: 2, Delay: true, Shards: 1, BudgetS: 100},
				{Name: "client-api", Bound: 2, Delay: true, Shards: 1, BudgetS: 100},
				{Name: "two-passes-lifo", Bound: 2, Delay: true, LIFO: true, Shards: 1, BudgetS: 100},
			}
		},
		Sched: func(v vsched.Variant) func() {
			return func() {
				vsched.Quiet(true)
				s := vNewSoNode(nil, nil)
				so := SubscribeOptions{}
				if v.Name == "two-passes-presence" {
					so = SubscribeOptions{EmitPresence: true, EmitJoinLeave: true}
				}
				sp := &vSoConn{user: "u", labels: map[string]string{"region": "eu"},
					serverSubs: map[string]SubscribeOptions{"a": so}, clientOpts: map[string]SubscribeOptions{"c": so}}
				s.connect(sp)
				sp.cl.subscribe("c")
				vsched.WaitIdle()
				if got := fmt.Sprint(vSortedChannels(sp.cl.c)); got != "[a c]" {
					panic("verif: unsuballrace setup: channels " + got)
				}
				vsched.Quiet(false)
				done := make(chan struct{}, 2)
				go func() {
					_ = s.n.Unsubscribe("u", "")
					done <- struct{}{}
				}()
				go func() {
					_ = s.n.Subscribe("u", "b")
					switch v.Name {
					case "two-passes", "two-passes-presence", "two-passes-lifo":
						_ = s.n.Unsubscribe("u", "")
					case "by-session":
						_ = s.n.Unsubscribe("u", "", WithUnsubscribeSession(sp.cl.c.sessionID()))
					case "client-api":
						for _, c := range s.n.Hub().UserConnections("u") {
							c.Unsubscribe("")
						}
					}
					done <- struct{}{}
				}()
				<-done
				<-done
				vsched.WaitIdle()
				vsched.Quiet(true)
				left := vSortedChannels(sp.cl.c)
				sort.Strings(sp.unsubs)
				vsched.Logf("%s: channels left %v, unsubscribe callbacks %v", v.Name, left, sp.unsubs)
				if len(left) != 0 {
					vsched.Failf("c28-race-still-subscribed", "T2's unsubscribe-all started after its Subscribe(b) had returned, yet at quiescence the connection still holds %v (unsubscribe callbacks %v)", left, sp.unsubs)
				}
				for _, ch := range []string{"a", "b", "c"} {
					if n := s.n.Hub().NumSubscribers(ch); n != 0 {
						vsched.Failf("c28-race-routing-entry-left", "channel %s still has %d subscribers in the hub", ch, n)
					}
					cnt := 0
					for _, u := range sp.unsubs {
						if strings.HasPrefix(u, ch+"/") {
							cnt++
						}
					}
					if cnt > 1 {
						vsched.Failf("c28-race-unsubscribe-callback-twice", "channel %s: %d unsubscribe callbacks %v", ch, cnt, sp.unsubs)
					}
					if cnt == 0 && ch != "b" { // b may have been refused (racing passes), a and c were established before
						vsched.Failf("c28-race-unsubscribe-callback-missing", "channel %s was established and ended without an unsubscribe callback %v", ch, sp.unsubs)
					}
				}
				_ = sp.cl.close()
				vsched.WaitIdle()
			}
		},
	})
}

