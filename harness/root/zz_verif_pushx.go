//go:build verif

package centrifuge

import (
	"bytes"
	"fmt"
	"math"
	"strconv"
	"strings"

	"github.com/centrifugal/centrifuge/internal/zzverif/vsched"
	"github.com/centrifugal/protocol"
)

// pushx (C33, E2): Redis PUB/SUB payload framing.
//
//  total-*   : extractPushData (and, variant total-mapmsg, the map broker's parseMessage) on every
//              byte string of a bounded family; the only oracle clause is "does not panic". An
//              independent shape classifier names the input shape for classes and signatures.
//  roundtrip : frames built exactly as the publisher builds them (Go: plain / __j__ / __l__;
//              Lua builders transcribed: __p1:off:epoch__payload and
//              __d1:off:epoch:len(prev):prev:len(payload):payload) decode to the input tuple.

// ---------- independent shape classifier (never calls the code under test) ----------

// pushxInt classifies a decimal length field the way a signed integer parser would see it.
func pushxInt(s string) (v int64, ok bool) {
	if s == "" || len(s) > 18 {
		return 0, false // harness domains never contain longer length fields
	}
	i, neg := 0, false
	if s[0] == '-' || s[0] == '+' {
		neg = s[0] == '-'
		i = 1
	}
	if i == len(s) {
		return 0, false
	}
	for ; i < len(s); i++ {
		if s[i] < '0' || s[i] > '9' {
			return 0, false
		}
		v = v*10 + int64(s[i]-'0')
	}
	if neg {
		v = -v
	}
	return v, true
}

func pushxUint(s string) bool {
	if s == "" || len(s) > 19 {
		return false // harness domains never contain 20-digit offsets in total-* variants
	}
	for i := 0; i < len(s); i++ {
		if s[i] < '0' || s[i] > '9' {
			return false
		}
	}
	return true
}

// pushxDeltaShape classifies the text after "d1:" / "d:" :
// offset:epoch:prev_len:prev:len:payload
func pushxDeltaShape(in string) string {
	i := strings.IndexByte(in, ':')
	if i < 0 {
		return "d-no-offset-sep"
	}
	if !pushxUint(in[:i]) {
		return "d-bad-offset"
	}
	in = in[i+1:]
	if i = strings.IndexByte(in, ':'); i < 0 {
		return "d-no-epoch-sep"
	}
	in = in[i+1:]
	if i = strings.IndexByte(in, ':'); i < 0 {
		return "d-no-prevlen-sep"
	}
	pl, ok := pushxInt(in[:i])
	if !ok {
		return "d-bad-prevlen"
	}
	in = in[i+1:]
	switch {
	case pl < 0:
		return "d-neg-prevlen"
	case int64(len(in)) < pl:
		return "d-prev-truncated"
	case int64(len(in)) == pl:
		return "d-nothing-after-prev"
	}
	sepOK := in[pl] == ':'
	in = in[pl+1:]
	if i = strings.IndexByte(in, ':'); i < 0 {
		return "d-no-len-sep"
	}
	l, ok := pushxInt(in[:i])
	if !ok {
		return "d-bad-len"
	}
	in = in[i+1:]
	switch {
	case l < 0:
		return "d-neg-len"
	case int64(len(in)) < l:
		return "d-payload-truncated"
	}
	if !sepOK {
		return "d-complete-odd-sep"
	}
	if int64(len(in)) > l {
		return "d-complete-trailing"
	}
	return "d-complete"
}

func pushxShape(data string) string {
	if !strings.HasPrefix(data, "__") {
		return "plain"
	}
	c := data[2:]
	if c == "" {
		return "bare-sep"
	}
	switch c[0] {
	case 'j', 'l':
		if strings.Index(c, "__") < 0 {
			return "jl-no-sep"
		}
		return "jl-complete"
	case 'p':
		i := strings.Index(c, "__")
		if i < 0 {
			return "p-no-sep"
		}
		h := c[:i]
		if len(h) < 3 {
			return "p-header-lt3"
		}
		h = h[3:]
		j := strings.IndexByte(h, ':')
		if j <= 0 {
			return "p-no-epoch-sep"
		}
		if !pushxUint(h[:j]) {
			return "p-bad-offset"
		}
		return "p-complete"
	case 'd':
		if !strings.HasPrefix(c, "d1:") {
			return "d-bad-prefix"
		}
		return pushxDeltaShape(c[3:])
	}
	return "unknown-type"
}

func pushxMapShape(data string) string {
	if data == "" {
		return "empty"
	}
	if strings.HasPrefix(data, "d:") {
		return pushxDeltaShape(data[2:])
	}
	if data[0] < '0' || data[0] > '9' {
		return "raw"
	}
	i := strings.IndexByte(data, ':')
	if i < 0 || !pushxUint(data[:i]) {
		return "raw-digits"
	}
	if strings.IndexByte(data[i+1:], ':') < 0 {
		return "pos-no-epoch-sep"
	}
	return "pos-complete"
}

// ---------- calling the code under test ----------

type pushxTuple struct {
	data  []byte
	typ   pushType
	sp    StreamPosition
	delta bool
	prev  []byte
	ok    bool
}

func (t pushxTuple) String() string {
	return fmt.Sprintf("(data=%q type=%d offset=%d epoch=%q delta=%v prev=%q ok=%v)", t.data, t.typ, t.sp.Offset, t.sp.Epoch, t.delta, t.prev, t.ok)
}

func pushxExtract(data []byte) (t pushxTuple, panicked any) {
	defer func() {
		if p := recover(); p != nil {
			panicked = p
		}
	}()
	t.data, t.typ, t.sp, t.delta, t.prev, t.ok = extractPushData(data)
	return
}

func pushxParseMessage(data []byte) (panicked any) {
	defer func() {
		if p := recover(); p != nil {
			panicked = p
		}
	}()
	_, _, _, _, _, _ = parseMessage(data)
	return
}

// pushxTotal enumerates prefix + every string over alpha of length <= maxLen.
func pushxTotal(e *vsched.Enum, fn string, prefix, alpha string, maxLen int) {
	k := int64(len(alpha))
	var n int64
	buf := make([]byte, 0, len(prefix)+maxLen)
	count := int64(1)
	for l := 0; l <= maxLen; l++ {
		for i := int64(0); i < count; i++ {
			n++
			if !e.Mine(n) {
				continue
			}
			if n&0xFFFFF == 0 && e.Expired() {
				return
			}
			buf = append(buf[:0], prefix...)
			x := i
			for d := 0; d < l; d++ {
				buf = append(buf, alpha[x%k])
				x /= k
			}
			in := string(buf)
			var shape string
			var p any
			if fn == "parseMessage" {
				shape = pushxMapShape(in)
				p = pushxParseMessage(buf)
			} else {
				shape = pushxShape(in)
				_, p = pushxExtract(buf)
			}
			e.Case(shape, 1)
			if p != nil {
				e.Fail("panic-"+fn+":"+shape, fmt.Sprintf("%s(%q) panics: %v", fn, in, p), []string{fmt.Sprintf("%s(%q)", fn, in)})
			}
		}
		count *= k
	}
	e.Sample(fmt.Sprintf("%s: prefix %q + all strings over %q of length <= %d: %d inputs", fn, prefix, alpha, maxLen, n))
}

// pushxEdgeTokens: the field separators plus edge numerals around the machine integer limits. The
// byte-level enumeration cannot reach a 19-digit length field; these sequences put every edge
// numeral into every numeric field of every frame shape.
var pushxEdgeTokens = []string{":", "x", "1", "0", "-1",
	"9223372036854775807", "9223372036854775806", "9223372036854775808", "-9223372036854775808",
	"18446744073709551615", "18446744073709551616", "2147483647", "2147483648", "4294967295", "4294967296"}

// pushxTotalTokens enumerates prefix + every sequence of <= maxTok tokens.
func pushxTotalTokens(e *vsched.Enum, fn string, prefix string, maxTok int) {
	k := int64(len(pushxEdgeTokens))
	var n int64
	count := int64(1)
	var buf []byte
	for l := 0; l <= maxTok; l++ {
		class := fmt.Sprintf("%s%q tokens=%d", fn, prefix, l)
		for i := int64(0); i < count; i++ {
			n++
			if !e.Mine(n) {
				continue
			}
			if n&0xFFFFF == 0 && e.Expired() {
				return
			}
			buf = append(buf[:0], prefix...)
			x := i
			for d := 0; d < l; d++ {
				buf = append(buf, pushxEdgeTokens[x%k]...)
				x /= k
			}
			var p any
			if fn == "parseMessage" {
				p = pushxParseMessage(buf)
			} else {
				_, p = pushxExtract(buf)
			}
			e.Case(class, 1)
			if p != nil {
				in := string(buf)
				e.Fail("panic-"+fn+":edge-numeral", fmt.Sprintf("%s(%q) panics: %v", fn, in, p), []string{fmt.Sprintf("%s(%q)", fn, in)})
			}
		}
		count *= k
	}
	e.Sample(fmt.Sprintf("%s: prefix %q + all sequences of <= %d tokens over %d tokens (separators + edge numerals): %d inputs", fn, prefix, maxTok, k, n))
}

// pushxStrings returns all byte strings over alpha of length <= maxLen (shortest first).
func pushxStrings(alpha string, maxLen int) [][]byte {
	out := [][]byte{{}}
	frontier := [][]byte{{}}
	for l := 1; l <= maxLen; l++ {
		var next [][]byte
		for _, p := range frontier {
			for i := 0; i < len(alpha); i++ {
				q := append(append(make([]byte, 0, l), p...), alpha[i])
				next = append(next, q)
			}
		}
		out = append(out, next...)
		frontier = next
	}
	return out
}

// pushxProtoPayloads: payloads exactly as publish() / publishJoin() marshal them.
func pushxProtoPayloads(e *vsched.Enum) (pubs, infos [][]byte) {
	datas := []string{"", "x", "__", "__p1:1:a__x", "__d1:1:a:0::1:x", ":", "1:x", "{}", "\x00\xff"}
	for _, d := range datas {
		for _, withInfo := range []bool{false, true} {
			p := &protocol.Publication{Data: []byte(d), Time: 1767225600000}
			if withInfo {
				p.Info = &protocol.ClientInfo{User: "u__", Client: "c:1"}
				p.Tags = map[string]string{"__": ":"}
				p.Delta = true
			}
			b, err := p.MarshalVT()
			if err != nil {
				e.Fail("harness-marshal", err.Error(), nil)
				continue
			}
			pubs = append(pubs, b)
		}
		ci := &protocol.ClientInfo{User: d, Client: "c" + d, ConnInfo: []byte(d)}
		b, err := ci.MarshalVT()
		if err != nil {
			e.Fail("harness-marshal", err.Error(), nil)
			continue
		}
		infos = append(infos, b)
	}
	// the empty ClientInfo marshals to zero bytes
	b, _ := (&protocol.ClientInfo{}).MarshalVT()
	infos = append(infos, b)
	return
}

func pushxRoundtrip(e *vsched.Enum, maxPayload, maxPrev int) {
	const alpha = "_:x1\x00\xff"
	offsets := []uint64{0, 1, 1 << 53, math.MaxUint64}
	epochs := []string{"a", "abcdefgh", "ZZZZZZZZ"} // epoch.Generate alphabet: letters only
	pubs, infos := pushxProtoPayloads(e)
	payloads := append(pushxStrings(alpha, maxPayload), pubs...)
	prevs := append(pushxStrings(alpha, maxPrev), pubs...)
	infoPayloads := append(pushxStrings(alpha, maxPayload), infos...)

	var n int64
	check := func(kind string, frame []byte, want pushxTuple) {
		got, p := pushxExtract(frame)
		class := kind
		if len(want.data) == 0 {
			class += " empty-payload"
		}
		if want.delta && len(want.prev) == 0 {
			class += " empty-prev"
		}
		if want.sp.Offset == 0 && (kind == "positioned" || kind == "delta") {
			class += " offset0"
		}
		e.Case(class, 1)
		if p == nil && got.ok && got.typ == want.typ && bytes.Equal(got.data, want.data) && got.sp == want.sp &&
			got.delta == want.delta && bytes.Equal(got.prev, want.prev) {
			return
		}
		replay := []string{"want " + want.String(), fmt.Sprintf("frame=%q", frame)}
		if p != nil {
			e.Fail("roundtrip-panic:"+kind, fmt.Sprintf("extractPushData panics: %v", p), replay)
			return
		}
		if !got.ok {
			e.Fail("roundtrip-rejected:"+kind, "publisher-built frame is rejected (ok=false): "+got.String(), replay)
			return
		}
		switch {
		case got.typ != want.typ:
			e.Fail("roundtrip-type:"+kind, fmt.Sprintf("got %v want %v", got, want), replay)
		case !bytes.Equal(got.data, want.data):
			e.Fail("roundtrip-payload:"+kind, fmt.Sprintf("got %v want %v", got, want), replay)
		case got.sp.Offset != want.sp.Offset || got.sp.Epoch != want.sp.Epoch:
			e.Fail("roundtrip-position:"+kind, fmt.Sprintf("got %v want %v", got, want), replay)
		case got.delta != want.delta:
			e.Fail("roundtrip-delta-flag:"+kind, fmt.Sprintf("got %v want %v", got, want), replay)
		case !bytes.Equal(got.prev, want.prev):
			e.Fail("roundtrip-prev-payload:"+kind, fmt.Sprintf("got %v want %v", got, want), replay)
		}
	}

	// plain (at-most-once) publication: the frame is the marshalled Publication itself. A protobuf
	// encoding never starts with '_' (0x5F would be wire type 7), so payloads starting with the
	// meta separator are outside the publisher's range and skipped.
	for _, pl := range payloads {
		n++
		if !e.Mine(n) || bytes.HasPrefix(pl, []byte("__")) {
			continue
		}
		frame := append([]byte(nil), pl...)
		check("plain", frame, pushxTuple{data: pl, typ: pubPushType, ok: true})
	}
	// join / leave: append(joinTypePrefix, byteMessage...) exactly as publishJoin / publishLeave
	for _, pl := range infoPayloads {
		n++
		if !e.Mine(n) {
			continue
		}
		check("join", append(joinTypePrefix, pl...), pushxTuple{data: pl, typ: joinPushType, ok: true})
		check("leave", append(leaveTypePrefix, pl...), pushxTuple{data: pl, typ: leavePushType, ok: true})
	}
	if string(joinTypePrefix) != "__j__" || string(leaveTypePrefix) != "__l__" {
		e.Fail("prefix-clobbered", fmt.Sprintf("joinTypePrefix=%q leaveTypePrefix=%q", joinTypePrefix, leaveTypePrefix), nil)
	}
	// positioned and delta frames (Lua builders transcribed; numbers formatted as decimal integers)
	for _, off := range offsets {
		offS := strconv.FormatUint(off, 10)
		for _, ep := range epochs {
			for _, pl := range payloads {
				n++
				if e.Mine(n) {
					frame := []byte("__" + "p1:" + offS + ":" + ep + "__" + string(pl))
					check("positioned", frame, pushxTuple{data: pl, typ: pubPushType, sp: StreamPosition{Offset: off, Epoch: ep}, ok: true})
				}
				if n&0xFFF == 0 && e.Expired() {
					return
				}
				for _, pv := range prevs {
					n++
					if !e.Mine(n) {
						continue
					}
					frame := []byte("__" + "d1:" + offS + ":" + ep + ":" + strconv.Itoa(len(pv)) + ":" + string(pv) + ":" + strconv.Itoa(len(pl)) + ":" + string(pl))
					check("delta", frame, pushxTuple{data: pl, typ: pubPushType, sp: StreamPosition{Offset: off, Epoch: ep}, delta: true, prev: pv, ok: true})
				}
			}
		}
	}
	e.Sample(fmt.Sprintf("roundtrip: %d payloads x %d prev payloads x offsets %v x epochs %v; %d frames numbered", len(payloads), len(prevs), offsets, epochs, n))
}

func init() {
	vsched.Register(&vsched.Harness{
		Name: "pushx", Props: []string{"C33"}, Kind: "enum",
		Doc: "totality: extractPushData on every byte string of length <= 7 (T: 8) over {_ p d j l 1 0 : - x}, on \"__d1:\"+all strings <= 10 (T: 12) over {0 1 : - x}, on \"__p\"+all strings <= 8 (T: 10) over {1 0 : _ x}; parseMessage (map broker PUB/SUB decoder) on \"d:\"+all strings <= 10 (T: 11) over {0 1 : - x} and all strings <= 8 (T: 9) over {d 0 1 : - x}; oracle: no panic (each call wrapped in recover; signature names the independently classified input shape); edge-numerals: the same decoders on every sequence of <= 5 (T: 6) tokens over {: x 1 0 -1 and the numerals around 2^31, 2^32, 2^63, 2^64} after each frame prefix. roundtrip: plain/join/leave frames built as the Go publisher builds them and positioned/delta frames built as the Lua builders do (transcribed), payload and prev payload over all byte strings <= 3/4 (T: 4/4) over {_ : x 1 0x00 0xFF} plus marshalled Publications/ClientInfos, offsets {0,1,2^53,MaxUint64}, letter epochs; oracle: decoded (payload,type,offset,epoch,delta,prev,ok) equals the input",
		Variants: func(tier string) []vsched.Variant {
			if tier == "thorough" {
				return []vsched.Variant{
					{Name: "total-raw8", Shards: 16, BudgetS: 600},
					{Name: "total-delta12", Shards: 16, BudgetS: 600},
					{Name: "total-pos10", Shards: 16, BudgetS: 600},
					{Name: "total-mapmsg-delta11", Shards: 16, BudgetS: 600},
					{Name: "total-mapmsg-raw9", Shards: 16, BudgetS: 600},
					{Name: "roundtrip-4-4", Shards: 16, BudgetS: 600},
					{Name: "edge-numerals-6", Shards: 16, BudgetS: 600},
				}
			}
			return []vsched.Variant{
				{Name: "total-raw7", Shards: 8, BudgetS: 60},
				{Name: "total-delta10", Shards: 8, BudgetS: 60},
				{Name: "total-pos8", Shards: 2, BudgetS: 60},
				{Name: "total-mapmsg-delta10", Shards: 8, BudgetS: 60},
				{Name: "total-mapmsg-raw8", Shards: 2, BudgetS: 60},
				{Name: "roundtrip-3-4", Shards: 8, BudgetS: 60},
				{Name: "edge-numerals-5", Shards: 8, BudgetS: 60},
			}
		},
		Enum: func(v vsched.Variant, e *vsched.Enum) {
			var maxLen int
			if i := strings.LastIndexAny(v.Name, "abcdefghijklmnopqrstuvwxyz-"); i >= 0 {
				maxLen, _ = strconv.Atoi(v.Name[i+1:])
			}
			switch {
			case strings.HasPrefix(v.Name, "edge-numerals-"):
				for _, pre := range []string{"__d1:", "__p", "__"} {
					pushxTotalTokens(e, "extractPushData", pre, maxLen)
				}
				for _, pre := range []string{"d:", ""} {
					pushxTotalTokens(e, "parseMessage", pre, maxLen)
				}
			case strings.HasPrefix(v.Name, "total-raw"):
				pushxTotal(e, "extractPushData", "", "_pdjl10:-x", maxLen)
			case strings.HasPrefix(v.Name, "total-delta"):
				pushxTotal(e, "extractPushData", "__d1:", "01:-x", maxLen)
			case strings.HasPrefix(v.Name, "total-pos"):
				pushxTotal(e, "extractPushData", "__p", "10:_x", maxLen)
			case strings.HasPrefix(v.Name, "total-mapmsg-delta"):
				pushxTotal(e, "parseMessage", "d:", "01:-x", maxLen)
			case strings.HasPrefix(v.Name, "total-mapmsg-raw"):
				pushxTotal(e, "parseMessage", "", "d01:-x", maxLen)
			case v.Name == "roundtrip-3-4":
				pushxRoundtrip(e, 3, 4)
			case v.Name == "roundtrip-4-4":
				pushxRoundtrip(e, 4, 4)
			default:
				e.Incomplete("unknown variant " + v.Name)
			}
		},
	})
}
