//go:build verif

package centrifuge

import (
	"fmt"

	"github.com/centrifugal/centrifuge/internal/zzverif/vsched"
	"github.com/centrifugal/protocol"
)

// histflight (C43, E1): overlapping history reads with Config.UseSingleFlight. A client history
// reply must equal the node-level result for ITS effective filter and respect
// HistoryMaxPublicationLimit also when another read of the same channel (application call,
// another client, the node's own stream-top read) is in flight and the node coalesces reads.
//
// Channel "h" holds five publications. ChooseFree picks (limit A, limit B) from
// {-1, 0, 1, 2}^2 and HistoryMaxPublicationLimit from {0, 2}. Thread A: Node.History with limit A;
// thread B: a client history command with limit B (thorough: also reverse on one side). The
// memory broker's read passes through locks, so the scheduler can hold one read inside the
// single-flight call while the other arrives. Oracle: both results equal the results the same
// calls give sequentially (computed before the concurrent phase on the same node).
func init() {
	vsched.Register(&vsched.Harness{
		Name: "histflight", Props: []string{"C43"}, Kind: "sched",
		Doc: "node with UseSingleFlight, channel with five publications; thread A: Node.History(limit A), thread B: client history command (limit B), limits in {-1,0,1,2}^2 x HistoryMaxPublicationLimit {0,2} (ChooseFree), preemption bound 1 (thorough 2, plus reverse); oracle: each result equals the result of the same call made alone (count, offsets, position), and the client reply never exceeds the configured maximum",
		Variants: func(tier string) []vsched.Variant {
			if tier == "thorough" {
				return []vsched.Variant{{Name: "limits", Bound: 2, Shards: 8, BudgetS: 280}, {Name: "limits-reverse", Bound: 1, Shards: 8, BudgetS: 280}}
			}
			return []vsched.Variant{{Name: "limits", Bound: 1, Shards: 4, BudgetS: 100}}
		},
		Sched: func(v vsched.Variant) func() {
			limits := []int{-1, 0, 1, 2}
			maxes := []int{0, 2}
			return func() {
				pick := vsched.ChooseFree(len(limits) * len(limits) * len(maxes))
				la, lb := limits[pick%4], limits[(pick/4)%4]
				maxLimit := maxes[pick/16]
				reverse := v.Name == "limits-reverse"
				vsched.Quiet(true)
				n := vNewNode(func(c *Config) {
					c.UseSingleFlight = true
					c.HistoryMaxPublicationLimit = maxLimit
				})
				n.OnConnect(func(c *Client) {
					c.OnHistory(func(e HistoryEvent, cb HistoryCallback) { cb(HistoryReply{}, nil) })
				})
				if err := n.Run(); err != nil {
					panic(err)
				}
				for i := 1; i <= 5; i++ {
					if _, err := n.Publish("h", []byte(fmt.Sprintf(`{"i":%d}`, i)), WithHistory(16, 3600e9)); err != nil {
						panic(err)
					}
				}
				cl := vNewClient(n, vNewTransport(), &Credentials{UserID: "u"})
				cl.connect()
				vsched.WaitIdle()
				nodeCall := func() string {
					r, err := n.History("h", WithHistoryFilter(HistoryFilter{Limit: la, Reverse: reverse}))
					if err != nil {
						return "error " + err.Error()
					}
					return histflightDesc(len(r.Publications), func(i int) uint64 { return r.Publications[i].Offset }, r.Offset)
				}
				clientCall := func() string {
					frames := len(cl.t.frames)
					cl.cmd(&protocol.Command{History: &protocol.HistoryRequest{Channel: "h", Limit: int32(lb)}})
					vsched.WaitIdle()
					for _, f := range cl.t.frames[frames:] {
						if f.Reply.Error != nil {
							return fmt.Sprintf("error %d", f.Reply.Error.Code)
						}
						if h := f.Reply.History; h != nil {
							return histflightDesc(len(h.Publications), func(i int) uint64 { return h.Publications[i].Offset }, h.Offset)
						}
					}
					return "no reply"
				}
				wantA, wantB := nodeCall(), clientCall()
				vsched.Quiet(false)
				var gotA, gotB string
				done := make(chan struct{}, 2)
				go func() { gotA = nodeCall(); done <- struct{}{} }()
				go func() { gotB = clientCall(); done <- struct{}{} }()
				<-done
				<-done
				vsched.WaitIdle()
				vsched.Quiet(true)
				vsched.Logf("limits A=%d B=%d max=%d reverse=%v: node %s | client %s", la, lb, maxLimit, reverse, gotA, gotB)
				if gotA != wantA {
					vsched.Failf("histflight-node-result-differs", "Node.History(limit %d) overlapping a client history(limit %d): got %s, alone %s", la, lb, gotA, wantA)
				}
				if gotB != wantB {
					vsched.Failf("histflight-client-result-differs", "client history(limit %d, max %d) overlapping Node.History(limit %d): got %s, alone %s", lb, maxLimit, la, gotB, wantB)
				}
				_ = cl.close()
				vsched.WaitIdle()
			}
		},
	})
}

func histflightDesc(n int, off func(int) uint64, top uint64) string {
	s := fmt.Sprintf("%d pubs [", n)
	for i := 0; i < n; i++ {
		s += fmt.Sprintf(" %d", off(i))
	}
	return s + fmt.Sprintf(" ] top %d", top)
}
