//go:build verif

package centrifuge

import (
	"fmt"
	"strconv"
	"strings"
	"sync"
	"time"

	"github.com/centrifugal/centrifuge/internal/queue"
	"github.com/centrifugal/centrifuge/internal/zzverif/vsched"
	"github.com/centrifugal/protocol"
)

// chanwriter (C13, component level): perChannelWriter / channelWriter with a recording flushFn.
//
// Every harness event (Add start / return, flush, delWriter / Close start / return) gets a
// sequence number; "x before y" below means x's Add returned before y's Add started.
//
// Oracle, from the property statement:
//   order        per channel, flushed items appear in production order (x before y => x is
//                flushed before y); in latest-publication mode the only exception is inside one
//                flush, where join/leave items precede the publications
//   duplicate    no item is flushed twice; phantom: nothing unknown is flushed; a flush holds
//                items of one channel only
//   latest-*     latest mode, per flush: join/leave first (layout), at most one publication per
//                key (not-coalesced), and never a publication x when a newer one of the same key
//                was completely added before the flush happened (stale)
//   flush-after-end  nothing that was completely added before delWriter / Close began is
//                flushed after that call returned
//   lost         an item is never flushed only if (i) a discarding call (delWriter(false) /
//                Close(false)) did not lie completely before its Add, or (ii) latest mode: it is a
//                publication superseded by one of the same key that was not completely before it,
//                with no flush of the channel between the two
// Every execution ends with time running past MaxDelay and a final Close(true), so "never" is
// decidable.

type cwxItem struct {
	id   int
	ch   string
	kind string // pub | join | leave
	key  string
	s, r int // Add start / return
}

type cwxFlush struct {
	seq int
	ids []int
}

type cwxEnd struct {
	ch    string // "" = Close (all channels)
	flush bool
	s, r  int
}

type cwxRec struct {
	seq     int
	items   []*cwxItem
	flushes []cwxFlush
	ends    []*cwxEnd
	pcw     *perChannelWriter
	cfg     ChannelBatchConfig
	trace   []string
}

func (r *cwxRec) tick() int { r.seq++; return r.seq }

func newCwxRec(cfg ChannelBatchConfig) *cwxRec {
	r := &cwxRec{cfg: cfg}
	r.pcw = newPerChannelWriter(func(items []queue.Item) error {
		vsched.Visible()
		f := cwxFlush{seq: r.tick()}
		for _, it := range items {
			id, err := strconv.Atoi(string(it.Data))
			if err != nil {
				id = -1
			}
			f.ids = append(f.ids, id)
		}
		r.flushes = append(r.flushes, f)
		return nil
	})
	return r
}

func (r *cwxRec) add(ch, kind, key string) {
	x := &cwxItem{id: len(r.items), ch: ch, kind: kind, key: key}
	r.items = append(r.items, x)
	ft := protocol.FrameTypePushPublication
	switch kind {
	case "join":
		ft = protocol.FrameTypePushJoin
	case "leave":
		ft = protocol.FrameTypePushLeave
	}
	r.trace = append(r.trace, fmt.Sprintf("#%d=%s:%s%s", x.id, ch, kind, key))
	x.s = r.tick()
	r.pcw.Add(queue.Item{Data: []byte(strconv.Itoa(x.id)), Key: key, FrameType: ft}, ch, r.cfg)
	x.r = r.tick()
}

func (r *cwxRec) del(ch string, flush bool) {
	e := &cwxEnd{ch: ch, flush: flush}
	r.ends = append(r.ends, e)
	r.trace = append(r.trace, fmt.Sprintf("delWriter(%s,%v)", ch, flush))
	e.s = r.tick()
	r.pcw.delWriter(ch, flush)
	e.r = r.tick()
}

func (r *cwxRec) close(flush bool) {
	e := &cwxEnd{flush: flush}
	r.ends = append(r.ends, e)
	r.trace = append(r.trace, fmt.Sprintf("Close(%v)", flush))
	e.s = r.tick()
	r.pcw.Close(flush)
	e.r = r.tick()
}

// detached: x's Add overlapped a delWriter of its channel, so x may have been put into a
// channelWriter that was already removed from the map.
func (r *cwxRec) detached(x *cwxItem) bool {
	for _, e := range r.ends {
		if e.ch == x.ch && e.ch != "" && e.s < x.r && x.s < e.r {
			return true
		}
	}
	return false
}

func (r *cwxRec) check() {
	latest := r.cfg.FlushLatestPublication
	fail := func(sig, format string, a ...any) {
		vsched.Failf(sig, "%s; config %+v; events %v; flushes %v", fmt.Sprintf(format, a...), r.cfg, r.trace, r.flushes)
	}
	type where struct{ b, i, seq int }
	pos := map[int]where{}
	for b, f := range r.flushes {
		ch := ""
		for i, id := range f.ids {
			if id < 0 || id >= len(r.items) {
				fail("phantom", "flush %d contains an unknown item", b)
				continue
			}
			x := r.items[id]
			if i > 0 && ch != x.ch {
				fail("mixed-channel-flush", "flush %d mixes channels %s and %s", b, ch, x.ch)
			}
			ch = x.ch
			if _, dup := pos[id]; dup {
				fail("duplicate", "item #%d flushed twice", id)
				continue
			}
			pos[id] = where{b, i, f.seq}
		}
	}
	suffix := func(x, y *cwxItem) string {
		if r.detached(x) || (y != nil && r.detached(y)) {
			return ":add-concurrent-with-delwriter"
		}
		return ""
	}
	// order (+ latest-mode layout exception)
	for _, x := range r.items {
		px, okx := pos[x.id]
		if !okx {
			continue
		}
		for _, y := range r.items {
			py, oky := pos[y.id]
			if !oky || x == y || x.ch != y.ch || !(x.r < y.s) {
				continue
			}
			if px.b < py.b || (px.b == py.b && px.i < py.i) {
				continue
			}
			if latest && px.b == py.b && x.kind == "pub" && y.kind != "pub" {
				continue // join/leave are emitted before the publications of the same flush
			}
			fail("order"+suffix(x, y), "#%d was added before #%d but flushed after it", x.id, y.id)
		}
	}
	if latest {
		for b, f := range r.flushes {
			seenPub := false
			keys := map[string]int{}
			for _, id := range f.ids {
				if id < 0 || id >= len(r.items) {
					continue
				}
				x := r.items[id]
				if x.kind != "pub" {
					if seenPub {
						fail("latest-layout", "flush %d has join/leave item #%d after a publication", b, id)
					}
					continue
				}
				seenPub = true
				if prev, dup := keys[x.key]; dup {
					fail("latest-not-coalesced", "flush %d carries publications #%d and #%d of key %q", b, prev, id, x.key)
				}
				keys[x.key] = id
				for _, y := range r.items {
					if y != x && y.kind == "pub" && y.ch == x.ch && y.key == x.key && x.r < y.s && y.r < f.seq {
						// y is newer and was completely added before this flush happened; it may
						// only be missing from this flush if it was flushed or discarded earlier,
						// which the order / loss rules judge. Here: x must not be delivered now.
						if py, ok := pos[y.id]; ok && py.b <= b {
							continue // reported as an order violation / as not coalesced
						}
						fail("latest-stale"+suffix(x, y), "flush %d delivers publication #%d of key %q although the newer #%d was added before the flush", b, id, x.key, y.id)
					}
				}
			}
		}
	}
	// nothing added completely before an end event is flushed after it returned
	for _, e := range r.ends {
		for _, x := range r.items {
			p, ok := pos[x.id]
			if !ok || (e.ch != "" && e.ch != x.ch) {
				continue
			}
			if x.r < e.s && p.seq > e.r {
				kind := "close"
				if e.ch != "" {
					kind = "delwriter"
				}
				fail("flush-after-end:"+kind, "#%d was added before %s(flush=%v) began and flushed after it returned", x.id, kind, e.flush)
			}
		}
	}
	// loss
	for _, x := range r.items {
		if _, ok := pos[x.id]; ok {
			continue
		}
		justified := false
		for _, e := range r.ends {
			if !e.flush && (e.ch == "" || e.ch == x.ch) && !(e.r < x.s) {
				justified = true
			}
			// Close(...) ends the connection's writer for good: the statement makes no
			// delivery promise for items added while or after the connection closes.
			if e.ch == "" && e.s < x.r {
				justified = true
			}
		}
		if !justified && latest && x.kind == "pub" {
			for _, y := range r.items {
				if y == x || y.kind != "pub" || y.ch != x.ch || y.key != x.key || y.r < x.s {
					continue
				}
				between := false
				for _, f := range r.flushes {
					if !(x.r < f.seq && f.seq < y.s) {
						continue
					}
					mine, allDetached := false, true
					for _, id := range f.ids {
						if id >= 0 && id < len(r.items) && r.items[id].ch == x.ch {
							mine = true
							if !r.detached(r.items[id]) {
								allDetached = false
							}
						}
					}
					if mine && !allDetached {
						between = true
					}
				}
				if !between {
					justified = true
				}
			}
		}
		if !justified {
			sig := "lost"
			if latest {
				sig = "latest-lost"
			}
			fail(sig+":"+x.kind, "#%d (%s %s%s) was never flushed", x.id, x.ch, x.kind, x.key)
		}
	}
}

func (r *cwxRec) log() {
	var sb strings.Builder
	for _, f := range r.flushes {
		sb.WriteString("[")
		for i, id := range f.ids {
			if i > 0 {
				sb.WriteString(" ")
			}
			if id >= 0 && id < len(r.items) {
				x := r.items[id]
				fmt.Fprintf(&sb, "%d%s%s%s", id, x.ch, x.kind[:1], x.key)
			} else {
				sb.WriteString("?")
			}
		}
		sb.WriteString("]")
	}
	vsched.Logf("%s", sb.String())
}

// ---- configurations

const cwxDelay = 10 * time.Millisecond

var cwxConfigs = map[string]ChannelBatchConfig{
	"size2":        {MaxSize: 2},
	"delay":        {MaxDelay: cwxDelay},
	"both":         {MaxSize: 2, MaxDelay: cwxDelay},
	"latest-size3": {MaxSize: 3, FlushLatestPublication: true},
	"latest-delay": {MaxDelay: cwxDelay, FlushLatestPublication: true},
	"latest-both":  {MaxSize: 3, MaxDelay: cwxDelay, FlushLatestPublication: true},
}

var cwxConfigOrder = []string{"size2", "delay", "both", "latest-size3", "latest-delay", "latest-both"}

// ---- sequential variants: every operation sequence of a given depth (one thread)

type cwxSeqOp struct {
	name string
	run  func(r *cwxRec)
	time bool
}

var cwxSeqOps = []cwxSeqOp{
	{name: "pub x a", run: func(r *cwxRec) { r.add("x", "pub", "a") }},
	{name: "pub x b", run: func(r *cwxRec) { r.add("x", "pub", "b") }},
	{name: "join x", run: func(r *cwxRec) { r.add("x", "join", "") }},
	{name: "leave x", run: func(r *cwxRec) { r.add("x", "leave", "") }},
	{name: "pub y a", run: func(r *cwxRec) { r.add("y", "pub", "a") }},
	{name: "delWriter(x,false)", run: func(r *cwxRec) { r.del("x", false) }},
	{name: "delWriter(x,true)", run: func(r *cwxRec) { r.del("x", true) }},
	{name: "Close(false)", run: func(r *cwxRec) { r.close(false) }},
	{name: "Close(true)", run: func(r *cwxRec) { r.close(true) }},
	{name: "+d/2", time: true, run: func(r *cwxRec) {
		r.trace = append(r.trace, "+d/2")
		vsched.Advance(int64(cwxDelay / 2))
	}},
	{name: "+d", time: true, run: func(r *cwxRec) {
		r.trace = append(r.trace, "+d")
		vsched.Advance(int64(cwxDelay))
	}},
}

func cwxSeqBody(cfg ChannelBatchConfig, depth int, withLeave bool) func() {
	var ops []cwxSeqOp
	for _, o := range cwxSeqOps {
		if o.time && cfg.MaxDelay == 0 {
			continue // no timers: the time steps change nothing
		}
		if o.name == "leave x" && !withLeave {
			continue // quick tier: leave takes the same path as join (non-publication item)
		}
		ops = append(ops, o)
	}
	return func() {
		r := newCwxRec(cfg)
		for step := 0; step < depth; step++ {
			ops[vsched.ChooseFree(len(ops))].run(r)
		}
		r.settle()
	}
}

func (r *cwxRec) settle() {
	vsched.Advance(int64(3 * cwxDelay))
	r.close(true)
	vsched.Advance(int64(3 * cwxDelay))
	r.log()
	r.check()
}

// ---- concurrent variants: two producers, an optional end event, timers racing (timer-first)

type cwxParCfg struct {
	cfg   string
	end   string // none | del | close-noflush | close-flush
	items int    // 4: producers [pub a, join] + [pub b, pub a]; 5: [pub a, join, pub a] + [pub b, pub a]
}

func cwxParBody(c cwxParCfg) func() {
	cfg := cwxConfigs[c.cfg]
	return func() {
		r := newCwxRec(cfg)
		vsched.SetHorizon(int64(2 * cwxDelay))
		var wg sync.WaitGroup
		wg.Add(2)
		go func() {
			defer wg.Done()
			r.add("x", "pub", "a")
			r.add("x", "join", "")
			if c.items >= 5 {
				r.add("x", "pub", "a")
			}
		}()
		go func() {
			defer wg.Done()
			r.add("x", "pub", "b")
			r.add("x", "pub", "a")
		}()
		if c.end != "none" {
			wg.Add(1)
			go func() {
				defer wg.Done()
				switch c.end {
				case "del":
					r.del("x", false)
				case "close-noflush":
					r.close(false)
				case "close-flush":
					r.close(true)
				}
			}()
		}
		wg.Wait()
		r.settle()
	}
}

var cwxVars = map[string]func() func(){}

func cwxVariants(tier string) []vsched.Variant {
	var out []vsched.Variant
	depth := 5
	if tier == "thorough" {
		depth = 6
	}
	for _, name := range cwxConfigOrder {
		cfg := cwxConfigs[name]
		d := depth
		if tier == "thorough" && (name == "delay" || name == "latest-delay") {
			d = 5 // the delay-only configs are contained in the size+delay ones; depth 6 is spent there
		}
		vn := fmt.Sprintf("seq/%s/depth%d", name, d)
		withLeave := tier == "thorough"
		cwxVars[vn] = func() func() { return cwxSeqBody(cfg, d, withLeave) }
		sh := 8
		if tier == "thorough" {
			sh = 16
		}
		out = append(out, vsched.Variant{Name: vn, Bound: 0, Shards: sh, BudgetS: 280})
	}
	for _, name := range cwxConfigOrder {
		for _, end := range []string{"none", "del", "close-noflush", "close-flush"} {
			addPar := func(items, bound, shards int) {
				pc := cwxParCfg{name, end, items}
				vn := fmt.Sprintf("par%d/%s/%s", items, name, end)
				cwxVars[vn] = func() func() { return cwxParBody(pc) }
				out = append(out, vsched.Variant{Name: vn, Bound: bound, Shards: shards, BudgetS: 280})
			}
			heavy := strings.HasSuffix(name, "both") && end != "none"
			timers := cwxConfigs[name].MaxDelay > 0
			if tier == "thorough" {
				switch {
				case !timers:
					addPar(4, 3, 2)
					addPar(5, 3, 2)
				case end == "del" || (end == "close-noflush" && name == "latest-both"):
					addPar(4, 3, 16)
					addPar(5, 2, 4)
				default:
					addPar(5, 2, 4)
				}
			} else if heavy {
				addPar(4, 2, 4)
			} else {
				addPar(5, 2, 2)
			}
		}
	}
	return out
}

func init() {
	vsched.Register(&vsched.Harness{
		Name: "chanwriter", Props: []string{"C13", "C07"}, Kind: "sched",
		Doc: "perChannelWriter with a recording flushFn; configs {MaxSize 2, MaxDelay d, both, latest+MaxSize 3, latest+MaxDelay, latest+both}; " +
			"seq: every sequence of depth 5 (thorough 6) over {pub x/a, pub x/b, join x, leave x (thorough only), pub y/a, delWriter(x,false|true), Close(false|true), +d/2, +d}; " +
			"par4/par5: producers [pub a, join(, pub a)] and [pub b, pub a] on one channel, end event {none, delWriter(false), Close(false), Close(true)}, timers may fire first (horizon 2d), deviation bound 2 (thorough: 3 for the size-only configs and, with 4 items, for every timer config racing delWriter); " +
			"every execution ends with +3d and Close(true); oracle: production order per channel, no duplicate/phantom, latest mode: join/leave first + one newest publication per key in last-update order, " +
			"nothing added before delWriter/Close began is flushed after it returned, unflushed only if discarded or superseded",
		Variants: cwxVariants,
		Sched:    func(v vsched.Variant) func() { return cwxVars[v.Name]() },
	})
}
