//go:build verif

package centrifuge

import (
	"fmt"
	"sort"
	"strings"

	"github.com/centrifugal/centrifuge/internal/zzverif/vsched"
)

// presencemulti (C06, E1): one connection holding SEVERAL presence subscriptions; a periodic
// presence tick (Client.updatePresence, sequential or concurrent variant) races the ends of two
// of them. connops-C06 covers one channel; the tick works on a snapshot of all channels and
// compensates the ones that ended while it was in flight, so the per-snapshot bookkeeping needs
// more than one channel to be exercised.
//
// Connection A subscribed (client side, EmitPresence) to x, y and z. Threads:
//   T   A.updatePresence()                      (the presence tick)
//   R   client command: unsubscribe x           (A's reader thread)
//   S   A.Unsubscribe(y)                        (server API, another thread)
//   variant +close: S is A.Disconnect instead, which ends everything
// z stays subscribed (unless closed). Oracle at quiescence (statement of C06): presence(ch)
// contains A iff A still holds ch; PresenceStats(ch) == (1,1) resp. (0,0).
func init() {
	vsched.Register(&vsched.Harness{
		Name: "presencemulti", Props: []string{"C06"}, Kind: "sched",
		Doc: "connection A with presence subscriptions x, y, z; threads: presence tick (updatePresence; unexported clientPresenceUpdateConcurrency 0 or 2), client unsubscribe x, server-side A.Unsubscribe(y) (or disconnect); every interleaving within the delay bound (2 quick / 3 thorough); oracle at quiescence: Node.Presence(ch) contains A iff A holds ch, PresenceStats counts exactly that",
		Variants: func(tier string) []vsched.Variant {
			// delay bounding: every departure from the default scheduler (lowest thread first) counts
			if tier == "thorough" {
				return []vsched.Variant{
					{Name: "seq", Bound: 3, Delay: true, Shards: 8, BudgetS: 280},
					{Name: "conc", Bound: 3, Delay: true, Shards: 8, BudgetS: 280},
					{Name: "seq+close", Bound: 3, Delay: true, Shards: 8, BudgetS: 280},
					{Name: "seq-lifo", Bound: 3, Delay: true, LIFO: true, Shards: 8, BudgetS: 280},
				}
			}
			return []vsched.Variant{
				{Name: "seq", Bound: 2, Delay: true, Shards: 1, BudgetS: 100},
				{Name: "conc", Bound: 2, Delay: true, Shards: 1, BudgetS: 100},
			}
		},
		Sched: func(v vsched.Variant) func() {
			return func() {
				vsched.Quiet(true)
				n := vNewNode(func(c *Config) {
					if strings.HasPrefix(v.Name, "conc") {
						c.clientPresenceUpdateConcurrency = 2
					}
				})
				n.OnConnect(func(c *Client) {
					c.OnSubscribe(func(e SubscribeEvent, cb SubscribeCallback) {
						cb(SubscribeReply{Options: SubscribeOptions{EmitPresence: true}}, nil)
					})
					c.OnUnsubscribe(func(e UnsubscribeEvent) {})
				})
				if err := n.Run(); err != nil {
					panic(err)
				}
				a := vNewClient(n, vNewTransport(), &Credentials{UserID: "ua"})
				a.connect()
				chans := []string{"x", "y", "z"}
				for _, ch := range chans {
					a.subscribe(ch)
				}
				vsched.WaitIdle()
				for _, ch := range chans {
					if p, err := n.Presence(ch); err != nil || len(p.Presence) != 1 {
						panic(fmt.Sprintf("verif: presencemulti setup: presence(%s) = %v, %v", ch, p.Presence, err))
					}
				}
				vsched.Quiet(false)
				done := make(chan struct{}, 3)
				go func() { a.c.updatePresence(); done <- struct{}{} }()
				go func() { a.unsubscribe("x"); done <- struct{}{} }()
				go func() {
					if strings.HasSuffix(v.Name, "+close") {
						a.c.Disconnect(DisconnectForceNoReconnect)
					} else {
						a.c.Unsubscribe("y")
					}
					done <- struct{}{}
				}()
				for i := 0; i < 3; i++ {
					<-done
				}
				vsched.WaitIdle()
				vsched.Quiet(true)
				held := a.c.Channels()
				sort.Strings(held)
				var view []string
				for _, ch := range chans {
					p, err := n.Presence(ch)
					if err != nil {
						panic(err)
					}
					st, err := n.PresenceStats(ch)
					if err != nil {
						panic(err)
					}
					_, present := p.Presence[a.c.ID()]
					holds := a.c.IsSubscribed(ch)
					view = append(view, fmt.Sprintf("%s:held=%v,present=%v,stats=%d/%d", ch, holds, present, st.NumClients, st.NumUsers))
					switch {
					case !holds && present:
						vsched.Failf("presence-stale:multi", "A no longer holds %s but is still in its presence (A holds %v)", ch, held)
					case holds && !present:
						vsched.Failf("presence-missing:multi", "A holds %s but is absent from its presence (A holds %v)", ch, held)
					}
					want := 0
					if present {
						want = 1
					}
					if st.NumClients != want || st.NumUsers != want {
						vsched.Failf("presence-stats:multi", "PresenceStats(%s) = %d clients / %d users, the presence set holds %d", ch, st.NumClients, st.NumUsers, want)
					}
				}
				vsched.Logf("%s: %s", v.Name, strings.Join(view, " "))
				_ = a.close()
				vsched.WaitIdle()
			}
		},
	})
}
