//go:build verif

package centrifuge

import (
	"context"
	"fmt"
	"strings"
	"time"

	"github.com/centrifugal/centrifuge/internal/zzverif/vsched"
	"github.com/centrifugal/protocol"
)

// mapunsubgate (C08, E1): "the unsubscribe callback runs exactly once for every established
// subscription that ends", for a MAP subscription that an unsubscribe catches while it is still
// loading. connops-C08 covers stream subscriptions; the map path has its own wait gate in
// Client.unsubscribe (the reservation in c.mapSubscribing and its subscribingCh).
//
// Recoverable map channel with two keys, page size 1. The connection's reader thread sends the
// first state page, then the last state page (state -> live). Another thread ends the subscription
// while that is going on: Node.Unsubscribe(u, ch), Client.Unsubscribe(ch), or a client unsubscribe
// command issued by the same reader after the first page (variant cmd: sequential, exercises the
// path without a wait). Oracle at quiescence: unsubscribe callbacks for ch == 1 if the
// subscription was established (a successful live reply was written or the connection still holds
// the channel) and is no longer held, 0 if it is still held or never got established; never 2.
func init() {
	vsched.Register(&vsched.Harness{
		Name: "mapunsubgate", Props: []string{"C08"}, Kind: "sched",
		Doc: "map subscription loading in two state pages (page size 1) on the connection's reader thread while another thread runs Node.Unsubscribe / Client.Unsubscribe for the channel (preemption bound 1 quick / 2 thorough); oracle: exactly one unsubscribe callback iff the subscription was established and has ended, none if it is still held or was never established",
		Variants: func(tier string) []vsched.Variant {
			b := 1
			if tier == "thorough" {
				b = 2
			}
			return []vsched.Variant{
				{Name: "nunsub", Bound: b, Shards: 2, BudgetS: 100},
				{Name: "cunsub", Bound: b, Shards: 2, BudgetS: 100},
			}
		},
		Sched: func(v vsched.Variant) func() {
			const ch = "mg"
			return func() {
				vsched.Quiet(true)
				var events []string
				n := vNewNode(func(c *Config) {
					c.Map.GetMapChannelOptions = func(string) MapChannelOptions {
						return MapChannelOptions{Mode: MapModeRecoverable, KeyTTL: time.Hour, MinPageSize: 1}
					}
				})
				vInstallMapBrokerFor(n, ch)
				n.OnConnect(func(c *Client) {
					c.OnSubscribe(func(e SubscribeEvent, cb SubscribeCallback) {
						cb(SubscribeReply{Options: SubscribeOptions{Type: SubscriptionTypeMap}}, nil)
					})
					c.OnUnsubscribe(func(e UnsubscribeEvent) {
						vsched.Visible()
						events = append(events, "unsubscribe:"+e.Channel)
					})
				})
				if err := n.Run(); err != nil {
					panic(err)
				}
				for _, k := range []string{"k1", "k2"} {
					if _, err := n.MapPublish(context.Background(), ch, k, MapPublishOptions{Data: []byte(`{"k":1}`)}); err != nil {
						panic(err)
					}
				}
				t := vNewTransport()
				t.emulation = true
				a := vNewClient(n, t, &Credentials{UserID: "u"})
				a.connect()
				vsched.WaitIdle()
				req := func(cursor string, off uint64, ep string) *protocol.SubscribeRequest {
					return &protocol.SubscribeRequest{Channel: ch, Type: int32(SubscriptionTypeMap), Phase: MapPhaseState, Limit: 1, Cursor: cursor, Offset: off, Epoch: ep}
				}
				// replies reach the transport through the connection's writer goroutine: the reader thread
				// waits for the reply to its own command (or gives up when the connection was closed or the
				// command was refused without a reply - the channel is closed by the main thread at the end)
				replies := make(chan *protocol.Reply, 16)
				t.onFrame = func(f vFrame) {
					if f.Reply.Id > 1 {
						replies <- f.Reply
					}
				}
				// the unsubscribe may have to sit out the 5 s wait gate (a reservation whose owner has
				// stopped paging): virtual time may advance that far during the concurrent phase
				vsched.SetHorizon(int64(6 * time.Second))
				vsched.Quiet(false)
				done := make(chan struct{}, 2)
				go func() {
					defer func() { done <- struct{}{} }()
					if !a.cmd(&protocol.Command{Subscribe: req("", 0, "")}) {
						return
					}
					var r *protocol.Reply
					select {
					case r = <-replies:
					case <-a.c.Context().Done(): // the connection was closed (unsubscribe wait gate timed out)
						return
					}
					if r == nil || r.Subscribe == nil || r.Error != nil || r.Subscribe.Cursor == "" {
						return // refused (the unsubscribe won) or a single page
					}
					a.cmd(&protocol.Command{Subscribe: req(r.Subscribe.Cursor, r.Subscribe.Offset, r.Subscribe.Epoch)})
				}()
				go func() {
					defer func() { done <- struct{}{} }()
					if v.Name == "nunsub" {
						_ = n.Unsubscribe("u", ch)
					} else {
						a.c.Unsubscribe(ch)
					}
				}()
				<-done
				<-done
				vsched.WaitIdle()
				vsched.Quiet(true)
				held := a.c.IsSubscribed(ch)
				// established: the state -> live reply (second successful subscribe reply, no cursor) was written
				established := held
				nsub := 0
				for _, f := range t.frames {
					if r := f.Reply; r.Id > 1 && r.Subscribe != nil && r.Error == nil {
						nsub++
						if nsub == 2 && r.Subscribe.Cursor == "" {
							established = true
						}
					}
				}
				cbs := 0
				for _, e := range events {
					if e == "unsubscribe:"+ch {
						cbs++
					}
				}
				vsched.Logf("%s: established=%v held=%v unsubscribe-callbacks=%d frames=%s", v.Name, established, held, cbs, strings.Join(t.log(), " | "))
				switch {
				case cbs > 1:
					vsched.Failf("map-unsubscribe-cb-twice", "%d unsubscribe callbacks for one map subscription", cbs)
				case established && !held && cbs == 0:
					vsched.Failf("map-unsubscribe-cb-missing", "the map subscription was established (live reply written) and has ended, but the unsubscribe callback never ran: %s", fmt.Sprint(events))
				case held && cbs != 0:
					vsched.Failf("map-unsubscribe-cb-for-live-subscription", "the connection still holds the map subscription but %d unsubscribe callbacks ran", cbs)
				}
				_ = a.close()
				vsched.WaitIdle()
			}
		},
	})
}
