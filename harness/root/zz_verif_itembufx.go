//go:build verif

package centrifuge

import (
	"fmt"
	"strings"
	"sync"

	"github.com/centrifugal/centrifuge/internal/queue"
	"github.com/centrifugal/centrifuge/internal/zzverif/vsched"
)

// itembufx (C42): the writer's tiered itemBuf pool (getItemBuf / putItemBuf in writer.go) under
// every get/put sequence with arbitrary mutations of the buffer before it is returned. The
// rewritten sync.Pool is a deterministic LIFO that is empty at the start of every execution.
//
// Oracle (property statement; DESIGN.md C42: "empty (item buffers: zero items)"): the buffer
// obtained for length L has cap >= L and every item it exposes (B[0:len(B)]) is the zero Item.

var itembufxMutNames = []string{
	"none",          // 0 untouched (all items still zero)
	"fill",          // 1 every exposed item set (what writer does through RemoveManyInto)
	"fill-shorter",  // 2 every exposed item set, then B = B[:len/2]: dirty items behind len
	"fill-cap",      // 3 B = B[:cap], every item set
	"append-grow",   // 4 B = append(B[:cap], item): reallocated, cap no longer a power of two
	"reslice-front", // 5 every exposed item set, then B = B[1:]: cap-1
	"smaller",       // 6 replaced with a fresh make(.., 2, 3) of set items
	"nil",           // 7 replaced with nil
	"cap-minus-1",   // 8 every exposed item set, then B = B[0:len':cap-1]
}

var itembufxDirty = queue.Item{Data: []byte("dirty"), Channel: "c", Key: "k", FrameType: 7}

func itembufxFill(b []queue.Item) {
	for i := range b {
		b[i] = itembufxDirty
	}
}

func itembufxMutate(ib *itemBuf, m int) {
	switch m {
	case 1:
		itembufxFill(ib.B)
	case 2:
		itembufxFill(ib.B)
		ib.B = ib.B[:len(ib.B)/2]
	case 3:
		ib.B = ib.B[:cap(ib.B)]
		itembufxFill(ib.B)
	case 4:
		ib.B = ib.B[:cap(ib.B)]
		itembufxFill(ib.B)
		ib.B = append(ib.B, itembufxDirty)
	case 5:
		itembufxFill(ib.B)
		if len(ib.B) >= 1 {
			ib.B = ib.B[1:]
		}
	case 6:
		ib.B = make([]queue.Item, 2, 3)
		itembufxFill(ib.B)
	case 7:
		ib.B = nil
	case 8:
		itembufxFill(ib.B)
		if c := cap(ib.B); c >= 2 {
			n := len(ib.B)
			if n > c-1 {
				n = c - 1
			}
			ib.B = ib.B[0:n : c-1]
		}
	}
}

func itembufxIsZero(it queue.Item) bool {
	return it.Data == nil && it.Channel == "" && it.Key == "" && it.FrameType == 0
}

// itembufxOrig is what the harness remembers about a buffer it returned to the pool.
type itembufxOrig struct {
	mut      string // last mutation (message only)
	lenAtPut int    // len(B) when it was last put: the part of the buffer putItemBuf could see
}

// oracle for one handed-out buffer. The signature of a dirty buffer says where the first
// non-zero item lies relative to the len the buffer had when it was last returned: within that
// len (putItemBuf saw the item and did not clear it) or behind it (the item was hidden behind
// len at the put and is exposed again by getItemBuf re-extending the slice).
func itembufxCheck(want int, ib *itemBuf, o itembufxOrig, seen bool, trace []string) {
	if !seen {
		o = itembufxOrig{mut: "new", lenAtPut: 0}
	}
	if cap(ib.B) < want {
		vsched.Failf("itembuf-undersized", "itemBuf obtained for length %d has cap %d; it was last returned after mutation %q; sequence %v", want, cap(ib.B), o.mut, trace)
	}
	for i, it := range ib.B {
		if !itembufxIsZero(it) {
			where := "within-put-len"
			if !seen {
				where = "fresh-buffer"
			} else if i >= o.lenAtPut {
				where = "behind-put-len"
			}
			vsched.Failf("itembuf-dirty:"+where, "itemBuf obtained for length %d exposes a non-zero item at index %d of %d (%q); it was last returned with len %d after mutation %q; sequence %v", want, i, len(ib.B), it.Data, o.lenAtPut, o.mut, trace)
			break
		}
	}
}

var itembufxLengths = []int{-1, 0, 1, 2, 3, 4, 5, 7, 8, 9, 15, 16, 17}
var itembufxBig = []int{17, maxItemBufLength/2 + 1, maxItemBufLength - 1, maxItemBufLength, maxItemBufLength + 1}
var itembufxSmall = []int{1, 3, 4, 5, 16, 17}
var itembufxParLens = []int{3, 4, 5}

type itembufxHeld struct {
	ib   *itemBuf
	want int
}

func itembufxSeq(lengths []int, muts []int, depth int) func() {
	return func() {
		var held []itembufxHeld
		origin := map[*itemBuf]itembufxOrig{}
		var trace, classes []string
		for step := 0; step < depth; step++ {
			nGet := 0
			if len(held) < 2 {
				nGet = len(lengths)
			}
			op := vsched.ChooseFree(nGet + len(held)*len(muts))
			if op < nGet {
				want := lengths[op]
				trace = append(trace, fmt.Sprintf("get(%d)", want))
				ib := getItemBuf(want)
				o, seen := origin[ib]
				if !seen {
					o.mut = "new"
				}
				itembufxCheck(want, ib, o, seen, trace)
				classes = append(classes, fmt.Sprintf("g%d:%s:l%d:c%d", want, o.mut, len(ib.B), cap(ib.B)))
				held = append(held, itembufxHeld{ib, want})
				continue
			}
			op -= nGet
			slot, m := op/len(muts), muts[op%len(muts)]
			h := held[slot]
			held = append(held[:slot], held[slot+1:]...)
			itembufxMutate(h.ib, m)
			trace = append(trace, fmt.Sprintf("put(#%d got for %d, %s, len %d cap %d)", slot, h.want, itembufxMutNames[m], len(h.ib.B), cap(h.ib.B)))
			origin[h.ib] = itembufxOrig{itembufxMutNames[m], len(h.ib.B)}
			putItemBuf(h.ib)
			classes = append(classes, "p:"+itembufxMutNames[m])
		}
		vsched.Logf("%s", strings.Join(classes, " "))
	}
}

func itembufxPar(lengths []int, muts []int) func() {
	return func() {
		var wg sync.WaitGroup
		origin := map[*itemBuf]itembufxOrig{}
		logs := make([]string, 2)
		for t := 0; t < 2; t++ {
			t := t
			l1 := lengths[vsched.ChooseFree(len(lengths))]
			m := muts[vsched.ChooseFree(len(muts))]
			l2 := lengths[vsched.ChooseFree(len(lengths))]
			wg.Add(1)
			go func() {
				defer wg.Done()
				var trace []string
				get := func(want int) *itemBuf {
					vsched.Visible()
					ib := getItemBuf(want)
					o, seen := origin[ib]
					if !seen {
						o.mut = "new"
					}
					trace = append(trace, fmt.Sprintf("t%d:get(%d)", t, want))
					itembufxCheck(want, ib, o, seen, trace)
					logs[t] += fmt.Sprintf("g%d:%s:c%d ", want, o.mut, cap(ib.B))
					return ib
				}
				ib := get(l1)
				vsched.Visible()
				itembufxMutate(ib, m)
				vsched.Visible()
				origin[ib] = itembufxOrig{itembufxMutNames[m], len(ib.B)}
				trace = append(trace, fmt.Sprintf("t%d:put(%s)", t, itembufxMutNames[m]))
				putItemBuf(ib)
				ib2 := get(l2)
				vsched.Visible()
				itembufxFill(ib2.B)
				origin[ib2] = itembufxOrig{"fill", len(ib2.B)}
				putItemBuf(ib2)
			}()
		}
		wg.Wait()
		vsched.Logf("%s| %s", logs[0], logs[1])
	}
}

type itembufxVar struct {
	mode  string // seq | big | deep | par
	muts  string // all | len-preserving
	depth int
}

var itembufxVars = map[string]itembufxVar{}

// mutation sets: "keeplen" = the buffer is returned with the len it was handed out with or
// longer (none, fill, fill-cap, append-grow, smaller, nil): everything the buffer exposes is
// what putItemBuf gets to see; "all" adds the mutations that shorten B before the put.
var itembufxMutSets = map[string][]int{
	"keeplen": {0, 1, 3, 4, 6, 7},
	"all":     {0, 1, 2, 3, 4, 5, 6, 7, 8},
}

func itembufxVariants(tier string) []vsched.Variant {
	var out []vsched.Variant
	add := func(v itembufxVar, bound, shards int) {
		name := fmt.Sprintf("%s/%s/d%d", v.mode, v.muts, v.depth)
		itembufxVars[name] = v
		out = append(out, vsched.Variant{Name: name, Bound: bound, Shards: shards, BudgetS: 240})
	}
	if tier == "thorough" {
		add(itembufxVar{"seq", "keeplen", 5}, 0, 16)
		add(itembufxVar{"seq", "all", 5}, 0, 16)
		add(itembufxVar{"big", "all", 4}, 0, 16)
		add(itembufxVar{"deep", "all", 6}, 0, 16)
		add(itembufxVar{"par", "keeplen", 0}, 3, 8)
		add(itembufxVar{"par", "all", 0}, 3, 8)
	} else {
		add(itembufxVar{"seq", "keeplen", 4}, 0, 6)
		add(itembufxVar{"seq", "all", 4}, 0, 6)
		add(itembufxVar{"big", "all", 3}, 0, 2)
		add(itembufxVar{"deep", "all", 5}, 0, 6)
		add(itembufxVar{"par", "keeplen", 0}, 2, 4)
		add(itembufxVar{"par", "all", 0}, 2, 4)
	}
	return out
}

func init() {
	vsched.Register(&vsched.Harness{
		Name: "itembufx", Props: []string{"C42"}, Kind: "sched",
		Doc: "writer.go itemBuf pool on the deterministic LIFO sync.Pool: every sequence of depth d (ChooseFree per step) of getItemBuf(L) " +
			"(L over -1, 0, 1..5, 2^k+-1 up to 17; 'big' = {17, 2049, 4095, 4096, 4097}; <=2 buffers held) and putItemBuf(held buffer, mutation) with mutations " +
			"{none, fill, fill then shorten, fill to cap, append past cap, reslice front, replace with smaller, nil, cap-1}; 'keeplen' variants use only mutations that do not shorten B; " +
			"'par' = two threads get/mutate/put/get with a scheduling point between all steps; oracle: cap >= requested length and every exposed item is the zero Item",
		Variants: itembufxVariants,
		Sched: func(v vsched.Variant) func() {
			c := itembufxVars[v.Name]
			muts := itembufxMutSets[c.muts]
			switch c.mode {
			case "seq":
				return itembufxSeq(itembufxLengths, muts, c.depth)
			case "big":
				return itembufxSeq(itembufxBig, muts, c.depth)
			case "deep":
				return itembufxSeq(itembufxSmall, muts, c.depth)
			default:
				pm := []int{0, 1, 4, 6}
				if c.muts == "all" {
					pm = []int{1, 2, 5, 8}
				}
				return itembufxPar(itembufxParLens, pm)
			}
		},
	})
}
