//go:build verif

package centrifuge

import (
	"bytes"
	"context"
	"encoding/binary"
	"encoding/json"
	"fmt"
	"io"
	"net/http"
	"net/url"
	"runtime"
	"sort"
	"strings"
	"time"

	"github.com/centrifugal/centrifuge/internal/zzverif/vsched"
	"github.com/centrifugal/protocol"
)

// streamframing (C32): every server message written to an SSE or HTTP-streaming connection is
// received by a standards-conforming client parser as exactly one event / record that decodes to
// the same message, in order.
//
// The real SSEHandler.ServeHTTP / HTTPStreamHandler.ServeHTTP run on a managed thread against a
// harness http.ResponseWriter (+Flusher, +SetWriteDeadline); the request context is a
// scheduler-managed cancellable context. The request carries connect + subscribe("ch"). Messages
// are produced by Node.Publish("ch", payload) and Client.Send(payload), in batches of 1..3 (a
// batch = messages enqueued before the writer thread runs, so they reach the transport in one
// WriteMany call). Afterwards the context is cancelled and the whole response body is parsed by
//   sse          a WHATWG EventSource reference parser (lines end with CRLF, LF or CR, ...)
//   stream-json  an NDJSON splitter (records end with LF)
//   stream-pb    a varint-length-prefix decoder
// Oracle: number of events / records == number of messages the server sent; record k decodes
// (encoding/json with an independent struct, resp. protocol.Reply.UnmarshalVT) to message k: reply
// id / push kind / channel / payload (JSON payloads compared after json.Compact, binary byte for
// byte).
//
// Payload domain, JSON: every string of length <= L over { } [ ] " : , 1 a space LF CR that is a
// valid JSON text (encoding/json.Valid) and that the protocol's JSON encoder accepts; L = 4 quick,
// 6 thorough. Binary: the 256 one-byte payloads, all pairs over nine byte classes, and payloads
// whose length walks the encoded reply across the 1->2 and 2->3 byte varint length boundaries.
// Singletons cover the whole domain; batches of 2 and 3 range over class representatives.

// ---- reference parsers -------------------------------------------------------------------------

// vEventSourceParse implements "9.2.6 Interpreting an event stream" of the WHATWG HTML standard
// and returns the data of every dispatched event.
func vEventSourceParse(body []byte) []string {
	s := string(body)
	s = strings.TrimPrefix(s, "\xEF\xBB\xBF")
	// split into lines: CRLF, LF or CR
	var lines []string
	complete := false // whether the stream ended right after a line terminator
	cur := strings.Builder{}
	for i := 0; i < len(s); i++ {
		switch s[i] {
		case '\r':
			lines = append(lines, cur.String())
			cur.Reset()
			if i+1 < len(s) && s[i+1] == '\n' {
				i++
			}
			complete = true
		case '\n':
			lines = append(lines, cur.String())
			cur.Reset()
			complete = true
		default:
			cur.WriteByte(s[i])
			complete = false
		}
	}
	_ = complete // an unterminated last line is discarded, like any incomplete event
	var events []string
	var data strings.Builder
	hasData := false
	for _, line := range lines {
		if line == "" {
			if hasData {
				d := data.String()
				d = strings.TrimSuffix(d, "\n")
				events = append(events, d)
			}
			data.Reset()
			hasData = false
			continue
		}
		if line[0] == ':' {
			continue
		}
		field, value := line, ""
		if i := strings.IndexByte(line, ':'); i >= 0 {
			field, value = line[:i], line[i+1:]
			value = strings.TrimPrefix(value, " ")
		}
		switch field {
		case "data":
			data.WriteString(value)
			data.WriteByte('\n')
			hasData = true
		case "event", "id", "retry":
			// not used by the oracle
		}
	}
	return events
}

func vNDJSONSplit(body []byte) []string {
	var recs []string
	for _, l := range strings.Split(string(body), "\n") {
		if l != "" {
			recs = append(recs, l)
		}
	}
	return recs
}

func vVarintSplit(body []byte) ([][]byte, error) {
	var recs [][]byte
	for len(body) > 0 {
		l, n := binary.Uvarint(body)
		if n <= 0 {
			return recs, fmt.Errorf("bad length prefix at record %d", len(recs))
		}
		body = body[n:]
		if uint64(len(body)) < l {
			return recs, fmt.Errorf("record %d truncated: prefix says %d bytes, %d left", len(recs), l, len(body))
		}
		recs = append(recs, body[:l])
		body = body[l:]
	}
	return recs, nil
}

// vWireReply is the independent JSON view of a server message.
type vWireReply struct {
	ID        uint32           `json:"id"`
	Error     *json.RawMessage `json:"error"`
	Connect   *json.RawMessage `json:"connect"`
	Subscribe *json.RawMessage `json:"subscribe"`
	Push      *struct {
		Channel string `json:"channel"`
		Pub     *struct {
			Data json.RawMessage `json:"data"`
		} `json:"pub"`
		Message *struct {
			Data json.RawMessage `json:"data"`
		} `json:"message"`
	} `json:"push"`
}

// vMsg is one message the server is expected to have sent.
type vMsg struct {
	kind    string // connect | subscribe | pub | message
	payload []byte
}

func (m vMsg) String() string {
	if len(m.payload) > 24 {
		return fmt.Sprintf("%s(%d bytes %q...)", m.kind, len(m.payload), m.payload[:24])
	}
	return fmt.Sprintf("%s(%q)", m.kind, m.payload)
}

func vCompact(b []byte) string {
	var out bytes.Buffer
	if err := json.Compact(&out, b); err != nil {
		return "!" + string(b)
	}
	return out.String()
}

// vMatchJSON checks that record rec decodes to want; returns "" or what differs.
func vMatchJSON(rec string, want vMsg) string {
	var r vWireReply
	dec := json.NewDecoder(strings.NewReader(rec))
	if err := dec.Decode(&r); err != nil {
		return "not decodable: " + err.Error()
	}
	// nothing but white space may follow the value (Decoder.More does not report a stray closing
	// brace or bracket, so the rest of the record is inspected byte by byte)
	rest, _ := io.ReadAll(io.MultiReader(dec.Buffered(), strings.NewReader("")))
	if t := strings.TrimSpace(string(rest)); t != "" {
		return fmt.Sprintf("bytes after the JSON value in the record: %q", t)
	}
	switch want.kind {
	case "connect":
		if r.ID != 1 || r.Connect == nil {
			return "want the connect reply"
		}
	case "subscribe":
		if r.ID != 2 || r.Subscribe == nil {
			return "want the subscribe reply"
		}
	case "pub":
		if r.Push == nil || r.Push.Pub == nil || r.Push.Channel != "ch" {
			return "want a publication push on ch"
		}
		if vCompact(r.Push.Pub.Data) != vCompact(want.payload) {
			return fmt.Sprintf("payload %q", r.Push.Pub.Data)
		}
	case "message":
		if r.Push == nil || r.Push.Message == nil {
			return "want a message push"
		}
		if vCompact(r.Push.Message.Data) != vCompact(want.payload) {
			return fmt.Sprintf("payload %q", r.Push.Message.Data)
		}
	}
	return ""
}

func vMatchPB(rec []byte, want vMsg) string {
	var r protocol.Reply
	if err := r.UnmarshalVT(rec); err != nil {
		return "not decodable: " + err.Error()
	}
	switch want.kind {
	case "connect":
		if r.Id != 1 || r.Connect == nil {
			return "want the connect reply"
		}
	case "subscribe":
		if r.Id != 2 || r.Subscribe == nil {
			return "want the subscribe reply"
		}
	case "pub":
		if r.Push == nil || r.Push.Pub == nil || r.Push.Channel != "ch" {
			return "want a publication push on ch"
		}
		if !bytes.Equal(r.Push.Pub.Data, want.payload) {
			return fmt.Sprintf("payload %q", r.Push.Pub.Data)
		}
	case "message":
		if r.Push == nil || r.Push.Message == nil {
			return "want a message push"
		}
		if !bytes.Equal(r.Push.Message.Data, want.payload) {
			return fmt.Sprintf("payload %q", r.Push.Message.Data)
		}
	}
	return ""
}

// ---- payload domains ---------------------------------------------------------------------------

const vC32Alphabet = "{}[]\":,1a \n\r"

func vC32JSONPayloads(maxLen int) [][]byte {
	var out [][]byte
	enc := protocol.NewJSONPushEncoder()
	var rec func(cur []byte)
	rec = func(cur []byte) {
		if len(cur) > 0 && json.Valid(cur) {
			p := append([]byte(nil), cur...)
			if _, err := enc.Encode(&protocol.Push{Channel: "ch", Pub: &protocol.Publication{Data: p}}); err == nil {
				out = append(out, p)
			}
		}
		if len(cur) == maxLen {
			return
		}
		for i := 0; i < len(vC32Alphabet); i++ {
			rec(append(cur, vC32Alphabet[i]))
		}
	}
	rec(nil)
	return out
}

// vC32Tokens lists the framing-relevant bytes a payload contains.
func vC32Tokens(p []byte) []string {
	var t []string
	if bytes.IndexByte(p, '\n') >= 0 {
		t = append(t, "LF")
	}
	if bytes.IndexByte(p, '\r') >= 0 {
		t = append(t, "CR")
	}
	if bytes.IndexByte(p, ' ') >= 0 {
		t = append(t, "SP")
	}
	if bytes.IndexByte(p, ':') >= 0 {
		t = append(t, "COLON")
	}
	return t
}

// vC32Class is the payload's class name (the tokens joined).
func vC32Class(p []byte) string {
	t := vC32Tokens(p)
	if len(t) == 0 {
		return "plain"
	}
	return strings.Join(t, "")
}

// vC32Representatives: the first payload of every class, in domain order.
func vC32Representatives(ps [][]byte) [][]byte {
	seen := map[string]bool{}
	var out [][]byte
	for _, p := range ps {
		c := vC32Class(p)
		if !seen[c] {
			seen[c] = true
			out = append(out, p)
		}
	}
	return out
}

func vC32BinaryPayloads(long bool) [][]byte {
	var out [][]byte
	for b := 0; b < 256; b++ {
		out = append(out, []byte{byte(b)})
	}
	classes := []byte{0x00, '\n', '\r', ' ', '"', '\\', 0x7f, 0x80, 0xff}
	for _, a := range classes {
		for _, b := range classes {
			out = append(out, []byte{a, b})
		}
	}
	pattern := func(n int) []byte {
		p := make([]byte, n)
		for i := range p {
			p[i] = []byte{0x0a, 0x0d, 0xff, 0x00, 0x80, 'x'}[i%6]
		}
		return p
	}
	for n := 100; n <= 135; n++ { // encoded reply length crosses 127 -> 128
		out = append(out, pattern(n))
	}
	if long {
		for n := 16350; n <= 16400; n++ { // ... and 16383 -> 16384
			out = append(out, pattern(n))
		}
	}
	return out
}

func vC32BinaryRepresentatives() [][]byte {
	return [][]byte{{'x'}, {'\n'}, {'\r'}, {0x00}, {0xff, 0x80}, bytes.Repeat([]byte{0x0a, 0xff}, 70)}
}

// ---- ResponseWriter double ---------------------------------------------------------------------

type vRespWriter struct {
	hdr     http.Header
	status  int
	body    bytes.Buffer
	writes  int
	flushes int
}

func (w *vRespWriter) Header() http.Header { return w.hdr }
func (w *vRespWriter) WriteHeader(code int) {
	if w.status == 0 {
		w.status = code
	}
}
func (w *vRespWriter) Write(b []byte) (int, error) {
	// The bytes are copied after the scheduling point: a caller that lets anybody else change b while
	// this Write is in flight (a slow peer) delivers the changed bytes, as a real connection would.
	vsched.Visible()
	if w.status == 0 {
		w.status = 200
	}
	w.writes++
	return w.body.Write(b)
}
func (w *vRespWriter) Flush()                            { w.flushes++ }
func (w *vRespWriter) SetWriteDeadline(time.Time) error { return nil }

// ---- one streaming connection ------------------------------------------------------------------

type vC32Conn struct {
	kind   string // sse | stream-json | stream-pb
	n      *Node
	w      *vRespWriter
	cancel context.CancelFunc
	done   chan struct{}
	client *Client
	sent   []vMsg
}

func vC32Open(kind string) *vC32Conn {
	n, last := vC32Node()
	return vC32OpenOn(n, last, kind)
}

// vC32Node starts a node whose connect handler records the most recent client in *last.
func vC32Node() (*Node, **Client) {
	last := new(*Client)
	n := vNewNode(nil)
	n.OnConnecting(func(ctx context.Context, e ConnectEvent) (ConnectReply, error) {
		return ConnectReply{Credentials: &Credentials{UserID: "u"}}, nil
	})
	n.OnConnect(func(cl *Client) {
		*last = cl
		cl.OnSubscribe(func(e SubscribeEvent, cb SubscribeCallback) { cb(SubscribeReply{}, nil) })
	})
	if err := n.Run(); err != nil {
		panic(err)
	}
	return n, last
}

func vC32OpenOn(n *Node, last **Client, kind string) *vC32Conn {
	c := &vC32Conn{kind: kind}
	c.n = n
	*last = nil
	cmds := []*protocol.Command{
		{Id: 1, Connect: &protocol.ConnectRequest{}},
		{Id: 2, Subscribe: &protocol.SubscribeRequest{Channel: "ch"}},
	}
	ctx, cancel := context.WithCancel(context.Background())
	c.cancel = cancel
	c.w = &vRespWriter{hdr: http.Header{}}
	c.done = make(chan struct{})
	var h http.Handler
	req := &http.Request{Method: http.MethodPost, Header: http.Header{}, Proto: "HTTP/1.1", ProtoMajor: 1, ProtoMinor: 1}
	switch kind {
	case "sse":
		h = NewSSEHandler(n, SSEConfig{})
		u, err := url.Parse("/connection/sse?cf_connect=" + url.QueryEscape(string(vJSONCommands(cmds...))))
		if err != nil {
			panic(err)
		}
		req.Method = http.MethodGet
		req.URL = u
		req.Body = http.NoBody
	case "stream-json":
		h = NewHTTPStreamHandler(n, HTTPStreamConfig{})
		req.URL = &url.URL{Path: "/connection/http_stream"}
		req.Body = io.NopCloser(bytes.NewReader(vJSONCommands(cmds...)))
	case "stream-pb":
		h = NewHTTPStreamHandler(n, HTTPStreamConfig{})
		req.URL = &url.URL{Path: "/connection/http_stream"}
		req.Header.Set("Content-Type", "application/octet-stream")
		var buf bytes.Buffer
		enc := protocol.NewProtobufCommandEncoder()
		for _, cmd := range cmds {
			b, err := enc.Encode(cmd)
			if err != nil {
				panic(err)
			}
			buf.Write(b)
		}
		req.Body = io.NopCloser(bytes.NewReader(buf.Bytes()))
	default:
		panic("verif: unknown kind " + kind)
	}
	req = req.WithContext(ctx)
	go func() {
		h.ServeHTTP(c.w, req)
		close(c.done)
	}()
	vsched.WaitIdle()
	c.client = *last
	if c.client == nil || !c.client.IsSubscribed("ch") {
		panic(fmt.Sprintf("verif: %s connection not established (status %d, body %q)", kind, c.w.status, c.w.body.String()))
	}
	c.sent = append(c.sent, vMsg{kind: "connect"}, vMsg{kind: "subscribe"})
	return c
}

// batch enqueues the messages without letting the writer run in between, then drains.
func (c *vC32Conn) batch(msgs ...vMsg) {
	for _, m := range msgs {
		var err error
		if m.kind == "pub" {
			_, err = c.n.Publish("ch", m.payload)
		} else {
			err = c.client.Send(m.payload)
		}
		if err != nil {
			panic(fmt.Sprintf("verif: cannot produce %v: %v", m, err))
		}
		c.sent = append(c.sent, m)
	}
	vsched.WaitIdle()
}

// finish cancels the request and applies the oracle to the response body.
func (c *vC32Conn) finish() (records int) {
	c.cancel()
	<-c.done
	vsched.WaitIdle()
	body := c.w.body.Bytes()
	fail := func(sig string, k int, format string, a ...any) {
		ctx := ""
		if k >= 0 && k < len(c.sent) {
			ctx = fmt.Sprintf(" message %d = %v:", k, c.sent[k])
		}
		vsched.Failf(sig, "%s:%s %s", c.kind, ctx, fmt.Sprintf(format, a...))
	}
	// tokens: the framing-relevant bytes message k's payload contains
	tokens := func(k int) []string {
		if k >= len(c.sent) || c.sent[k].payload == nil {
			return []string{"reply"}
		}
		if c.kind == "stream-pb" {
			return []string{"binary"}
		}
		return vC32Tokens(c.sent[k].payload)
	}
	var n int
	var match func(k int) string
	switch c.kind {
	case "sse":
		evs := vEventSourceParse(body)
		n = len(evs)
		match = func(k int) string { return vMatchJSON(evs[k], c.sent[k]) }
	case "stream-json":
		recs := vNDJSONSplit(body)
		n = len(recs)
		match = func(k int) string { return vMatchJSON(recs[k], c.sent[k]) }
	case "stream-pb":
		recs, err := vVarintSplit(body)
		if err != nil {
			fail("c32-stream-pb-framing-broken", len(recs), "%v", err)
		}
		n = len(recs)
		match = func(k int) string { return vMatchPB(recs[k], c.sent[k]) }
	}
	// In order: record k must decode to message k. When the counts agree every record is checked and
	// the signature names the bytes common to all failing payloads; otherwise positions after the
	// first failure are shifted and only the first failure is reported.
	var blame []string
	first, firstWhy, failing := -1, "", 0
	for k := 0; k < n && k < len(c.sent); k++ {
		d := match(k)
		if d == "" {
			continue
		}
		failing++
		if first < 0 {
			first, firstWhy = k, d
			blame = tokens(k)
		} else {
			var keep []string
			for _, t := range blame {
				for _, u := range tokens(k) {
					if t == u {
						keep = append(keep, t)
					}
				}
			}
			blame = keep
		}
		if n != len(c.sent) {
			break
		}
	}
	if first >= 0 {
		b := strings.Join(blame, "+")
		if b == "" {
			b = "any"
		}
		fail("c32-"+c.kind+"-record-differs:"+b, first, "record %d: %s (%d of %d records differ; %d messages sent)", first, firstWhy, failing, n, len(c.sent))
	} else if n != len(c.sent) {
		fail("c32-"+c.kind+"-record-count", -1, "%d messages sent, %d events/records parsed", len(c.sent), n)
	}
	return n
}

// ---- two connections writing concurrently ------------------------------------------------------

// vC32Two: two connections of one kind on one node; thread A and thread B each send two messages
// (then two publications to the channel both hold, whose encoding the hub shares between them)
// (distinct payloads, equal and unequal lengths) to their own connection while the scheduler
// explores every interleaving of the two write paths within the bound, including a preemption
// inside ResponseWriter.Write (a slow peer). Oracle: the per-connection oracle of finish() on both
// bodies - each connection receives exactly its own messages, intact and in order. The shared
// encoder pool of the protocol package is an ordinary sync.Pool; GOMAXPROCS(1) makes its reuse
// (Put then Get hands back the same encoder) deterministic.
func vC32Two(kind string) func() {
	runtime.GOMAXPROCS(1)
	type pair struct{ a, b [2][]byte }
	var pairs []pair
	if kind == "stream-pb" {
		pairs = []pair{
			{a: [2][]byte{[]byte("aaa"), []byte("AAAA")}, b: [2][]byte{[]byte("bbb"), []byte("BBBB")}},
			{a: [2][]byte{[]byte("a"), bytes.Repeat([]byte{0xa1}, 130)}, b: [2][]byte{bytes.Repeat([]byte{0xb2}, 130), []byte("b")}},
		}
	} else {
		pairs = []pair{
			{a: [2][]byte{[]byte(`{"a":1}`), []byte(`{"a":22}`)}, b: [2][]byte{[]byte(`{"b":1}`), []byte(`{"b":22}`)}},
			{a: [2][]byte{[]byte(`"a"`), []byte(`["aaaaaaaaaaaaaaaaaaaaaaaaaaaaaaaaaaaaaaaa"]`)}, b: [2][]byte{[]byte(`["bbbbbbbbbbbbbbbbbbbbbbbbbbbbbbbbbbbbbbbb"]`), []byte(`"b"`)}},
		}
	}
	return func() {
		p := pairs[vsched.ChooseFree(len(pairs))]
		vsched.Quiet(true)
		n, last := vC32Node()
		ca := vC32OpenOn(n, last, kind)
		cb := vC32OpenOn(n, last, kind)
		vsched.Quiet(false)
		send := func(c *vC32Conn, ps [2][]byte) {
			for _, pl := range ps {
				if err := c.client.Send(pl); err != nil {
					panic(fmt.Sprintf("verif: Send: %v", err))
				}
			}
		}
		vsched.Go(func() { send(ca, p.a) })
		vsched.Go(func() { send(cb, p.b) })
		vsched.WaitIdle()
		vsched.Quiet(true)
		for _, pl := range p.a {
			ca.sent = append(ca.sent, vMsg{kind: "message", payload: pl})
		}
		for _, pl := range p.b {
			cb.sent = append(cb.sent, vMsg{kind: "message", payload: pl})
		}
		// one publication to the channel both connections hold: the hub encodes it once and hands the
		// same bytes to both transports, so whatever one connection's framing does to them must not
		// show on the other (payloads with a raw CR / LF as JSON whitespace, binary for Protobuf)
		shared := [][]byte{[]byte("{\"s\":\r1}"), []byte("{\"s\":\r\n[1,\r2]}")}
		if kind == "stream-pb" {
			shared = [][]byte{{0x0d, 0x0a, 0x00, 0xff}, bytes.Repeat([]byte{0x0d}, 140)}
		}
		for _, sp := range shared {
			if _, err := n.Publish("ch", sp); err != nil {
				panic(fmt.Sprintf("verif: Publish: %v", err))
			}
			vsched.WaitIdle()
			ca.sent = append(ca.sent, vMsg{kind: "pub", payload: sp})
			cb.sent = append(cb.sent, vMsg{kind: "pub", payload: sp})
		}
		na := ca.finish()
		nb := cb.finish()
		vsched.Logf("two/%s: A %d records in %d writes, B %d records in %d writes", kind, na, ca.w.writes, nb, cb.w.writes)
	}
}

// ---- harness -----------------------------------------------------------------------------------

func init() {
	vsched.Register(&vsched.Harness{
		Name: "streamframing", Props: []string{"C32"}, Kind: "sched",
		Doc: "real SSEHandler / HTTPStreamHandler ServeHTTP on a managed thread with a harness ResponseWriter; publications and Client.Send messages in batches of 1..3; payloads: all valid JSON texts of length <= 4 (quick) / 6 (thorough) over { } [ ] \" : , 1 a SP LF CR, binary: 256 single bytes, pairs of 9 byte classes, lengths across the varint boundaries; body parsed by a WHATWG EventSource reference parser / NDJSON splitter / varint-length decoder; oracle: one event/record per message, decoding to the same message, in order",
		Variants: func(tier string) []vsched.Variant {
			l := "len4"
			shards := 4
			twoBound := 1
			if tier == "thorough" {
				l = "len6"
				shards = 6
				twoBound = 2
			}
			return []vsched.Variant{
				{Name: "sse-" + l, Bound: 0, Shards: shards, MaxSteps: 1 << 30, BudgetS: 280},
				{Name: "stream-json-" + l, Bound: 0, Shards: shards, MaxSteps: 1 << 30, BudgetS: 280},
				{Name: "stream-pb-" + tier, Bound: 0, Shards: 4, MaxSteps: 1 << 30, BudgetS: 280},
				{Name: "two/sse", Bound: twoBound, Shards: 1, MaxSteps: 1 << 30, BudgetS: 280},
				{Name: "two/stream-json", Bound: twoBound, Shards: 1, MaxSteps: 1 << 30, BudgetS: 280},
				// the protobuf path goes through the protocol package's shared encoder pool: bound 2 in
				// both tiers (a write of A held up inside Write while B's whole write path runs)
				{Name: "two/stream-pb", Bound: 2, Shards: 1, MaxSteps: 1 << 30, BudgetS: 280},
			}
		},
		Sched: func(v vsched.Variant) func() {
			if strings.HasPrefix(v.Name, "two/") {
				return vC32Two(strings.TrimPrefix(v.Name, "two/"))
			}
			kind := v.Name[:strings.LastIndexByte(v.Name, '-')]
			var payloads, reps [][]byte
			switch {
			case kind == "stream-pb":
				payloads = vC32BinaryPayloads(strings.HasSuffix(v.Name, "thorough"))
				reps = vC32BinaryRepresentatives()
			case strings.HasSuffix(v.Name, "len6"):
				payloads = vC32JSONPayloads(6)
				reps = vC32Representatives(payloads)
			default:
				payloads = vC32JSONPayloads(4)
				reps = vC32Representatives(payloads)
			}
			// work items: singletons over the whole domain (publication and message), then batches
			// of 2 and 3 over the representatives (alternating publication / message)
			type item []vMsg
			var items []item
			for _, p := range payloads {
				items = append(items, item{{kind: "pub", payload: p}}, item{{kind: "message", payload: p}})
			}
			kinds := []string{"pub", "message"}
			for i, a := range reps {
				for j, b := range reps {
					items = append(items, item{{kind: kinds[(i+j)%2], payload: a}, {kind: kinds[(i+j+1)%2], payload: b}})
					for _, c := range reps {
						items = append(items, item{{kind: "pub", payload: a}, {kind: kinds[(i+j)%2], payload: b}, {kind: "message", payload: c}})
					}
				}
			}
			const perExec = 400
			chunks := (len(items) + perExec - 1) / perExec
			return func() {
				chunk := vsched.ChooseFree(chunks)
				vsched.Quiet(true)
				c := vC32Open(kind)
				classes := map[string]int{}
				nItems := 0
				for i, it := range items {
					if i%chunks != chunk { // round robin, so that every execution sees every payload class
						continue
					}
					nItems++
					c.batch(it...)
					for _, m := range it {
						cl := "binary"
						if kind != "stream-pb" {
							cl = vC32Class(m.payload)
						}
						classes[fmt.Sprintf("batch%d/%s/%s", len(it), m.kind, cl)]++
					}
				}
				n := c.finish()
				vsched.Logf("%s chunk %d/%d: domain=%d payloads, %d of %d batches, %d messages sent, %d records parsed, status=%d writes=%d flushes=%d body=%d bytes",
					v.Name, chunk, chunks, len(payloads), nItems, len(items), len(c.sent), n, c.w.status, c.w.writes, c.w.flushes, c.w.body.Len())
				var ks []string
				for k, cnt := range classes {
					ks = append(ks, fmt.Sprintf("%s x%d", k, cnt))
				}
				sort.Strings(ks)
				vsched.Logf("  %s", strings.Join(ks, ", "))
			}
		},
	})
}
