//go:build verif

package centrifuge

import (
	"bufio"
	"errors"
	"fmt"
	"io"
	"net"
	"net/http"
	"net/url"
	"strings"
	"time"

	"github.com/centrifugal/centrifuge/internal/websocket"
	"github.com/centrifugal/centrifuge/internal/zzverif/vsched"
)

// wstclose (C31, E2): websocketTransport.Close(Disconnect{code, reason}) on a server-side
// websocket.Conn obtained from Upgrader.Upgrade over an in-memory net.Conn (harness
// http.ResponseWriter + http.Hijacker; the closing-handshake grace channel is already closed so
// Close never waits).
// Oracle (bytes written after the 101 response, parsed by an independent frame parser):
//   code == 3000 (DisconnectConnectionClosed: the peer is already gone): no frame;
//   2 + len(reason) <= 125: exactly one frame: FIN, opcode 8, unmasked, RSV clear, payload =
//   big-endian code followed by the reason bytes;
//   otherwise (does not fit a control frame): no frame at all (never a truncated or oversized one);
//   in every case the net.Conn is closed, nothing else is written, and a second Close writes nothing.

type wstcAddr struct{}

func (wstcAddr) Network() string { return "mem" }
func (wstcAddr) String() string  { return "mem" }

type wstcConn struct {
	out    []byte
	closed int
}

func (c *wstcConn) Read(p []byte) (int, error) { return 0, io.EOF }
func (c *wstcConn) Write(p []byte) (int, error) {
	if c.closed > 0 {
		return 0, errors.New("wstcConn: write on closed conn")
	}
	c.out = append(c.out, p...)
	return len(p), nil
}
func (c *wstcConn) Close() error                       { c.closed++; return nil }
func (c *wstcConn) LocalAddr() net.Addr                { return wstcAddr{} }
func (c *wstcConn) RemoteAddr() net.Addr               { return wstcAddr{} }
func (c *wstcConn) SetDeadline(_ time.Time) error      { return nil }
func (c *wstcConn) SetReadDeadline(_ time.Time) error  { return nil }
func (c *wstcConn) SetWriteDeadline(_ time.Time) error { return nil }

type wstcWriter struct {
	hdr    http.Header
	status int
	conn   *wstcConn
}

func (w *wstcWriter) Header() http.Header         { return w.hdr }
func (w *wstcWriter) WriteHeader(code int)        { w.status = code }
func (w *wstcWriter) Write(p []byte) (int, error) { return len(p), nil }
func (w *wstcWriter) Hijack() (net.Conn, *bufio.ReadWriter, error) {
	return w.conn, bufio.NewReadWriter(bufio.NewReaderSize(w.conn, 512), bufio.NewWriterSize(w.conn, 512)), nil
}

type wstcFrame struct {
	b0, b1  byte
	payload []byte
}

// independent parser for server frames with 7-bit lengths (all a close frame may use); anything
// else is reported as malformed.
func wstcParse(b []byte) ([]wstcFrame, string) {
	var out []wstcFrame
	for len(b) > 0 {
		if len(b) < 2 {
			return out, "truncated-header"
		}
		f := wstcFrame{b0: b[0], b1: b[1]}
		if b[1]&0x80 != 0 {
			return out, "server-frame-masked"
		}
		n := int(b[1] & 0x7f)
		if n > 125 {
			return out, "extended-length"
		}
		if len(b) < 2+n {
			return out, "truncated-payload"
		}
		f.payload = append([]byte{}, b[2:2+n]...)
		b = b[2+n:]
		out = append(out, f)
	}
	return out, ""
}

func wstcNewConn(bufSize int) (*websocket.Conn, *wstcConn, error) {
	mc := &wstcConn{}
	w := &wstcWriter{hdr: http.Header{}, conn: mc}
	req := &http.Request{Method: "GET", URL: &url.URL{Path: "/connection/websocket"}, Proto: "HTTP/1.1", ProtoMajor: 1, ProtoMinor: 1, Host: "example.com",
		Header: http.Header{"Connection": {"Upgrade"}, "Upgrade": {"websocket"}, "Sec-Websocket-Version": {"13"}, "Sec-Websocket-Key": {"dGhlIHNhbXBsZSBub25jZQ=="}}}
	u := websocket.Upgrader{ReadBufferSize: bufSize, WriteBufferSize: bufSize}
	conn, _, err := u.Upgrade(w, req, nil)
	if err != nil {
		return nil, nil, err
	}
	if !strings.HasPrefix(string(mc.out), "HTTP/1.1 101 ") || !strings.HasSuffix(string(mc.out), "\r\n\r\n") {
		return nil, nil, fmt.Errorf("unexpected handshake response %q", mc.out)
	}
	mc.out = nil
	return conn, mc, nil
}

func wstcReason(kind string, n int) string {
	switch kind {
	case "ascii":
		b := make([]byte, n)
		for i := range b {
			b[i] = 'a' + byte(i%26)
		}
		return string(b)
	case "2byte": // n bytes of two-byte runes (n even), else padded with one ASCII byte
		s := strings.Repeat("é", n/2)
		if n%2 == 1 {
			s += "x"
		}
		return s
	case "3byte":
		s := strings.Repeat("€", n/3)
		for len(s) < n {
			s += "x"
		}
		return s
	}
	return ""
}

// wstcCollector stands in for *vsched.Enum inside one case so that the case can be repeated when the
// process was stalled: Close arms a real one-second write deadline (time.Now().Add(time.Second) in
// handler_websocket.go, checked with time.Until in WriteControl), so a case that took longer than
// wstcStall of wall time ran outside the oracle's premise "the write deadline has not expired".
type wstcCollector struct{ fails [][3]string }

func (c *wstcCollector) Fail(sig, msg string, replay []string) {
	c.fails = append(c.fails, [3]string{sig, msg, strings.Join(replay, "\n")})
}

const wstcStall = 300 * time.Millisecond

func wstcCase(e *vsched.Enum, code uint32, kind string, rlen int, writeTimeout time.Duration, proto ProtocolType, bufSize int) string {
	for attempt := 0; ; attempt++ {
		col := &wstcCollector{}
		start := time.Now()
		class := wstcCaseOnce(col, code, kind, rlen, writeTimeout, proto, bufSize)
		if len(col.fails) > 0 && time.Since(start) > wstcStall && attempt < 5 {
			continue // stalled (loaded machine): premise not met, repeat the case
		}
		for _, f := range col.fails {
			e.Fail(f[0], f[1], strings.Split(f[2], "\n"))
		}
		return class
	}
}

func wstcCaseOnce(e *wstcCollector, code uint32, kind string, rlen int, writeTimeout time.Duration, proto ProtocolType, bufSize int) string {
	reason := wstcReason(kind, rlen)
	replay := []string{fmt.Sprintf("websocketTransport.Close(Disconnect{Code: %d, Reason: %d bytes %s}) writeTimeout=%v proto=%s writeBuf=%d", code, len(reason), kind, writeTimeout, proto, bufSize)}
	conn, mc, err := wstcNewConn(bufSize)
	if err != nil {
		e.Fail("wstclose:setup", err.Error(), replay)
		return "setup-failed"
	}
	grace := make(chan struct{})
	close(grace)
	t := newWebsocketTransport(conn, websocketTransportOptions{protoType: proto, writeTimeout: writeTimeout, protoMajor: 1}, grace, false)

	var panicked interface{}
	func() {
		defer func() { panicked = recover() }()
		_ = t.Close(Disconnect{Code: code, Reason: reason})
	}()
	if panicked != nil {
		e.Fail("wstclose:panic", fmt.Sprint(panicked), replay)
		return "panic"
	}
	var class string
	frames, perr := wstcParse(mc.out)
	switch {
	case perr != "":
		e.Fail("wstclose:wire-malformed:"+perr, fmt.Sprintf("bytes after handshake: %x", mc.out), replay)
		class = "malformed"
	case code == 3000:
		class = "connection-closed-no-frame"
		if len(frames) != 0 {
			e.Fail("wstclose:frame-for-connection-closed", fmt.Sprintf("%d frames written", len(frames)), replay)
		}
	case 2+len(reason) <= 125:
		class = "fits"
		if len(frames) != 1 {
			e.Fail("wstclose:close-frame-missing", fmt.Sprintf("code and reason fit a control frame (%d bytes) but %d frames were written", 2+len(reason), len(frames)), replay)
			break
		}
		f := frames[0]
		if f.b0 != 0x88 {
			e.Fail("wstclose:not-a-final-close-frame", fmt.Sprintf("first byte %#x", f.b0), replay)
		}
		want := append([]byte{byte(code >> 8), byte(code)}, reason...)
		if string(f.payload) != string(want) {
			e.Fail("wstclose:close-payload", fmt.Sprintf("payload %x want %x", f.payload, want), replay)
		}
	default:
		class = "too-long-no-frame"
		if len(frames) != 0 {
			e.Fail("wstclose:oversize-close-frame-written", fmt.Sprintf("code and reason need %d bytes but %d frames were written: %x", 2+len(reason), len(frames), mc.out), replay)
		}
	}
	if mc.closed == 0 {
		e.Fail("wstclose:conn-not-closed/"+class, "net.Conn still open after Close", replay)
	}
	// idempotence: a second Close and later writes put nothing on the wire
	n := len(mc.out)
	_ = t.Close(Disconnect{Code: 3501, Reason: "again"})
	_ = t.Write([]byte("{}"))
	if len(mc.out) != n {
		e.Fail("wstclose:write-after-close", fmt.Sprintf("%d more bytes", len(mc.out)-n), replay)
	}
	return class
}

func wstcEnum(e *vsched.Enum, thorough bool) {
	var codes []uint32
	for c := uint32(3000); c <= 4999; c++ {
		codes = append(codes, c)
	}
	codes = append(codes, 5000, 65535)
	lens := []int{0, 1, 122, 123, 124, 200}
	kinds := []string{"ascii", "2byte", "3byte"}
	type opt struct {
		wt    time.Duration
		proto ProtocolType
		buf   int
	}
	opts := []opt{{0, ProtocolTypeJSON, 256}, {time.Second, ProtocolTypeProtobuf, 0}}
	if thorough {
		lens = []int{0, 1, 2, 3, 60, 120, 121, 122, 123, 124, 125, 126, 127, 128, 200, 1000}
		opts = append(opts, opt{time.Second, ProtocolTypeJSON, 16}, opt{0, ProtocolTypeProtobuf, 4096})
	}
	var n int64
	for _, code := range codes {
		if e.Expired() {
			return
		}
		for _, kind := range kinds {
			for _, l := range lens {
				for _, o := range opts {
					n++
					if !e.Mine(n) {
						continue
					}
					class := wstcCase(e, code, kind, l, o.wt, o.proto, o.buf)
					e.Case(fmt.Sprintf("%s %s len=%d", class, kind, l), 1)
				}
			}
		}
	}
	if e.ShardK == 0 {
		e.Sample(fmt.Sprintf("%d Close calls in the domain", n))
	}
}

func init() {
	vsched.Register(&vsched.Harness{
		Name: "wstclose", Props: []string{"C31"}, Kind: "enum",
		Doc: "websocketTransport.Close over disconnect codes 3000..4999, 5000, 65535 x reason byte lengths {0,1,122,123,124,200} (thorough: 16 lengths) x reason alphabets {ASCII, 2-byte, 3-byte UTF-8} x {write timeout, protocol type, write buffer}; server Conn from Upgrader.Upgrade over an in-memory net.Conn; oracle: exactly one FIN close frame, unmasked, payload = code || reason iff 2+len(reason) <= 125 (code 3000: none), never an oversized/truncated frame, conn closed, nothing written after Close",
		Variants: func(tier string) []vsched.Variant {
			if tier == "thorough" {
				return []vsched.Variant{{Name: "codes-x-16len", Shards: 8, BudgetS: 300}}
			}
			return []vsched.Variant{{Name: "codes-x-6len", Shards: 4, BudgetS: 60}}
		},
		Enum: func(v vsched.Variant, e *vsched.Enum) {
			wstcEnum(e, v.Name == "codes-x-16len")
		},
	})
}
