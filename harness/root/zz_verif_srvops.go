//go:build verif

package centrifuge

import (
	"context"
	"fmt"
	"sort"
	"strings"

	"github.com/centrifugal/centrifuge/internal/zzverif/vsched"
)

// ---- common parts of the server-side-operation harnesses (C27, C28) ---------------------------

// vRecBroker wraps the node's broker and records join / leave publications.
type vRecBroker struct {
	Broker
	joins  []string // "channel/clientID"
	leaves []string
}

func (b *vRecBroker) PublishJoin(ch string, info *ClientInfo) error {
	vsched.Visible()
	b.joins = append(b.joins, ch+"/"+info.ClientID)
	return b.Broker.PublishJoin(ch, info)
}

func (b *vRecBroker) PublishLeave(ch string, info *ClientInfo) error {
	vsched.Visible()
	b.leaves = append(b.leaves, ch+"/"+info.ClientID)
	return b.Broker.PublishLeave(ch, info)
}

// vLoopController is the loop-back Controller double: PublishControl delivers the bytes
// synchronously to HandleControl of every registered node (the sender included, like a real
// PUB/SUB control channel; a node ignores its own commands by uid).
type vLoopController struct {
	handlers []ControlEventHandler
	sent     int
}

type vLoopEndpoint struct{ hub *vLoopController }

func (e *vLoopEndpoint) RegisterControlEventHandler(h ControlEventHandler) error {
	e.hub.handlers = append(e.hub.handlers, h)
	return nil
}

func (e *vLoopEndpoint) PublishControl(data []byte, nodeID, _ string) error {
	vsched.Visible()
	e.hub.sent++
	cp := append([]byte(nil), data...)
	for _, h := range e.hub.handlers {
		if nodeID != "" {
			if n, ok := h.(*Node); ok && n.ID() != nodeID {
				continue
			}
		}
		if err := h.HandleControl(cp); err != nil {
			return err
		}
	}
	return nil
}

// vSoConn is the specification + recorded observations of one connection.
type vSoConn struct {
	cl         *vClient
	user       string
	info       []byte
	expireAt   int64
	labels     map[string]string
	serverSubs map[string]SubscribeOptions // established by the connect reply
	clientOpts map[string]SubscribeOptions // granted by OnSubscribe
	unsubs     []string                    // "channel/serverSide/code"
	discs      []string                    // "code"
}

// vSoNode is a node with the recording doubles installed.
type vSoNode struct {
	n     *Node
	rb    *vRecBroker
	specs map[string]*vSoConn
}

func vNewSoNode(ctl *vLoopController, mod func(c *Config)) *vSoNode {
	s := &vSoNode{specs: map[string]*vSoConn{}}
	n := vNewNode(mod)
	s.n = n
	s.rb = &vRecBroker{Broker: n.broker}
	n.SetBroker(s.rb)
	if ctl != nil {
		n.SetController(&vLoopEndpoint{hub: ctl})
	}
	n.OnConnecting(func(ctx context.Context, e ConnectEvent) (ConnectReply, error) {
		sp := s.specs[e.ClientID]
		if sp == nil {
			return ConnectReply{}, DisconnectBadRequest
		}
		return ConnectReply{
			Credentials:   &Credentials{UserID: sp.user, Info: sp.info, ExpireAt: sp.expireAt},
			Subscriptions: sp.serverSubs,
			Labels:        sp.labels,
		}, nil
	})
	n.OnConnect(func(c *Client) {
		sp := s.specs[c.ID()]
		c.OnSubscribe(func(e SubscribeEvent, cb SubscribeCallback) {
			o, ok := sp.clientOpts[e.Channel]
			if !ok {
				cb(SubscribeReply{}, ErrorPermissionDenied)
				return
			}
			cb(SubscribeReply{Options: o}, nil)
		})
		c.OnUnsubscribe(func(e UnsubscribeEvent) {
			vsched.Visible()
			sp.unsubs = append(sp.unsubs, fmt.Sprintf("%s/%v/%d", e.Channel, e.ServerSide, e.Code))
		})
		c.OnDisconnect(func(e DisconnectEvent) {
			vsched.Visible()
			sp.discs = append(sp.discs, fmt.Sprintf("%d", e.Code))
		})
	})
	if err := n.Run(); err != nil {
		panic(err)
	}
	return s
}

// connect creates the connection described by sp on this node: connect command, then the
// client-side subscriptions (sorted by channel).
func (s *vSoNode) connect(sp *vSoConn) {
	t := vNewTransport()
	t.emulation = true // gives the connection a session id
	// Let every push type through except the disconnect push (delivered via Close).
	sp.cl = vNewClient(s.n, t, nil)
	s.specs[sp.cl.c.ID()] = sp
	if !sp.cl.connect() {
		panic("verif: connect refused")
	}
	var chs []string
	for ch := range sp.clientOpts {
		chs = append(chs, ch)
	}
	sort.Strings(chs)
	for _, ch := range chs {
		if !sp.cl.subscribe(ch) {
			panic("verif: subscribe refused")
		}
	}
}

func vSortedChannels(c *Client) []string {
	chs := c.Channels()
	sort.Strings(chs)
	return chs
}

func vCount(l []string, s string) int {
	k := 0
	for _, x := range l {
		if x == s {
			k++
		}
	}
	return k
}

// vFramesFrom renders the frames a transport received from index from on.
func vFramesFrom(t *vTransport, from int) string {
	var l []string
	for _, f := range t.frames[from:] {
		l = append(l, f.describe())
	}
	return strings.Join(l, " ")
}
