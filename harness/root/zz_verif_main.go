//go:build verif

package centrifuge

import "github.com/centrifugal/centrifuge/internal/zzverif/vsched"

// VerifMain is the entry point of the verification harness binary.
func VerifMain(args []string) int { return vsched.Main(args) }
