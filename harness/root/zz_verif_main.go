//go:build verif

package centrifuge

import "fmt"

// VerifMain is the entry point of the verification harness binary.
func VerifMain(args []string) int {
	fmt.Println("hello", args)
	return 0
}
