//go:build verif

package centrifuge

import (
	"context"
	"fmt"
	"sort"
	"strings"
	"time"

	"github.com/centrifugal/centrifuge/internal/controlpb"
	"github.com/centrifugal/centrifuge/internal/zzverif/vsched"
)

// surveyx (C41, E1): a survey collects one answer per node and terminates.
//
// 2-3 nodes joined by the loop-back controller double (synchronous delivery, node targeting
// honoured). Surveys are issued by their own threads with a context deadline D on the virtual
// clock. The survey handlers of the nodes hand every answer to a separate responder thread,
// following a per-node behaviour string:
//   a  answer once            aa  answer twice (duplicate)     -  never answer
//   A  (issuing node) answer from another thread instead of inside the handler
//   e  answer exactly when the deadline expires (sleep D)      l  answer 1 s after the deadline
//   f  additionally send a response carrying a survey id the node never issued
// Virtual time only moves when every thread is blocked (the harness advances it in 1 s steps),
// so "as soon as" is decidable: at every such quiescent point a survey whose expected nodes
// have all answered, or whose deadline has been reached, must have returned.

const surveyxD = 5 * time.Second

type surveyxSurvey struct {
	node  int           // issuing node
	op    string        // survey op, identifies the survey in answers
	delay time.Duration // start time
	beh   []string      // behaviour of node i for this survey
}

type surveyxCfg struct {
	label   string
	nodes   int
	surveys []surveyxSurvey
	// slowPublish: the control transport takes 2 s to acknowledge a survey request (the request is
	// on its way at once, PublishControl returns 2 s later); 's' answers arrive 1 s into that
	slowPublish bool
}

// surveyxSlowEndpoint is the issuing node's controller endpoint with a slow acknowledgement.
type surveyxSlowEndpoint struct {
	*vLoopEndpoint
	n          *Node
	publishing *int
}

func (e *surveyxSlowEndpoint) PublishControl(data []byte, nodeID, shardKey string) error {
	err := e.vLoopEndpoint.PublishControl(data, nodeID, shardKey)
	if cmd, derr := e.n.controlDecoder.DecodeCommand(data); derr == nil && cmd.SurveyRequest != nil {
		*e.publishing++
		time.Sleep(2 * time.Second)
		*e.publishing--
	}
	return err
}

var surveyxCfgs = map[string]surveyxCfg{}

func (c surveyxCfg) name() string {
	var l []string
	for _, s := range c.surveys {
		l = append(l, fmt.Sprintf("%s@n%d+%ds[%s]", s.op, s.node, s.delay/time.Second, strings.Join(s.beh, ",")))
	}
	if c.slowPublish {
		return fmt.Sprintf("%s/N%d/slow-publish/%s", c.label, c.nodes, strings.Join(l, "/"))
	}
	return fmt.Sprintf("%s/N%d/%s", c.label, c.nodes, strings.Join(l, "/"))
}

func surveyxVariants(tier string) []vsched.Variant {
	var out []vsched.Variant
	add := func(c surveyxCfg, bound, shards, budget int) {
		surveyxCfgs[c.name()] = c
		out = append(out, vsched.Variant{Name: c.name(), Bound: bound, Shards: shards, BudgetS: budget})
	}
	s := func(node int, op string, delay time.Duration, beh ...string) surveyxSurvey {
		return surveyxSurvey{node: node, op: op, delay: delay, beh: beh}
	}
	type sv struct {
		c              surveyxCfg
		qBound, qShard int
		tBound, tShard int
	}
	x3 := []string{"a", "a", "a"}
	list := []sv{
		{surveyxCfg{label: "orders", nodes: 3, surveys: []surveyxSurvey{s(0, "x", 0, x3...)}}, 1, 1, 2, 4},
		{surveyxCfg{label: "missing", nodes: 3, surveys: []surveyxSurvey{s(0, "x", 0, "a", "a", "-")}}, 1, 1, 2, 4},
		{surveyxCfg{label: "foreign", nodes: 3, surveys: []surveyxSurvey{s(0, "x", 0, "a", "fa", "a")}}, 1, 2, 1, 2},
		{surveyxCfg{label: "two-same-node", nodes: 2, surveys: []surveyxSurvey{s(0, "x", 0, "a", "a"), s(0, "y", 0, "a", "a")}}, 0, 1, 1, 8},
		{surveyxCfg{label: "two-nodes-same-id", nodes: 2, surveys: []surveyxSurvey{s(0, "x", 0, "a", "a"), s(1, "y", 0, "a", "a")}}, 0, 1, 1, 8},
		{surveyxCfg{label: "cross", nodes: 3, surveys: []surveyxSurvey{s(0, "x", 0, "a", "-", "a"), s(1, "y", 0, "-", "a", "a")}}, 0, 2, 1, 8},
		{surveyxCfg{label: "cross", nodes: 3, surveys: []surveyxSurvey{s(0, "x", 0, x3...), s(1, "y", 0, x3...)}}, -1, 0, 0, 8},
		{surveyxCfg{label: "at-deadline", nodes: 2, surveys: []surveyxSurvey{s(0, "x", 0, "a", "e"), s(0, "y", surveyxD, "a", "a")}}, 1, 2, 1, 2},
		{surveyxCfg{label: "late", nodes: 2, surveys: []surveyxSurvey{s(0, "x", 0, "a", "l"), s(0, "y", surveyxD+time.Second, "a", "a")}}, 1, 3, 1, 4},
		{surveyxCfg{label: "local-async", nodes: 2, surveys: []surveyxSurvey{s(0, "x", 0, "A", "a")}}, 1, 1, 2, 4},
		{surveyxCfg{label: "local-silent", nodes: 2, surveys: []surveyxSurvey{s(0, "x", 0, "-", "a")}}, 1, 1, 2, 4},
		{surveyxCfg{label: "dup-missing", nodes: 3, surveys: []surveyxSurvey{s(0, "x", 0, "a", "aa", "-")}}, 1, 2, 1, 2},
		{surveyxCfg{label: "dup", nodes: 3, surveys: []surveyxSurvey{s(0, "x", 0, "a", "aa", "a")}}, 1, 2, 1, 2},
		// the acknowledgement of the survey request is slow; the duplicate arrives at once, the last node's
		// answer 1 s later, the acknowledgement after 2 s: a collector that is running drains in between
		{surveyxCfg{label: "dup", nodes: 3, slowPublish: true, surveys: []surveyxSurvey{s(0, "x", 0, "a", "aa", "s")}}, 1, 2, 2, 4},
		{surveyxCfg{label: "nodup", nodes: 3, slowPublish: true, surveys: []surveyxSurvey{s(0, "x", 0, "a", "a", "s")}}, 1, 2, 2, 4},
		// thorough only
		{surveyxCfg{label: "two-same-node", nodes: 3, surveys: []surveyxSurvey{s(0, "x", 0, x3...), s(0, "y", 0, "a", "a", "-")}}, -1, 0, 0, 8},
		{surveyxCfg{label: "cross-foreign", nodes: 3, surveys: []surveyxSurvey{s(0, "x", 0, x3...), s(1, "y", 0, "a", "a", "fa")}}, -1, 0, 0, 8},
		{surveyxCfg{label: "late-foreign", nodes: 2, surveys: []surveyxSurvey{s(0, "x", 0, "a", "fl"), s(0, "y", surveyxD+time.Second, "a", "a")}}, -1, 0, 1, 8},
		{surveyxCfg{label: "dup-late", nodes: 2, surveys: []surveyxSurvey{s(0, "x", 0, "a", "el"), s(0, "y", surveyxD, "a", "a")}}, -1, 0, 1, 8},
	}
	for _, v := range list {
		if tier == "quick" {
			if v.qBound >= 0 {
				add(v.c, v.qBound, v.qShard, 40)
			}
		} else {
			add(v.c, v.tBound, v.tShard, 280)
		}
	}
	return out
}

func init() {
	vsched.Register(&vsched.Harness{
		Name: "surveyx", Props: []string{"C41"}, Kind: "sched",
		Doc:      "2-3 nodes joined by a synchronous loop-back controller; 1-2 surveys (same node / different nodes with equal survey ids / started at or after the first one's deadline) with a 5 s context deadline on the virtual clock; every answer is delivered by its own responder thread: once, twice (duplicate), never, exactly at the deadline, 1 s late, plus responses with a survey id nobody issued; the issuing node answers inside its handler, from another thread, or never. Virtual time advances only at quiescence. Oracle: every returned entry belongs to a node of the cluster and equals an answer that node gave to THIS survey (no foreign / mixed / other-survey data), at most one entry per node; error nil => an entry for every expected node; error => context.DeadlineExceeded and the deadline has been reached; at every quiescent point a survey whose expected nodes all answered, or whose deadline is reached, has returned; all surveys return (nothing blocks); deadlocks and panics are reported by the scheduler",
		Variants: surveyxVariants,
		Sched:    func(v vsched.Variant) func() { return surveyxBody(surveyxCfgs[v.Name]) },
	})
}

type surveyxRun struct {
	spec     surveyxSurvey
	started  bool
	returned bool
	t0, t1   time.Time
	res      map[string]SurveyResult
	err      error
	given    map[int][]string // node -> answers handed to the callback (before the call)
	done     map[int]int      // node -> callback calls that returned
}

func surveyxBody(cfg surveyxCfg) func() {
	return func() {
		vsched.Quiet(true)
		ctl := &vLoopController{}
		var nodes []*Node
		runs := map[string]*surveyxRun{}
		var ops []string
		for _, s := range cfg.surveys {
			runs[s.op] = &surveyxRun{spec: s, given: map[int][]string{}, done: map[int]int{}}
			ops = append(ops, s.op)
		}
		pending := 0 // survey and responder threads that have not finished
		var order []string
		dupClass := "nodup"
		for _, s := range cfg.surveys {
			for _, b := range s.beh {
				if strings.Count(b, "a")+strings.Count(b, "e")+strings.Count(b, "l")+strings.Count(b, "s") > 1 {
					dupClass = "dup"
				}
			}
		}
		if cfg.slowPublish {
			dupClass += ":slow-publish"
		}
		publishing := 0
		for i := 0; i < cfg.nodes; i++ {
			i := i
			n := vNewNode(nil)
			if cfg.slowPublish {
				n.SetController(&surveyxSlowEndpoint{vLoopEndpoint: &vLoopEndpoint{hub: ctl}, n: n, publishing: &publishing})
			} else {
				n.SetController(&vLoopEndpoint{hub: ctl})
			}
			n.OnSurvey(func(e SurveyEvent, cb SurveyCallback) {
				r := runs[e.Op]
				if r == nil {
					return
				}
				answer := func() {
					data := fmt.Sprintf("%s@n%d#%d", e.Op, i, len(r.given[i])+1)
					r.given[i] = append(r.given[i], data)
					order = append(order, fmt.Sprintf("%s@n%d", e.Op, i))
					cb(SurveyReply{Code: uint32(len(r.given[i])), Data: []byte(data)})
					r.done[i]++
				}
				spawn := func(f func()) {
					pending++
					go func() {
						f()
						pending--
					}()
				}
				for _, act := range r.spec.beh[i] {
					switch act {
					case 'a':
						if i == r.spec.node {
							answer() // inside the handler, like a synchronous application handler
						} else {
							spawn(answer)
						}
					case 'A':
						spawn(answer)
					case 's':
						spawn(func() {
							time.Sleep(time.Until(r.t0.Add(time.Second)))
							answer()
						})
					case 'e':
						spawn(func() {
							time.Sleep(time.Until(r.t0.Add(surveyxD)))
							answer()
						})
					case 'l':
						spawn(func() {
							time.Sleep(time.Until(r.t0.Add(surveyxD + time.Second)))
							answer()
						})
					case 'f':
						spawn(func() {
							cmd := &controlpb.Command{Uid: nodes[i].uid, SurveyResponse: &controlpb.SurveyResponse{Id: 777, Code: 99, Data: []byte("foreign@" + e.Op)}}
							_ = nodes[i].publishControl(cmd, nodes[r.spec.node].ID())
						})
					case '-':
					default:
						panic("unknown behaviour " + string(act))
					}
				}
			})
			if err := n.Run(); err != nil {
				panic(err)
			}
			nodes = append(nodes, n)
		}
		vsched.WaitIdle()
		uidIdx := map[string]int{}
		for i, n := range nodes {
			uidIdx[n.ID()] = i
			if n.nodes.size() != cfg.nodes {
				panic(fmt.Sprintf("setup: node %d knows %d nodes", i, n.nodes.size()))
			}
		}
		vsched.Quiet(false)

		// ---- concurrent phase
		for _, op := range ops {
			r := runs[op]
			pending++
			go func() {
				defer func() { pending-- }()
				if r.spec.delay > 0 {
					time.Sleep(r.spec.delay)
				}
				ctx, cancel := context.WithTimeout(context.Background(), surveyxD)
				defer cancel()
				r.t0 = time.Now()
				r.started = true
				res, err := nodes[r.spec.node].Survey(ctx, r.spec.op, []byte("q"), "")
				r.t1 = time.Now()
				r.res, r.err = res, err
				r.returned = true
			}()
		}
		allAnswered := func(r *surveyxRun) bool {
			for i := 0; i < cfg.nodes; i++ {
				if r.done[i] == 0 {
					return false
				}
			}
			return true
		}
		// Times at which something is scheduled: survey starts, deadlines (also the 'e' answers),
		// late answers. Virtual time is moved quietly to 1 ns before each of them (the nodes'
		// periodic pings run there, unexplored), the instant itself is explored.
		timeSet := map[time.Duration]bool{}
		for _, s := range cfg.surveys {
			timeSet[s.delay] = true
			timeSet[s.delay+surveyxD] = true
			if strings.Contains(strings.Join(s.beh, ""), "l") {
				timeSet[s.delay+surveyxD+time.Second] = true
			}
			if cfg.slowPublish {
				timeSet[s.delay+time.Second] = true
				timeSet[s.delay+2*time.Second] = true
			}
		}
		var times []time.Duration
		for t := range timeSet {
			if t > 0 {
				times = append(times, t)
			}
		}
		sort.Slice(times, func(a, b int) bool { return times[a] < times[b] })
		check := func() {
			now := time.Now()
			for _, op := range ops {
				r := runs[op]
				if !r.started || r.returned {
					continue
				}
				switch {
				case !now.Before(r.t0.Add(surveyxD)):
					vsched.Failf("not-returned-at-deadline:"+dupClass, "survey %s started at +%v with a %v deadline has not returned at +%v (quiescent)", op, surveyxRel(r.t0), surveyxD, surveyxRel(now))
				case allAnswered(r) && publishing == 0: // Survey cannot return before its own request is acknowledged
					vsched.Failf("not-returned-when-all-answered:"+dupClass, "every node answered survey %s (answers %v) but at +%v, before the deadline, it has not returned (quiescent: it now waits for the deadline)", op, surveyxGiven(r, cfg.nodes), surveyxRel(now))
				}
			}
		}
		finished := func() bool {
			for _, op := range ops {
				if !runs[op].returned {
					return false
				}
			}
			return pending == 0
		}
		vsched.WaitIdle()
		check()
		for _, T := range times {
			if finished() {
				break
			}
			if d := T - surveyxRel(time.Now()); d > 1 {
				vsched.Quiet(true)
				vsched.Advance(int64(d - 1))
				vsched.Quiet(false)
				check()
			}
			vsched.Advance(1)
			check()
		}
		vsched.Quiet(true)
		vsched.Logf("answers in order %v", order)

		// ---- oracle on the returned values
		for _, op := range ops {
			r := runs[op]
			if !r.returned {
				vsched.Failf("survey-never-returned:"+dupClass, "survey %s has not returned %v after its deadline", op, time.Since(r.t0.Add(surveyxD)))
				continue
			}
			var entries []string
			var uids []string
			for uid := range r.res {
				uids = append(uids, uid)
			}
			sort.Slice(uids, func(a, b int) bool { return uidIdx[uids[a]] < uidIdx[uids[b]] })
			seen := map[int]bool{}
			for _, uid := range uids {
				v := r.res[uid]
				i, known := uidIdx[uid]
				if !known {
					vsched.Failf("result-from-unknown-node", "survey %s returned an entry for uid %q which is no node of the cluster: %q", op, uid, v.Data)
					continue
				}
				if seen[i] {
					vsched.Failf("two-results-for-one-node", "survey %s returned two entries for node %d", op, i)
				}
				seen[i] = true
				entries = append(entries, fmt.Sprintf("n%d=%s/%d", i, v.Data, v.Code))
				ok := false
				for k, g := range r.given[i] {
					if g == string(v.Data) && v.Code == uint32(k+1) {
						ok = true
					}
				}
				if !ok {
					kind := "other"
					switch {
					case strings.HasPrefix(string(v.Data), "foreign@"):
						kind = "foreign-id-response"
					case !strings.HasPrefix(string(v.Data), op+"@"):
						kind = "other-survey"
					case !strings.HasPrefix(string(v.Data), fmt.Sprintf("%s@n%d#", op, i)):
						kind = "other-node"
					}
					vsched.Failf("result-not-an-answer-of-that-node-to-this-survey:"+kind, "survey %s: entry for node %d is %q/%d, that node answered this survey with %v", op, i, v.Data, v.Code, r.given[i])
				}
			}
			errs := "nil"
			if r.err != nil {
				errs = r.err.Error()
			}
			vsched.Logf("%s: +%v..+%v err=%s res=%v given=%v", op, surveyxRel(r.t0), surveyxRel(r.t1), errs, entries, surveyxGiven(r, cfg.nodes))
			switch {
			case r.err == nil:
				if len(seen) != cfg.nodes {
					vsched.Failf("incomplete-without-error:"+dupClass, "survey %s returned without error before its deadline but has entries only for %v of %d nodes", op, entries, cfg.nodes)
				}
			case r.err != context.DeadlineExceeded:
				vsched.Failf("unexpected-error", "survey %s returned %v", op, r.err)
			default:
				if r.t1.Before(r.t0.Add(surveyxD)) {
					vsched.Failf("deadline-error-before-deadline", "survey %s returned deadline exceeded at +%v, deadline +%v", op, surveyxRel(r.t1), surveyxRel(r.t0.Add(surveyxD)))
				}
			}
		}
	}
}

func surveyxRel(t time.Time) time.Duration {
	return t.Sub(time.Unix(0, vsched.BaseUnixNano))
}

func surveyxGiven(r *surveyxRun, nodes int) string {
	var l []string
	for i := 0; i < nodes; i++ {
		l = append(l, fmt.Sprintf("n%d:%d/%d", i, r.done[i], len(r.given[i])))
	}
	return strings.Join(l, " ")
}
