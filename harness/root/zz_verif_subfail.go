//go:build verif

package centrifuge

import (
	"context"
	"errors"
	"fmt"
	"strings"
	"time"

	"github.com/centrifugal/centrifuge/internal/zzverif/vsched"
	"github.com/centrifugal/protocol"
)

// subfail (C05, C06; E2 over environment answers): a subscription attempt during which one or two
// of the backend calls it makes fail. The calls are the broker's History, Subscribe and
// PublishJoin and the presence manager's AddPresence; the answers are "healthy" (default), a
// client-level error (History), an internal error, and for AddPresence also "stored, but the
// acknowledgement was lost" (the entry is in the store, the call reports an error). Every failing
// answer is one deviation; bound 1 (quick) / 2 (thorough) covers every single and every pair of
// failures of one attempt.
//
// Attempt = path x request: client subscribe command / connect-time server-side subscription /
// Node.Subscribe, with a plain request, a valid recovery position, a stale epoch, and a stale
// epoch with the reject-unrecovered flag (the subscribe is then refused after presence was added).
//
// Oracle at quiescence (presence read from the real store, behind the double):
//
//	C06: a connection that stays open is in the channel's presence iff it holds the subscription;
//	C05: a connection that ended is neither in the presence of the channel nor in the routing table.
type subfailCfg struct {
	path string // cmd | connect | nsub
	req  string // plain | valid | stale | stale-reject
}

func (c subfailCfg) name() string { return c.path + "/" + c.req }

var subfailCfgs = map[string]subfailCfg{}

type subfailEnv struct {
	armed  bool
	faults []string
}

// pick asks the explorer for the answer of one backend call (0 = healthy).
func (e *subfailEnv) pick(call string, answers ...string) string {
	if !e.armed {
		return ""
	}
	k := vsched.Choose(len(answers) + 1)
	if k == 0 {
		return ""
	}
	e.faults = append(e.faults, call+"="+answers[k-1])
	return answers[k-1]
}

type subfailBroker struct {
	Broker
	env *subfailEnv
}

func (b subfailBroker) History(ch string, opts HistoryOptions) ([]*Publication, StreamPosition, error) {
	switch b.env.pick("History", "client-error", "internal-error") {
	case "client-error":
		return nil, StreamPosition{}, ErrorTooManyRequests
	case "internal-error":
		return nil, StreamPosition{}, errors.New("broker: i/o timeout")
	}
	return b.Broker.History(ch, opts)
}

func (b subfailBroker) Subscribe(chs ...string) error {
	if b.env.pick("Subscribe", "internal-error") != "" {
		return errors.New("broker: i/o timeout")
	}
	return b.Broker.Subscribe(chs...)
}

func (b subfailBroker) PublishJoin(ch string, info *ClientInfo) error {
	if b.env.pick("PublishJoin", "internal-error") != "" {
		return errors.New("broker: i/o timeout")
	}
	return b.Broker.PublishJoin(ch, info)
}

type subfailPresence struct {
	PresenceManager
	env *subfailEnv
}

func (p subfailPresence) AddPresence(ch string, clientID string, info *ClientInfo) error {
	switch p.env.pick("AddPresence", "ack-lost", "internal-error") {
	case "ack-lost":
		_ = p.PresenceManager.AddPresence(ch, clientID, info)
		return errors.New("presence: i/o timeout")
	case "internal-error":
		return errors.New("presence: i/o timeout")
	}
	return p.PresenceManager.AddPresence(ch, clientID, info)
}

func subfailVariants(tier string) []vsched.Variant {
	b := 1
	if tier == "thorough" {
		b = 2
	}
	var out []vsched.Variant
	for _, path := range []string{"cmd", "connect", "nsub"} {
		for _, req := range []string{"plain", "valid", "stale", "stale-reject"} {
			if path == "nsub" && req != "plain" {
				continue // a server-side subscribe of an established connection carries no position
			}
			c := subfailCfg{path: path, req: req}
			subfailCfgs[c.name()] = c
			out = append(out, vsched.Variant{Name: c.name(), Bound: b, Shards: 1, BudgetS: 60})
		}
	}
	return out
}

func init() {
	for _, prop := range []string{"C05", "C06"} {
		prop := prop
		vsched.Register(&vsched.Harness{
			Name: "subfail-" + prop, Props: []string{prop}, Kind: "sched",
			Doc:      "one subscription attempt (client command / connect-time server-side subscription / Node.Subscribe; plain, valid position, stale epoch, stale epoch + reject-unrecovered) on a channel with presence, join/leave and recovery, during which the broker's History / Subscribe / PublishJoin and the presence manager's AddPresence answer healthy, with a client-level error, an internal error or (AddPresence) stored-but-acknowledgement-lost; every single failure (quick) and every pair (thorough); oracle: an open connection is in the presence iff it holds the subscription (C06), an ended connection is in neither presence nor routing table (C05)",
			Variants: subfailVariants,
			Sched:    func(v vsched.Variant) func() { return subfailBody(subfailCfgs[v.Name], prop) },
		})
	}
}

func subfailBody(cfg subfailCfg, prop string) func() {
	return func() {
		vsched.Quiet(true)
		const ch = "sf"
		env := &subfailEnv{}
		opts := SubscribeOptions{EmitPresence: true, EmitJoinLeave: true, PushJoinLeave: true, EnableRecovery: true, EnablePositioning: true}
		n := vNewNode(nil)
		realPresence := n.presenceManager
		n.SetBroker(subfailBroker{Broker: n.broker, env: env})
		n.SetPresenceManager(subfailPresence{PresenceManager: realPresence, env: env})
		n.OnConnecting(func(_ context.Context, e ConnectEvent) (ConnectReply, error) {
			r := ConnectReply{Credentials: &Credentials{UserID: "u"}}
			if cfg.path == "connect" {
				r.Subscriptions = map[string]SubscribeOptions{ch: opts}
			}
			return r, nil
		})
		n.OnConnect(func(c *Client) {
			c.OnSubscribe(func(e SubscribeEvent, cb SubscribeCallback) {
				cb(SubscribeReply{Options: opts}, nil)
			})
		})
		if err := n.Run(); err != nil {
			panic(err)
		}
		for i := 1; i <= 2; i++ {
			if _, err := n.Publish(ch, []byte(fmt.Sprintf(`{"n":%d}`, i)), WithHistory(10, time.Minute)); err != nil {
				panic(err)
			}
		}
		hr, err := n.History(ch, WithHistoryFilter(HistoryFilter{Limit: 0}))
		if err != nil {
			panic(err)
		}
		sub := &protocol.SubscribeRequest{Channel: ch}
		switch cfg.req {
		case "valid":
			sub.Recover, sub.Offset, sub.Epoch = true, 1, hr.Epoch
		case "stale":
			sub.Recover, sub.Offset, sub.Epoch = true, 1, "stale"
		case "stale-reject":
			sub.Recover, sub.Offset, sub.Epoch, sub.Flag = true, 1, "stale", subscriptionFlagRejectUnrecovered
		}
		t := vNewTransport()
		a := vNewClient(n, t, nil)
		id := a.c.ID()
		open := true
		if cfg.path != "connect" {
			a.connect()
		}
		vsched.WaitIdle()
		vsched.Quiet(false)

		// ---- the attempt
		env.armed = true
		switch cfg.path {
		case "cmd":
			open = a.cmd(&protocol.Command{Subscribe: sub})
		case "connect":
			req := &protocol.ConnectRequest{}
			if cfg.req != "plain" {
				req.Subs = map[string]*protocol.SubscribeRequest{ch: {Recover: true, Offset: sub.Offset, Epoch: sub.Epoch, Flag: sub.Flag}}
			}
			open = a.cmd(&protocol.Command{Connect: req})
		case "nsub":
			_ = n.Subscribe("u", ch, WithEmitPresence(true), WithEmitJoinLeave(true), WithPushJoinLeave(true), WithRecovery(true), WithPositioning(true))
		}
		env.armed = false
		if !open {
			_ = a.close() // the reader ends the connection when HandleCommand says so
		}
		vsched.WaitIdle()
		vsched.Quiet(true)

		// ---- observations
		closed := a.c.status == statusClosed
		held := a.c.IsSubscribed(ch)
		pres, err := realPresence.Presence(ch)
		if err != nil {
			panic(err)
		}
		_, inPresence := pres[id]
		_, routed := vHubSub(n, ch, id)
		faults := strings.Join(env.faults, "+")
		if faults == "" {
			faults = "healthy"
		}
		where := cfg.name() + ":" + faults
		vsched.Logf("%s closed=%v held=%v in-presence=%v routed=%v frames=%s", where, closed, held, inPresence, routed, strings.Join(t.log(), " | "))
		switch prop {
		case "C06":
			if !closed && inPresence && !held {
				vsched.Failf("presence-without-subscription:"+where, "the connection stays open without the subscription, but the channel's presence lists it")
			}
			if !closed && held && !inPresence {
				vsched.Failf("subscription-without-presence:"+where, "the connection holds the subscription but the channel's presence does not list it")
			}
		case "C05":
			if closed && inPresence {
				vsched.Failf("presence-survives-close:"+where, "the connection ended, its presence entry for %s is still there", ch)
			}
			if closed && routed {
				vsched.Failf("routing-survives-close:"+where, "the connection ended, the routing table still has its entry for %s", ch)
			}
		}
		if !closed {
			_ = a.close()
			vsched.WaitIdle()
		}
	}
}
