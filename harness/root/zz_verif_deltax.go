//go:build verif

package centrifuge

import (
	"bytes"
	"encoding/json"
	"fmt"
	"sort"
	"strings"
	"time"

	"github.com/centrifugal/centrifuge/internal/zzverif/vsched"
	"github.com/centrifugal/protocol"
	fdelta "github.com/shadowspore/fossil-delta"
)

// deltax (C14, stream channels): delta-encoded publications reconstruct the published data.
//
// One execution = one publication history (payload sequence x tag sequence, chosen by a single
// ChooseFree) published to several channels of one fresh Node (memory broker), while a family
// of client connections follows subscribe/unsubscribe/resubscribe scripts. Every connection
// negotiates fossil delta. An independent client model (dxSub) holds ONE base per stream and
// applies every pushed or recovered publication with fossil-delta Apply, exactly like an SDK.
//
// Channels (all published with WithDelta(true)):
//   pos    history, positioned + recoverable (stream recovery)
//   posm   as pos, channel medium KeepLatestPublication
//   cache  history, recoverable in RecoveryModeCache
//   nph    history, subscription NOT positioned
//   nphm   as nph, channel medium KeepLatestPublication
//   np0    no history (offset 0)
//   np0m   as np0, channel medium KeepLatestPublication
//
// Scripts (times count publications done so far, 0..L):
//   fresh(s)              subscribe fresh at s, stay
//   re(s,d,r,recover)     subscribe fresh at s (s = 0 or s = d), unsubscribe at d, subscribe
//                         again at r >= d on the same connection, recovering from the model's
//                         (offset, epoch) when the channel is recoverable and recover is set
//
// Oracle (the two clauses of the statement):
//   reconstruct   every delivered publication, after applying it to the base the model holds,
//                 equals the payload that was published at that offset / in that step
//   full-on-no-base  a publication flagged delta never arrives while the model holds no base
//                 (fresh subscription, unrecovered position, nothing delivered yet)

// ---- payload alphabet ----------------------------------------------------------------------------

const dxLong = "0123456789abcdefghijklmnopqr"

// dxPayloadsFor returns the payload alphabet for a protocol. JSON connections receive the
// payload inside a JSON string, so the "binary looking" member is valid UTF-8 full of
// characters that need escaping; Protobuf connections get raw bytes incl. NUL and invalid UTF-8.
func dxPayloadsFor(proto ProtocolType, n int) [][]byte {
	bin := []byte("{\"s\":\"q\\\"b\\\\s\\/ é \\u00e9 \\n   <>&\",\"k\":\"0123456789abcdefghijklmnopqr-1\"}")
	if proto == ProtocolTypeProtobuf {
		bin = append([]byte{0x00, 0xff, 0xfe, '"', '\\', '\n', 0x80, 'a', 0x00, 0x7f}, []byte("0123456789abcdefghijklmnopqr-1\x00\xff")...)
	}
	all := [][]byte{
		[]byte(`{"a":1}`),
		[]byte(`{"key":"` + dxLong + `-1"}`), // 40 bytes
		[]byte(`{"key":"` + dxLong + `-2"}`), // near-copy: patch smaller than full
		[]byte(`{"a":12}`),
		bin,
		{}, // empty
	}
	return all[:n]
}

// ---- channels -------------------------------------------------------------------------------------

type dxChan struct {
	name        string
	hist        bool
	positioned  bool
	recoverable bool
	cache       bool
	medium      bool
}

var dxChans = map[string]dxChan{
	"pos":   {name: "pos", hist: true, positioned: true, recoverable: true},
	"posm":  {name: "posm", hist: true, positioned: true, recoverable: true, medium: true},
	"cache": {name: "cache", hist: true, positioned: true, recoverable: true, cache: true},
	"nph":   {name: "nph", hist: true},
	"nphm":  {name: "nphm", hist: true, medium: true},
	"np0":   {name: "np0"},
	"np0m":  {name: "np0m", medium: true},
}

func (c dxChan) subscribeOptions() SubscribeOptions {
	o := SubscribeOptions{AllowedDeltaTypes: []DeltaType{DeltaTypeFossil}, AllowTagsFilter: true}
	if c.positioned {
		o.EnablePositioning = true
	}
	if c.recoverable {
		o.EnableRecovery = true
	}
	if c.cache {
		o.RecoveryMode = RecoveryModeCache
	}
	return o
}

// ---- scripts --------------------------------------------------------------------------------------

type dxScript struct {
	s, d, r int // d < 0: never unsubscribes
	recover bool
}

func (s dxScript) String() string {
	if s.d < 0 {
		return fmt.Sprintf("fresh(%d)", s.s)
	}
	return fmt.Sprintf("re(%d,%d,%d,rec=%v)", s.s, s.d, s.r, s.recover)
}

func dxScripts(L int) []dxScript {
	var out []dxScript
	for s := 0; s <= L; s++ {
		out = append(out, dxScript{s: s, d: -1})
	}
	for d := 0; d <= L; d++ {
		for r := d; r <= L; r++ {
			starts := []int{0}
			if d != 0 {
				starts = append(starts, d)
			}
			for _, s := range starts {
				out = append(out, dxScript{s: s, d: d, r: r, recover: true}, dxScript{s: s, d: d, r: r, recover: false})
			}
		}
	}
	return out
}

// ---- client model ---------------------------------------------------------------------------------

// dxSub is the SDK-side state of one subscription: position and ONE delta base.
type dxSub struct {
	ch      dxChan
	active  bool
	pending uint32 // id of the in-flight subscribe command
	pendRec bool   // the in-flight subscribe asked for recovery
	hasBase bool
	base    []byte
	offset  uint64
	epoch   string
	everSub bool
	session string // how the current session started: fresh | unrecovered | recovered-empty | recovered-pubs
	// statistics
	nFullNoBase, nFullWithBase, nDelta, nRecovered int
	trace                                          []string // deliveries in order: F<offset> full, D<offset> delta
}

type dxConn struct {
	cl     *vClient
	script dxScript
	filter bool // client tags filter {t eq a}
	subs   map[string]*dxSub
	cur    int
	w      *dxWorld
}

type dxPub struct {
	data    []byte
	tag     string
	nodelta bool // published without WithDelta (mixed variants)
}

type dxWorld struct {
	n        *Node
	proto    ProtocolType
	chans    []dxChan
	pubs     []dxPub // pubs[i] is publication i+1
	byOffset map[string]map[uint64]int
	epochs   map[string]string
	step     int // index into pubs of the publication being published; -1 outside a publish
	published int // highest index into pubs handed to Publish so far (-1: none)
	desc     string
	// candidates for offset-less identification in concurrent variants
	openSet map[int]bool
}

func dxFilterNode() *protocol.FilterNode {
	return &protocol.FilterNode{Key: "t", Cmp: "eq", Val: "a"}
}

func dxNewWorld(proto ProtocolType, chans []dxChan, mod func(c *Config)) *dxWorld {
	w := &dxWorld{proto: proto, chans: chans, byOffset: map[string]map[uint64]int{}, epochs: map[string]string{}, step: -1, published: -1}
	n := vNewNode(func(c *Config) {
		c.GetChannelMediumOptions = func(ch string) ChannelMediumOptions {
			if dc, ok := dxChans[ch]; ok && dc.medium {
				return ChannelMediumOptions{KeepLatestPublication: true}
			}
			return ChannelMediumOptions{}
		}
		if mod != nil {
			mod(c)
		}
	})
	n.OnConnect(func(c *Client) {
		c.OnSubscribe(func(e SubscribeEvent, cb SubscribeCallback) {
			dc, ok := dxChans[e.Channel]
			if !ok {
				cb(SubscribeReply{}, ErrorUnknownChannel)
				return
			}
			cb(SubscribeReply{Options: dc.subscribeOptions()}, nil)
		})
	})
	if err := n.Run(); err != nil {
		panic(err)
	}
	w.n = n
	return w
}

func (w *dxWorld) fail(sig, format string, a ...any) {
	vsched.Failf(sig, "%s: %s", w.desc, fmt.Sprintf(format, a...))
}

// publish publishes publication idx (0-based) to one channel.
func (w *dxWorld) publishTo(c dxChan, idx int) {
	p := w.pubs[idx]
	if idx > w.published {
		w.published = idx
	}
	opts := []PublishOption{WithDelta(!p.nodelta), WithTags(map[string]string{"t": p.tag})}
	if c.hist {
		opts = append(opts, WithHistory(16, time.Minute))
	}
	res, err := w.n.Publish(c.name, p.data, opts...)
	if err != nil {
		w.fail("model-divergence:publish-error", "publish %d on %s: %v", idx+1, c.name, err)
		return
	}
	if c.hist {
		if w.byOffset[c.name] == nil {
			w.byOffset[c.name] = map[uint64]int{}
		}
		w.byOffset[c.name][res.Offset] = idx
		w.epochs[c.name] = res.Epoch
	}
}

func (w *dxWorld) newConn(script dxScript, filter bool) *dxConn {
	t := vNewTransport()
	t.proto = w.proto
	cl := vNewClient(w.n, t, &Credentials{UserID: "u"})
	cl.connect()
	cn := &dxConn{cl: cl, script: script, filter: filter, subs: map[string]*dxSub{}, w: w}
	for _, c := range w.chans {
		cn.subs[c.name] = &dxSub{ch: c}
	}
	return cn
}

// class is the discriminating input class of a failure signature: "tags-filter" when the
// connection uses the client tags filter and at least one EARLIER publication carried a tag the
// filter withholds; otherwise how the current session started.
func (cn *dxConn) class(s *dxSub) string {
	if cn.filter {
		// publications strictly before the one being delivered live; all published ones
		// when a subscribe reply is being processed
		limit := cn.w.published
		if cn.w.step >= 0 {
			limit = cn.w.step - 1
		}
		for i, p := range cn.w.pubs {
			if p.tag != "a" && i <= limit {
				return "tags-filter"
			}
		}
	}
	return "session=" + s.session
}

func (cn *dxConn) label(ch string) string {
	f := "nofilter"
	if cn.filter {
		f = "filter"
	}
	return fmt.Sprintf("%s/%s/%s", ch, cn.script, f)
}

// subscribe sends a subscribe command for the channel; recover: ask for recovery from the
// model's position.
func (cn *dxConn) subscribe(ch string, recover bool) {
	s := cn.subs[ch]
	if cn.script.recover && !s.ch.recoverable {
		return // the recover flavour of a script is the same as its fresh flavour here
	}
	req := &protocol.SubscribeRequest{Channel: ch, Delta: string(DeltaTypeFossil)}
	if cn.filter {
		req.Tf = dxFilterNode()
	}
	rec := recover && s.ch.recoverable && s.everSub
	if rec {
		req.Recover = true
		req.Offset = s.offset
		req.Epoch = s.epoch
	}
	cmd := &protocol.Command{Subscribe: req}
	cn.cl.cmd(cmd)
	s.pending = cmd.Id
	s.pendRec = rec
}

func (cn *dxConn) unsubscribe(ch string) {
	s := cn.subs[ch]
	if !s.active {
		return
	}
	cn.cl.unsubscribe(ch)
	s.active = false
}

// data returns the application bytes of a delivered publication: with delta negotiated over
// the JSON protocol the payload (full or patch) travels as a JSON string.
func (cn *dxConn) data(p *protocol.Publication, where string) ([]byte, bool) {
	if cn.w.proto != ProtocolTypeJSON || len(p.Data) == 0 {
		return p.Data, true
	}
	var str string
	if err := json.Unmarshal(p.Data, &str); err != nil {
		cn.w.fail("json-delta-data-not-a-json-string:"+where, "%s: data %q", where, p.Data)
		return nil, false
	}
	return []byte(str), true
}

// deliver applies one delivered publication to the model. want is the published payload.
func (cn *dxConn) deliver(s *dxSub, p *protocol.Publication, want []byte, wantKnown bool, path string) {
	lbl := cn.label(s.ch.name)
	data, ok := cn.data(p, path)
	if !ok {
		s.hasBase = false
		return
	}
	var out []byte
	if p.Delta {
		if !s.hasBase {
			cn.w.fail("delta-without-base:"+path+":"+cn.class(s), "%s offset %d: publication flagged delta but the client holds no base (fresh / unrecovered / nothing delivered yet)", lbl, p.Offset)
			s.hasBase, s.base = wantKnown, want
			return
		}
		var err error
		out, err = fdelta.Apply(s.base, data)
		if err != nil {
			cn.w.fail("delta-wrong-base:"+path+":"+cn.class(s), "%s offset %d: patch %q does not apply to the base the client holds %q (%v); published %q", lbl, p.Offset, data, s.base, err, want)
			s.hasBase, s.base = wantKnown, want
			return
		}
		s.nDelta++
		s.trace = append(s.trace, fmt.Sprintf("D%d", p.Offset))
	} else {
		out = data
		s.trace = append(s.trace, fmt.Sprintf("F%d", p.Offset))
		if s.hasBase {
			s.nFullWithBase++
		} else {
			s.nFullNoBase++
		}
	}
	if !wantKnown {
		want, wantKnown = cn.w.identify(out)
	}
	if !wantKnown || !bytes.Equal(out, want) {
		kind := "full"
		if p.Delta {
			kind = "delta"
		}
		cn.w.fail("reconstruct-mismatch:"+kind+":"+path+":"+cn.class(s), "%s offset %d: reconstructed %q, published %q (base %q, wire %q)", lbl, p.Offset, out, want, s.base, data)
		out = want
	}
	s.hasBase, s.base = true, append([]byte(nil), out...)
	if p.Offset > 0 {
		s.offset = p.Offset
	}
}

// identify (concurrent variants, offset-less publications): the reconstructed payload must be
// one of the publications currently in flight.
func (w *dxWorld) identify(out []byte) ([]byte, bool) {
	var idxs []int
	for i := range w.openSet {
		idxs = append(idxs, i)
	}
	sort.Ints(idxs)
	for _, i := range idxs {
		if bytes.Equal(w.pubs[i].data, out) {
			return w.pubs[i].data, true
		}
	}
	return nil, false
}

// want returns the payload published at the offset of p (history channels) or in the current
// step (offset-less).
func (w *dxWorld) want(ch string, p *protocol.Publication) ([]byte, bool) {
	if p.Offset > 0 {
		if i, ok := w.byOffset[ch][p.Offset]; ok {
			return w.pubs[i].data, true
		}
		return nil, false
	}
	if w.step >= 0 {
		return w.pubs[w.step].data, true
	}
	return nil, false
}

// drain feeds the frames written since the last call to the model.
func (cn *dxConn) drain() {
	fr := cn.cl.t.frames
	for ; cn.cur < len(fr); cn.cur++ {
		r := fr[cn.cur].Reply
		switch {
		case r.Id != 0 && (r.Subscribe != nil || r.Error != nil):
			for _, s := range cn.sortedSubs() {
				if s.pending != r.Id {
					continue
				}
				s.pending = 0
				if r.Error != nil {
					cn.w.fail("model-divergence:subscribe-error", "%s: subscribe error %d", cn.label(s.ch.name), r.Error.Code)
					continue
				}
				cn.onSubscribed(s, r.Subscribe)
			}
		case r.Push != nil && r.Push.Pub != nil:
			s := cn.subs[r.Push.Channel]
			if s == nil || !s.active {
				continue
			}
			want, known := cn.w.want(s.ch.name, r.Push.Pub)
			if r.Push.Pub.Offset > 0 && !known {
				cn.w.fail("model-divergence:unknown-offset", "%s: live publication with offset %d", cn.label(s.ch.name), r.Push.Pub.Offset)
				continue
			}
			cn.deliver(s, r.Push.Pub, want, known, "live")
		case r.Push != nil && r.Push.Unsubscribe != nil:
			if s := cn.subs[r.Push.Channel]; s != nil {
				s.active = false
				s.hasBase = false
			}
		}
	}
}

func (cn *dxConn) sortedSubs() []*dxSub {
	var out []*dxSub
	for _, c := range cn.w.chans {
		out = append(out, cn.subs[c.name])
	}
	return out
}

func (cn *dxConn) onSubscribed(s *dxSub, res *protocol.SubscribeResult) {
	lbl := cn.label(s.ch.name)
	s.active = true
	s.everSub = true
	if !res.Delta {
		cn.w.fail("model-divergence:delta-not-negotiated", "%s: subscribe result has delta=false", lbl)
	}
	if !s.pendRec || !res.Recovered {
		// Fresh subscription or unrecovered position: the client starts from scratch.
		s.hasBase, s.base = false, nil
		s.offset, s.epoch = res.Offset, res.Epoch
		s.session = "fresh"
		if s.pendRec {
			s.session = "unrecovered"
		}
		if len(res.Publications) > 0 {
			cn.w.fail("model-divergence:publications-without-recovered", "%s: %d publications in an unrecovered subscribe result", lbl, len(res.Publications))
		}
		return
	}
	s.epoch = res.Epoch
	s.session = "recovered-empty"
	if len(res.Publications) > 0 {
		s.session = "recovered-pubs"
	}
	path := "recovered-stream"
	if s.ch.cache {
		path = "recovered-cache"
	}
	for _, p := range res.Publications {
		want, known := cn.w.want(s.ch.name, p)
		if !known {
			cn.w.fail("model-divergence:unknown-offset", "%s: recovered publication with offset %d", lbl, p.Offset)
			continue
		}
		s.nRecovered++
		cn.deliver(s, p, want, true, path)
	}
}

// ---- sequential harness ---------------------------------------------------------------------------

type dxParams struct {
	proto   ProtocolType
	chans   []string
	nPay    int  // payload alphabet size
	maxLen  int  // history length <= maxLen
	minLen  int  // history length >= minLen
	tags    bool // enumerate tag sequences over {a,b} and add filtered connections
	mixed   bool // enumerate delta-flag sequences {WithDelta(true), WithDelta(false)}^L instead of tags
	scripts string
}

func (p dxParams) count() int {
	n := 0
	for l := p.minLen; l <= p.maxLen; l++ {
		c := 1
		for i := 0; i < l; i++ {
			c *= p.nPay
			if p.tags || p.mixed {
				c *= 2
			}
		}
		n += c
	}
	return n
}

// decode maps an index to (payload indexes, tags).
func (p dxParams) decode(idx int) ([]int, []string) {
	for l := p.minLen; l <= p.maxLen; l++ {
		c := 1
		for i := 0; i < l; i++ {
			c *= p.nPay
			if p.tags || p.mixed {
				c *= 2
			}
		}
		if idx >= c {
			idx -= c
			continue
		}
		pays := make([]int, l)
		tags := make([]string, l)
		for i := l - 1; i >= 0; i-- {
			tags[i] = "a"
			if p.tags || p.mixed {
				if idx%2 == 1 {
					tags[i] = "b"
				}
				idx /= 2
			}
			pays[i] = idx % p.nPay
			idx /= p.nPay
		}
		return pays, tags
	}
	panic("deltax: index out of range")
}

var dxVariants = map[string]dxParams{}

func dxAdd(out *[]vsched.Variant, name string, p dxParams, shards, budget int) {
	dxVariants[name] = p
	*out = append(*out, vsched.Variant{Name: name, Bound: 0, Shards: shards, NoCache: true, BudgetS: budget})
}

var dxAllChans = []string{"pos", "posm", "cache", "nph", "nphm", "np0", "np0m"}

func init() {
	vsched.Register(&vsched.Harness{
		Name: "deltax", Props: []string{"C14"}, Kind: "sched",
		Doc: "E2 on a real Node (memory broker). One execution = one history: payload sequence (alphabet {small JSON, 40-byte JSON, its near-copy, second small JSON, binary-looking, empty}; " +
			"length <= 3 quick / <= 4 thorough) x tag sequence {a,b}^L in the -filter variants, x delta flag sequence {WithDelta(true), WithDelta(false)}^L in the -mixed variants (otherwise always WithDelta), published to channels pos, posm (medium KeepLatestPublication), cache (RecoveryModeCache), " +
			"nph / nphm (history, subscription not positioned, without / with medium), np0 / np0m (no history); protocol JSON or Protobuf per variant. Connections negotiate fossil delta and follow every " +
			"script fresh(s) and re(s in {0,d}, d, r >= d, recover|fresh) for 0 <= s,d,r <= L on all channels (recovering from the model's own position where the channel is recoverable); -filter variants add " +
			"connections with the client tags filter {t eq a}. Independent client model: one base per stream, fossil-delta Apply on every pushed and recovered publication (JSON: payload un-escaped from the JSON string). " +
			"Oracle: reconstructed payload == payload published at that offset / step; a publication flagged delta never arrives while the model holds no base.",
		Variants: func(tier string) []vsched.Variant {
			var out []vsched.Variant
			if tier == "thorough" {
				dxAdd(&out, "json-nofilter-l4", dxParams{proto: ProtocolTypeJSON, chans: dxAllChans, nPay: 6, maxLen: 4}, 16, 280)
				dxAdd(&out, "pb-nofilter-l4", dxParams{proto: ProtocolTypeProtobuf, chans: []string{"pos", "posm", "cache", "nphm", "np0m"}, nPay: 5, maxLen: 4}, 16, 280)
				dxAdd(&out, "json-filter-l4", dxParams{proto: ProtocolTypeJSON, chans: []string{"pos", "cache", "np0m"}, nPay: 2, maxLen: 4, tags: true}, 8, 280)
				dxAdd(&out, "pb-filter-l3", dxParams{proto: ProtocolTypeProtobuf, chans: []string{"pos", "cache", "np0m"}, nPay: 3, maxLen: 3, tags: true}, 8, 280)
				dxAdd(&out, "json-mixed-l4", dxParams{proto: ProtocolTypeJSON, chans: dxAllChans, nPay: 3, maxLen: 4, mixed: true}, 8, 280)
				dxAdd(&out, "pb-mixed-l3", dxParams{proto: ProtocolTypeProtobuf, chans: []string{"pos", "posm", "cache", "nphm", "np0m"}, nPay: 3, maxLen: 3, mixed: true}, 4, 280)
				return out
			}
			dxAdd(&out, "json-nofilter-l3", dxParams{proto: ProtocolTypeJSON, chans: dxAllChans, nPay: 6, maxLen: 3}, 5, 60)
			dxAdd(&out, "pb-nofilter-l3", dxParams{proto: ProtocolTypeProtobuf, chans: []string{"pos", "posm", "cache", "nphm", "np0m"}, nPay: 6, maxLen: 3}, 4, 60)
			dxAdd(&out, "json-filter-l3", dxParams{proto: ProtocolTypeJSON, chans: []string{"pos", "cache", "np0m"}, nPay: 2, maxLen: 3, tags: true}, 2, 60)
			dxAdd(&out, "pb-filter-l2", dxParams{proto: ProtocolTypeProtobuf, chans: []string{"pos", "cache"}, nPay: 2, maxLen: 2, tags: true}, 1, 60)
			// delta flag per publication: {WithDelta(true), WithDelta(false)}^L over 3 payloads
			dxAdd(&out, "json-mixed-l3", dxParams{proto: ProtocolTypeJSON, chans: dxAllChans, nPay: 3, maxLen: 3, mixed: true}, 4, 60)
			return out
		},
		Sched: func(v vsched.Variant) func() {
			p := dxVariants[v.Name]
			total := p.count()
			return func() {
				idx := vsched.ChooseFree(total)
				vsched.Quiet(true)
				dxSequential(p, idx)
			}
		},
	})
}

func dxSequential(p dxParams, idx int) {
	pays, tags := p.decode(idx)
	L := len(pays)
	alphabet := dxPayloadsFor(p.proto, p.nPay)
	var chans []dxChan
	for _, c := range p.chans {
		chans = append(chans, dxChans[c])
	}
	w := dxNewWorld(p.proto, chans, nil)
	var sb strings.Builder
	for i := range pays {
		if p.mixed {
			// the binary dimension is the delta flag: "b" = published without WithDelta
			w.pubs = append(w.pubs, dxPub{data: alphabet[pays[i]], tag: "a", nodelta: tags[i] == "b"})
			fmt.Fprintf(&sb, "%d%s ", pays[i], map[string]string{"a": "D", "b": "F"}[tags[i]])
			continue
		}
		w.pubs = append(w.pubs, dxPub{data: alphabet[pays[i]], tag: tags[i]})
		fmt.Fprintf(&sb, "%d%s ", pays[i], tags[i])
	}
	w.desc = fmt.Sprintf("proto=%s history=[%s]", p.proto, strings.TrimSpace(sb.String()))

	var conns []*dxConn
	for _, sc := range dxScripts(L) {
		conns = append(conns, w.newConn(sc, false))
		if p.tags {
			conns = append(conns, w.newConn(sc, true))
		}
	}
	settle := func() {
		vsched.WaitIdle()
		for _, cn := range conns {
			cn.drain()
		}
	}
	for t := 0; t <= L; t++ {
		for _, cn := range conns {
			if cn.script.s == t {
				for _, c := range chans {
					cn.subscribe(c.name, false)
				}
			}
		}
		settle()
		for _, cn := range conns {
			if cn.script.d == t {
				for _, c := range chans {
					cn.unsubscribe(c.name)
				}
			}
		}
		settle()
		for _, cn := range conns {
			if cn.script.d >= 0 && cn.script.r == t {
				for _, c := range chans {
					cn.subscribe(c.name, cn.script.recover)
				}
			}
		}
		settle()
		if t < L {
			w.step = t
			for _, c := range chans {
				w.publishTo(c, t)
			}
			settle()
			w.step = -1
		}
	}
	// ---- observation log: per channel what the model saw
	vsched.Logf("%s", w.desc)
	for _, c := range chans {
		var fn, fb, d, rec int
		for _, cn := range conns {
			s := cn.subs[c.name]
			fn += s.nFullNoBase
			fb += s.nFullWithBase
			d += s.nDelta
			rec += s.nRecovered
		}
		vsched.Logf("%s: full-without-base=%d full-although-base=%d delta=%d recovered=%d", c.name, fn, fb, d, rec)
	}
}
