//go:build verif

package centrifuge

import (
	"fmt"
	"sync"

	"github.com/centrifugal/centrifuge/internal/zzverif/vsched"
)

// deltae1 (C14, E1): the delta client model of deltax / deltamap under concurrency. Setup is
// sequential (quiet); then two or three threads run under the controlled scheduler:
//
//   pos-2pub      two live delta subscribers of the positioned channel (one already holds a base,
//                 one has not received anything yet); threads P1 and P2 each Node.Publish one
//                 publication (memory broker)
//   pos-2pub-lean only the subscriber holding a base (short enough for preemption bound 2)
//   medium-2pub   same on the channels served by a channel medium with KeepLatestPublication
//                 (nphm: history, not positioned; np0m: no history)
//   resub-pub     a live subscriber holding a base unsubscribes and subscribes again (fresh) on the
//                 same connection (thread S) while thread P publishes two publications
//   recover-pub   a connection that was subscribed (holds a base), unsubscribed and missed one
//                 publication resubscribes with recovery (thread S) while thread P publishes two
//                 more publications
//   map-2pub      two live delta subscribers of a recoverable map channel; P1 and P2 MapPublish
//                 (same key / different keys)
//   map-sub-pub   a fresh map subscribe (state -> live) racing one MapPublish to an existing key
//
// Oracle: identical to the sequential harnesses (reconstruct == published, no delta without a
// base); an insufficient-state unsubscribe ends the model's session.

func deltae1Payload(i int) []byte {
	return []byte(fmt.Sprintf(`{"key":"%s-%d"}`, dxLong, i))
}

func init() {
	vsched.Register(&vsched.Harness{
		Name: "deltae1", Props: []string{"C14"}, Kind: "sched",
		Doc: "E1 on a real Node: variants pos-2pub (two concurrent Node.Publish to a positioned channel with two live fossil-delta subscribers, a JSON one holding a base and a Protobuf one that has not received anything yet), medium-2pub (same through a channel medium with KeepLatestPublication, with and without history), " +
			"resub-pub (live subscriber unsubscribes and subscribes again fresh while two publications are published), recover-pub (delta subscriber recovering from its position while two publications are published), map-2pub (two concurrent MapPublish, same key and different keys, two live map delta subscribers), map-sub-pub (fresh map subscribe racing a MapPublish); " +
			"preemption bound 1; bound 2 (thorough) for recover-pub, map-sub-pub and pos-2pub-lean (single subscriber). Oracle: the sequential client model (one base per stream / key, fossil-delta Apply): reconstructed payload == published payload, no delta without a base.",
		Variants: func(tier string) []vsched.Variant {
			if tier == "thorough" {
				var out []vsched.Variant
				for _, n := range []string{"pos-2pub", "medium-2pub", "medium-hist-2pub", "resub-pub", "map-2pub-samekey", "map-2pub-otherkey"} {
					out = append(out, vsched.Variant{Name: n, Bound: 1, Shards: 4, BudgetS: 280})
				}
				// bound 2 where the concurrent phase is short enough to be exhausted
				out = append(out, vsched.Variant{Name: "recover-pub", Bound: 2, Shards: 16, BudgetS: 280})
				out = append(out, vsched.Variant{Name: "pos-2pub-lean", Bound: 2, Shards: 16, BudgetS: 280})
				out = append(out, vsched.Variant{Name: "map-sub-pub", Bound: 2, Shards: 16, BudgetS: 280})
				return out
			}
			var out []vsched.Variant
			for _, n := range []string{"pos-2pub", "recover-pub", "resub-pub", "map-sub-pub"} {
				out = append(out, vsched.Variant{Name: n, Bound: 1, Shards: 4, BudgetS: 60})
			}
			return out
		},
		Sched: func(v vsched.Variant) func() {
			switch v.Name {
			case "pos-2pub":
				return func() { deltae1Stream([]string{"pos"}, "") }
			case "pos-2pub-lean":
				return func() { deltae1Stream([]string{"pos"}, "lean") }
			case "resub-pub":
				return func() { deltae1Stream([]string{"pos"}, "resub") }
			case "medium-2pub":
				return func() { deltae1Stream([]string{"np0m"}, "") }
			case "medium-hist-2pub":
				return func() { deltae1Stream([]string{"nphm"}, "") }
			case "recover-pub":
				return func() { deltae1Stream([]string{"pos"}, "recover") }
			case "map-2pub-samekey":
				return func() { deltae1Map("a", false) }
			case "map-2pub-otherkey":
				return func() { deltae1Map("b", false) }
			case "map-sub-pub":
				return func() { deltae1Map("a", true) }
			}
			panic("deltae1: unknown variant " + v.Name)
		},
	})
}

func deltae1Stream(chNames []string, mode string) {
	vsched.Quiet(true)
	var chans []dxChan
	for _, c := range chNames {
		chans = append(chans, dxChans[c])
	}
	wj := dxNewWorld(ProtocolTypeJSON, chans, nil)
	// Protobuf connections live on the same node and share the world's bookkeeping.
	wp := &dxWorld{n: wj.n, proto: ProtocolTypeProtobuf, chans: chans, byOffset: wj.byOffset, epochs: wj.epochs, step: -1}
	for i := 1; i <= 4; i++ {
		p := dxPub{data: deltae1Payload(i), tag: "a"}
		wj.pubs = append(wj.pubs, p)
	}
	wp.pubs = wj.pubs
	wj.desc = "deltae1 " + fmt.Sprint(chNames) + " json"
	wp.desc = "deltae1 " + fmt.Sprint(chNames) + " protobuf"
	open := map[int]bool{}
	wj.openSet, wp.openSet = open, open

	var conns []*dxConn
	mk := func(w *dxWorld) *dxConn {
		cn := w.newConn(dxScript{d: -1}, false)
		conns = append(conns, cn)
		return cn
	}
	settle := func() {
		vsched.WaitIdle()
		for _, cn := range conns {
			cn.drain()
		}
	}
	// A*: subscribed before publication 1 (hold a base afterwards)
	aj := mk(wj)
	for _, cn := range []*dxConn{aj} {
		for _, c := range chans {
			cn.subscribe(c.name, false)
		}
	}
	settle()
	wj.step, wp.step = 0, 0
	for _, c := range chans {
		wj.publishTo(c, 0)
	}
	settle()
	wj.step, wp.step = -1, -1

	var wg sync.WaitGroup
	if mode == "" || mode == "lean" {
		if mode == "" {
			// B*: subscribed after publication 1: nothing delivered yet
			bp := mk(wp)
			for _, c := range chans {
				bp.subscribe(c.name, false)
			}
			settle()
		}
		open[1], open[2] = true, true
		vsched.Quiet(false)
		wg.Add(2)
		for _, i := range []int{1, 2} {
			i := i
			go func() {
				defer wg.Done()
				for _, c := range chans {
					wj.publishTo(c, i)
				}
			}()
		}
	} else if mode == "resub" {
		// S: unsubscribe, subscribe fresh again on the same connection; P: two publications
		open[1], open[2] = true, true
		vsched.Quiet(false)
		wg.Add(2)
		go func() {
			defer wg.Done()
			for _, c := range chans {
				aj.cl.unsubscribe(c.name)
				aj.subscribe(c.name, false)
			}
		}()
		go func() {
			defer wg.Done()
			for _, i := range []int{1, 2} {
				for _, c := range chans {
					wj.publishTo(c, i)
				}
			}
		}()
	} else {
		for _, cn := range []*dxConn{aj} {
			for _, c := range chans {
				cn.unsubscribe(c.name)
			}
		}
		settle()
		wj.step, wp.step = 1, 1
		for _, c := range chans {
			wj.publishTo(c, 1)
		}
		settle()
		wj.step, wp.step = -1, -1
		open[2], open[3] = true, true
		vsched.Quiet(false)
		wg.Add(2)
		go func() {
			defer wg.Done()
			for _, cn := range []*dxConn{aj} {
				for _, c := range chans {
					cn.subscribe(c.name, true)
				}
			}
		}()
		go func() {
			defer wg.Done()
			for _, i := range []int{2, 3} {
				for _, c := range chans {
					wj.publishTo(c, i)
				}
			}
		}()
	}
	wg.Wait()
	vsched.WaitIdle()
	vsched.Quiet(true)
	for _, cn := range conns {
		cn.drain()
	}
	for _, cn := range conns {
		for _, c := range chans {
			s := cn.subs[c.name]
			vsched.Logf("%s %s: active=%v offset=%d recovered=%d deliveries=%v", cn.w.proto, c.name, s.active, s.offset, s.nRecovered, s.trace)
		}
	}
}

func deltae1Map(secondKey string, subscribeRace bool) {
	vsched.Quiet(true)
	const ch = "mrec"
	wj := dmNewWorld(ProtocolTypeJSON, []string{ch})
	wp := &dmWorld{n: wj.n, proto: ProtocolTypeProtobuf, chans: wj.chans, byOffset: wj.byOffset, cur: wj.cur, lastOp: wj.lastOp, step: -1}
	wj.desc, wp.desc = "deltae1 map json", "deltae1 map protobuf"
	var conns []*dmConn
	mk := func(w *dmWorld, kind string) *dmConn {
		t := vNewTransport()
		t.proto = w.proto
		cl := vNewClient(w.n, t, &Credentials{UserID: "u"})
		cl.connect()
		cn := &dmConn{w: w, cl: cl, ch: ch, script: dmScript{kind: kind, s: 0, d: -1}}
		conns = append(conns, cn)
		return cn
	}
	settle := func() {
		vsched.WaitIdle()
		for _, cn := range conns {
			cn.drain()
		}
	}
	run := func(cn *dmConn) { // drive a fresh subscribe to the live phase
		for i := 0; i < 8 && cn.state != dmLive && cn.state != dmEnded; i++ {
			cn.tick(0, true)
			vsched.WaitIdle()
			cn.drain()
		}
	}
	wj.apply(ch, dmOp{key: "a", data: deltae1Payload(1), tag: "a"})
	if !subscribeRace {
		mk(wj, "fresh")
		mk(wp, "fresh")
	}
	for _, cn := range conns {
		cn.tick(0, true)
	}
	settle()
	op2 := dmOp{key: "a", data: deltae1Payload(2), tag: "a"}
	op3 := dmOp{key: secondKey, data: deltae1Payload(3), tag: "a"}
	var wg sync.WaitGroup
	if !subscribeRace {
		vsched.Quiet(false)
		wg.Add(2)
		go func() { defer wg.Done(); wj.apply(ch, op2) }()
		go func() { defer wg.Done(); wj.apply(ch, op3) }()
	} else {
		bj := mk(wj, "fresh")
		wj.byOffset[ch][2] = op2 // the only operation in flight: its offset is known in advance
		vsched.Quiet(false)
		wg.Add(2)
		go func() { defer wg.Done(); bj.tick(0, true) }() // one request: state -> live
		go func() { defer wg.Done(); wj.apply(ch, op2) }()
	}
	wg.Wait()
	vsched.WaitIdle()
	vsched.Quiet(true)
	for _, cn := range conns {
		cn.drain()
		run(cn)
	}
	for _, cn := range conns {
		cn.drain()
	}
	for _, cn := range conns {
		vsched.Logf("%s: state=%d offset=%d pubs-in-live-reply=%d deliveries=%v", cn.w.proto, cn.state, cn.offset, cn.nLivePubsInReply, cn.trace)
	}
}
