//go:build verif

package centrifuge

import (
	"context"
	"fmt"
	"strings"
	"time"

	"github.com/centrifugal/centrifuge/internal/zzverif/vsched"
	"github.com/centrifugal/protocol"
)

// livetimers (C36, E1 event-order enumeration on the virtual clock).
//
// One connection. All sequences of up to N events (enumerated with vsched.ChooseFree, scheduling
// bound 0, sequential) from an alphabet of
//   time steps placed around the deadline the reference model currently holds
//     ("-": 1 ms before, "0": exactly at, "+"/"++": just after), and
//   actions: pong command, client refresh command, Client.Refresh (server side), sub_refresh
//     command (granted / answered Expired by the application), direct presence tick.
// After every event, and at 1 ms before / 1 ms after the model's deadline window at the end, the
// connection state is compared with a reference timeline (ltPongModel, ltStaleModel, ltExpModel)
// that only uses the configuration, the harness' own actions and the observable server actions
// (ping frames written, refresh handler invocations).
//
// Oracle = the property statement:
//   pong:   disconnected with 3012 iff a server ping was not answered within PongTimeout
//   stale:  closed with 3502 iff still unauthenticated after ClientStaleCloseDelay
//   expiry: connection closed with 3005 / subscription unsubscribed with 2501 (server-side
//           subscription: closed with 3006) iff not refreshed by expiry + grace; never before.
// Expiry times are unix seconds, so the model leaves a window [L, U] in which either answer is
// accepted: L = expiry (+ grace where the grace applies), U = expiry + grace + 1 s (+ one presence
// interval for subscriptions, whose expiry is only looked at on presence ticks).

type ltTri int

const (
	ltMustNot ltTri = iota
	ltMay
	ltMust
)

const (
	ltPresence   = 6 * time.Second
	ltGrace      = 4 * time.Second
	ltSubGrace   = 4 * time.Second
	ltStale      = 5 * time.Second
	ltTTL        = int64(10) // seconds granted by every (re)fresh
	ltPingI      = 10 * time.Second
	ltPongT      = 3 * time.Second
	ltAutoPingI  = 3 * time.Second
	ltAutoPongT  = 2 * time.Second
	ltChunk      = 500 * vMs
	ltCodeNoPong = 3012
	ltCodeStale  = 3502
	ltCodeExp    = 3005
	ltCodeSubExp = 3006
	ltCodeBadReq = 3501
)

type ltCfg struct {
	kind   string // pong | stale | connexp-client | connexp-server | subexp-client | subexp-server
	mode   string // connexp-server: none | extend | expired ; subexp-server: extend | expired | srvsub
	events int    // maximal number of events
	frac   int64  // virtual time before the connection is created / connected (sub-second offset)
	wide   bool   // thorough: additional time step inside the undetermined window
	pf     bool   // subexp: the channel has presence and the presence backend fails every update once the subscription is established
}

// ltFailingPresence: the environment answer "the presence backend is down" (AddPresence errors).
type ltFailingPresence struct {
	PresenceManager
	w *ltWorld
}

func (p ltFailingPresence) AddPresence(ch string, clientID string, info *ClientInfo) error {
	if p.w.presenceDown {
		return fmt.Errorf("presence: i/o timeout")
	}
	return p.PresenceManager.AddPresence(ch, clientID, info)
}

func (c ltCfg) name() string {
	n := c.kind
	if c.mode != "" {
		n += "/" + c.mode
	}
	if c.pf {
		n += "/presence-down"
	}
	return fmt.Sprintf("%s/ev%d/frac%dms/wide%v", n, c.events, c.frac/vMs, c.wide)
}

var ltCfgs = map[string]ltCfg{}

func ltVariants(tier string) []vsched.Variant {
	var out []vsched.Variant
	add := func(c ltCfg, shards, budget int) {
		ltCfgs[c.name()] = c
		out = append(out, vsched.Variant{Name: c.name(), Bound: 0, Shards: shards, BudgetS: budget, NoCache: true})
	}
	if tier == "quick" {
		add(ltCfg{kind: "pong", events: 4}, 6, 100)
		add(ltCfg{kind: "pong", mode: "exp-lifted", events: 3}, 2, 100)
		add(ltCfg{kind: "stale", events: 4}, 2, 100)
		add(ltCfg{kind: "connexp-client", events: 4}, 4, 100)
		for _, m := range []string{"none", "extend", "expired"} {
			add(ltCfg{kind: "connexp-server", mode: m, events: 4}, 2, 100)
		}
		add(ltCfg{kind: "subexp-client", events: 4}, 6, 100)
		for _, m := range []string{"extend", "expired", "srvsub"} {
			add(ltCfg{kind: "subexp-server", mode: m, events: 4}, 2, 100)
		}
		// the presence backend fails every periodic update of the channel: expiry must not depend on it
		add(ltCfg{kind: "subexp-client", events: 3, pf: true}, 2, 100)
		add(ltCfg{kind: "subexp-server", mode: "srvsub", events: 3, pf: true}, 2, 100)
		return out
	}
	for _, frac := range []int64{0, 250 * vMs} {
		add(ltCfg{kind: "pong", events: 5, frac: frac}, 6, 280)
		add(ltCfg{kind: "pong", mode: "exp-lifted", events: 4, frac: frac}, 4, 280)
		add(ltCfg{kind: "stale", events: 5, frac: frac}, 4, 280)
		add(ltCfg{kind: "connexp-client", events: 5, frac: frac, wide: true}, 7, 280)
		for _, m := range []string{"none", "extend", "expired"} {
			add(ltCfg{kind: "connexp-server", mode: m, events: 5, frac: frac, wide: true}, 6, 280)
		}
		add(ltCfg{kind: "subexp-client", events: 5, frac: frac}, 7, 280)
		for _, m := range []string{"extend", "expired", "srvsub"} {
			add(ltCfg{kind: "subexp-server", mode: m, events: 5, frac: frac}, 5, 280)
		}
		add(ltCfg{kind: "subexp-client", events: 4, frac: frac, pf: true}, 4, 280)
		add(ltCfg{kind: "subexp-server", mode: "extend", events: 4, frac: frac, pf: true}, 4, 280)
		add(ltCfg{kind: "subexp-server", mode: "srvsub", events: 4, frac: frac, pf: true}, 4, 280)
	}
	return out
}

func init() {
	vsched.Register(&vsched.Harness{
		Name: "livetimers", Props: []string{"C36"}, Kind: "sched",
		Doc:      "one connection on the virtual clock, scheduling bound 0; every sequence of up to 4 (thorough 5) events {to 1 ms before / exactly at / just after the reference model's current deadline, pong command, rpc command (a command that is not a pong), client refresh command, Client.Refresh, sub_refresh command (granted / answered Expired), direct presence tick} for ping/pong (10 s / 3 s), stale close (5 s), connection expiry (TTL 10 s, ClientExpiredCloseDelay 4 s, client-side and server-side refresh with handler none/extend/expired) and subscription expiry (TTL 10 s, ClientExpiredSubCloseDelay 4 s, presence interval 6 s, client-side, server-side handler extend/expired, server-side subscription); pings of the expiry variants are answered by the harness; reference timeline per timer kind; oracle: no-pong disconnect (3012) iff no pong within the timeout, stale close (3502) iff unauthenticated after the delay, expired close (3005/3006) or unsubscribe (2501) iff not refreshed by expiry + grace (second granularity: undetermined inside [L,U]), checked after every event and 1 ms before L / 1 ms after U",
		Variants: ltVariants,
		Sched:    func(v vsched.Variant) func() { return ltBody(ltCfgs[v.Name]) },
	})
}

// ---- reference models -------------------------------------------------------------------------

// ltPongModel: a ping observed at P must be answered before P + PongTimeout.
type ltPongModel struct {
	pingAt      int64 // -1: no ping seen yet
	answered    bool
	boundary    bool // pong arrived exactly at the deadline instant
	unsolicited bool // pong without an unanswered ping: outside the statement (server answers 3501)
}

func (m *ltPongModel) deadline() int64 { return m.pingAt + int64(ltPongT) }

func (m *ltPongModel) onPing(t int64) { m.pingAt, m.answered, m.boundary = t, false, false }

func (m *ltPongModel) onPong(t int64) {
	switch {
	case m.pingAt < 0 || m.answered:
		m.unsolicited = true
	case t < m.deadline():
		m.answered = true
	case t == m.deadline():
		m.boundary = true
	}
}

func (m *ltPongModel) expect(now int64) (ltTri, uint32) {
	if m.unsolicited {
		return ltMay, ltCodeBadReq
	}
	if m.pingAt < 0 || m.answered {
		return ltMustNot, 0
	}
	switch {
	case now < m.deadline():
		return ltMustNot, 0
	case now == m.deadline() || m.boundary:
		return ltMay, ltCodeNoPong
	}
	return ltMust, ltCodeNoPong
}

// ltStaleModel: unauthenticated at created + ClientStaleCloseDelay => closed.
type ltStaleModel struct {
	created int64
	authAt  int64 // -1: never authenticated
}

func (m *ltStaleModel) deadline() int64 { return m.created + int64(ltStale) }

func (m *ltStaleModel) expect(now int64) (ltTri, uint32) {
	if m.authAt >= 0 {
		return ltMustNot, 0
	}
	switch {
	case now < m.deadline():
		return ltMustNot, 0
	case now == m.deadline():
		return ltMay, ltCodeStale
	}
	return ltMust, ltCodeStale
}

// ltExpModel: expiry (unix seconds) of a connection or subscription.
type ltExpModel struct {
	baseUnix int64
	exp      int64
	lowGrace int64 // L = exp + lowGrace: not closed before
	upGrace  int64 // U = exp + upGrace: closed after
	ctx      string
	denied   bool // the application answered a refresh attempt with Expired: may end at any time
}

func (m *ltExpModel) L() int64 { return (m.exp-m.baseUnix)*vSec + m.lowGrace }
func (m *ltExpModel) U() int64 { return (m.exp-m.baseUnix)*vSec + m.upGrace }

func (m *ltExpModel) onRefresh(newExp int64) { m.exp, m.ctx, m.denied = newExp, "refreshed", false }
func (m *ltExpModel) onDenied()              { m.ctx, m.denied = "refresh-answered-expired", true }

func (m *ltExpModel) expect(now int64) ltTri {
	switch {
	case now > m.U():
		return ltMust
	case m.denied || now >= m.L():
		return ltMay
	}
	return ltMustNot
}

// ---- world ------------------------------------------------------------------------------------

type ltWorld struct {
	cfg  ltCfg
	n    *Node
	cl   *vClient
	base int64

	connectFail bool
	usedBadConn bool
	pingsSeen   int
	pingsDone   int
	autoPong    bool

	presenceDown bool

	pong  ltPongModel
	stale ltStaleModel
	exp   ltExpModel

	trace []string
	ended string // verdict class once the scenario is decided
}

const ltCh = "ch"

func (w *ltWorld) now() int64  { return vsched.Now() }
func (w *ltWorld) unix() int64 { return w.base + vsched.Now()/vSec }

func ltIsPing(f vFrame) bool { return f.describe() == "pong/empty" }

func (w *ltWorld) setup() {
	cfg := w.cfg
	w.base = vsched.BaseUnixNano / vSec
	w.pong.pingAt = -1
	w.stale.authAt = -1
	clientSide := strings.HasSuffix(cfg.kind, "-client")
	n := vNewNode(func(c *Config) {
		c.ClientPresenceUpdateInterval = ltPresence
		c.ClientExpiredCloseDelay = ltGrace
		c.ClientExpiredSubCloseDelay = ltSubGrace
		c.ClientStaleCloseDelay = ltStale
	})
	w.n = n
	n.OnConnecting(func(ctx context.Context, e ConnectEvent) (ConnectReply, error) {
		if w.connectFail {
			return ConnectReply{}, ErrorPermissionDenied
		}
		r := ConnectReply{Credentials: &Credentials{UserID: "u"}}
		if cfg.kind == "pong" && cfg.mode == "exp-lifted" {
			// the connection starts with an expiry (its expire timer op is pending) ...
			r.Credentials.ExpireAt = w.unix() + 12
		}
		if strings.HasPrefix(cfg.kind, "connexp") {
			r.Credentials.ExpireAt = w.unix() + ltTTL
			r.ClientSideRefresh = clientSide
			w.exp.exp = r.Credentials.ExpireAt
		}
		return r, nil
	})
	n.OnConnect(func(c *Client) {
		if strings.HasPrefix(cfg.kind, "connexp") && cfg.mode != "none" {
			c.OnRefresh(func(e RefreshEvent, cb RefreshCallback) {
				if !e.ClientSideRefresh && cfg.mode == "expired" {
					w.trace = append(w.trace, "h:expired")
					cb(RefreshReply{Expired: true}, nil)
					return
				}
				newExp := w.unix() + ltTTL
				w.exp.onRefresh(newExp)
				if !e.ClientSideRefresh {
					w.trace = append(w.trace, "h:extend")
				}
				cb(RefreshReply{ExpireAt: newExp}, nil)
			})
		}
		c.OnSubscribe(func(e SubscribeEvent, cb SubscribeCallback) {
			exp := w.unix() + ltTTL
			w.exp.exp = exp
			cb(SubscribeReply{Options: SubscribeOptions{ExpireAt: exp, EmitPresence: cfg.pf}, ClientSideRefresh: clientSide}, nil)
		})
		if strings.HasPrefix(cfg.kind, "subexp") && cfg.mode != "srvsub" {
			c.OnSubRefresh(func(e SubRefreshEvent, cb SubRefreshCallback) {
				if e.ClientSideRefresh && e.Token == "expired" || !e.ClientSideRefresh && cfg.mode == "expired" {
					w.exp.onDenied()
					if !e.ClientSideRefresh {
						w.trace = append(w.trace, "h:expired")
					}
					cb(SubRefreshReply{Expired: true}, nil)
					return
				}
				newExp := w.unix() + ltTTL
				w.exp.onRefresh(newExp)
				if !e.ClientSideRefresh {
					w.trace = append(w.trace, "h:extend")
				}
				cb(SubRefreshReply{ExpireAt: newExp}, nil)
			})
		}
	})
	if cfg.pf {
		n.SetPresenceManager(ltFailingPresence{PresenceManager: n.presenceManager, w: w})
	}
	if err := n.Run(); err != nil {
		panic(err)
	}
	if cfg.frac > 0 {
		vsched.Advance(cfg.frac)
	}
	t := vNewTransport()
	switch cfg.kind {
	case "pong":
		t.ping = PingPongConfig{PingInterval: ltPingI, PongTimeout: ltPongT}
	default:
		t.ping = PingPongConfig{PingInterval: ltAutoPingI, PongTimeout: ltAutoPongT}
		w.autoPong = true
	}
	t.onFrame = func(f vFrame) {
		if ltIsPing(f) {
			w.pingsSeen++
			w.pong.onPing(w.now())
		}
	}
	w.cl = vNewClient(n, t, nil)
	w.stale.created = w.now()
	w.exp.baseUnix = w.base
	w.exp.ctx = "never-refreshed"
	switch cfg.kind {
	case "connexp-client":
		w.exp.lowGrace, w.exp.upGrace = int64(ltGrace), int64(ltGrace)+vSec
	case "connexp-server":
		w.exp.lowGrace, w.exp.upGrace = 0, int64(ltGrace)+vSec
	case "subexp-client", "subexp-server":
		w.exp.lowGrace, w.exp.upGrace = int64(ltSubGrace), int64(ltSubGrace)+vSec+int64(ltPresence)
	}
	if cfg.kind == "stale" {
		return
	}
	if !w.cl.connect() {
		panic("livetimers: connect refused")
	}
	vsched.WaitIdle()
	if cfg.kind == "pong" && cfg.mode == "exp-lifted" {
		// ... which the application lifts right away (Refresh without an expiration): from here on it
		// is an ordinary non-expiring connection and pings / no-pong detection must go on as before,
		// also after the pending expire op has fired
		if err := w.cl.c.Refresh(); err != nil {
			panic(err)
		}
		vsched.WaitIdle()
	}
	if strings.HasPrefix(cfg.kind, "subexp") {
		if cfg.mode == "srvsub" {
			w.exp.exp = w.unix() + ltTTL
			if err := w.cl.c.Subscribe(ltCh, WithExpireAt(w.exp.exp), WithEmitPresence(cfg.pf)); err != nil {
				panic(err)
			}
		} else {
			w.cl.subscribe(ltCh)
		}
		vsched.WaitIdle()
		if !w.cl.c.IsSubscribed(ltCh) {
			panic("livetimers: not subscribed")
		}
		w.presenceDown = cfg.pf
	}
}

func (w *ltWorld) closed() bool { return w.cl.t.closed }

// unsubCode returns the code of the unsubscribe push for the channel (0: none).
func (w *ltWorld) unsubCode() uint32 {
	for _, f := range w.cl.t.frames {
		if p := f.Reply.Push; p != nil && p.Channel == ltCh && p.Unsubscribe != nil {
			return p.Unsubscribe.Code
		}
	}
	return 0
}

// advanceTo lets virtual time run to the absolute instant target, answering pings on the way
// when the variant is not about pongs.
func (w *ltWorld) advanceTo(target int64) {
	for w.now() < target {
		step := target - w.now()
		if step > ltChunk {
			step = ltChunk
		}
		vsched.Advance(step)
		w.answerPings()
	}
}

func (w *ltWorld) answerPings() {
	if !w.autoPong {
		return
	}
	for w.pingsDone < w.pingsSeen {
		w.pingsDone++
		if !w.closed() {
			w.cl.raw(&protocol.Command{})
			vsched.WaitIdle()
		}
	}
}

// waitPing advances until the next server ping is observed (pong variant).
func (w *ltWorld) waitPing() bool {
	seen := w.pingsSeen
	limit := w.now() + 2*int64(ltPingI) + vSec
	for w.pingsSeen == seen && w.now() < limit && !w.closed() {
		vsched.Advance(100 * vMs)
	}
	if w.pingsSeen == seen {
		if !w.closed() {
			vsched.Failf("pong:no-ping-sent", "open authenticated connection, PingInterval %v, but no server ping within %v: %v", ltPingI, 2*ltPingI+time.Second, w.trace)
		}
		return false
	}
	return true
}

// target returns the absolute time of a time event; ok=false when it cannot be placed (the
// connection went away while waiting for the next ping, or no ping came: decided by check).
func (w *ltWorld) target(ev string) (int64, bool) {
	var lo, hi int64
	switch w.cfg.kind {
	case "pong":
		// the deadline of the current ping cycle (answered or not) while it is ahead, else of the next ping
		if w.pong.pingAt < 0 || w.now() >= w.pong.deadline()+vMs {
			if !w.waitPing() {
				return 0, false
			}
		}
		lo, hi = w.pong.deadline(), w.pong.deadline()
	case "stale":
		lo, hi = w.stale.deadline(), w.stale.deadline()
	default:
		lo, hi = w.exp.L(), w.exp.U()
	}
	switch ev {
	case "T-":
		return lo - vMs, true
	case "T0":
		return lo, true
	case "T+": // just after the deadline; for expiry: the first instant the implementation's second-granular clock can see it
		if lo == hi {
			return lo + vMs, true
		}
		return lo + vSec + vMs, true
	case "T~": // inside the undetermined window
		return lo + vMs, true
	case "T++":
		return hi + vMs, true
	}
	panic("unknown time event " + ev)
}

func (w *ltWorld) alphabet() []string {
	switch w.cfg.kind {
	case "pong":
		// rpcCmd: an inbound command that is not a pong (answered with an error reply: no RPC
		// handler is set): only a pong answers a ping
		return []string{"T-", "T0", "T+", "pong", "tick", "srvRefresh", "rpcCmd"}
	case "stale":
		return []string{"T-", "T0", "T+", "connect", "connectErr"}
	case "connexp-client":
		a := []string{"T-", "T0", "T++", "refreshCmd", "srvRefresh", "tick"}
		if w.cfg.wide {
			a = append(a, "T~")
		}
		return a
	case "connexp-server":
		a := []string{"T-", "T0", "T++", "srvRefresh", "tick"}
		if w.cfg.wide {
			a = append(a, "T~")
		}
		return a
	case "subexp-client":
		return []string{"T-", "T0", "T+", "T++", "subRefresh", "subRefreshExpired", "tick"}
	case "subexp-server":
		return []string{"T-", "T0", "T+", "T++", "tick"}
	}
	panic("unknown kind")
}

// apply performs one event; false: the event is a no-op here (the scenario duplicates a shorter one).
func (w *ltWorld) apply(ev string) bool {
	if strings.HasPrefix(ev, "T") {
		t, ok := w.target(ev)
		if !ok {
			return true // nothing to wait for any more: check decides
		}
		if t <= w.now() {
			return false
		}
		w.advanceTo(t)
		return true
	}
	switch ev {
	case "pong":
		w.pong.onPong(w.now())
		w.cl.raw(&protocol.Command{})
	case "tick":
		w.cl.c.updatePresence()
	case "srvRefresh":
		newExp := w.unix() + ltTTL
		if w.cfg.kind == "pong" {
			newExp = w.unix() + 1000
		}
		if err := w.cl.c.Refresh(WithRefreshExpireAt(newExp)); err != nil {
			panic(err)
		}
		if w.cfg.kind != "pong" {
			w.exp.onRefresh(newExp)
		}
	case "rpcCmd":
		w.cl.cmd(&protocol.Command{Rpc: &protocol.RPCRequest{Method: "m"}})
	case "refreshCmd":
		w.cl.cmd(&protocol.Command{Refresh: &protocol.RefreshRequest{Token: "ok"}})
	case "subRefresh":
		w.cl.cmd(&protocol.Command{SubRefresh: &protocol.SubRefreshRequest{Channel: ltCh, Token: "ok"}})
	case "subRefreshExpired":
		w.cl.cmd(&protocol.Command{SubRefresh: &protocol.SubRefreshRequest{Channel: ltCh, Token: "expired"}})
	case "connect", "connectErr":
		if w.usedBadConn || w.stale.authAt >= 0 {
			return false // a second connect is a protocol error, not a liveness question
		}
		w.connectFail = ev == "connectErr"
		if w.connectFail {
			w.usedBadConn = true
		}
		frames := len(w.cl.t.frames)
		w.cl.connect()
		vsched.WaitIdle()
		if !w.connectFail && len(w.cl.t.frames) > frames && w.cl.t.frames[frames].Reply.Connect != nil {
			w.stale.authAt = w.now()
		}
	default:
		panic("unknown event " + ev)
	}
	vsched.WaitIdle()
	return true
}

// check compares the connection with the reference model at the current instant.
func (w *ltWorld) check(where string) {
	now := w.now()
	kind := w.cfg.kind
	closed := w.closed()
	code := w.cl.t.closeDisc.Code
	fail := func(sig, format string, a ...any) {
		vsched.Failf(kind+":"+sig, "%s [t=%dms after %s; events %v]", fmt.Sprintf(format, a...), now/vMs, where, w.trace)
		w.ended = "violation"
	}
	connVerdict := func(tri ltTri, want uint32, what string) {
		switch {
		case closed && tri == ltMustNot:
			fail(fmt.Sprintf("closed-but-%s:%d", what, code), "connection closed with %d although the model says it must stay open (%s)", code, what)
		case !closed && tri == ltMust:
			fail("not-closed:"+what, "connection still open although it must be closed with %d (%s)", want, what)
		case closed && code != want:
			fail(fmt.Sprintf("wrong-code:%s:%d", what, code), "connection closed with %d, expected %d (%s)", code, want, what)
		case closed:
			w.ended = fmt.Sprintf("closed:%d:%s", code, what)
		}
	}
	switch kind {
	case "pong":
		tri, want := w.pong.expect(now)
		what := "ping-answered-or-not-due"
		if w.pong.unsolicited {
			what = "unsolicited-pong"
		} else if w.pong.pingAt >= 0 && !w.pong.answered {
			what = "ping-unanswered"
		}
		connVerdict(tri, want, what)
	case "stale":
		tri, want := w.stale.expect(now)
		what := "unauthenticated"
		if w.stale.authAt >= 0 {
			what = "authenticated"
		}
		connVerdict(tri, want, what)
	case "connexp-client", "connexp-server":
		connVerdict(w.exp.expect(now), ltCodeExp, w.exp.ctx)
	case "subexp-client", "subexp-server":
		tri := w.exp.expect(now)
		uc := w.unsubCode()
		gone := uc != 0 || closed
		wantClose := w.cfg.mode == "srvsub"
		switch {
		case gone && tri == ltMustNot:
			fail(fmt.Sprintf("ended-but-%s:unsub%d:close%d", w.exp.ctx, uc, code), "subscription ended (unsubscribe push %d, close %d) before expiry + grace (%s)", uc, code, w.exp.ctx)
		case !gone && tri == ltMust:
			fail("not-ended:"+w.exp.ctx, "subscription past expiry + grace + 1 s + presence interval and not refreshed (%s) but neither unsubscribed nor closed; IsSubscribed=%v", w.exp.ctx, w.cl.c.IsSubscribed(ltCh))
		case gone && wantClose && (!closed || code != ltCodeSubExp):
			fail(fmt.Sprintf("wrong-code:unsub%d:close%d", uc, code), "server-side subscription expired: expected close 3006, got unsubscribe push %d close %d", uc, code)
		case gone && !wantClose && closed && code == DisconnectExpired.Code:
			// "closed or unsubscribed with the expired code": a refresh answered Expired closes the
			// connection with DisconnectExpired, as SubRefreshReply.Expired documents
			w.ended = fmt.Sprintf("ended:unsub%d:close%d:%s", uc, code, w.exp.ctx)
		case gone && !wantClose && (closed || uc != UnsubscribeCodeExpired):
			fail(fmt.Sprintf("wrong-code:unsub%d:close%d", uc, code), "subscription expired: expected unsubscribe push 2501, got unsubscribe push %d close %d (closed=%v)", uc, code, closed)
		case gone:
			w.ended = fmt.Sprintf("ended:unsub%d:close%d:%s", uc, code, w.exp.ctx)
		}
		if !gone && !w.cl.c.IsSubscribed(ltCh) {
			fail("unsubscribed-silently", "IsSubscribed is false but no unsubscribe push and no close")
		}
	}
}

// settle brings an undecided scenario to a verdict: 1 ms before the window nothing may have
// happened, 1 ms after it everything must have.
func (w *ltWorld) settle() {
	window := func(lo, hi int64) {
		if lo-vMs > w.now() {
			w.advanceTo(lo - vMs)
			w.check("settle-before")
			if w.ended != "" {
				return
			}
		}
		if hi+vMs > w.now() {
			w.advanceTo(hi + vMs)
		}
		w.check("settle-after")
	}
	switch w.cfg.kind {
	case "pong":
		if w.pong.unsolicited {
			return
		}
		if w.pong.pingAt >= 0 && w.now() < w.pong.deadline()+vMs {
			unanswered := !w.pong.answered
			window(w.pong.deadline(), w.pong.deadline())
			if w.ended != "" || unanswered {
				return
			}
		}
		// the cycle is complete: the next ping must come, and nobody answers it
		if !w.waitPing() {
			w.check("settle-wait-ping")
			return
		}
		window(w.pong.deadline(), w.pong.deadline())
	case "stale":
		window(w.stale.deadline(), w.stale.deadline())
	default:
		window(w.exp.L(), w.exp.U())
	}
}

func ltBody(cfg ltCfg) func() {
	return func() {
		vsched.Quiet(true)
		w := &ltWorld{cfg: cfg}
		w.setup()
		alpha := w.alphabet()
		for step := 0; step < cfg.events; step++ {
			vsched.Quiet(false)
			c := vsched.ChooseFree(len(alpha) + 1)
			vsched.Quiet(true)
			if c == 0 {
				break
			}
			ev := alpha[c-1]
			if !w.apply(ev) {
				vsched.Logf("redundant")
				return
			}
			w.check(ev)
			st := "open"
			if w.closed() {
				st = "closed"
			} else if w.unsubCode() != 0 {
				st = "unsub"
			}
			w.trace = append(w.trace, fmt.Sprintf("%s@%d:%s", ev, w.now()/vMs, st))
			if w.ended != "" {
				break
			}
		}
		if w.ended == "" {
			w.settle()
		}
		if w.ended == "" {
			w.ended = "open"
		}
		vsched.Logf("%s %v -> %s", cfg.kind, w.trace, w.ended)
	}
}
