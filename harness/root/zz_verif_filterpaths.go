//go:build verif

package centrifuge

import (
	"fmt"
	"sort"
	"strconv"
	"strings"
	"sync"
	"time"

	"github.com/centrifugal/centrifuge/internal/zzverif/vsched"
	"github.com/centrifugal/protocol"
)

// C16: tags filters are enforced on every delivery path (subscriptions WITHOUT delta).
//
//   filterstream   stream channels: live positioned, live non-positioned (publications with and
//                  without offset), stream recovery from every offset, cache recovery
//   filtermap      map channels: state pages, state entries of the live reply, stream pages, the
//                  stream part of the state->live / recovery transition, live pushes, streamless
//   filtere1       E1: the buffered part of the transitions (publication racing the subscribe)
//   filterrefresh  sub_refresh changing the server tags filter of a map subscription ends it with
//                  the state-invalidated code; afterwards nothing is delivered
//
// Filters: (server, client) in {none, {t eq a}, {t eq b}}^2; publication tags in {a, b, none}.
// Oracle: a delivered publication is admitted by both filters (reference: tag equality).

var fpSels = []string{"none", "a", "b"}
var fpTags = []string{"a", "b", "-"}

func fpNode(sel string) *protocol.FilterNode {
	if sel == "none" {
		return nil
	}
	return &protocol.FilterNode{Key: "t", Cmp: "eq", Val: sel}
}

func fpAdmits(sel, tag string) bool { return sel == "none" || sel == tag }

func fpTagMap(tag string) map[string]string {
	if tag == "-" {
		return nil
	}
	return map[string]string{"t": tag}
}

// fpCheck is the oracle for one delivered publication.
func fpCheck(fail func(sig, format string, a ...any), who, path, sf, cf, tag string, p *protocol.Publication) {
	got := "-"
	if v, ok := p.Tags["t"]; ok {
		got = v
	}
	if got != tag {
		fail("model-divergence:tags-differ:"+path, "%s: publication key=%q offset=%d carries tag %q, the model published %q", who, p.Key, p.Offset, got, tag)
	}
	if !fpAdmits(sf, tag) {
		fail("leak:"+path+":excluded-by-server-filter", "%s filters(server=%s client=%s): publication key=%q offset=%d removed=%v with tag %q was delivered although the server tags filter excludes it", who, sf, cf, p.Key, p.Offset, p.Removed, tag)
	} else if !fpAdmits(cf, tag) {
		fail("leak:"+path+":excluded-by-client-filter", "%s filters(server=%s client=%s): publication key=%q offset=%d removed=%v with tag %q was delivered although the client tags filter excludes it", who, sf, cf, p.Key, p.Offset, p.Removed, tag)
	}
}

// fpSeqCount / fpSeqDecode: sequences of length 0..maxLen over an alphabet of size a.
func fpSeqCount(a, maxLen int) int {
	n, c := 0, 1
	for l := 0; l <= maxLen; l++ {
		n += c
		c *= a
	}
	return n
}

func fpSeqDecode(a, idx int) []int {
	l, c := 0, 1
	for idx >= c {
		idx -= c
		c *= a
		l++
	}
	out := make([]int, l)
	for i := l - 1; i >= 0; i-- {
		out[i] = idx % a
		idx /= a
	}
	return out
}

type fpStats map[string]int

func (s fpStats) log(prefix string) {
	var ks []string
	for k := range s {
		ks = append(ks, k)
	}
	sort.Strings(ks)
	var l []string
	for _, k := range ks {
		l = append(l, fmt.Sprintf("%s=%d", k, s[k]))
	}
	vsched.Logf("%s delivered: %s", prefix, strings.Join(l, " "))
}

// ---- filterstream ---------------------------------------------------------------------------------

type fsWorld struct {
	popBase int // w.tags[popBase+i] is the tag of the publication loaded by OnCacheEmpty for fpTags[i]
	n    *Node
	sf   string // server filter answered by OnSubscribe for the next subscribe command
	desc string
	tags []string
}

func (w *fsWorld) fail(sig, format string, a ...any) {
	vsched.Failf(sig, "%s: %s", w.desc, fmt.Sprintf(format, a...))
}

var fsChans = []string{"pos", "cache", "nph", "np0"}

func fsNewWorld() *fsWorld {
	w := &fsWorld{sf: "none"}
	n := vNewNode(nil)
	n.OnConnect(func(c *Client) {
		c.OnSubscribe(func(e SubscribeEvent, cb SubscribeCallback) {
			o := SubscribeOptions{AllowTagsFilter: true, ServerTagsFilter: fpNode(w.sf)}
			switch e.Channel {
			case "pos":
				o.EnablePositioning, o.EnableRecovery = true, true
			case "cache":
				o.EnablePositioning, o.EnableRecovery, o.RecoveryMode = true, true, RecoveryModeCache
			}
			if strings.HasPrefix(e.Channel, "cpop-") {
				o.EnablePositioning, o.EnableRecovery, o.RecoveryMode = true, true, RecoveryModeCache
			}
			cb(SubscribeReply{Options: o}, nil)
		})
	})
	// cache recovery on an empty channel "cpop-<tag>-<n>": the application loads the latest value
	// (tagged <tag>) and reports Populated, which makes subscribeCmd read the cache a second time
	n.OnCacheEmpty(func(e CacheEmptyEvent) (CacheEmptyReply, error) {
		if !strings.HasPrefix(e.Channel, "cpop-") {
			return CacheEmptyReply{}, nil
		}
		tag := strings.Split(e.Channel, "-")[1]
		if tag == "none" {
			tag = "-"
		}
		for i, t := range fpTags {
			if t == tag {
				_, err := n.Publish(e.Channel, []byte(fmt.Sprintf(`{"i":%d}`, w.popBase+i+1)), WithTags(fpTagMap(tag)), WithHistory(16, time.Minute))
				if err != nil {
					w.fail("model-divergence:publish-error", "publish from OnCacheEmpty: %v", err)
				}
			}
		}
		return CacheEmptyReply{Populated: true}, nil
	})
	if err := n.Run(); err != nil {
		panic(err)
	}
	w.n = n
	return w
}

// tagOfData maps a payload {"i":N} back to the tag it was published with.
func (w *fsWorld) tagOfData(data []byte) (string, bool) {
	s := strings.TrimSuffix(strings.TrimPrefix(string(data), `{"i":`), "}")
	i, err := strconv.Atoi(s)
	if err != nil || i < 1 || i > len(w.tags) {
		return "", false
	}
	return w.tags[i-1], true
}

type fsConn struct {
	cl     *vClient
	sf, cf string
	what   string
	subIDs map[uint32]string // subscribe command id -> channel
}

func (w *fsWorld) newConn(sf, cf, what string) *fsConn {
	cl := vNewClient(w.n, vNewTransport(), &Credentials{UserID: "u"})
	cl.connect()
	return &fsConn{cl: cl, sf: sf, cf: cf, what: what, subIDs: map[uint32]string{}}
}

func (w *fsWorld) subscribe(cn *fsConn, ch string, req *protocol.SubscribeRequest) {
	w.sf = cn.sf
	req.Channel = ch
	req.Tf = fpNode(cn.cf)
	cmd := &protocol.Command{Subscribe: req}
	cn.cl.cmd(cmd)
	cn.subIDs[cmd.Id] = ch
}

func fsPath(ch string, recovered bool) string {
	switch {
	case recovered && strings.HasPrefix(ch, "cpop-"):
		return "cache-recovery-after-cache-empty-populated"
	case strings.HasPrefix(ch, "cpop-"):
		return "live-positioned"
	case recovered && ch == "cache":
		return "cache-recovery"
	case recovered:
		return "stream-recovery"
	case ch == "pos" || ch == "cache":
		return "live-positioned"
	case ch == "nph":
		return "live-non-positioned-with-offset"
	}
	return "live-non-positioned"
}

// check walks all frames of a connection.
func (w *fsWorld) check(cn *fsConn, st fpStats) {
	who := cn.what
	one := func(p *protocol.Publication, path string) {
		tag, ok := w.tagOfData(p.Data)
		if !ok {
			w.fail("model-divergence:unknown-publication", "%s: publication %q", who, p.Data)
			return
		}
		st[path]++
		fpCheck(w.fail, who, path, cn.sf, cn.cf, tag, p)
	}
	for _, f := range cn.cl.t.frames {
		r := f.Reply
		switch {
		case r.Id != 0 && r.Error != nil:
			if _, isSub := cn.subIDs[r.Id]; isSub {
				w.fail("model-divergence:subscribe-error", "%s: subscribe error %d", who, r.Error.Code)
			}
		case r.Subscribe != nil:
			ch := cn.subIDs[r.Id]
			for _, p := range r.Subscribe.Publications {
				one(p, fsPath(ch, true))
			}
		case r.Push != nil && r.Push.Pub != nil:
			one(r.Push.Pub, fsPath(r.Push.Channel, false))
		}
	}
}

func fsBody(maxLen int) func() {
	total := fpSeqCount(len(fpTags), maxLen)
	return func() {
		idx := vsched.ChooseFree(total)
		vsched.Quiet(true)
		seq := fpSeqDecode(len(fpTags), idx)
		w := fsNewWorld()
		for _, t := range seq {
			w.tags = append(w.tags, fpTags[t])
		}
		w.desc = "tags=[" + strings.Join(w.tags, " ") + "]"
		var conns []*fsConn
		// live subscribers, one per filter pair, on all channels, before the first publication
		for _, sf := range fpSels {
			for _, cf := range fpSels {
				cn := w.newConn(sf, cf, "live-subscriber")
				for _, ch := range fsChans {
					w.subscribe(cn, ch, &protocol.SubscribeRequest{})
				}
				conns = append(conns, cn)
			}
		}
		vsched.WaitIdle()
		var epochPos, epochCache string
		for i, tag := range w.tags {
			data := []byte(fmt.Sprintf(`{"i":%d}`, i+1))
			for _, ch := range fsChans {
				opts := []PublishOption{WithTags(fpTagMap(tag))}
				if ch != "np0" {
					opts = append(opts, WithHistory(16, time.Minute))
				}
				res, err := w.n.Publish(ch, data, opts...)
				if err != nil {
					w.fail("model-divergence:publish-error", "publish: %v", err)
				}
				if ch == "pos" {
					epochPos = res.Epoch
				}
				if ch == "cache" {
					epochCache = res.Epoch
				}
			}
			vsched.WaitIdle()
		}
		// recovery probes from every offset
		for _, sf := range fpSels {
			for _, cf := range fpSels {
				for k := 0; k <= len(w.tags); k++ {
					cn := w.newConn(sf, cf, fmt.Sprintf("recover-from-%d", k))
					w.subscribe(cn, "pos", &protocol.SubscribeRequest{Recover: true, Offset: uint64(k), Epoch: epochPos})
					w.subscribe(cn, "cache", &protocol.SubscribeRequest{Recover: true, Offset: uint64(k), Epoch: epochCache})
					conns = append(conns, cn)
				}
			}
		}
		vsched.WaitIdle()
		// cache recovery on empty channels populated by the OnCacheEmpty handler, one fresh channel
		// per (filter pair, tag of the loaded publication)
		w.popBase = len(w.tags)
		w.tags = append(w.tags, fpTags...)
		nch := 0
		for _, sf := range fpSels {
			for _, cf := range fpSels {
				for _, t := range fpTags {
					name := t
					if t == "-" {
						name = "none"
					}
					nch++
					cn := w.newConn(sf, cf, "cache-empty-populated-"+name)
					w.subscribe(cn, fmt.Sprintf("cpop-%s-%d", name, nch), &protocol.SubscribeRequest{Recover: true})
					conns = append(conns, cn)
				}
			}
		}
		vsched.WaitIdle()
		st := fpStats{}
		for _, cn := range conns {
			w.check(cn, st)
		}
		w.tags = w.tags[:w.popBase]
		vsched.Logf("%s", w.desc)
		st.log("stream")
		// vacuity guard: without filters every publication reaches the live subscriber on every channel
		if n := st["live-positioned"]; len(w.tags) > 0 && n == 0 {
			w.fail("vacuity-guard:nothing-delivered-live", "no live publication was delivered at all")
		}
	}
}

// ---- filtermap ------------------------------------------------------------------------------------

var fmPrefix = []dmOp{
	{key: "x", data: []byte(`{"p":1}`), tag: "a"},
	{key: "y", data: []byte(`{"p":2}`), tag: "b"},
	{key: "z", data: []byte(`{"p":3}`), tag: "-"},
}

func fmAlphabet() []dmOp {
	var ops []dmOp
	for _, k := range []string{"x", "y"} {
		for _, t := range fpTags {
			ops = append(ops, dmOp{key: k, data: []byte(`{"v":"` + k + t + `"}`), tag: t})
		}
		ops = append(ops, dmOp{key: k, removed: true})
	}
	return ops
}

type fmConn struct {
	*dmConn
	sf, cf string
}

// fmNewWorld: map world whose OnSubscribe answers with the server filter selected in *sf.
func fmNewWorld(chans []string, sf *string, clientSideRefresh bool) *dmWorld {
	w := dmNewWorld(ProtocolTypeJSON, chans)
	w.optsFn = func(e SubscribeEvent) SubscribeReply {
		o := SubscribeOptions{AllowTagsFilter: true, ServerTagsFilter: fpNode(*sf)}
		if e.Channel == "pos" {
			o.EnablePositioning, o.EnableRecovery = true, true
		} else {
			o.Type = SubscriptionTypeMap
		}
		r := SubscribeReply{Options: o}
		if clientSideRefresh {
			r.ClientSideRefresh = true
			r.Options.ExpireAt = time.Now().Unix() + 3600
		}
		return r
	}
	return w
}

func fmNewConn(w *dmWorld, ch string, sc dmScript, sf, cf string, st fpStats) *fmConn {
	cl := vNewClient(w.n, vNewTransport(), &Credentials{UserID: "u"})
	cl.connect()
	cn := &fmConn{dmConn: &dmConn{w: w, cl: cl, ch: ch, script: sc, noDelta: true, tf: fpNode(cf)}, sf: sf, cf: cf}
	cn.hook = func(d *dmConn, p *protocol.Publication, op dmOp, known bool, isState bool, path string) {
		who := fmt.Sprintf("%s/%s", ch, sc)
		if !known {
			w.fail("model-divergence:unknown-publication:"+path, "%s: key %s offset %d removed=%v matches no operation", who, p.Key, p.Offset, p.Removed)
			return
		}
		path = "map-" + path
		if !dmStream(ch) {
			path += "-streamless"
		}
		st[path]++
		fpCheck(w.fail, who, path, sf, cf, op.tag, p)
	}
	return cn
}

func fmBody(maxLen int) func() {
	alpha := fmAlphabet()
	total := fpSeqCount(len(alpha), maxLen)
	chans := []string{"mrec", "mpre", "meph"}
	return func() {
		idx := vsched.ChooseFree(total)
		vsched.Quiet(true)
		var ops []dmOp
		var names []string
		for _, i := range fpSeqDecode(len(alpha), idx) {
			ops = append(ops, alpha[i])
			names = append(names, alpha[i].String())
		}
		L := len(ops)
		sf := "none"
		w := fmNewWorld(chans, &sf, false)
		w.ops = ops
		w.desc = "ops=[" + strings.Join(names, " ") + "]"
		for _, op := range fmPrefix {
			w.apply("mpre", op)
		}
		st := fpStats{}
		var conns []*fmConn
		for _, ch := range chans {
			scripts := []dmScript{{kind: "fresh", s: 0, d: -1}, {kind: "paged", s: 0, d: -1}}
			if L > 0 {
				scripts = append(scripts, dmScript{kind: "fresh", s: L, d: -1}, dmScript{kind: "paged", s: L, d: -1})
			}
			if dmStream(ch) {
				scripts = append(scripts, dmScript{kind: "paged2", s: 0, d: -1})
				for d := 0; d <= L; d++ {
					scripts = append(scripts, dmScript{kind: "re", s: 0, d: d, r: L})
				}
			}
			for _, sc := range scripts {
				for _, s := range fpSels {
					for _, c := range fpSels {
						conns = append(conns, fmNewConn(w, ch, sc, s, c, st))
					}
				}
			}
		}
		settle := func() {
			vsched.WaitIdle()
			for _, cn := range conns {
				cn.drain()
			}
		}
		rounds := func(t int, final bool) {
			for i := 0; i < 64; i++ {
				sent := false
				for _, cn := range conns {
					sf = cn.sf
					if cn.tick(t, final) {
						sent = true
					}
				}
				settle()
				if !sent {
					return
				}
			}
			w.fail("model-divergence:pagination-does-not-terminate", "tick %d", t)
		}
		for t := 0; t <= L; t++ {
			rounds(t, t == L)
			if t < L {
				w.step = t
				for _, ch := range chans {
					w.apply(ch, ops[t])
				}
				settle()
				w.step = -1
			}
		}
		live := 0
		for _, cn := range conns {
			if cn.state == dmLive {
				live++
			}
		}
		vsched.Logf("%s live=%d/%d", w.desc, live, len(conns))
		st.log("map")
		if live != len(conns) {
			w.fail("model-divergence:not-live", "%d of %d connections did not reach the live phase", len(conns)-live, len(conns))
		}
	}
}

// ---- filtere1: buffered parts ---------------------------------------------------------------------

// combos for the E1 variants: filters that can exclude (a) or not (none) x every tag
type fe1Combo struct{ sf, cf, tag string }

func fe1Combos(set string) []fe1Combo {
	if set == "b2" {
		return []fe1Combo{{"a", "none", "b"}, {"none", "a", "b"}, {"a", "a", "-"}, {"none", "none", "a"}}
	}
	sels := []string{"none", "a"}
	if set == "all" {
		sels = fpSels
	}
	var out []fe1Combo
	for _, sf := range sels {
		for _, cf := range sels {
			for _, t := range fpTags {
				out = append(out, fe1Combo{sf, cf, t})
			}
		}
	}
	return out
}

// fe1Map: a fresh map subscribe (state -> live in one request) racing one MapPublish.
func fe1Map(ch string, set string) func() {
	combos := fe1Combos(set)
	return func() {
		c := combos[vsched.ChooseFree(len(combos))]
		vsched.Quiet(true)
		sf := c.sf
		w := fmNewWorld([]string{ch}, &sf, false)
		w.desc = fmt.Sprintf("%s server=%s client=%s tag=%s", ch, c.sf, c.cf, c.tag)
		st := fpStats{}
		w.apply(ch, dmOp{key: "x", data: []byte(`{"p":1}`), tag: "a"})
		cn := fmNewConn(w, ch, dmScript{kind: "fresh", s: 0, d: -1}, c.sf, c.cf, st)
		op := dmOp{key: "y", data: []byte(`{"v":1}`), tag: c.tag}
		if dmStream(ch) {
			w.byOffset[ch][2] = op
		}
		vsched.WaitIdle()
		vsched.Quiet(false)
		var wg sync.WaitGroup
		wg.Add(2)
		go func() { defer wg.Done(); cn.tick(0, true) }()
		go func() { defer wg.Done(); w.step = 0; w.apply(ch, op) }()
		wg.Wait()
		vsched.WaitIdle()
		vsched.Quiet(true)
		cn.drain()
		w.step = -1
		vsched.Logf("%s state=%d", w.desc, cn.state)
		st.log("e1")
	}
}

// fe1Stream: a recovering stream subscribe racing one publication (buffered + merged).
func fe1Stream(set string) func() {
	combos := fe1Combos(set)
	return func() {
		c := combos[vsched.ChooseFree(len(combos))]
		vsched.Quiet(true)
		w := fsNewWorld()
		w.tags = []string{"a", c.tag}
		w.desc = fmt.Sprintf("pos server=%s client=%s tag=%s", c.sf, c.cf, c.tag)
		res, err := w.n.Publish("pos", []byte(`{"i":1}`), WithTags(fpTagMap("a")), WithHistory(16, time.Minute))
		if err != nil {
			panic(err)
		}
		cn := w.newConn(c.sf, c.cf, "recover-vs-publish")
		vsched.WaitIdle()
		vsched.Quiet(false)
		var wg sync.WaitGroup
		wg.Add(2)
		go func() {
			defer wg.Done()
			w.subscribe(cn, "pos", &protocol.SubscribeRequest{Recover: true, Offset: 0, Epoch: res.Epoch})
		}()
		go func() {
			defer wg.Done()
			_, _ = w.n.Publish("pos", []byte(`{"i":2}`), WithTags(fpTagMap(c.tag)), WithHistory(16, time.Minute))
		}()
		wg.Wait()
		vsched.WaitIdle()
		vsched.Quiet(true)
		st := fpStats{}
		w.check(cn, st)
		vsched.Logf("%s", w.desc)
		st.log("e1")
	}
}

// fe1StreamCrowd: as fe1Stream, with three more connections holding the same filter pair live on the
// channel. The hub prepares one encoding per (protocol, filtered, ...) class of subscribers and shares
// it; the recovering connection is the one whose client id sorts last, so that it is served from what
// was prepared for the others (the hub walks subscribers in id order in the verification build).
func fe1StreamCrowd(set string) func() {
	combos := fe1Combos(set)
	return func() {
		c := combos[vsched.ChooseFree(len(combos))]
		vsched.Quiet(true)
		w := fsNewWorld()
		w.tags = []string{"a", c.tag}
		w.desc = fmt.Sprintf("pos(crowd) server=%s client=%s tag=%s", c.sf, c.cf, c.tag)
		res, err := w.n.Publish("pos", []byte(`{"i":1}`), WithTags(fpTagMap("a")), WithHistory(16, time.Minute))
		if err != nil {
			panic(err)
		}
		var conns []*fsConn
		for i := 0; i < 4; i++ {
			conns = append(conns, w.newConn(c.sf, c.cf, fmt.Sprintf("crowd-%d", i)))
		}
		sort.Slice(conns, func(i, j int) bool { return conns[i].cl.c.ID() < conns[j].cl.c.ID() })
		late := conns[3]
		late.what = "recover-vs-publish(last-id)"
		for _, cn := range conns[:3] {
			w.subscribe(cn, "pos", &protocol.SubscribeRequest{})
		}
		vsched.WaitIdle()
		vsched.Quiet(false)
		var wg sync.WaitGroup
		wg.Add(2)
		go func() {
			defer wg.Done()
			w.subscribe(late, "pos", &protocol.SubscribeRequest{Recover: true, Offset: 0, Epoch: res.Epoch})
		}()
		go func() {
			defer wg.Done()
			_, _ = w.n.Publish("pos", []byte(`{"i":2}`), WithTags(fpTagMap(c.tag)), WithHistory(16, time.Minute))
		}()
		wg.Wait()
		vsched.WaitIdle()
		vsched.Quiet(true)
		st := fpStats{}
		for _, cn := range conns {
			w.check(cn, st)
		}
		vsched.Logf("%s", w.desc)
		st.log("e1")
	}
}

// ---- filterrefresh --------------------------------------------------------------------------------

func frBody() func() {
	return func() {
		idx := vsched.ChooseFree(9)
		vsched.Quiet(true)
		sf0 := fpSels[idx/3]
		sf1 := []string{"unchanged", "a", "b"}[idx%3] // "unchanged": SubRefreshReply without ServerTagsFilter
		chans := []string{"mrec", "meph"}
		sf := sf0
		w := fmNewWorld(chans, &sf, true)
		w.refreshFn = func(e SubRefreshEvent) SubRefreshReply {
			r := SubRefreshReply{ExpireAt: time.Now().Unix() + 3600}
			if sf1 != "unchanged" {
				r.ServerTagsFilter = fpNode(sf1)
			}
			return r
		}
		w.desc = fmt.Sprintf("initial-server-filter=%s refresh-filter=%s", sf0, sf1)
		changed := sf1 != "unchanged" && sf1 != sf0
		effective := sf0
		if sf1 != "unchanged" {
			effective = sf1
		}

		phase := 1
		st := fpStats{}
		after := map[*dmConn]int{} // deliveries after the refresh
		var conns []*fmConn
		for _, ch := range chans {
			for _, cf := range fpSels {
				cn := fmNewConn(w, ch, dmScript{kind: "fresh", s: 0, d: -1}, sf0, cf, st)
				inner := cn.hook
				cf := cf
				cn.hook = func(d *dmConn, p *protocol.Publication, op dmOp, known bool, isState bool, path string) {
					if phase == 1 {
						inner(d, p, op, known, isState, path)
						return
					}
					after[d]++
					if changed {
						w.fail("delivery-after-filter-change:map", "%s/client=%s: publication key=%q tag=%q delivered after the server tags filter of the map subscription changed", d.ch, cf, p.Key, op.tag)
						return
					}
					if known {
						fpCheck(w.fail, d.ch+"/after-refresh", "map-live-after-refresh", effective, cf, op.tag, p)
					}
				}
				conns = append(conns, cn)
			}
		}
		// a stream subscription for comparison: its filter is replaced in place
		pos := vNewClient(w.n, vNewTransport(), &Credentials{UserID: "u"})
		pos.connect()
		pos.cmd(&protocol.Command{Subscribe: &protocol.SubscribeRequest{Channel: "pos"}})
		settle := func() {
			vsched.WaitIdle()
			for _, cn := range conns {
				cn.drain()
			}
		}
		for i := 0; i < 4; i++ {
			for _, cn := range conns {
				cn.tick(0, true)
			}
			settle()
		}
		streamTags := map[string]string{}
		n := 0
		publishAll := func() {
			for _, t := range fpTags {
				n++
				w.step = 0
				for _, ch := range chans {
					w.apply(ch, dmOp{key: "k" + t, data: []byte(fmt.Sprintf(`{"n":%d}`, n)), tag: t})
				}
				data := fmt.Sprintf(`{"n":%d}`, n)
				streamTags[data] = t
				if _, err := w.n.Publish("pos", []byte(data), WithTags(fpTagMap(t)), WithHistory(16, time.Minute)); err != nil {
					panic(err)
				}
				settle()
				w.step = -1
			}
		}
		publishAll()
		mark := len(pos.t.frames)
		phase = 2
		refreshIDs := map[*vClient]uint32{}
		for _, cn := range conns {
			cmd := &protocol.Command{SubRefresh: &protocol.SubRefreshRequest{Channel: cn.ch, Token: "tok"}}
			cn.cl.cmd(cmd)
			refreshIDs[cn.cl] = cmd.Id
		}
		posCmd := &protocol.Command{SubRefresh: &protocol.SubRefreshRequest{Channel: "pos", Token: "tok"}}
		pos.cmd(posCmd)
		refreshIDs[pos] = posCmd.Id
		settle()
		// C09: a command with an id is answered exactly once unless the connection is closed
		for cl, id := range refreshIDs {
			nrep := 0
			for _, f := range cl.t.frames {
				if f.Reply.Id == id {
					nrep++
				}
			}
			if nrep != 1 && !cl.t.closed {
				w.fail(fmt.Sprintf("c09-sub-refresh-replies-%d:filter-changed-%v", nrep, changed), "sub_refresh command #%d got %d replies and the connection stays open (server tags filter %s -> %s)", id, nrep, sf0, sf1)
			}
		}
		publishAll()

		invalidated, stillLive := 0, 0
		for _, cn := range conns {
			who := fmt.Sprintf("%s/client=%s", cn.ch, cn.cf)
			switch {
			case cn.state == dmEnded && cn.unsubCode == UnsubscribeCodeStateInvalidated:
				invalidated++
			case cn.state == dmEnded:
				w.fail("map-subscription-ended-with-other-code", "%s: unsubscribe code %d", who, cn.unsubCode)
			case cn.state == dmLive:
				stillLive++
				if changed {
					w.fail("filter-change-did-not-invalidate:map", "%s: server tags filter changed %s -> %s, the map subscription is still live (no unsubscribe push with code %d)", who, sf0, sf1, UnsubscribeCodeStateInvalidated)
				}
			default:
				w.fail("model-divergence:not-live", "%s: state %d", who, cn.state)
			}
			if cn.cl.t.closed {
				w.fail("model-divergence:connection-closed", "%s: connection closed (%v)", who, cn.cl.t.closeDisc)
			}
		}
		// stream subscription: deliveries after the refresh follow the effective filter
		posAfter := 0
		for i, f := range pos.t.frames {
			r := f.Reply
			if r.Push != nil && r.Push.Unsubscribe != nil {
				w.fail("stream-subscription-ended-by-refresh", "stream subscription got unsubscribe code %d", r.Push.Unsubscribe.Code)
			}
			if r.Push == nil || r.Push.Pub == nil {
				continue
			}
			tag := streamTags[string(r.Push.Pub.Data)]
			if i < mark {
				fpCheck(w.fail, "pos", "live-positioned", sf0, "none", tag, r.Push.Pub)
			} else {
				posAfter++
				fpCheck(w.fail, "pos/after-refresh", "live-positioned-after-refresh", effective, "none", tag, r.Push.Pub)
			}
		}
		total := 0
		for _, v := range after {
			total += v
		}
		vsched.Logf("%s changed=%v invalidated=%d still-live=%d map-deliveries-after-refresh=%d stream-deliveries-after-refresh=%d", w.desc, changed, invalidated, stillLive, total, posAfter)
		st.log("before-refresh")
	}
}

func init() {
	vsched.Register(&vsched.Harness{
		Name: "filterstream", Props: []string{"C16"}, Kind: "sched",
		Doc: "E2 on a real Node (memory broker): one execution = one tag sequence over {a, b, none} of length <= 3 (quick) / <= 5 (thorough) published to channels pos (positioned+recoverable), cache (RecoveryModeCache), nph (history, subscription not positioned) and np0 (no history); " +
			"for every (server filter, client filter) in {none, t eq a, t eq b}^2 a live subscriber on all channels plus recovery probes from every offset 0..top (stream recovery on pos, cache recovery on cache), plus cache recovery on empty channels that the OnCacheEmpty handler populates (publication tagged a / b / none, Populated=true: the second cache read). Oracle: every publication in a subscribe reply or push is admitted by both filters (tag equality reference).",
		Variants: func(tier string) []vsched.Variant {
			if tier == "thorough" {
				return []vsched.Variant{{Name: "len5", Bound: 0, Shards: 8, NoCache: true, BudgetS: 280}}
			}
			return []vsched.Variant{{Name: "len3", Bound: 0, Shards: 2, NoCache: true, BudgetS: 60}}
		},
		Sched: func(v vsched.Variant) func() {
			if v.Name == "len5" {
				return fsBody(5)
			}
			return fsBody(3)
		},
	})
	vsched.Register(&vsched.Harness{
		Name: "filtermap", Props: []string{"C16"}, Kind: "sched",
		Doc: "E2 on a real Node (memory map broker): one execution = one operation history over {put(key in {x,y}, tag in {a,b,none}), remove(key)} of length <= 2 (quick) / <= 3 (thorough) on map channels mrec (recoverable, empty), mpre (recoverable, pre-populated x:a y:b z:none) and meph (streamless); " +
			"for every filter pair {none,a,b}^2 connections drive the map protocol through client commands: fresh(0), fresh(L) (state->live), paged(0), paged(L) (page size 1, one request per step), paged2(0) (one request per two steps: stream-phase pages), re(d, L) for all d (unsubscribe at d, live-phase recovery at L). " +
			"Paths covered: state pages, state entries of the live reply, stream pages, stream part of state->live / recovery, live pushes (incl. removals, which carry the removed entry's tags), streamless. Oracle: every delivered entry / publication is admitted by both filters.",
		Variants: func(tier string) []vsched.Variant {
			if tier == "thorough" {
				return []vsched.Variant{{Name: "len3", Bound: 0, Shards: 16, NoCache: true, BudgetS: 280}}
			}
			return []vsched.Variant{{Name: "len2", Bound: 0, Shards: 6, NoCache: true, BudgetS: 60}}
		},
		Sched: func(v vsched.Variant) func() {
			if v.Name == "len3" {
				return fmBody(3)
			}
			return fmBody(2)
		},
	})
	vsched.Register(&vsched.Harness{
		Name: "filtere1", Props: []string{"C16"}, Kind: "sched",
		Doc: "E1: the buffered part of the transitions. (server, client) in {none, a}^2 x tag in {a, b, none} (ChooseFree), then two threads: a fresh map subscribe (state->live in one request) on a recoverable map channel (variant map-state-live), on a streamless one (variant streamless), or a stream subscribe recovering from offset 0 (variant stream-recover; stream-crowd: three more live subscribers with the same filters share the hub's prepared encodings, the recovering connection has the last client id), " +
			"racing one publication with the chosen tag; preemption bound 1 (thorough: all 27 filter/tag combinations at bound 1, plus bound 2 for four discriminating combinations on the positioned variants). Oracle: every delivered entry / publication (subscribe reply incl. merged buffered publications, later pushes) is admitted by both filters.",
		Variants: func(tier string) []vsched.Variant {
			if tier == "thorough" {
				return []vsched.Variant{
					{Name: "map-state-live-all", Bound: 1, Shards: 9, BudgetS: 280},
					{Name: "streamless-all", Bound: 1, Shards: 9, BudgetS: 280},
					{Name: "stream-recover-all", Bound: 1, Shards: 9, BudgetS: 280},
					{Name: "map-state-live-b2", Bound: 2, Shards: 16, BudgetS: 280},
					{Name: "stream-recover-b2", Bound: 2, Shards: 16, BudgetS: 280},
					{Name: "stream-crowd-all", Bound: 1, Shards: 9, BudgetS: 280},
				}
			}
			return []vsched.Variant{
				{Name: "map-state-live", Bound: 1, Shards: 4, BudgetS: 60},
				{Name: "streamless", Bound: 1, Shards: 4, BudgetS: 60},
				{Name: "stream-recover", Bound: 1, Shards: 4, BudgetS: 60},
				{Name: "stream-crowd", Bound: 1, Shards: 4, BudgetS: 60},
			}
		},
		Sched: func(v vsched.Variant) func() {
			set := ""
			switch {
			case strings.HasSuffix(v.Name, "-all"):
				set = "all"
			case strings.HasSuffix(v.Name, "-b2"):
				set = "b2"
			}
			switch {
			case strings.HasPrefix(v.Name, "stream-crowd"):
				return fe1StreamCrowd(set)
			case strings.HasPrefix(v.Name, "map-state-live"):
				return fe1Map("mrec", set)
			case strings.HasPrefix(v.Name, "streamless"):
				return fe1Map("meph", set)
			}
			return fe1Stream(set)
		},
	})
	vsched.Register(&vsched.Harness{
		Name: "filterrefresh", Props: []string{"C16", "C09"}, Kind: "sched",
		Doc: "sub_refresh and the server tags filter: initial server filter in {none, a, b} x SubRefreshReply.ServerTagsFilter in {not set, a, b} (ChooseFree 9), client filter in {none, a, b}, map subscriptions on a recoverable and a streamless channel (client-side refresh) plus one stream subscription; " +
			"publications with tags a, b, none before and after the sub_refresh command. Oracle: every sub_refresh command is answered exactly once (C09); when the refresh changes the server filter of a map subscription it ends with an unsubscribe push carrying the state-invalidated code (2502) and nothing is delivered afterwards; otherwise (and for the stream subscription, whose filter is replaced in place) later deliveries are admitted by the effective server filter and the client filter.",
		Variants: func(tier string) []vsched.Variant {
			return []vsched.Variant{{Name: "all", Bound: 0, Shards: 1, NoCache: true, BudgetS: 60}}
		},
		Sched: func(v vsched.Variant) func() { return frBody() },
	})
}
