//go:build verif

package centrifuge

import (
	"context"
	"fmt"
	"strings"
	"time"

	"github.com/centrifugal/centrifuge/internal/zzverif/vsched"
)

// dedupx (C19, E2 under the virtual clock; Memory stream broker and Memory map broker halves):
// every publish history up to a depth bound over
//
//	publish(channel, [map key,] idempotency key, version, version epoch) | advance 1s | stop
//
// is applied to a bare MemoryBroker / MemoryMapBroker and to a reference model of the stated rule:
//
//  1. a publish whose idempotency key was used by an ACCEPTED publish of the same channel less
//     than IdempotentResultTTL (2s) ago is suppressed (reason idempotency) and returns that
//     publish's stream position;
//  2. otherwise a publish with version v > 0 is suppressed (reason version) exactly when the
//     channel (map broker: the key) holds a version w >= v set by an accepted versioned publish
//     whose version epoch equals the publish's epoch (an empty epoch on the publish compares
//     with whatever epoch is held); unversioned publishes neither are checked nor change w;
//  3. otherwise the publish is accepted: next offset, one history/stream entry, one
//     HandlePublication call, its idempotency key and version are recorded;
//  4. suppressed publishes change nothing (no entry, no handler call, nothing recorded);
//  5. ("nohistory" variants) without history options there is no stream: every position is the
//     zero position, versions are not compared, rule 1 still applies.
//
// After every step the handler calls, the complete history/stream and (map broker) the state
// of every key are compared with the model.

const (
	ddxTTL     = 2 // idempotent result TTL in seconds
	ddxBigVer  = uint64(1) << 53
	ddxChannel = "ch"
)

type ddxOp struct {
	kind string // pub | adv | stop
	ch   string
	mkey string // map key (map broker only)
	idem string
	ver  uint64
	vep  string
}

func (o ddxOp) String() string {
	switch o.kind {
	case "pub":
		s := "pub(" + o.ch
		if o.mkey != "" {
			s += ",key=" + o.mkey
		}
		if o.idem != "" {
			s += ",idem=" + o.idem
		}
		if o.ver != 0 || o.vep != "" {
			s += fmt.Sprintf(",v=%d/%q", o.ver, o.vep)
		}
		return s + ")"
	case "adv":
		return "adv(1s)"
	}
	return o.kind
}

type ddxCfg struct {
	name   string
	broker string // stream | map
	nohist bool   // stream broker: publish without history options (no stream, position stays zero)
	depth  int
	chans  []string
	mkeys  []string
	idems  []string
	vers   []uint64 // non-zero versions; the unversioned publish is always included
	veps   []string
	shards int
	budget int
	phase  bool // operations happen 500 ms off the brokers' 1 s cleanup ticks
}

func (c *ddxCfg) letters() []ddxOp {
	var out []ddxOp
	mkeys := c.mkeys
	if c.broker == "stream" {
		mkeys = []string{""}
	}
	for _, ch := range c.chans {
		for _, mk := range mkeys {
			for _, k := range c.idems {
				out = append(out, ddxOp{kind: "pub", ch: ch, mkey: mk, idem: k})
				for _, v := range c.vers {
					for _, e := range c.veps {
						out = append(out, ddxOp{kind: "pub", ch: ch, mkey: mk, idem: k, ver: v, vep: e})
					}
				}
			}
		}
	}
	out = append(out, ddxOp{kind: "adv"}, ddxOp{kind: "stop"})
	return out
}

var ddxCfgs = map[string]*ddxCfg{}

func ddxVariants(tier string) []vsched.Variant {
	one := []string{ddxChannel}
	idem3 := []string{"", "k1", "k2"}
	idem2 := []string{"", "k1"}
	verFull := []uint64{1, 2, 3, ddxBigVer, ddxBigVer + 1}
	ep3 := []string{"", "e1", "e2"}
	ep2 := []string{"", "e1"}
	xch := []string{"a", "a_b"}
	xkeys := []string{"", "b_c", "c"}
	var cfgs []*ddxCfg
	if tier == "thorough" {
		cfgs = []*ddxCfg{
			{name: "stream/d7/phase", broker: "stream", depth: 7, chans: one, idems: []string{"k1"}, vers: nil, veps: nil, shards: 1, budget: 300, phase: true},
			{name: "map/d7/phase", broker: "map", depth: 7, chans: one, mkeys: []string{"x"}, idems: []string{"k1"}, vers: nil, veps: nil, shards: 1, budget: 300, phase: true},
			{name: "stream/d4/full", broker: "stream", depth: 4, chans: one, idems: idem3, vers: verFull, veps: ep3, shards: 16, budget: 900},
			{name: "stream/d6/small", broker: "stream", depth: 6, chans: one, idems: idem2, vers: []uint64{1, 2}, veps: ep2, shards: 8, budget: 900},
			{name: "stream/d5/nohistory", broker: "stream", nohist: true, depth: 5, chans: one, idems: idem3, vers: []uint64{1}, veps: []string{""}, shards: 1, budget: 900},
			{name: "stream/d4/xchan", broker: "stream", depth: 4, chans: xch, idems: xkeys, vers: []uint64{1}, veps: []string{""}, shards: 2, budget: 900},
			{name: "map/d3/full", broker: "map", depth: 3, chans: one, mkeys: []string{"x", "y"}, idems: idem3, vers: verFull, veps: ep3, shards: 16, budget: 900},
			{name: "map/d4/medium", broker: "map", depth: 4, chans: one, mkeys: []string{"x", "y"}, idems: idem2, vers: []uint64{1, 2, ddxBigVer + 1}, veps: ep3, shards: 16, budget: 900},
			{name: "map/d6/small", broker: "map", depth: 6, chans: one, mkeys: []string{"x"}, idems: idem2, vers: []uint64{1, 2}, veps: ep2, shards: 8, budget: 900},
			{name: "map/d4/xchan", broker: "map", depth: 4, chans: xch, mkeys: []string{"x"}, idems: xkeys, vers: []uint64{1}, veps: []string{""}, shards: 2, budget: 900},
		}
	} else {
		cfgs = []*ddxCfg{
			{name: "stream/d6/phase", broker: "stream", depth: 6, chans: one, idems: []string{"k1"}, vers: nil, veps: nil, shards: 1, budget: 150, phase: true},
			{name: "map/d6/phase", broker: "map", depth: 6, chans: one, mkeys: []string{"x"}, idems: []string{"k1"}, vers: nil, veps: nil, shards: 1, budget: 150, phase: true},
			{name: "stream/d3/full", broker: "stream", depth: 3, chans: one, idems: idem3, vers: verFull, veps: ep3, shards: 4, budget: 150},
			{name: "stream/d4/medium", broker: "stream", depth: 4, chans: one, idems: idem3, vers: []uint64{1, 2}, veps: ep2, shards: 4, budget: 150},
			{name: "stream/d4/nohistory", broker: "stream", nohist: true, depth: 4, chans: one, idems: idem3, vers: []uint64{1}, veps: []string{""}, shards: 1, budget: 150},
			{name: "stream/d3/xchan", broker: "stream", depth: 3, chans: xch, idems: xkeys, vers: nil, veps: nil, shards: 1, budget: 150},
			{name: "map/d3/medium", broker: "map", depth: 3, chans: one, mkeys: []string{"x", "y"}, idems: idem2, vers: []uint64{1, 2, ddxBigVer + 1}, veps: ep3, shards: 4, budget: 150},
			{name: "map/d4/small", broker: "map", depth: 4, chans: one, mkeys: []string{"x", "y"}, idems: idem2, vers: []uint64{1, 2}, veps: ep2, shards: 6, budget: 150},
			{name: "map/d3/xchan", broker: "map", depth: 3, chans: xch, mkeys: []string{"x"}, idems: xkeys, vers: nil, veps: nil, shards: 1, budget: 150},
		}
	}
	var out []vsched.Variant
	for _, c := range cfgs {
		ddxCfgs[c.name] = c
		out = append(out, vsched.Variant{Name: c.name, Bound: 0, NoCache: true, Shards: c.shards, BudgetS: c.budget})
	}
	return out
}

func init() {
	vsched.Register(&vsched.Harness{
		Name: "dedupx", Props: []string{"C19"}, Kind: "sched",
		Doc: "bare MemoryBroker and MemoryMapBroker under the virtual clock; all publish histories up to depth 3-6 over idempotency keys {none,k1,k2} x versions {0,1,2,3,2^53,2^53+1} x version epochs {none,e1,e2} (map broker: x keys {x,y}), advance 1s (result TTL 2s), stop; " +
			"extra variants with channels {a, a_b} and idempotency keys {b_c, c}; oracle: reference model of the stated suppression rule; compares Suppressed/SuppressReason, returned position, HandlePublication calls, full history/stream and map state after every step",
		Variants: ddxVariants,
		Sched: func(v vsched.Variant) func() {
			vSequentialProcess()
			return ddxBody(ddxCfgs[v.Name])
		},
	})
}

// ---- reference model ----------------------------------------------------------------------

type ddxEntry struct {
	off  uint64
	key  string // map key
	data string
}

type ddxCached struct {
	off uint64
	exp int64 // second from which the result is forgotten
}

type ddxHeld struct {
	has             bool
	ver             uint64
	vep             string
	unversionedLate bool // an unversioned publish was accepted after the version was set (classification only)
}

type ddxChan struct {
	top    uint64
	stream []ddxEntry
	state  map[string]ddxEntry // map broker: key -> latest accepted
	idem   map[string]ddxCached
	held   map[string]*ddxHeld // "" for the stream broker, map key for the map broker
	epoch  string              // learned from the implementation, must never change
	calls  int                 // accepted publishes = expected handler calls
}

type ddxModel struct {
	now    int64
	nohist bool
	chans  map[string]*ddxChan
}

func (m *ddxModel) ch(name string) *ddxChan {
	c := m.chans[name]
	if c == nil {
		c = &ddxChan{state: map[string]ddxEntry{}, idem: map[string]ddxCached{}, held: map[string]*ddxHeld{}}
		m.chans[name] = c
	}
	return c
}

// publish returns the expected verdict ("accept", "idempotency", "version") and offset.
func (m *ddxModel) publish(o ddxOp, data string) (string, uint64) {
	c := m.ch(o.ch)
	if o.idem != "" {
		if r, ok := c.idem[o.idem]; ok && m.now < r.exp {
			return "idempotency", r.off
		}
	}
	h := c.held[o.mkey]
	if h == nil {
		h = &ddxHeld{}
		c.held[o.mkey] = h
	}
	if m.nohist {
		c.calls++
		if o.idem != "" {
			c.idem[o.idem] = ddxCached{off: 0, exp: m.now + ddxTTL}
		}
		return "accept", 0
	}
	if o.ver > 0 && h.has && (o.vep == "" || o.vep == h.vep) && o.ver <= h.ver {
		return "version", c.top
	}
	c.top++
	e := ddxEntry{off: c.top, key: o.mkey, data: data}
	c.stream = append(c.stream, e)
	c.state[o.mkey] = e
	c.calls++
	if o.ver > 0 {
		*h = ddxHeld{has: true, ver: o.ver, vep: o.vep}
	} else if h.has {
		h.unversionedLate = true
	}
	if o.idem != "" {
		c.idem[o.idem] = ddxCached{off: c.top, exp: m.now + ddxTTL}
	}
	return "accept", c.top
}

// ---- harness ------------------------------------------------------------------------------

type ddxCall struct {
	ch     string
	data   string
	key    string
	spOff  uint64
	spEp   string
	pubOff uint64
}

type ddxHandler struct{ calls []ddxCall }

func (h *ddxHandler) HandlePublication(ch string, pub *Publication, sp StreamPosition, _ bool, _ *Publication) error {
	h.calls = append(h.calls, ddxCall{ch: ch, data: string(pub.Data), key: pub.Key, spOff: sp.Offset, spEp: sp.Epoch, pubOff: pub.Offset})
	return nil
}
func (h *ddxHandler) HandleJoin(string, *ClientInfo) error  { return nil }
func (h *ddxHandler) HandleLeave(string, *ClientInfo) error { return nil }

func ddxEntriesDesc(es []ddxEntry) string {
	var l []string
	for _, e := range es {
		l = append(l, fmt.Sprintf("%d:%s%s", e.off, e.key, e.data))
	}
	return "[" + strings.Join(l, " ") + "]"
}

func ddxPubsDesc(ps []*Publication) string {
	var l []string
	for _, p := range ps {
		if p == nil {
			l = append(l, "nil")
			continue
		}
		l = append(l, fmt.Sprintf("%d:%s%s", p.Offset, p.Key, p.Data))
	}
	return "[" + strings.Join(l, " ") + "]"
}

func ddxSame(ps []*Publication, es []ddxEntry) bool {
	if len(ps) != len(es) {
		return false
	}
	for i, p := range ps {
		if p == nil || p.Offset != es[i].off || p.Key != es[i].key || string(p.Data) != es[i].data {
			return false
		}
	}
	return true
}

func ddxVerdict(suppressed bool, reason SuppressReason) string {
	switch {
	case !suppressed && reason == SuppressReasonNone:
		return "accept"
	case suppressed && reason == SuppressReasonIdempotency:
		return "idempotency"
	case suppressed && reason == SuppressReasonVersion:
		return "version"
	}
	return fmt.Sprintf("inconsistent(%v,%q)", suppressed, string(reason))
}

func ddxBody(cfg *ddxCfg) func() {
	ops := cfg.letters()
	A := len(ops)
	resolver := func(string) MapChannelOptions {
		return MapChannelOptions{Mode: MapModePersistent, StreamSize: 100, StreamTTL: time.Hour}
	}
	return func() {
		vsched.Quiet(true)
		hd := &ddxHandler{}
		var sb *MemoryBroker
		var mb *MemoryMapBroker
		if cfg.broker == "stream" {
			sb = vBareMemoryBroker(30 * 24 * time.Hour)
			if err := sb.RegisterBrokerEventHandler(hd); err != nil {
				panic(err)
			}
		} else {
			mb = vBareMemoryMapBroker(resolver)
			if err := mb.RegisterEventHandler(hd); err != nil {
				panic(err)
			}
		}
		vsched.WaitIdle()
		if cfg.phase {
			// the result-cache sweep ticks every second from registration; shifting all
			// operations by half a second puts publishes between a result's expiry and the
			// sweep that collects it
			vsched.Advance(500 * vMs)
		}
		choose := func(k int) int {
			vsched.Quiet(false)
			x := vsched.ChooseFree(k)
			vsched.Quiet(true)
			return x
		}
		m := &ddxModel{nohist: cfg.nohist, chans: map[string]*ddxChan{}}
		var trace []string
		fail := func(sig, format string, a ...any) {
			vsched.Failf(sig, "%s\nhistory: %s", fmt.Sprintf(format, a...), strings.Join(trace, " ; "))
		}
		ctx := context.Background()
		pubNo := 0
		nAccept, nIdem, nVer := 0, 0, 0
		verdicts := ""

		// step applies one letter; false: stop
		step := func(op ddxOp) bool {
			if op.kind == "stop" {
				return false
			}
			trace = append(trace, fmt.Sprintf("t=%d %s", m.now, op))
			if op.kind == "adv" {
				vsched.Advance(vSec)
				m.now++
				verdicts += "+"
				return true
			}
			pubNo++
			data := fmt.Sprintf("p%d", pubNo)
			var suppressed bool
			var reason SuppressReason
			var pos StreamPosition
			var err error
			if sb != nil {
				var res PublishResult
				po := PublishOptions{
					HistorySize: 10, HistoryTTL: time.Hour, IdempotencyKey: op.idem, IdempotentResultTTL: ddxTTL * time.Second,
					Version: op.ver, VersionEpoch: op.vep,
				}
				if cfg.nohist {
					po.HistorySize, po.HistoryTTL = 0, 0
				}
				res, err = sb.Publish(op.ch, []byte(data), po)
				suppressed, reason, pos = res.Suppressed, res.SuppressReason, res.StreamPosition
			} else {
				var res MapUpdateResult
				res, err = mb.Publish(ctx, op.ch, op.mkey, MapPublishOptions{
					Data: []byte(data), IdempotencyKey: op.idem, IdempotentResultTTL: ddxTTL * time.Second,
					Version: op.ver, VersionEpoch: op.vep,
				})
				suppressed, reason, pos = res.Suppressed, res.SuppressReason, res.Position
			}
			if err != nil {
				fail("publish-error", "publish error: %v", err)
				return false
			}
			c := m.ch(op.ch)
			// classification context, taken before the model moves on
			unversionedLate := false
			if h := c.held[op.mkey]; h != nil {
				unversionedLate = h.unversionedLate
			}
			keyOfOtherChannel := false
			if _, here := c.idem[op.idem]; op.idem != "" && !here {
				for _, name := range cfg.chans {
					if oc := m.chans[name]; oc != nil && name != op.ch && len(oc.idem) > 0 {
						keyOfOtherChannel = true
					}
				}
			}
			want, wantOff := m.publish(op, data)
			got := ddxVerdict(suppressed, reason)
			verdicts += want[:1]
			switch want {
			case "accept":
				nAccept++
			case "idempotency":
				nIdem++
			case "version":
				nVer++
			}
			if got != want {
				sig := "want-" + want + ":got-" + got
				if want == "version" && got == "accept" && unversionedLate {
					sig += ":after-unversioned-publish"
				}
				if got == "idempotency" && keyOfOtherChannel {
					// same cause whatever the rule says for this publish
					sig = "got-idempotency:key-used-on-other-channel-only"
				}
				fail(sig, "%s: verdict %s (position %d), the rule says %s (position %d)", op, got, pos.Offset, want, wantOff)
				return false
			}
			if pos.Offset != wantOff {
				fail(want+"-position", "%s: %s with offset %d, model %d", op, got, pos.Offset, wantOff)
				return false
			}
			if c.epoch == "" {
				c.epoch = pos.Epoch
			}
			if cfg.nohist {
				if pos.Epoch != "" {
					fail(want+"-epoch", "%s: %s with epoch %q on a channel without history", op, got, pos.Epoch)
					return false
				}
			} else if pos.Epoch == "" || pos.Epoch != c.epoch {
				fail(want+"-epoch", "%s: %s with epoch %q, stream epoch is %q", op, got, pos.Epoch, c.epoch)
				return false
			}
			// handler calls: one per accepted publish, carrying the assigned position
			total := 0
			for _, name := range cfg.chans {
				if oc := m.chans[name]; oc != nil {
					total += oc.calls
				}
			}
			if len(hd.calls) != total {
				fail("handler-calls:"+want, "%s (%s): %d HandlePublication calls so far, model %d", op, want, len(hd.calls), total)
				return false
			}
			if want == "accept" {
				last := hd.calls[len(hd.calls)-1]
				if last.ch != op.ch || last.data != data || last.key != op.mkey || last.spOff != wantOff || last.spEp != c.epoch || last.pubOff != wantOff {
					fail("handler-call-content", "%s: HandlePublication got %+v, model offset %d", op, last, wantOff)
					return false
				}
			}
			// complete history / stream / state of every channel
			for _, name := range cfg.chans {
				oc := m.chans[name]
				if oc == nil {
					continue // never touched: reading would create metadata; nothing to compare
				}
				var pubs []*Publication
				var top StreamPosition
				if sb != nil {
					pubs, top, err = sb.History(name, HistoryOptions{Filter: HistoryFilter{Limit: -1}})
				} else {
					var sr MapStreamResult
					sr, err = mb.ReadStream(ctx, name, MapReadStreamOptions{Filter: StreamFilter{Limit: -1}})
					pubs, top = sr.Publications, sr.Position
				}
				if err != nil {
					fail("read-error", "reading %s: %v", name, err)
					return false
				}
				if !ddxSame(pubs, oc.stream) || top.Offset != oc.top {
					fail("history-content:after-"+want, "after %s (%s): history of %s is %s top %d, model %s top %d", op, want, name, ddxPubsDesc(pubs), top.Offset, ddxEntriesDesc(oc.stream), oc.top)
					return false
				}
				if mb != nil {
					for _, mk := range cfg.mkeys {
						st, err := mb.ReadState(ctx, name, MapReadStateOptions{Key: mk})
						if err != nil {
							fail("read-error", "reading state %s/%s: %v", name, mk, err)
							return false
						}
						e, has := oc.state[mk]
						ok := len(st.Publications) == 0 && !has
						if has && len(st.Publications) == 1 {
							ok = ddxSame(st.Publications, []ddxEntry{e})
						}
						if !ok {
							fail("state-content:after-"+want, "after %s (%s): state of %s/%s is %s, model %v %s", op, want, name, mk, ddxPubsDesc(st.Publications), has, ddxEntriesDesc([]ddxEntry{e}))
							return false
						}
					}
				}
			}
			return true
		}

		pending := 0
		for i := 0; i < cfg.depth; i++ {
			var l int
			switch {
			case i == 0 && cfg.depth >= 2:
				x := choose(A * A)
				l, pending = x/A, x%A
			case i == 1 && cfg.depth >= 2:
				l = pending
			default:
				l = choose(A)
			}
			if !step(ops[l]) {
				break
			}
		}
		vsched.Logf("%s accept=%d idempotency=%d version=%d", verdicts, nAccept, nIdem, nVer)
	}
}
