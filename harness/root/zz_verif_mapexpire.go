//go:build verif

package centrifuge

import (
	"context"
	"fmt"
	"strings"
	"sync"
	"time"

	"github.com/centrifugal/centrifuge/internal/zzverif/vsched"
)

// mapexpire (C24): the key expiry sweep racing a writer of the same key.
//
//	setup (quiet): fresh MemoryMapBroker (KeyTTL 1 s), keys published at t0, virtual clock moved to
//	               1 ms before / exactly at / 1 ms after the deadline (free choice), writer program
//	               chosen (free choice)
//	thread X:      mapHub.expireKeysIteration (the body of the expiry loop: phase 1 collects the
//	               candidates under the hub lock, phase 2 revalidates and removes under
//	               pubLock -> hub lock)
//	thread W:      1-2 of publish / remove / keep-alive (if_new + RefreshTTLOnSuppress) / if_new /
//	               if_exists on key a through the public Publish / Remove
//	oracle:        the writer's results and the HandlePublication sequence must be those of SOME
//	               sequential order of the atomic actions {expire-if-due(k) for every key k} u
//	               {writer steps in program order} on the reference model; state and stream (API
//	               reads) must equal that model; then, sequentially, the clock is moved to 1 ms
//	               before and to every remaining deadline with a sweep each time: a refreshed /
//	               republished key must survive until its own deadline and then be removed exactly
//	               once (one stream entry, one broadcast), a removed key never again.

type meStep struct {
	op      byte // 'P' or 'R'
	key     string
	mode    KeyMode
	refresh bool
}

type meProg struct {
	name  string
	steps []meStep
}

type meCfg struct {
	name  string
	mode  MapMode
	keys  []string
	progs []meProg
}

var meCfgs = map[string]*meCfg{}

var meTimes = []struct {
	name string
	ms   int64
}{{"before", 999}, {"at", 1000}, {"after", 1001}}

func meVariants(tier string) []vsched.Variant {
	var out []vsched.Variant
	thorough := tier == "thorough"
	progs := []meProg{
		{"publish", []meStep{{op: 'P', key: "a"}}},
		{"remove", []meStep{{op: 'R', key: "a"}}},
		{"keepalive", []meStep{{op: 'P', key: "a", mode: KeyModeIfNew, refresh: true}}},
	}
	if thorough {
		progs = append(progs,
			meProg{"if_new", []meStep{{op: 'P', key: "a", mode: KeyModeIfNew}}},
			meProg{"if_exists", []meStep{{op: 'P', key: "a", mode: KeyModeIfExists}}},
			meProg{"remove+publish", []meStep{{op: 'R', key: "a"}, {op: 'P', key: "a"}}},
			meProg{"publish+remove", []meStep{{op: 'P', key: "a"}, {op: 'R', key: "a"}}},
			meProg{"keepalive+keepalive", []meStep{{op: 'P', key: "a", mode: KeyModeIfNew, refresh: true}, {op: 'P', key: "a", mode: KeyModeIfNew, refresh: true}}},
		)
	}
	for _, mode := range []MapMode{MapModeRecoverable, MapModeEphemeral} {
		for _, keys := range [][]string{{"a"}, {"a", "b"}} {
			c := &meCfg{name: fmt.Sprintf("%s/keys%d", mxModeName(mode), len(keys)), mode: mode, keys: keys, progs: progs}
			meCfgs[c.name] = c
			shards, bound := 2, 3
			if thorough {
				shards, bound = 8, 5
			}
			out = append(out, vsched.Variant{Name: c.name, Bound: bound, Shards: shards, BudgetS: 280})
		}
	}
	return out
}

func init() {
	vsched.Register(&vsched.Harness{
		Name: "mapexpire", Props: []string{"C24"}, Kind: "sched",
		Doc: "MemoryMapBroker (KeyTTL 1 s; recoverable and ephemeral; 1 or 2 expiring keys): thread X = mapHub.expireKeysIteration, thread W = publish | remove | keep-alive " +
			"(thorough: if_new, if_exists, remove+publish, publish+remove, 2 keep-alives) on key a, clock 1 ms before / at / 1 ms after the deadline, preemption bound 3 (thorough 5); oracle: writer results + " +
			"HandlePublication sequence equal some serial order of {expire-if-due(k)} and the writer steps on the reference model, state and stream equal that model, follow-up sweeps before and at " +
			"every remaining deadline remove each surviving key exactly once and nothing else",
		Variants: meVariants,
		Sched:    func(v vsched.Variant) func() { return meBody(meCfgs[v.Name]) },
	})
}

type meGot struct {
	res MapUpdateResult
	err error
}

func meBody(cfg *meCfg) func() {
	chanCfg := mxChanCfgFor(cfg.mode, false, 0)
	resolve := func(string) MapChannelOptions { return chanCfg.options() }
	const ch = "c1"
	return func() {
		ctx := context.Background()
		tc := meTimes[vsched.ChooseFree(len(meTimes))]
		prog := cfg.progs[vsched.ChooseFree(len(cfg.progs))]

		vsched.Quiet(true)
		rec := &vMapRecorder{}
		b := vNewMapBroker(resolve, rec, false, ch)
		r := &mxRun{cfg: &mxCfg{chanCfg: chanCfg, chans: []string{ch}, keys: cfg.keys}, b: b, rec: rec, m: newMxModel(chanCfg)}
		r.trace = []string{"keys " + strings.Join(cfg.keys, ","), "clock " + tc.name, "writer " + prog.name}
		for _, k := range cfg.keys {
			want := r.m.publish(ch, k, mxPub{data: "v0"})
			got, err := b.Publish(ctx, ch, k, MapPublishOptions{Data: []byte("v0")})
			r.fail(mxCheckUpdate("publish", r.m.ch(ch), want, got, err))
			r.fail(mxCheckBroadcast("publish", r.m.ch(ch), want, r.newEvents(), cfg.mode.HasStream()))
		}
		vsched.Advance(tc.ms * int64(time.Millisecond))
		r.m.now += tc.ms
		vsched.Quiet(false)

		// ---- concurrent phase
		got := make([]meGot, len(prog.steps))
		var wg sync.WaitGroup
		wg.Add(2)
		go func() {
			defer wg.Done()
			var scratch int64
			b.mapHub.expireKeysIteration(&scratch)
		}()
		go func() {
			defer wg.Done()
			for i, st := range prog.steps {
				switch st.op {
				case 'P':
					res, err := b.Publish(ctx, ch, st.key, MapPublishOptions{Data: []byte(fmt.Sprintf("w%d", i)), KeyMode: st.mode, RefreshTTLOnSuppress: st.refresh})
					got[i] = meGot{res, err}
				case 'R':
					res, err := b.Remove(ctx, ch, st.key, MapRemoveOptions{})
					got[i] = meGot{res, err}
				}
			}
		}()
		wg.Wait()
		vsched.Quiet(true)

		obs := append([]mxEvent(nil), r.newEvents()...)
		var gotDesc []string
		for i, g := range got {
			d := "applied"
			if g.err != nil {
				d = "error"
			} else if g.res.Suppressed {
				d = string(g.res.SuppressReason)
			}
			gotDesc = append(gotDesc, fmt.Sprintf("%c:%s@%d", prog.steps[i].op, d, g.res.Position.Offset))
		}
		var obsDesc []string
		for _, e := range obs {
			obsDesc = append(obsDesc, e.String())
		}
		vsched.Logf("clock=%s writer=%s results=%v broadcasts=%v", tc.name, prog.name, gotDesc, obsDesc)

		// ---- every serial order of the atomic actions on the reference model
		type action struct {
			x    bool // expire-if-due(key)
			key  string
			step int
		}
		var orders [][]action
		var gen func(cur []action, usedX []bool, w int)
		gen = func(cur []action, usedX []bool, w int) {
			complete := w == len(prog.steps)
			for i := range cfg.keys {
				if !usedX[i] {
					complete = false
					usedX[i] = true
					gen(append(append([]action(nil), cur...), action{x: true, key: cfg.keys[i]}), usedX, w)
					usedX[i] = false
				}
			}
			if w < len(prog.steps) {
				gen(append(append([]action(nil), cur...), action{step: w}), usedX, w+1)
			}
			if complete {
				orders = append(orders, cur)
			}
		}
		gen(nil, make([]bool, len(cfg.keys)), 0)

		var matched *mxModel
		matchedName := ""
		for _, ord := range orders {
			m := r.m.clone()
			c := m.ch(ch)
			var expB []mxEvent
			var names []string
			ok := true
			for _, a := range ord {
				if a.x {
					names = append(names, "X"+a.key)
					if k, has := c.keys[a.key]; has && k.exp > 0 && k.exp <= m.now {
						expB = append(expB, m.expire(ch, a.key))
					}
					continue
				}
				names = append(names, fmt.Sprintf("W%d", a.step))
				st := prog.steps[a.step]
				var want mxRes
				kind := "publish"
				if st.op == 'P' {
					want = m.publish(ch, st.key, mxPub{data: fmt.Sprintf("w%d", a.step), mode: st.mode, refresh: st.refresh})
				} else {
					kind = "remove"
					want = m.remove(ch, st.key, mxRem{})
				}
				if len(mxCheckUpdate(kind, c, want, got[a.step].res, got[a.step].err)) != 0 {
					ok = false
					break
				}
				if want.bcast != nil {
					expB = append(expB, *want.bcast)
				}
			}
			if !ok || len(expB) != len(obs) {
				continue
			}
			for i, w := range expB {
				g := obs[i]
				if g.ch != w.ch || g.key != w.key || g.removed != w.removed || g.data != w.data || g.off != w.off || g.spOff != w.off || g.epoch != c.epoch {
					ok = false
				}
			}
			if !ok {
				continue
			}
			if matched == nil {
				matched, matchedName = m, strings.Join(names, "<")
			} else if matched.digest() != m.digest() {
				vsched.Failf("harness-ambiguous-serial-order", "orders %s and %s explain the observation but end in different states %s / %s", matchedName, strings.Join(names, "<"), matched.digest(), m.digest())
			}
		}
		if matched == nil {
			sig := "race:" + meClassify(cfg, tc.name, prog, got, obs) + ":" + prog.name + ":" + tc.name
			vsched.Failf(sig, "no serial order of expiry and writer explains: clock %s, writer %s, results %v, broadcasts %v", tc.name, prog.name, gotDesc, obsDesc)
			return
		}
		vsched.Logf("serial=%s", matchedName)
		r.m = matched
		r.lastOp = "race/" + prog.name + "/" + tc.name
		r.trace = append(r.trace, "serial order "+matchedName)
		r.reads()

		// ---- follow-up: every surviving key lives until its own deadline and is then removed once
		advance := func(ms int64) {
			if ms > 0 {
				vsched.Advance(ms * int64(time.Millisecond))
				r.m.now += ms
			}
		}
		for round := 0; round < 4 && !r.failed; round++ {
			var dl int64
			for _, k := range r.m.ch(ch).keys {
				if k.exp > r.m.now && (dl == 0 || k.exp < dl) {
					dl = k.exp
				}
			}
			if dl == 0 {
				break
			}
			advance(dl - 1 - r.m.now)
			r.trace = append(r.trace, fmt.Sprintf("sweep at +%dms", r.m.now))
			r.lastOp = fmt.Sprintf("followup-sweep-before-deadline/%d", r.sweep())
			advance(dl - r.m.now)
			r.trace = append(r.trace, fmt.Sprintf("sweep at +%dms", r.m.now))
			r.lastOp = fmt.Sprintf("followup-sweep-at-deadline/%d", r.sweep())
			r.reads()
		}
		advance(2000)
		r.trace = append(r.trace, fmt.Sprintf("sweep at +%dms", r.m.now))
		r.lastOp = fmt.Sprintf("followup-final-sweep/%d", r.sweep())
		r.reads()
		vsched.Logf("final=%s", r.m.digest())
	}
}

// meClassify names the clause of the property statement that an unexplainable outcome breaks.
func meClassify(cfg *meCfg, tc string, prog meProg, got []meGot, obs []mxEvent) string {
	// two removals of a key without a publish in between
	lastRemoved := map[string]bool{}
	for _, e := range obs {
		if e.removed && lastRemoved[e.key] {
			return "removed-twice"
		}
		lastRemoved[e.key] = e.removed
	}
	wRemoves := map[string]int{}
	wTouched := map[string]bool{}
	for i, st := range prog.steps {
		wTouched[st.key] = true
		if st.op == 'R' && got[i].err == nil && !got[i].res.Suppressed {
			wRemoves[st.key]++
		}
	}
	removals := map[string]int{}
	for _, e := range obs {
		if e.removed {
			removals[e.key]++
		}
	}
	for _, k := range cfg.keys {
		expiryRemovals := removals[k] - wRemoves[k]
		if tc == "before" && expiryRemovals > 0 {
			return "unexpired-key-removed"
		}
		if tc != "before" && !wTouched[k] && expiryRemovals == 0 {
			return "expired-key-not-removed"
		}
		if expiryRemovals > 0 {
			for i, st := range prog.steps {
				if st.key != k || got[i].err != nil {
					continue
				}
				if st.op == 'P' && st.refresh && got[i].res.SuppressReason == SuppressReasonKeyExists {
					return "refreshed-key-removed"
				}
			}
			// an expiry removal broadcast after the writer's applied publish of the key
			seenPub := false
			for _, e := range obs {
				if e.key != k {
					continue
				}
				if !e.removed && strings.HasPrefix(e.data, "w") {
					seenPub = true
				} else if e.removed && seenPub && wRemoves[k] == 0 {
					return "republished-key-removed"
				}
			}
		}
	}
	return "not-serializable"
}

// mapexpiremeta (C24, first clause): the same property with the broker's own cleanup goroutines
// (RegisterEventHandler: expireStreams, removeChannels, expireKeys, expireResultCache; 1 s timers on
// the virtual clock). One key is published and never refreshed; the clock runs past its deadline.
// The order in which the cleanup loops wake up at one tick is explored (timer-first / preemption
// deviations). Oracle: exactly one removal of the key is broadcast and (stream-backed) present as
// the last stream entry of the channel incarnation the key was published in; the key is gone.

type mmCfg struct {
	name                       string
	keyTTL, streamTTL, metaTTL time.Duration // metaTTL 0: auto-derived
}

var mmCfgs = map[string]*mmCfg{}

func init() {
	vsched.Register(&vsched.Harness{
		Name: "mapexpiremeta", Props: []string{"C24"}, Kind: "sched",
		Doc: "MemoryMapBroker with its cleanup goroutines running on the virtual clock, recoverable channel, one key published once; clock advanced past the key deadline; " +
			"MetaTTL above / equal to KeyTTL (explicit and auto-derived); deviation bound 2 over the wake-up order of the cleanup loops; oracle: exactly one removal broadcast + stream entry, key gone",
		Variants: func(tier string) []vsched.Variant {
			var out []vsched.Variant
			for _, c := range []*mmCfg{
				{name: "meta-above-key/key2s-stream1s-meta4s", keyTTL: 2 * time.Second, streamTTL: time.Second, metaTTL: 4 * time.Second},
				{name: "meta-equals-key/key2s-stream1s-meta2s", keyTTL: 2 * time.Second, streamTTL: time.Second, metaTTL: 2 * time.Second},
				{name: "meta-auto-derived/key10s-stream1s", keyTTL: 10 * time.Second, streamTTL: time.Second},
			} {
				mmCfgs[c.name] = c
				out = append(out, vsched.Variant{Name: c.name, Bound: 2, Iterate: true, BudgetS: 120})
			}
			return out
		},
		Sched: func(v vsched.Variant) func() { return mmBody(mmCfgs[v.Name]) },
	})
}

func mmBody(cfg *mmCfg) func() {
	const ch = "c1"
	resolve := func(string) MapChannelOptions {
		return MapChannelOptions{Mode: MapModeRecoverable, KeyTTL: cfg.keyTTL, StreamTTL: cfg.streamTTL, MetaTTL: cfg.metaTTL}
	}
	return func() {
		ctx := context.Background()
		vsched.Quiet(true)
		rec := &vMapRecorder{}
		b := vNewMapBroker(resolve, rec, true, ch)
		vsched.WaitIdle()
		res, err := b.Publish(ctx, ch, "a", MapPublishOptions{Data: []byte("v0")})
		if err != nil || res.Suppressed {
			vsched.Failf("setup-publish", "publish failed: %+v %v", res, err)
			return
		}
		vsched.Quiet(false)
		vsched.Advance(int64(cfg.keyTTL + 2*time.Second))
		vsched.Quiet(true)
		var desc []string
		removals := 0
		for _, e := range rec.events {
			desc = append(desc, e.String())
			if e.removed && e.key == "a" {
				removals++
				if e.epoch != res.Position.Epoch || e.off != res.Position.Offset+1 || e.spOff != e.off {
					vsched.Failf("expiry-removal-wrong-position", "removal %v (epoch %s), publish was at %d (epoch %s)", e, e.epoch, res.Position.Offset, res.Position.Epoch)
				}
			}
		}
		st, err := b.ReadState(ctx, ch, MapReadStateOptions{Limit: -1})
		if err != nil {
			vsched.Failf("read-state-error", "%v", err)
			return
		}
		vsched.Logf("broadcasts=%v state=%s epoch-kept=%v", desc, mxPubsDesc(st.Publications), st.Position.Epoch == res.Position.Epoch)
		if len(st.Publications) != 0 {
			vsched.Failf("expired-key-still-in-state", "key a still in state %v s after its deadline: %s", 2, mxPubsDesc(st.Publications))
		}
		switch {
		case removals == 0:
			vsched.Failf("expired-key-removal-not-broadcast", "KeyTTL %v StreamTTL %v MetaTTL %v (0 = auto): key a published once at t0, clock advanced to t0+%v: key is gone from state but no removal was appended/broadcast (broadcasts %v; channel epoch kept: %v)",
				cfg.keyTTL, cfg.streamTTL, cfg.metaTTL, cfg.keyTTL+2*time.Second, desc, st.Position.Epoch == res.Position.Epoch)
		case removals > 1:
			vsched.Failf("expired-key-removed-twice", "broadcasts %v", desc)
		}
	}
}
