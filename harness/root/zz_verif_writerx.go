//go:build verif

package centrifuge

import (
	"errors"
	"fmt"
	"strings"
	"sync"
	"time"

	"github.com/centrifugal/centrifuge/internal/queue"
	"github.com/centrifugal/centrifuge/internal/zzverif/vsched"
)

// writerx (C12, E1): the per-connection writer under all producer / flusher / closer
// interleavings. No Node is involved: newWriter + recording WriteFn/WriteManyFn.

type writerxCfg struct {
	mode      string // nodelay | delay | timer
	maxFrame  int
	shrink    time.Duration
	producers int
	perProd   int
	many      bool // second producer uses enqueueMany
	closer    string // "", "flush", "noflush"
	failWrite bool   // a write may fail (environment choice)
	initCap   int
	pause     bool // the producer lets three write delays pass before its last enqueue (an idle flush may run in between)
}

func (c writerxCfg) name() string {
	return fmt.Sprintf("%s/max%d/shr%d/p%dx%d/many%v/close-%s/fail%v/cap%d", c.mode, c.maxFrame, c.shrink/time.Millisecond, c.producers, c.perProd, c.many, c.closer, c.failWrite, c.initCap) + map[bool]string{true: "/pause"}[c.pause]
}

var writerxCfgs = map[string]writerxCfg{}

func writerxVariants(tier string) []vsched.Variant {
	var out []vsched.Variant
	add := func(c writerxCfg, bound int) {
		writerxCfgs[c.name()] = c
		out = append(out, vsched.Variant{Name: c.name(), Bound: bound, BudgetS: 25, Iterate: true})
	}
	pb := 2
	if tier == "thorough" {
		pb = 3
	}
	for _, mode := range []string{"nodelay", "delay", "timer"} {
		for _, mf := range []int{-1, 1, 2} {
			for _, closer := range []string{"", "flush", "noflush"} {
				shr := time.Duration(-1)
				if mode != "nodelay" && mf == 2 {
					shr = 5 * time.Millisecond
				}
				if tier != "thorough" && mf == 1 && closer == "noflush" {
					continue
				}
				add(writerxCfg{mode: mode, maxFrame: mf, shrink: shr, producers: 2, perProd: 2, many: mf == 2, closer: closer, initCap: 1}, pb)
			}
		}
		add(writerxCfg{mode: mode, maxFrame: 2, shrink: -1, producers: 1, perProd: 3, closer: "", failWrite: true, initCap: 2}, pb)
		if mode != "nodelay" {
			// a flush that finds the queue empty (its batch was taken by the previous one), then a late enqueue
			add(writerxCfg{mode: mode, maxFrame: -1, shrink: -1, producers: 1, perProd: 3, closer: "", initCap: 2, pause: true}, pb)
		}
		if tier == "thorough" {
			add(writerxCfg{mode: mode, maxFrame: 2, shrink: time.Millisecond, producers: 2, perProd: 3, many: true, closer: "flush", initCap: 1}, 2)
		}
	}
	return out
}

func init() {
	vsched.Register(&vsched.Harness{
		Name: "writerx", Props: []string{"C12"}, Kind: "sched",
		Doc:      "newWriter + recording transport; 1-2 producers x 2-3 enqueue/enqueueMany, run modes {no delay, delay goroutine, timer}, maxMessagesInFrame {-1,1,2}, closer {none, flush, noflush}, write error as environment choice; oracle: transport sequence = per-producer order, no loss/dup, real-time order respected, prefix after close/failed write, flush delivers everything enqueued before close",
		Variants: writerxVariants,
		Sched:    func(v vsched.Variant) func() { return writerxBody(writerxCfgs[v.Name]) },
	})
}

func writerxBody(cfg writerxCfg) func() {
	return func() {
		const delay = 10 * time.Millisecond
		var written []string // item ids in transport order
		writeCalls := 0
		failAt := -1
		if cfg.failWrite {
			failAt = vsched.Choose(4) - 1 // default: no failure; else the k-th write call fails
		}
		failed := false
		seq := 0
		type ev struct {
			start, ret int
			res        *Disconnect
			prod, idx  int
		}
		events := map[string]*ev{}
		closeStart, closeRet := -1, -1
		writtenAfterFail := 0
		record := func(items ...queue.Item) error {
			vsched.Visible()
			writeCalls++
			if failed {
				writtenAfterFail += len(items)
			}
			if failAt >= 0 && writeCalls-1 == failAt {
				failed = true
				return errors.New("boom")
			}
			if failed {
				return errors.New("boom")
			}
			for _, it := range items {
				written = append(written, string(it.Data))
			}
			return nil
		}
		w := newWriter(writerConfig{
			WriteFn:     func(it queue.Item) error { return record(it) },
			WriteManyFn: func(its ...queue.Item) error { return record(its...) },
		}, cfg.initCap)
		vsched.SetHorizon(int64(4 * delay))
		if cfg.pause {
			vsched.SetHorizon(int64(8 * delay))
		}
		switch cfg.mode {
		case "nodelay":
			go w.run(0, cfg.maxFrame, cfg.shrink, false)
		case "delay":
			go w.run(delay, cfg.maxFrame, cfg.shrink, false)
		case "timer":
			w.run(delay, cfg.maxFrame, cfg.shrink, true)
		}
		var wg sync.WaitGroup
		for p := 0; p < cfg.producers; p++ {
			wg.Add(1)
			p := p
			go func() {
				defer wg.Done()
				if cfg.many && p == 1 {
					var items []queue.Item
					var ids []string
					for i := 0; i < cfg.perProd; i++ {
						id := fmt.Sprintf("p%d-%d%s", p, i, strings.Repeat("x", i))
						ids = append(ids, id)
						items = append(items, queue.Item{Data: []byte(id)})
					}
					seq++
					st := seq
					d := w.enqueueMany(items...)
					seq++
					for _, id := range ids {
						events[id] = &ev{start: st, ret: seq, res: d, prod: p, idx: len(id)}
					}
					return
				}
				for i := 0; i < cfg.perProd; i++ {
					if cfg.pause && i == cfg.perProd-1 {
						vsched.Sleep(int64(3 * delay))
					}
					id := fmt.Sprintf("p%d-%d%s", p, i, strings.Repeat("x", i))
					seq++
					e := &ev{start: seq, prod: p, idx: i}
					events[id] = e
					e.res = w.enqueue(queue.Item{Data: []byte(id)})
					seq++
					e.ret = seq
				}
			}()
		}
		if cfg.closer != "" {
			wg.Add(1)
			go func() {
				defer wg.Done()
				seq++
				closeStart = seq
				_ = w.close(cfg.closer == "flush")
				seq++
				closeRet = seq
			}()
		}
		wg.Wait()
		vsched.Advance(int64(20 * delay))
		nWrittenAtQuiescence := len(written)
		vsched.Logf("written=%v calls=%d failAt=%d", written, writeCalls, failAt)

		// ---- oracle
		pos := map[string]int{}
		for i, id := range written {
			if _, dup := pos[id]; dup {
				vsched.Failf("duplicate", "item %s written twice: %v", id, written)
			}
			pos[id] = i
		}
		for id := range pos {
			e := events[id]
			if e == nil {
				vsched.Failf("phantom", "unknown item %s written", id)
				continue
			}
			if e.res == &DisconnectConnectionClosed {
				vsched.Failf("written-after-rejected", "item %s was rejected by enqueue (queue closed) but written", id)
			}
		}
		// per-producer order and real-time order
		for a, pa := range pos {
			for b, pb := range pos {
				ea, eb := events[a], events[b]
				if ea == nil || eb == nil || a == b {
					continue
				}
				if ea.ret != 0 && ea.ret < eb.start && pa > pb {
					vsched.Failf("order", "%s enqueued before %s but written after it: %v", a, b, written)
				}
				if ea.prod == eb.prod && ea.idx < eb.idx && pa > pb {
					vsched.Failf("order", "producer order broken %s/%s: %v", a, b, written)
				}
			}
		}
		if failed {
			return // after a failed write the transport closes itself; only the prefix is constrained
		}
		// no gaps: if b was written, every a accepted strictly before b started must be written too
		for b := range pos {
			for a, ea := range events {
				if _, ok := pos[a]; ok || ea.res != nil || ea.ret == 0 {
					continue
				}
				if ea.ret < events[b].start {
					vsched.Failf("gap", "%s accepted before %s started, %s written but %s lost: %v", a, b, b, a, written)
				}
			}
		}
		for id, e := range events {
			_, ok := pos[id]
			if ok || e.res != nil {
				continue
			}
			switch {
			case cfg.closer == "":
				vsched.Failf("lost", "item %s accepted but never written (no close, no failure): %v", id, written)
			case cfg.closer == "flush" && e.ret < closeStart:
				vsched.Failf("lost-flush", "item %s accepted before close(flush) began but never written: %v", id, written)
			}
		}
		// nothing may be written after close returned... (checked via late enqueue below)
		if cfg.closer != "" {
			if d := w.enqueue(queue.Item{Data: []byte("late")}); d != &DisconnectConnectionClosed {
				vsched.Failf("enqueue-after-close", "enqueue after close returned %v", d)
			}
			vsched.Advance(int64(20 * delay))
			if len(written) != nWrittenAtQuiescence {
				vsched.Failf("write-after-close", "transport written after close settled: %v", written)
			}
		}
		_ = closeRet
	}
}
