//go:build verif

package centrifuge

import (
	"github.com/centrifugal/centrifuge/internal/zzverif/vsched"
)

// smoke: one node, one client, subscribe racing one publish. Used to measure the cost of
// Node-based executions and as a self-test of the rewritten build.
func init() {
	vsched.Register(&vsched.Harness{
		Name: "smoke", Props: []string{"SMOKE"}, Kind: "sched",
		Doc: "node + client + subscribe vs publish",
		Variants: func(tier string) []vsched.Variant {
			return []vsched.Variant{{Name: "pb0", Bound: 0}, {Name: "pb1", Bound: 1, BudgetS: 60}, {Name: "pb2", Bound: 2, BudgetS: 120}}
		},
		Sched: func(v vsched.Variant) func() {
			return func() {
				vsched.Quiet(true)
				n := vNewNode(nil)
				n.OnConnect(func(c *Client) {
					c.OnSubscribe(func(e SubscribeEvent, cb SubscribeCallback) {
						cb(SubscribeReply{Options: SubscribeOptions{EnableRecovery: true}}, nil)
					})
				})
				if err := n.Run(); err != nil {
					panic(err)
				}
				cl := vNewClient(n, vNewTransport(), &Credentials{UserID: "u"})
				ok := cl.connect()
				vsched.Logf("connect proceed=%v disc=%v", ok, cl.t.closeDisc)
				vsched.WaitIdle()
				vsched.Quiet(false)
				done := make(chan struct{})
				go func() {
					_, _ = n.Publish("ch", []byte(`{"a":1}`), WithHistory(10, 60e9))
					close(done)
				}()
				cl.subscribe("ch")
				<-done
				vsched.WaitIdle()
				vsched.Logf("frames=%d writes=%d closed=%v status=%v disc=%v", len(cl.t.frames), cl.t.writes, cl.t.closed, cl.c.status, cl.t.closeDisc)
				for _, l := range cl.t.log() {
					vsched.Logf("%s", l)
				}
			}
		},
	})
}
