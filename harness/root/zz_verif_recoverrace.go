//go:build verif

package centrifuge

import (
	"fmt"
	"sync"
	"time"

	"github.com/centrifugal/centrifuge/internal/zzverif/vsched"
	"github.com/centrifugal/protocol"
)

// recoverrace (C02, E1): two connections recover the same stream concurrently (same or different
// offsets, current / stale / empty epochs), optionally while a publication lands, with and
// without UseSingleFlight (history reads of equal requests are coalesced). Each reply is checked
// against the C02 statement.

type recoverraceCfg struct {
	single  bool
	aOff    uint64
	bOff    uint64
	bEpoch  string // cur | stale | empty
	bReject bool
	publish bool
}

func (c recoverraceCfg) name() string {
	return fmt.Sprintf("sf%v/a%d/b%d-%s/reject%v/pub%v", c.single, c.aOff, c.bOff, c.bEpoch, c.bReject, c.publish)
}

var recoverraceCfgs = map[string]recoverraceCfg{}

func init() {
	vsched.Register(&vsched.Harness{
		Name: "recoverrace", Props: []string{"C02"}, Kind: "sched",
		Doc: "two connections recover one stream (3 retained publications) concurrently: A from (k, current epoch), B from (k', current/stale/empty epoch, with or without the reject-unrecovered flag), optionally racing a 4th publication, with UseSingleFlight on and off; oracle per reply: recovered=true only with a matching (or empty) epoch and exactly the publications after the requested offset up to the reply's top, recovered=false without publications, unrecoverable-position error only when demanded",
		Variants: func(tier string) []vsched.Variant {
			var out []vsched.Variant
			add := func(c recoverraceCfg, bound int) {
				recoverraceCfgs[c.name()] = c
				out = append(out, vsched.Variant{Name: c.name(), Bound: bound, Shards: 1, BudgetS: 75})
			}
			b := 1
			if tier == "thorough" {
				b = 2
			}
			for _, sf := range []bool{true, false} {
				add(recoverraceCfg{single: sf, aOff: 1, bOff: 1, bEpoch: "stale"}, b)
				add(recoverraceCfg{single: sf, aOff: 1, bOff: 1, bEpoch: "stale", bReject: true}, b)
				add(recoverraceCfg{single: sf, aOff: 1, bOff: 2, bEpoch: "cur", publish: true}, b)
				if tier == "thorough" {
					add(recoverraceCfg{single: sf, aOff: 1, bOff: 1, bEpoch: "empty", publish: true}, b)
					add(recoverraceCfg{single: sf, aOff: 0, bOff: 3, bEpoch: "stale", publish: true}, b)
				}
			}
			return out
		},
		Sched: func(v vsched.Variant) func() { return recoverraceBody(recoverraceCfgs[v.Name]) },
	})
}

func recoverraceBody(cfg recoverraceCfg) func() {
	return func() {
		vsched.Quiet(true)
		const ch = "ch"
		n := vNewNode(func(c *Config) { c.UseSingleFlight = cfg.single })
		n.OnConnect(func(c *Client) {
			c.OnSubscribe(func(e SubscribeEvent, cb SubscribeCallback) {
				cb(SubscribeReply{Options: SubscribeOptions{EnableRecovery: true, EnablePositioning: true}}, nil)
			})
		})
		if err := n.Run(); err != nil {
			panic(err)
		}
		var epoch string
		pub := func(i int) {
			res, err := n.Publish(ch, []byte(fmt.Sprintf(`{"n":%d}`, i)), WithHistory(10, time.Minute))
			if err != nil {
				panic(err)
			}
			epoch = res.Epoch
		}
		for i := 1; i <= 3; i++ {
			pub(i)
		}
		a := vNewClient(n, vNewTransport(), &Credentials{UserID: "a"})
		a.connect()
		b := vNewClient(n, vNewTransport(), &Credentials{UserID: "b"})
		b.connect()
		vsched.WaitIdle()
		vsched.Quiet(false)

		bEpoch := epoch
		switch cfg.bEpoch {
		case "stale":
			bEpoch = "zzzz"
		case "empty":
			bEpoch = ""
		}
		var wg sync.WaitGroup
		wg.Add(2)
		go func() {
			defer wg.Done()
			a.cmd(&protocol.Command{Subscribe: &protocol.SubscribeRequest{Channel: ch, Recover: true, Offset: cfg.aOff, Epoch: epoch}})
		}()
		go func() {
			defer wg.Done()
			req := &protocol.SubscribeRequest{Channel: ch, Recover: true, Offset: cfg.bOff, Epoch: bEpoch}
			if cfg.bReject {
				req.Flag = subscriptionFlagRejectUnrecovered
			}
			b.cmd(&protocol.Command{Subscribe: req})
		}()
		if cfg.publish {
			wg.Add(1)
			go func() {
				defer wg.Done()
				pub(4)
			}()
		}
		wg.Wait()
		vsched.WaitIdle()
		vsched.Quiet(true)

		check := func(who string, cl *vClient, off uint64, reqEpoch string, reject bool) {
			var reply *protocol.Reply
			for _, f := range cl.t.frames {
				if f.Reply.Id == 2 {
					reply = f.Reply
				}
			}
			for _, l := range cl.t.log() {
				vsched.Logf("%s %s", who, l)
			}
			if reply == nil {
				vsched.Failf("no-reply", "%s got no subscribe reply: %v", who, cl.t.log())
				return
			}
			epochOK := reqEpoch == epoch || reqEpoch == ""
			if reply.Error != nil {
				if reply.Error.Code != ErrorUnrecoverablePosition.Code || !reject {
					vsched.Failf("unexpected-error", "%s got error %d (reject flag %v)", who, reply.Error.Code, reject)
				} else if epochOK && off <= 3 {
					vsched.Failf("refused-although-recoverable", "%s: unrecoverable position although (%d,%q) is recoverable", who, off, reqEpoch)
				}
				return
			}
			s := reply.Subscribe
			if s == nil {
				vsched.Failf("no-subscribe-result", "%s reply has no subscribe result", who)
				return
			}
			if !s.Recovered {
				if len(s.Publications) > 0 {
					vsched.Failf("pubs-without-recovered", "%s: recovered=false with %d publications", who, len(s.Publications))
				}
				if reject {
					vsched.Failf("reject-flag-ignored", "%s demanded unrecoverable-position but got recovered=false", who)
				}
				return
			}
			if !epochOK {
				vsched.Failf("recovered-true-epoch-differs", "%s: recovered=true for request epoch %q (stream epoch %q): %v", who, reqEpoch, epoch, cl.t.log())
				return
			}
			want := off + 1
			for _, p := range s.Publications {
				if p.Offset != want {
					vsched.Failf("recovered-true-not-exact", "%s: recovered=true from %d but publications %s", who, off, vPubsDesc(s.Publications))
					return
				}
				want++
			}
			if want <= 3 {
				vsched.Failf("recovered-true-publication-missing", "%s: recovered=true from %d but publications end at %d (retained top >= 3): %s", who, off, want-1, vPubsDesc(s.Publications))
			}
		}
		check("A", a, cfg.aOff, epoch, false)
		check("B", b, cfg.bOff, bEpoch, cfg.bReject)
	}
}
