//go:build verif

package centrifuge

import (
	"context"
	"fmt"
	"strings"
	"sync"
	"time"

	"github.com/centrifugal/centrifuge/internal/zzverif/vsched"
)

// bracketbatch (C10, E1): channel pushes are bracketed by the subscription's start and end -
// with per-channel batching (Config.GetChannelBatchConfig) and ConnectReply.ReplyWithoutQueue,
// the configurations connops-C10 does not reach.
//
// One node, actor connection A (user "u"), a second connection O2 (user "o2", connected in the
// setup). Threads of the concurrent phase:
//   actor    client path: A's reader issues subscribe then unsubscribe (or only one of them; the
//            subscribe callback is completed synchronously or by a thread of its own);
//            server path: Node.Subscribe(u, ch) then Node.Unsubscribe(u, ch)
//   pubN     N publications to ch (positioned channels: with history), sequentially
//   ojoin    O2 subscribes to ch and unsubscribes (join + leave pushes for A)
// Batching of ch: size (MaxSize 2), delay (MaxDelay 10ms), both, latest (both +
// FlushLatestPublication). The concurrent phase runs with vsched.SetHorizon(20ms) - a batch
// timer may fire first (deviation) - and is followed by vsched.Advance(20ms) + 1s so that every
// armed batch timer flushes.
//
// Oracle (the property statement, on A's ordered transport frames): no publication / join /
// leave push for ch before the subscribe reply (client path) or subscribe push (server path)
// and none after the unsubscribe reply / unsubscribe push until the next bracket opens.

const bbCh = "ch"

type bbCfg struct {
	path  string // client | async | server
	actor string // sub,unsub | sub | unsub (unsub: A is subscribed in the setup)
	racer string // pub2 | pub3 | ojoin | pub2+ojoin
	batch string // size | delay | both | latest | none
	rwq   bool
	pos   bool

	ownOnly bool // harness batchend (C13): report only the connection's own join / leave
}

func (c bbCfg) name() string {
	n := fmt.Sprintf("%s:%s/%s/batch-%s", c.path, c.actor, c.racer, c.batch)
	if c.rwq {
		n += "/rwq"
	}
	if c.pos {
		n += "/pos"
	}
	return n
}

func (c bbCfg) batchConfig() ChannelBatchConfig {
	switch c.batch {
	case "size":
		return ChannelBatchConfig{MaxSize: 2}
	case "delay":
		return ChannelBatchConfig{MaxDelay: 10 * time.Millisecond}
	case "both":
		return ChannelBatchConfig{MaxSize: 2, MaxDelay: 10 * time.Millisecond}
	case "latest":
		return ChannelBatchConfig{MaxSize: 2, MaxDelay: 10 * time.Millisecond, FlushLatestPublication: true}
	}
	return ChannelBatchConfig{}
}

var bbCfgs = map[string]bbCfg{}

func bbAdd(out *[]vsched.Variant, c bbCfg, mode string, shards, budget int) {
	name := c.name() + "/" + mode
	bbCfgs[name] = c
	v := vsched.Variant{Name: name, Bound: int(mode[1] - '0'), Shards: shards, BudgetS: budget}
	if mode[0] == 'd' {
		v.Delay = true
	}
	*out = append(*out, v)
}

func bbVariants(tier string) []vsched.Variant {
	var out []vsched.Variant
	if tier == "quick" {
		for _, c := range []bbCfg{
			{path: "client", actor: "unsub", racer: "pub2", batch: "delay"},
			{path: "client", actor: "sub", racer: "pub2", batch: "size"},
			{path: "client", actor: "sub", racer: "pub2", batch: "latest", pos: true},
			{path: "client", actor: "sub,unsub", racer: "pub2", batch: "size", rwq: true, pos: true},
			{path: "client", actor: "unsub", racer: "pub2", batch: "none", rwq: true},
			{path: "client", actor: "sub", racer: "pub2", batch: "both", rwq: true},
			{path: "client", actor: "unsub", racer: "ojoin", batch: "none", rwq: true},
			{path: "server", actor: "sub", racer: "pub2", batch: "size"},
			{path: "server", actor: "unsub", racer: "pub2", batch: "delay", pos: true},
		} {
			bbAdd(&out, c, "p1", 1, 75)
		}
		// the unsubscribe command arrives while the subscribe is still in flight (callback completed by
		// another thread): it parks on the wait gate, the subscription goes live, its own join is batched
		bbAdd(&out, bbCfg{path: "async", actor: "sub,unsub", racer: "pub2", batch: "delay"}, "p0", 2, 75)
		return out
	}
	seen := map[string]bool{}
	add := func(c bbCfg, mode string) {
		if seen[c.name()+mode] {
			return
		}
		seen[c.name()+mode] = true
		bbAdd(&out, c, mode, 1, 280)
	}
	batches := []string{"size", "delay", "both", "latest", "none"}
	// client path, publications: {sub, unsub} x batching x reply-without-queue x positioned
	for _, actor := range []string{"sub", "unsub"} {
		for _, batch := range batches {
			for _, rwq := range []bool{false, true} {
				for _, pos := range []bool{false, true} {
					if batch == "none" && !rwq {
						continue // connops-C10
					}
					add(bbCfg{path: "client", actor: actor, racer: "pub2", batch: batch, rwq: rwq, pos: pos}, "p1")
				}
			}
		}
	}
	// server path (pushes always use the queue: reply-without-queue is irrelevant; FlushLatestPublication
	// only changes what a flush contains, covered on the client path)
	for _, actor := range []string{"sub", "unsub"} {
		for _, batch := range []string{"size", "delay", "both"} {
			for _, pos := range []bool{false, true} {
				if batch == "both" && pos {
					continue
				}
				add(bbCfg{path: "server", actor: actor, racer: "pub2", batch: batch, pos: pos}, "p1")
			}
		}
	}
	// join/leave pushes of another connection (O2's own reader and writer add threads: delay bounding, bound 2)
	add(bbCfg{path: "client", actor: "sub", racer: "ojoin", batch: "delay"}, "d2")
	add(bbCfg{path: "client", actor: "unsub", racer: "ojoin", batch: "delay"}, "d2")
	add(bbCfg{path: "client", actor: "unsub", racer: "ojoin", batch: "none", rwq: true}, "p1")
	add(bbCfg{path: "client", actor: "unsub", racer: "ojoin", batch: "delay", rwq: true}, "d2")
	// whole brackets (subscribe then unsubscribe), three publications, asynchronous callback:
	// delay bounding with bound 2 (the free orders of 4-5 threads explode under preemption bounding)
	for _, c := range []bbCfg{
		{path: "client", actor: "sub,unsub", racer: "pub2", batch: "both"},
		{path: "client", actor: "sub,unsub", racer: "pub3", batch: "size", pos: true},
		{path: "client", actor: "sub,unsub", racer: "pub2", batch: "size", rwq: true, pos: true},
		{path: "async", actor: "sub,unsub", racer: "pub2", batch: "delay"},
		{path: "async", actor: "sub,unsub", racer: "pub2", batch: "latest", pos: true},
		{path: "async", actor: "sub", racer: "pub2", batch: "both", rwq: true},
		{path: "server", actor: "sub,unsub", racer: "pub2", batch: "both"},
		{path: "server", actor: "sub,unsub", racer: "pub3", batch: "delay", pos: true},
	} {
		add(c, "d2")
	}
	return out
}

func init() {
	vsched.Register(&vsched.Harness{
		Name: "bracketbatch", Props: []string{"C10"}, Kind: "sched",
		Doc: "node with Config.GetChannelBatchConfig for ch in {MaxSize 2, MaxDelay 10ms, both, both+FlushLatestPublication} and ConnectReply.ReplyWithoutQueue true/false; actor connection A subscribes and/or unsubscribes (client commands of one reader thread with synchronous or asynchronous subscribe callback; server-side Node.Subscribe / Node.Unsubscribe) " +
			"while a publisher thread publishes 2-3 publications (non-positioned, or positioned with history) and/or another connection joins and leaves; batch timers may fire first within SetHorizon(20ms), then Advance flushes every batch; oracle C10 on A's ordered frames: no publication/join/leave push for ch before the subscribe reply (or subscribe push) and none after the unsubscribe reply (or unsubscribe push) until the next bracket opens",
		Variants: bbVariants,
		Sched:    func(v vsched.Variant) func() { return bbBody(bbCfgs[v.Name]) },
	})
}

// batchend (C13, "nothing buffered for a channel is delivered after the subscription ended") at
// connection level: the subscription's own join is buffered by the subscribe itself, before an
// unsubscribe that waited for it tears the subscription down. Same body as bracketbatch; only
// pushes produced by the connection's own subscribe / unsubscribe are judged (a push that was
// added after the end is the C10 bracket race, recorded there).
var beCfgs = map[string]bbCfg{}

func beVariants(tier string) []vsched.Variant {
	var out []vsched.Variant
	b := 0
	if tier == "thorough" {
		b = 1
	}
	for _, batch := range []string{"delay", "both", "latest"} {
		for _, pos := range []bool{false, true} {
			for _, path := range []string{"async", "client"} {
				c := bbCfg{path: path, actor: "sub,unsub", racer: "pub2", batch: batch, pos: pos, ownOnly: true}
				beCfgs[c.name()] = c
				out = append(out, vsched.Variant{Name: c.name(), Bound: b, Shards: 2, BudgetS: 100})
			}
		}
	}
	return out
}

func init() {
	vsched.Register(&vsched.Harness{
		Name: "batchend", Props: []string{"C13"}, Kind: "sched",
		Doc:      "connection level: per-channel batching (MaxDelay 10ms, with MaxSize 2, with FlushLatestPublication) on a channel with pushed join/leave; the connection's reader subscribes (callback completed synchronously or by another thread) and unsubscribes at once - the unsubscribe waits for the in-flight subscribe, whose own join is already buffered - while two publications are published; oracle: the connection's own join / leave is never written after the unsubscribe reply",
		Variants: beVariants,
		Sched:    func(v vsched.Variant) func() { return bbBody(beCfgs[v.Name]) },
	})
}

func bbBody(cfg bbCfg) func() {
	return func() {
		vsched.Quiet(true)
		live := false
		n := vNewNode(func(c *Config) {
			if cfg.batch != "none" {
				c.GetChannelBatchConfig = func(ch string) ChannelBatchConfig {
					if ch == bbCh {
						return cfg.batchConfig()
					}
					return ChannelBatchConfig{}
				}
			}
		})
		n.OnConnecting(func(_ context.Context, e ConnectEvent) (ConnectReply, error) {
			return ConnectReply{ReplyWithoutQueue: cfg.rwq}, nil
		})
		subOpts := SubscribeOptions{EmitJoinLeave: true, PushJoinLeave: true}
		if cfg.pos {
			subOpts.EnableRecovery = true
			subOpts.EnablePositioning = true
		}
		n.OnConnect(func(c *Client) {
			isActor := c.UserID() == "u"
			c.OnSubscribe(func(e SubscribeEvent, cb SubscribeCallback) {
				vsched.Visible()
				if isActor && cfg.path == "async" && live {
					go cb(SubscribeReply{Options: subOpts}, nil)
					return
				}
				cb(SubscribeReply{Options: subOpts}, nil)
			})
		})
		if err := n.Run(); err != nil {
			panic(err)
		}
		o2 := vNewClient(n, vNewTransport(), &Credentials{UserID: "o2"})
		o2.connect()
		act := vNewClient(n, vNewTransport(), &Credentials{UserID: "u"})
		act.connect()
		vsched.WaitIdle()
		pubN := 0
		publish := func() {
			pubN++
			data := []byte(fmt.Sprintf(`{"p":%d}`, pubN))
			var err error
			if cfg.pos {
				_, err = n.Publish(bbCh, data, WithHistory(10, time.Minute))
			} else {
				_, err = n.Publish(bbCh, data)
			}
			if err != nil {
				panic(err)
			}
		}
		srvOpts := []SubscribeOption{WithEmitJoinLeave(true), WithPushJoinLeave(true)}
		if cfg.pos {
			srvOpts = append(srvOpts, WithRecovery(true), WithPositioning(true))
			publish() // the stream exists
		}
		if cfg.actor == "unsub" {
			if cfg.path == "server" {
				if err := n.Subscribe("u", bbCh, srvOpts...); err != nil {
					panic(err)
				}
			} else {
				act.subscribe(bbCh)
			}
			vsched.WaitIdle()
			if !act.c.IsSubscribed(bbCh) {
				panic("bracketbatch: setup subscription not established")
			}
		}
		vsched.WaitIdle()
		live = true
		vsched.Quiet(false)
		vsched.SetHorizon(20 * vMs)

		// ---- concurrent phase
		var wg sync.WaitGroup
		run := func(f func()) {
			wg.Add(1)
			go func() {
				defer wg.Done()
				f()
			}()
		}
		run(func() {
			for _, st := range strings.Split(cfg.actor, ",") {
				switch {
				case st == "sub" && cfg.path == "server":
					_ = n.Subscribe("u", bbCh, srvOpts...)
				case st == "sub":
					act.subscribe(bbCh)
				case st == "unsub" && cfg.path == "server":
					_ = n.Unsubscribe("u", bbCh)
				case st == "unsub":
					act.unsubscribe(bbCh)
				default:
					panic("bracketbatch: unknown actor step " + st)
				}
			}
		})
		for _, r := range strings.Split(cfg.racer, "+") {
			switch r {
			case "pub2":
				run(func() { publish(); publish() })
			case "pub3":
				run(func() { publish(); publish(); publish() })
			case "ojoin":
				run(func() { o2.subscribe(bbCh); o2.unsubscribe(bbCh) })
			default:
				panic("bracketbatch: unknown racer " + r)
			}
		}
		wg.Wait()
		vsched.WaitIdle()
		vsched.Advance(20 * vMs)
		vsched.Quiet(true)
		vsched.Advance(vSec)

		// ---- observations + oracle
		all := strings.ReplaceAll(strings.ReplaceAll(strings.Join(act.t.log(), " | "), act.c.ID(), "A"), o2.c.ID(), "O2")
		for _, l := range act.t.log() {
			vsched.Logf("A %s", strings.ReplaceAll(strings.ReplaceAll(l, act.c.ID(), "A"), o2.c.ID(), "O2"))
		}
		vsched.Logf("subscribed=%v", act.c.IsSubscribed(bbCh))
		pathName := "client-side"
		if cfg.path == "server" {
			pathName = "server-side"
		}
		posName := "non-positioned"
		if cfg.pos {
			posName = "positioned"
		}
		// signature: when : path : positioned : batched or not [: reply-without-queue]. The kind of
		// push (publication / join / leave share one write path) and the batch parameters are in
		// the message, so that one root cause has one signature per path.
		mode := "batched"
		if cfg.batch == "none" {
			mode = "unbatched"
		}
		if cfg.rwq {
			mode += ":reply-without-queue"
		}
		open, everOpen := false, false
		reported := map[string]bool{}
		for _, f := range act.t.frames {
			r := f.Reply
			switch {
			case r.Subscribe != nil && r.Error == nil:
				open, everOpen = true, true
			case r.Unsubscribe != nil && r.Error == nil:
				open = false
			case r.Push != nil && r.Push.Channel == bbCh && r.Push.Subscribe != nil:
				open, everOpen = true, true
			case r.Push != nil && r.Push.Channel == bbCh && r.Push.Unsubscribe != nil:
				open = false
			case r.Push != nil && r.Push.Channel == bbCh && (r.Push.Pub != nil || r.Push.Join != nil || r.Push.Leave != nil):
				if open {
					continue
				}
				kind := "publication"
				if r.Push.Join != nil {
					kind = "join"
				} else if r.Push.Leave != nil {
					kind = "leave"
				}
				when := "before-open"
				if everOpen {
					when = "after-close"
				}
				sig := "push-outside-bracket:" + when + ":" + pathName + ":" + posName + ":" + mode
				// the connection's own join / leave is produced by its own subscribe / unsubscribe, in
				// that operation's thread: it cannot be a push that merely raced the end of the bracket
				// (with ReplyWithoutQueue the directly written reply overtakes every queued push, the
				// connection's own join included: that stays the recorded reply-without-queue class)
				own := false
				if r.Push.Join != nil && r.Push.Join.Info.GetClient() == act.c.ID() && !cfg.rwq {
					sig += ":own-join"
					own = true
				} else if r.Push.Leave != nil && r.Push.Leave.Info.GetClient() == act.c.ID() && !cfg.rwq {
					sig += ":own-leave"
					own = true
				}
				if cfg.ownOnly && !own {
					continue // batchend (C13) judges only what was buffered before the subscription ended
				}
				if !reported[sig] {
					reported[sig] = true
					vsched.Failf(sig, "%s push for %s outside a subscription bracket (%s) [%s, batch config %+v]: %s", kind, bbCh, when, cfg.name(), cfg.batchConfig(), all)
				}
			}
		}
	}
}
