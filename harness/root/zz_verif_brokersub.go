//go:build verif

package centrifuge

import (
	"fmt"
	"sort"
	"strconv"
	"strings"
	"sync"
	"time"

	"github.com/centrifugal/centrifuge/internal/zzverif/vsched"
	"github.com/centrifugal/protocol"
)

// brokersub (C26, E1): the broker subscription of a node tracks its local interest.
//
// Two connections A (user "a") and B (user "b") subscribe / unsubscribe / disconnect on the same
// channel through client commands and the server-side API, while the broker's Subscribe /
// Unsubscribe calls may fail (environment choices) and the dissolver's delayed broker-unsubscribe
// jobs (1 s sleep, 500 ms cool-down after a failure) run under the virtual clock. The broker
// double behaves like a PUB/SUB broker: it delivers a publication to the node only while the
// node is subscribed to the channel.

type brokersubCfg struct {
	ops       []string // one thread each; comma separated sequential steps, see brokersubStep
	presubA   bool
	presubB   bool
	failSub   bool
	failUnsub bool
	chans2    bool          // B works on a second channel as well (set comparison over two channels)
}

func (c brokersubCfg) name() string {
	n := fmt.Sprintf("%s/preA%v/preB%v/failSub%v/failUnsub%v", strings.Join(c.ops, "+"), c.presubA, c.presubB, c.failSub, c.failUnsub)
	if c.chans2 {
		n += "/2chan"
	}
	return n
}

var brokersubCfgs = map[string]brokersubCfg{}

func brokersubVariants(tier string) []vsched.Variant {
	var out []vsched.Variant
	add := func(c brokersubCfg, bound, shards, budget int) {
		if _, dup := brokersubCfgs[c.name()]; !dup {
			brokersubCfgs[c.name()] = c
		}
		out = append(out, vsched.Variant{Name: c.name(), Bound: bound, Shards: shards, BudgetS: budget})
	}
	// Steps: x.sub x.unsub x.disc x.close (x in a,b: issued by the connection's reader thread),
	// n.sub.x n.unsub.x n.disc.x (server-side API), pub (publish p<k>), sleepN (N ms of virtual time).
	quick := []brokersubCfg{
		// last unsubscribe, then a first subscribe exactly when / just before the delayed job wakes
		{ops: []string{"a.unsub", "sleep1000,b.sub"}, presubA: true, failUnsub: true},
		{ops: []string{"a.unsub", "sleep999,b.sub"}, presubA: true, failUnsub: true},
		{ops: []string{"a.unsub", "b.sub"}, presubA: true, failSub: true},
		{ops: []string{"a.sub", "b.sub"}, failSub: true},
		{ops: []string{"a.unsub,sleep1000,a.sub", "b.unsub"}, presubA: true, presubB: true, failUnsub: true},
		{ops: []string{"a.disc", "sleep1000,b.sub", "sleep1500,pub"}, presubA: true, failUnsub: true},
		{ops: []string{"n.unsub.a", "sleep1000,n.sub.b"}, presubA: true, failSub: true},
		{ops: []string{"a.unsub,sleep1500,a.sub", "sleep1500,pub"}, presubA: true, failUnsub: true},
		{ops: []string{"a.close", "b.unsub,sleep1000,b.sub"}, presubA: true, presubB: true},
	}
	if tier == "quick" {
		for i, c := range quick {
			// the delayed job is a background (housekeeping) thread: waking it ahead of a foreground
			// operation costs one deviation and preempting it inside its critical decision another,
			// so the scenarios that place an operation on the job's wake-up instant get bound 2
			if i == 0 || i == 1 || i == 6 {
				add(c, 2, 2, 60)
			} else {
				add(c, 1, 2, 40)
			}
		}
		return out
	}
	// thorough: two deviations where the scenario is small enough (a job waking in the middle
	// of an operation and being overtaken needs two), one deviation for the larger ones
	for i, c := range quick {
		if i == 0 || i == 1 || i == 7 {
			add(c, 2, 8, 280)
		} else {
			add(c, 1, 4, 280)
		}
	}
	thor := []brokersubCfg{
		{ops: []string{"a.unsub", "sleep1000,b.sub", "sleep1500,b.unsub"}, presubA: true, failSub: true, failUnsub: true},
		{ops: []string{"a.sub,a.unsub", "b.sub"}, failSub: true},
		{ops: []string{"b.unsub", "sleep1000,n.sub.a", "sleep1000,pub"}, presubB: true, failUnsub: true},
		{ops: []string{"a.unsub", "sleep1000,b.sub"}, presubA: true, failSub: true, failUnsub: true, chans2: true},
		{ops: []string{"a.disc", "sleep1000,n.sub.b"}, presubA: true, failUnsub: true},
	}
	for _, c := range thor {
		add(c, 1, 4, 280)
	}
	return out
}

func init() {
	vsched.Register(&vsched.Harness{
		Name: "brokersub", Props: []string{"C26"}, Kind: "sched",
		Doc: "node + PUB/SUB-like broker double (records Subscribe/Unsubscribe, either may fail by environment choice, delivers publications only for subscribed channels); connections A and B on one channel (thorough: B also on a second channel); one thread per operation list over {x.sub, x.unsub, x.disc, x.close, n.sub.x, n.unsub.x, n.disc.x, pub, sleepN}; the dissolver's delayed broker-unsubscribe jobs (1 s sleep, 500 ms cool-down and retry after a failure) run on the virtual clock, virtual time moves in 500 ms steps only at quiescence and operations are placed on the wake-up instants of the jobs (or 1 ms before); then time is advanced until all deferred work has drained. Oracle: (1) when a successful subscribe reply / subscribe push is written and the connection is registered in the hub for the channel, the broker is subscribed to it; (2) a publication made while a connection holds an acknowledged subscription that is not ended during the run reaches that connection; (3) at quiescence broker-subscribed channels == channels with local subscribers (Hub.NumSubscribers > 0), and a marker publication reaches exactly the open subscribed connections",
		Variants: brokersubVariants,
		Sched:    func(v vsched.Variant) func() { return brokersubBody(brokersubCfgs[v.Name]) },
	})
}

// brokersubBroker is vChaosBroker behaving like a PUB/SUB broker: deliveries for channels the node
// is not subscribed to are dropped.
type brokersubBroker struct {
	*vChaosBroker
	dropped []string
}

type brokersubProxy struct{ b *brokersubBroker }

func (p brokersubProxy) HandlePublication(ch string, pub *Publication, sp StreamPosition, delta bool, prevPub *Publication) error {
	if !p.b.subscribed[ch] {
		p.b.dropped = append(p.b.dropped, ch+":"+string(pub.Data))
		return nil
	}
	return p.b.h.HandlePublication(ch, pub, sp, delta, prevPub)
}
func (p brokersubProxy) HandleJoin(ch string, info *ClientInfo) error {
	if !p.b.subscribed[ch] {
		return nil
	}
	return p.b.h.HandleJoin(ch, info)
}
func (p brokersubProxy) HandleLeave(ch string, info *ClientInfo) error {
	if !p.b.subscribed[ch] {
		return nil
	}
	return p.b.h.HandleLeave(ch, info)
}

func (b *brokersubBroker) RegisterBrokerEventHandler(h BrokerEventHandler) error {
	b.h = h
	return b.inner.RegisterBrokerEventHandler(brokersubProxy{b})
}

// brokersubConn is one connection with the harness' view of its subscription brackets.
type brokersubConn struct {
	name    string
	user    string
	cl      *vClient
	pending map[uint32]string // subscribe command id -> channel
	// acked[ch]: a successful subscribe reply / push was written and no unsubscribe reply /
	// push after it
	acked map[string]bool
	// stable[ch]: serial of publications started while acked; dropped when the bracket ends
	disturbed map[string]bool // an unsubscribe / disconnect targeting this connection was issued
}

func brokersubBody(cfg brokersubCfg) func() {
	return func() {
		vsched.Quiet(true)
		const ch = "ch"
		n := vNewNode(nil)
		broker := &brokersubBroker{vChaosBroker: vInstallChaosBroker(n, false)}
		n.SetBroker(broker)
		n.OnConnect(func(c *Client) {
			c.OnSubscribe(func(e SubscribeEvent, cb SubscribeCallback) {
				cb(SubscribeReply{}, nil)
			})
		})
		if err := n.Run(); err != nil {
			panic(err)
		}
		conns := map[string]*brokersubConn{}
		var names []string
		for _, nm := range []string{"a", "b"} {
			cn := &brokersubConn{name: nm, user: nm, pending: map[uint32]string{}, acked: map[string]bool{}, disturbed: map[string]bool{}}
			cn.cl = vNewClient(n, vNewTransport(), &Credentials{UserID: nm})
			conns[nm] = cn
			names = append(names, nm)
		}
		inHub := func(cn *brokersubConn, c string) bool {
			_, has := vHubSub(n, c, cn.cl.c.ID())
			return has
		}
		for _, nm := range names {
			cn := conns[nm]
			cn.cl.t.onFrame = func(f vFrame) {
				r := f.Reply
				opened := ""
				switch {
				case r.Id != 0 && r.Subscribe != nil && r.Error == nil:
					opened = cn.pending[r.Id]
				case r.Push != nil && r.Push.Subscribe != nil:
					opened = r.Push.Channel
				case r.Id != 0 && r.Unsubscribe != nil && r.Error == nil:
					// the command id of an unsubscribe is recorded with a "-" prefix
					delete(cn.acked, strings.TrimPrefix(cn.pending[r.Id], "-"))
				case r.Push != nil && r.Push.Unsubscribe != nil:
					delete(cn.acked, r.Push.Channel)
				}
				if opened != "" && !strings.HasPrefix(opened, "-") {
					cn.acked[opened] = true
					// (1) subscription acknowledged to a registered local subscriber => broker subscribed.
					// The hub entry and the broker state are read at one instant (no scheduling point
					// between the two reads).
					registered := inHub(cn, opened)
					if registered && !broker.subscribed[opened] {
						vsched.Failf("ack-without-broker-subscription", "subscription of %s to %s acknowledged (%s) and the connection is registered in the hub, but the broker is not subscribed; broker calls %v", cn.name, opened, f.describe(), broker.subCalls)
					}
				}
			}
			cn.cl.connect()
		}
		a, b := conns["a"], conns["b"]
		subscribe := func(cn *brokersubConn, c string) {
			cn.cl.id++
			cn.pending[cn.cl.id] = c
			cn.cl.cmd(&protocol.Command{Id: cn.cl.id, Subscribe: &protocol.SubscribeRequest{Channel: c}})
		}
		unsubscribe := func(cn *brokersubConn, c string) {
			cn.cl.id++
			cn.pending[cn.cl.id] = "-" + c
			cn.disturbed[c] = true
			cn.cl.cmd(&protocol.Command{Id: cn.cl.id, Unsubscribe: &protocol.UnsubscribeRequest{Channel: c}})
		}
		if cfg.presubA {
			subscribe(a, ch)
		}
		if cfg.presubB {
			subscribe(b, ch)
		}
		vsched.WaitIdle()

		// publications: who must get them
		type pubRec struct {
			data string
			must []string // connection names with an acknowledged subscription when the publish started
		}
		var pubs []*pubRec
		publish := func(c string, tag string) {
			vsched.Visible()
			rec := &pubRec{data: fmt.Sprintf(`{"%s":%d}`, tag, len(pubs)+1)}
			for _, nm := range names {
				if conns[nm].acked[c] {
					rec.must = append(rec.must, nm)
				}
			}
			pubs = append(pubs, rec)
			if _, err := n.Publish(c, []byte(rec.data)); err != nil {
				panic(err)
			}
		}

		broker.failSub, broker.failUnsub = cfg.failSub, cfg.failUnsub
		vsched.Quiet(false)

		// ---- concurrent phase
		var wg sync.WaitGroup
		done := false
		for _, op := range cfg.ops {
			op := op
			wg.Add(1)
			go func() {
				defer wg.Done()
				for _, step := range strings.Split(op, ",") {
					parts := strings.Split(step, ".")
					switch {
					case strings.HasPrefix(step, "sleep"):
						ms, err := strconv.Atoi(strings.TrimPrefix(step, "sleep"))
						if err != nil {
							panic(err)
						}
						time.Sleep(time.Duration(ms) * time.Millisecond)
					case step == "pub":
						publish(ch, "p")
					case parts[0] == "n":
						cn := conns[parts[2]]
						switch parts[1] {
						case "sub":
							_ = n.Subscribe(cn.user, ch)
						case "unsub":
							cn.disturbed[ch] = true
							_ = n.Unsubscribe(cn.user, ch)
						case "disc":
							cn.disturbed[ch] = true
							_ = n.Disconnect(cn.user)
						default:
							panic("unknown step " + step)
						}
					default:
						cn := conns[parts[0]]
						switch parts[1] {
						case "sub":
							subscribe(cn, ch)
							if cfg.chans2 && cn == b {
								subscribe(cn, "c2") // B uses a second channel as well
							}
						case "unsub":
							unsubscribe(cn, ch)
						case "disc":
							cn.disturbed[ch] = true
							cn.cl.c.Disconnect(DisconnectForceNoReconnect)
						case "close":
							cn.disturbed[ch] = true
							_ = cn.cl.close()
						default:
							panic("unknown step " + step)
						}
					}
				}
			}()
		}
		go func() { wg.Wait(); done = true }()
		// Virtual time moves only when every thread is blocked, in 500 ms steps: all timers
		// (operation start times, the jobs' 1 s delay, the 500 ms cool-down) lie on that grid, so
		// each step fires the timers of one instant and the threads they wake race each other.
		// Stop below the 3 s node ping.
		vsched.WaitIdle()
		for i := 0; i < 5 || !done; i++ {
			if i > 12 {
				panic("brokersub: operation threads did not finish")
			}
			vsched.Advance(int64(500 * time.Millisecond))
		}
		// ---- drain deferred work quietly (every broker call succeeds from here on)
		vsched.Quiet(true)
		broker.failSub, broker.failUnsub = false, false
		vsched.Advance(int64(8 * time.Second))
		vsched.WaitIdle()

		// ---- oracle
		var chans = []string{ch}
		if cfg.chans2 {
			chans = append(chans, "c2")
		}
		var state []string
		for _, c := range chans {
			local := n.hub.NumSubscribers(c)
			sub := broker.subscribed[c]
			state = append(state, fmt.Sprintf("%s:local=%d,broker=%v", c, local, sub))
			if local > 0 && !sub {
				vsched.Failf("quiescent-local-subscribers-without-broker-subscription", "channel %s has %d local subscribers but the broker is not subscribed; broker calls %v", c, local, broker.subCalls)
			}
			if local == 0 && sub {
				vsched.Failf("quiescent-broker-subscription-without-local-subscribers", "channel %s has no local subscribers but the broker is still subscribed after draining; broker calls %v", c, broker.subCalls)
			}
		}
		var extra []string
		for c := range broker.subscribed {
			if c != ch && c != "c2" {
				extra = append(extra, c)
			}
		}
		sort.Strings(extra)
		if len(extra) > 0 {
			vsched.Failf("quiescent-foreign-broker-subscription", "broker subscribed to channels nobody used: %v", extra)
		}
		// (2) publications made during the run
		got := func(cn *brokersubConn, c, data string) int {
			k := 0
			for _, f := range cn.cl.t.frames {
				if p := f.Reply.Push; p != nil && p.Channel == c && p.Pub != nil && string(p.Pub.Data) == data {
					k++
				}
			}
			return k
		}
		for _, rec := range pubs {
			for _, nm := range rec.must {
				cn := conns[nm]
				if cn.disturbed[ch] || cn.cl.t.closed {
					continue
				}
				if got(cn, ch, rec.data) == 0 {
					vsched.Failf("publication-lost", "%s held an acknowledged, never ended subscription when %s was published but did not receive it; broker calls %v dropped %v", nm, rec.data, broker.subCalls, broker.dropped)
				}
			}
		}
		// marker: reaches exactly the open, subscribed connections
		const marker = `{"marker":1}`
		for _, c := range chans {
			if _, err := n.Publish(c, []byte(marker)); err != nil {
				panic(err)
			}
		}
		vsched.WaitIdle()
		for _, nm := range names {
			cn := conns[nm]
			for _, c := range chans {
				want := 0
				if cn.cl.c.IsSubscribed(c) && !cn.cl.t.closed {
					want = 1
				}
				if g := got(cn, c, marker); g != want {
					sig := "marker-lost"
					if g > want {
						sig = "marker-unexpected"
					}
					vsched.Failf(sig, "%s (subscribed to %s: %v, closed %v) received the marker %d times, want %d; broker calls %v dropped %v", nm, c, cn.cl.c.IsSubscribed(c), cn.cl.t.closed, g, want, broker.subCalls, broker.dropped)
				}
			}
		}
		for _, nm := range names {
			vsched.Logf("%s: %s", nm, strings.Join(conns[nm].cl.t.log(), " | "))
		}
		vsched.Logf("broker=%v failures=%d state=%v", broker.subCalls, broker.subFailures, state)
	}
}
