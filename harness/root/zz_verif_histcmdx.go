//go:build verif

package centrifuge

import (
	"fmt"
	"sort"
	"strings"

	"github.com/centrifugal/centrifuge/internal/zzverif/vsched"
	"github.com/centrifugal/protocol"
)

// histcmdx + presencex (C43): history and presence client commands honour their limits.

type vhcSince struct {
	label string
	nil_  bool
	off   func(m *vhModel) uint64
	epoch func(m *vhModel) (string, bool)
}

func vhcSinces() []vhcSince {
	cur := func(m *vhModel) (string, bool) { return m.curEpoch(), true }
	empty := func(m *vhModel) (string, bool) { return "", true }
	foreign := func(m *vhModel) (string, bool) { return vhForeignEpoch, true }
	prev := func(m *vhModel) (string, bool) { return m.prevEpoch() }
	zero := func(m *vhModel) uint64 { return 0 }
	one := func(m *vhModel) uint64 { return 1 }
	top := func(m *vhModel) uint64 { return m.top }
	top1 := func(m *vhModel) uint64 { return m.top + 1 }
	return []vhcSince{
		{label: "nil", nil_: true},
		{label: "0/empty", off: zero, epoch: empty},
		{label: "0/cur", off: zero, epoch: cur},
		{label: "1/cur", off: one, epoch: cur},
		{label: "1/empty", off: one, epoch: empty},
		{label: "top/cur", off: top, epoch: cur},
		{label: "top+1/cur", off: top1, epoch: cur},
		{label: "1/foreign", off: one, epoch: foreign},
		{label: "0/foreign", off: zero, epoch: foreign},
		{label: "1/prev", off: one, epoch: prev},
	}
}

type vhcParams struct {
	depth int
	size  int
}

func vhcParamsOf(v vsched.Variant) vhcParams {
	switch v.Name {
	case "q-d3-s2":
		return vhcParams{3, 2}
	case "t-d4-s1":
		return vhcParams{4, 1}
	case "t-d4-s2":
		return vhcParams{4, 2}
	case "t-d4-s3":
		return vhcParams{4, 3}
	}
	panic("histcmdx: unknown variant " + v.Name)
}

var vhcLimits = []int32{-2, -1, 0, 1, 2, 5}
var vhcMaxLimits = []int{0, 1, 2}

func init() {
	vsched.Register(&vsched.Harness{
		Name: "histcmdx", Props: []string{"C43"}, Kind: "sched",
		Doc: "E2 under the virtual clock. One execution = one channel history (ops {pub tag a, pub tag b, RemoveHistory, advance>HistoryTTL, advance>metaTTL}; quick depth<=3 size 2, thorough depth<=4 sizes 1..3) on a fresh Node, " +
			"then every client history command since {nil, (0,''), (0,cur), (1,cur), (1,''), (top,cur), (top+1,cur), (1,foreign), (0,foreign), (1,previous epoch)} x limit {-2,-1,0,1,2,5} x reverse x HistoryMaxPublicationLimit {0,1,2}. " +
			"Oracle: reverse with since offset 0 => error 107 (bad request); otherwise the reply (publications with offset/data/tags, top offset, epoch, or the error code) equals Node.History with the effective filter " +
			"(limit replaced by the configured maximum when it is negative or larger); never more publications than the configured maximum.",
		Variants: func(tier string) []vsched.Variant {
			if tier == "thorough" {
				return []vsched.Variant{
					{Name: "t-d4-s1", Bound: 0, Shards: 8, NoCache: true, BudgetS: 200},
					{Name: "t-d4-s2", Bound: 0, Shards: 8, NoCache: true, BudgetS: 200},
					{Name: "t-d4-s3", Bound: 0, Shards: 8, NoCache: true, BudgetS: 200},
				}
			}
			return []vsched.Variant{{Name: "q-d3-s2", Bound: 0, Shards: 8, NoCache: true, BudgetS: 90}}
		},
		Sched: func(v vsched.Variant) func() {
			p := vhcParamsOf(v)
			nh := vhCount(p.depth)
			return func() {
				idx := vsched.ChooseFree(nh)
				vsched.Quiet(true)
				ops := vhDecode(idx)
				w := vhNewWorld(p.size, 1, nil)
				for _, op := range ops {
					w.apply(op)
				}
				m := w.chans[0]
				w.prime(m)
				vsched.Logf("ops=%s size=%d state: %s", vhOpsString(ops), p.size, m.stateString())
				if w.failed {
					return
				}
				vhcProbeAll(w, m, p, ops)
			}
		},
	})
}

func vhcProbeAll(w *vhWorld, m *vhModel, p vhcParams, ops []int) {
	cl := w.newProbeClient("u")
	var nProbes, nBadReq, nErr, nClamped, nPubs int
	for _, maxLimit := range vhcMaxLimits {
		w.n.config.HistoryMaxPublicationLimit = maxLimit
		for _, sn := range vhcSinces() {
			var since *protocol.StreamPosition
			if !sn.nil_ {
				ep, ok := sn.epoch(m)
				if !ok {
					continue
				}
				since = &protocol.StreamPosition{Offset: sn.off(m), Epoch: ep}
			}
			for _, limit := range vhcLimits {
				for _, reverse := range []bool{false, true} {
					req := &protocol.HistoryRequest{Channel: m.name, Limit: limit, Reverse: reverse}
					if since != nil {
						req.Since = &protocol.StreamPosition{Offset: since.Offset, Epoch: since.Epoch}
					}
					cl.cmd(&protocol.Command{History: req})
					vsched.WaitIdle()
					r := vhFindReply(cl, cl.id)
					nProbes++
					desc := func() string {
						return fmt.Sprintf("ops=%s size=%d max=%d state{%s} history{since=%s limit=%d reverse=%v} reply=%s",
							vhOpsString(ops), p.size, maxLimit, m.stateString(), sn.label, limit, reverse, r.kind())
					}
					cls := fmt.Sprintf("since=%s,limit=%d,rev=%v,max=%d", sn.label, limit, reverse, maxLimit)
					if r.missing || r.closed {
						w.fail("history-no-reply:"+cls, "%s", desc())
						continue
					}
					// clause 1: never more than the configured maximum
					if maxLimit > 0 && r.hist != nil && len(r.hist.Publications) > maxLimit {
						w.fail(fmt.Sprintf("history-exceeds-max-limit:limit%s", vhcLimitClass(int(limit), maxLimit)), "%s", desc())
					}
					// clause 2: reverse since offset 0 is a bad request
					if reverse && since != nil && since.Offset == 0 {
						nBadReq++
						if r.errCode != ErrorBadRequest.Code {
							w.fail("history-reverse-since0-not-bad-request", "%s", desc())
						}
						continue
					}
					// clause 3: equals the node-level result for the effective filter
					eff := int(limit)
					if maxLimit > 0 && (eff < 0 || eff > maxLimit) {
						eff = maxLimit
						nClamped++
					}
					f := HistoryFilter{Limit: eff, Reverse: reverse}
					if since != nil {
						f.Since = &StreamPosition{Offset: since.Offset, Epoch: since.Epoch}
					}
					want, werr := w.n.History(m.name, WithHistoryFilter(f))
					if werr != nil {
						nErr++
						wantCode := toClientErr(werr).Code
						if r.errCode != wantCode {
							w.fail("history-error-differs-from-node-level:"+fmt.Sprint(wantCode), "%s want error %d", desc(), wantCode)
						}
						continue
					}
					if r.hist == nil {
						w.fail("history-error-but-node-level-succeeds:"+fmt.Sprint(r.errCode), "%s", desc())
						continue
					}
					nPubs += len(r.hist.Publications)
					same := r.hist.Offset == want.Offset && r.hist.Epoch == want.Epoch && len(r.hist.Publications) == len(want.Publications)
					if same {
						for i, q := range r.hist.Publications {
							x := want.Publications[i]
							if q.Offset != x.Offset || string(q.Data) != string(x.Data) || q.Tags["t"] != x.Tags["t"] {
								same = false
							}
						}
					}
					if !same {
						var wl []string
						for _, x := range want.Publications {
							wl = append(wl, fmt.Sprint(x.Offset))
						}
						w.fail(fmt.Sprintf("history-differs-from-node-level:limit%s,rev=%v", vhcLimitClass(int(limit), maxLimit), reverse),
							"%s node-level{top=%d pubs=[%s]} reply{top=%d}", desc(), want.Offset, strings.Join(wl, " "), r.hist.Offset)
					}
				}
			}
		}
	}
	w.n.config.HistoryMaxPublicationLimit = 0
	vsched.Logf("probes=%d bad_request=%d node_errors=%d clamped=%d publications=%d", nProbes, nBadReq, nErr, nClamped, nPubs)
}

// vhcLimitClass classifies a requested limit relative to the configured maximum.
func vhcLimitClass(limit, maxLimit int) string {
	switch {
	case limit < 0:
		return "<0"
	case maxLimit > 0 && limit > maxLimit:
		return ">max"
	case limit == 0:
		return "=0"
	}
	return "<=max"
}

// ---- presence / presence stats ------------------------------------------------------------------

// Each of three potential members is in one of these states.
const (
	vpxAbsent = iota
	vpxSubU1
	vpxSubU2
	vpxSubThenUnsub
	vpxSubThenClose
	vpxNumStates
)

var vpxStateNames = [...]string{"-", "u1", "u2", "unsub", "closed"}

func init() {
	vsched.Register(&vsched.Harness{
		Name: "presencex", Props: []string{"C43"}, Kind: "sched",
		Doc: "E2. One execution = one membership configuration of a channel: three potential members each in {absent, subscribed as u1, subscribed as u2, subscribed then unsubscribed, subscribed then connection closed} " +
			"(125 configurations, EmitPresence with connection and channel info), then presence and presence_stats client commands from a non-member and from the first member. " +
			"Oracle: the presence reply (client id -> user, client, conn_info, chan_info) equals Node.Presence and the presence_stats reply equals Node.PresenceStats.",
		Variants: func(tier string) []vsched.Variant {
			return []vsched.Variant{{Name: "m3", Bound: 0, Shards: 4, NoCache: true, BudgetS: 90}}
		},
		Sched: func(v vsched.Variant) func() {
			n3 := vpxNumStates * vpxNumStates * vpxNumStates
			return func() {
				idx := vsched.ChooseFree(n3)
				vsched.Quiet(true)
				states := []int{idx % vpxNumStates, (idx / vpxNumStates) % vpxNumStates, idx / (vpxNumStates * vpxNumStates)}
				const ch = "room"
				n := vNewNode(nil)
				n.OnConnect(func(c *Client) {
					c.OnSubscribe(func(e SubscribeEvent, cb SubscribeCallback) {
						cb(SubscribeReply{Options: SubscribeOptions{EmitPresence: true, ChannelInfo: []byte(`{"ch":"` + c.UserID() + `"}`)}}, nil)
					})
					c.OnPresence(func(e PresenceEvent, cb PresenceCallback) { cb(PresenceReply{}, nil) })
					c.OnPresenceStats(func(e PresenceStatsEvent, cb PresenceStatsCallback) { cb(PresenceStatsReply{}, nil) })
				})
				if err := n.Run(); err != nil {
					panic(err)
				}
				connect := func(user string, info string) *vClient {
					cl := vNewClient(n, vNewTransport(), &Credentials{UserID: user, Info: []byte(info)})
					cl.connect()
					return cl
				}
				var members []*vClient
				var names []string
				for i, st := range states {
					names = append(names, vpxStateNames[st])
					if st == vpxAbsent {
						continue
					}
					user := "u1"
					if st == vpxSubU2 {
						user = "u2"
					}
					cl := connect(user, fmt.Sprintf(`{"conn":%d}`, i))
					cl.subscribe(ch)
					vsched.WaitIdle()
					switch st {
					case vpxSubThenUnsub:
						cl.unsubscribe(ch)
					case vpxSubThenClose:
						_ = cl.c.close(DisconnectConnectionClosed)
					default:
						members = append(members, cl)
					}
					vsched.WaitIdle()
				}
				askers := []*vClient{connect("asker", "")}
				if len(members) > 0 {
					askers = append(askers, members[0])
				}
				vsched.Logf("members=%v", names)
				for ai, a := range askers {
					a.cmd(&protocol.Command{Presence: &protocol.PresenceRequest{Channel: ch}})
					vsched.WaitIdle()
					rp := vhFindReply(a, a.id)
					a.cmd(&protocol.Command{PresenceStats: &protocol.PresenceStatsRequest{Channel: ch}})
					vsched.WaitIdle()
					rs := vhFindReply(a, a.id)
					want, err := n.Presence(ch)
					if err != nil {
						panic(err)
					}
					wantStats, err := n.PresenceStats(ch)
					if err != nil {
						panic(err)
					}
					var wl, gl []string
					for id, ci := range want.Presence {
						wl = append(wl, fmt.Sprintf("%s{user=%s client=%s conn=%s chan=%s}", id, ci.UserID, ci.ClientID, ci.ConnInfo, ci.ChanInfo))
					}
					sort.Strings(wl)
					if rp.pres == nil {
						vsched.Failf("presence-no-result", "members=%v asker=%d reply=%s", names, ai, rp.kind())
					} else {
						for id, ci := range rp.pres.Presence {
							gl = append(gl, fmt.Sprintf("%s{user=%s client=%s conn=%s chan=%s}", id, ci.User, ci.Client, ci.ConnInfo, ci.ChanInfo))
						}
						sort.Strings(gl)
						if strings.Join(gl, ",") != strings.Join(wl, ",") {
							vsched.Failf("presence-differs-from-node-level", "members=%v asker=%d reply=%v node-level=%v", names, ai, gl, wl)
						}
					}
					if rs.stats == nil {
						vsched.Failf("presence-stats-no-result", "members=%v asker=%d reply=%s", names, ai, rs.kind())
					} else if int(rs.stats.NumClients) != wantStats.NumClients || int(rs.stats.NumUsers) != wantStats.NumUsers {
						vsched.Failf("presence-stats-differs-from-node-level", "members=%v asker=%d reply{clients=%d users=%d} node-level{clients=%d users=%d}",
							names, ai, rs.stats.NumClients, rs.stats.NumUsers, wantStats.NumClients, wantStats.NumUsers)
					}
					vsched.Logf("asker=%d presence=%d entries stats{clients=%d users=%d}", ai, len(wl), wantStats.NumClients, wantStats.NumUsers)
				}
			}
		},
	})
}
