//go:build verif

package centrifuge

import (
	"fmt"
	"reflect"
	"runtime"
	"runtime/debug"
	"time"
)

// vSequentialProcess tunes the process for harnesses whose executions are strictly sequential
// hand-offs between a few threads (call it from the Sched factory, i.e. once per harness
// process): one P avoids futex wake-ups on every thread switch (4x faster), a larger GC target
// avoids collecting after every few executions.
func vSequentialProcess() {
	runtime.GOMAXPROCS(1)
	debug.SetGCPercent(400)
}

// Bare brokers for the sequential (E2) harnesses that need the virtual clock.
//
// NewMemoryBroker / NewMemoryMapBroker allocate 4096 publish mutexes per instance, which
// dominates the cost of an execution (thousands of executions per second are needed). The
// helpers below mirror the two constructors line by line but share the mutex table between
// executions: the mutexes are scheduler objects that reset themselves lazily at the start of
// every execution. A reflection guard compares the mirrored value with what the real constructor
// produces (same fields set / unset), so that a constructor change cannot go unnoticed.

var (
	vBareBrokerTmpl    *MemoryBroker
	vBareMapBrokerTmpl *MemoryMapBroker
)

func vSameShape(what string, a, b any) {
	va, vb := reflect.ValueOf(a).Elem(), reflect.ValueOf(b).Elem()
	for i := 0; i < va.NumField(); i++ {
		if va.Field(i).IsZero() != vb.Field(i).IsZero() {
			panic(fmt.Sprintf("verif: %s constructor drift: field %s is set in one of the real/mirrored values only", what, va.Type().Field(i).Name))
		}
	}
}

// vBareMemoryBroker returns a MemoryBroker equal to NewMemoryBroker(&Node{config: {HistoryMetaTTL}}).
func vBareMemoryBroker(historyMetaTTL time.Duration) *MemoryBroker {
	n := &Node{config: Config{HistoryMetaTTL: historyMetaTTL}}
	first := vBareBrokerTmpl == nil
	if first {
		t, err := NewMemoryBroker(n, MemoryBrokerConfig{})
		if err != nil {
			panic(err)
		}
		vBareBrokerTmpl = t
	}
	closeCh := make(chan struct{})
	b := &MemoryBroker{
		node:        n,
		historyHub:  newHistoryHub(n.config.HistoryMetaTTL, closeCh),
		pubLocks:    vBareBrokerTmpl.pubLocks,
		closeCh:     closeCh,
		resultCache: make(map[string]resultCacheEntry),
	}
	if first {
		vSameShape("MemoryBroker", vBareBrokerTmpl, b)
		vSameShape("historyHub", vBareBrokerTmpl.historyHub, b.historyHub)
	}
	return b
}

// vBareMemoryMapBroker returns a MemoryMapBroker equal to NewMemoryMapBroker(&Node{config: {Map: ...}}).
func vBareMemoryMapBroker(resolver func(channel string) MapChannelOptions) *MemoryMapBroker {
	n := &Node{config: Config{Map: MapConfig{GetMapChannelOptions: resolver}}}
	first := vBareMapBrokerTmpl == nil
	if first {
		t, err := NewMemoryMapBroker(n, MemoryMapBrokerConfig{})
		if err != nil {
			panic(err)
		}
		vBareMapBrokerTmpl = t
	}
	pubLocks := vBareMapBrokerTmpl.pubLocks
	closeCh := make(chan struct{})
	hub := newMapHub(n, pubLocks, closeCh)
	hub.setChannelOptionsResolver(n.config.Map.GetMapChannelOptions)
	e := &MemoryMapBroker{
		node:        n,
		mapHub:      hub,
		pubLocks:    pubLocks,
		closeCh:     closeCh,
		resultCache: make(map[string]map[string]resultCacheEntry),
	}
	if first {
		vSameShape("MemoryMapBroker", vBareMapBrokerTmpl, e)
		vSameShape("mapHub", vBareMapBrokerTmpl.mapHub, e.mapHub)
	}
	return e
}
