//go:build verif

package centrifuge

import (
	"context"
	"fmt"
	"sort"
	"strings"
	"sync"
	"time"

	"github.com/centrifugal/centrifuge/internal/filter"
	"github.com/centrifugal/centrifuge/internal/zzverif/vsched"
	"github.com/centrifugal/protocol"
)

// mapconverge (C22, E1): a protocol-following map subscription client (ONE thread: state pages ->
// stream pages -> live, or a recovery join from a saved position) against ONE writer thread
// modifying the channel (publish a / publish b / remove a / clear / key expiry / stream expiry),
// on a real Node with the Memory map broker and its cleanup goroutines. Page size is forced to
// 1-2 through the channel options. The broker's broadcasts are recorded (ground-truth change
// log). Oracle at quiescence: the client's map (built only from the frames it was sent) equals
// Node.MapStateRead restricted to the keys its filter admits, or the client was told
// (unrecoverable position / insufficient state / state invalidated); a recovered=true join never
// coexists with an admitted change after the client's position that was not delivered.

type mcCfg struct {
	mode       MapMode
	streamSize int      // 0: default (100)
	page       int      // DefaultPageSize
	filter     bool     // client tags filter admitting key a only
	recover    bool     // recovery join from the saved position instead of a fresh subscribe
	pre        []string // writer ops applied before the concurrent phase (after the saved position)
	ops        []string // writer ops of the concurrent phase
	pauses     int      // the client may wait for the writer before its request number 2..pauses+1 (free choice)
	empty      bool     // the channel has no keys before the concurrent phase (default: keys a and b)
	liveLimit  int      // LiveTransitionMaxPublicationLimit (0: default)
	singleFlight bool   // Config.UseSingleFlight (map state / stream reads coalesced)
}

func mcModeName(m MapMode) string {
	switch m {
	case MapModeEphemeral:
		return "eph"
	case MapModeRecoverable:
		return "rec"
	}
	return "pers"
}

func (c mcCfg) name() string {
	kind := "fresh"
	if c.recover {
		kind = "recover"
	}
	if c.empty {
		kind += "-empty"
	}
	if c.liveLimit > 0 {
		kind += fmt.Sprintf("-livelimit%d", c.liveLimit)
	}
	if c.singleFlight {
		kind += "-singleflight"
	}
	return fmt.Sprintf("%s/%s/s%d/pg%d/filter%v/pre-%s/w-%s/p%d", kind, mcModeName(c.mode), c.streamSize, c.page, c.filter, strings.Join(c.pre, "."), strings.Join(c.ops, "."), c.pauses)
}

const (
	mcKeyTTL    = 2 * time.Second
	mcStreamTTL = 3 * time.Second
	mcChannel   = "m"
)

// options: key expiry is only short in variants that sweep keys, stream expiry only in variants
// that let the stream expire (so that the two time-driven mechanisms are exercised separately).
func (c mcCfg) options() MapChannelOptions {
	o := MapChannelOptions{Mode: c.mode, MinPageSize: 1, DefaultPageSize: c.page, SubscribeCatchUpTimeout: -1, LiveTransitionMaxPublicationLimit: c.liveLimit}
	uses := func(op string) bool {
		for _, x := range append(append([]string{}, c.pre...), c.ops...) {
			if x == op {
				return true
			}
		}
		return false
	}
	if c.mode.HasExpiry() {
		o.KeyTTL = time.Hour
		if uses("kx") {
			o.KeyTTL = mcKeyTTL
		}
	}
	if c.mode.HasStream() {
		o.StreamSize = c.streamSize
		o.StreamTTL = time.Hour
		if uses("sx") {
			o.StreamTTL = mcStreamTTL
		}
		if c.mode.HasExpiry() {
			o.MetaTTL = 100 * time.Hour
		}
	}
	return o
}

var mcCfgs = map[string]mcCfg{}

func mcVariants(tier string) []vsched.Variant {
	var out []vsched.Variant
	thorough := tier == "thorough"
	// deep: explored with deviation bound 2 in the thorough tier (the others keep bound 1)
	addB := func(c mcCfg, shards int, deep bool) {
		bound, budget := 1, 150
		if thorough {
			budget = 400
			shards = 4
			if deep {
				bound, shards = 2, 16
			}
		}
		mcCfgs[c.name()] = c
		out = append(out, vsched.Variant{Name: c.name(), Bound: bound, Shards: shards, BudgetS: budget})
	}
	add := func(c mcCfg, shards int) { addB(c, shards, false) }
	deep := func(c mcCfg, shards int) { addB(c, shards, true) }
	w := func(s string) []string {
		if s == "" {
			return nil
		}
		return strings.Split(s, ".")
	}
	R, P, E := MapModeRecoverable, MapModePersistent, MapModeEphemeral
	// fresh subscribe, stream-backed, page size 1 (two state pages), large stream
	deep(mcCfg{mode: R, page: 1, ops: w("pa.pb.ra"), pauses: 2}, 2)
	add(mcCfg{mode: R, page: 1, ops: w("ra.pa.cl"), pauses: 2}, 2)
	add(mcCfg{mode: R, page: 1, ops: w("pb.kx"), pauses: 2}, 2)
	deep(mcCfg{mode: R, page: 1, filter: true, ops: w("pa.pb.ra"), pauses: 2}, 2)
	// stream of size 2: trimming between the state read and the live transition
	deep(mcCfg{mode: P, streamSize: 2, page: 1, ops: w("pa.pb.pa"), pauses: 2}, 2)
	add(mcCfg{mode: P, streamSize: 2, page: 2, ops: w("pa.pb.pa"), pauses: 1}, 1)
	// stream expiry between the state read and the live transition
	add(mcCfg{mode: P, page: 1, ops: w("pa.sx.pb"), pauses: 2}, 2)
	add(mcCfg{mode: P, page: 1, ops: w("pa.sx"), pauses: 2}, 2)
	// empty channel at subscribe time (position 0), stream of size 2
	add(mcCfg{mode: P, streamSize: 2, page: 1, empty: true, ops: w("pa.pb.pb"), pauses: 1}, 1)
	// single state page
	add(mcCfg{mode: R, page: 2, ops: w("pa.ra.pb"), pauses: 1}, 1)
	// ephemeral (streamless)
	add(mcCfg{mode: E, page: 2, ops: w("pa.ra"), pauses: 1}, 1)
	deep(mcCfg{mode: E, page: 1, ops: w("pa.pb"), pauses: 2}, 1)
	add(mcCfg{mode: E, page: 2, filter: true, ops: w("pb.pa"), pauses: 1}, 1)
	// recovery join from a saved position
	deep(mcCfg{mode: R, page: 1, recover: true, pre: w("pa"), ops: w("pb.ra.pa"), pauses: 1}, 1)
	add(mcCfg{mode: R, page: 1, recover: true, filter: true, pre: w("pb"), ops: w("pa.pb"), pauses: 1}, 1)
	deep(mcCfg{mode: P, streamSize: 2, page: 1, recover: true, pre: w("pa"), ops: w("pb.pa"), pauses: 1}, 1)
	add(mcCfg{mode: R, page: 1, recover: true, pre: w("pa"), ops: w("cl.pa"), pauses: 1}, 1)
	add(mcCfg{mode: P, page: 1, recover: true, pre: w("pa"), ops: w("sx.pb"), pauses: 1}, 1)
	add(mcCfg{mode: P, page: 1, recover: true, pre: w("pa"), ops: w("sx"), pauses: 1}, 1)
	add(mcCfg{mode: R, page: 1, recover: true, ops: w("kx.pa"), pauses: 1}, 1)
	// the same trimmed-stream scenarios with UseSingleFlight (reads go through the single-flight group)
	add(mcCfg{mode: P, streamSize: 2, page: 1, recover: true, singleFlight: true, pre: w("pa"), ops: w("pb.pa"), pauses: 1}, 1)
	add(mcCfg{mode: P, streamSize: 2, page: 1, recover: true, singleFlight: true, pre: w("ra.pb.pb"), ops: w("pb"), pauses: 1}, 1)
	add(mcCfg{mode: P, streamSize: 2, page: 1, singleFlight: true, ops: w("pa.pb.pa"), pauses: 2}, 2)
	// recovery join from further behind than LiveTransitionMaxPublicationLimit (2), with and without
	// a tags filter that withholds part of the missed window (key b): the read window is truncated,
	// so the join must be refused or deliver everything admitted up to the position it reports
	add(mcCfg{mode: R, page: 1, recover: true, filter: true, liveLimit: 2, pre: w("pb.pb.pa.ra"), ops: w("pb"), pauses: 1}, 1)
	add(mcCfg{mode: R, page: 1, recover: true, liveLimit: 2, pre: w("pb.pa.ra"), ops: w("pb"), pauses: 1}, 1)
	add(mcCfg{mode: R, page: 1, recover: true, filter: true, liveLimit: 2, pre: w("pb.pa"), ops: w("ra"), pauses: 1}, 1)
	if thorough {
		add(mcCfg{mode: P, page: 1, filter: true, ops: w("pb.ra.pa"), pauses: 3}, 16)
		add(mcCfg{mode: R, streamSize: 2, page: 1, ops: w("pb.kx"), pauses: 3}, 16)
		add(mcCfg{mode: R, page: 2, recover: true, filter: true, pre: w("pa.pb"), ops: w("ra.pb.pa"), pauses: 1}, 16)
	}
	return out
}

func init() {
	vsched.Register(&vsched.Harness{
		Name: "mapconverge", Props: []string{"C22"}, Kind: "sched",
		Doc: "real Node + Memory map broker (cleanup goroutines running, virtual clock); pre-state {a, b}; ONE client thread following the map subscription protocol through protocol.SubscribeRequest commands (state pages with the frozen first-page offset -> stream pages -> live, or recovery join from a saved position; page size 1-2 forced through MapChannelOptions; after an error reply it unsubscribes and subscribes once more from scratch), optionally waiting for the writer before its request number k (free choice); ONE writer thread doing <= 3 of {pa, pb: publish key a / b, ra: remove a, cl: clear, kx: virtual time past KeyTTL (expiry sweep), sx: virtual time past StreamTTL}; StreamSize 2 / 100, UseSingleFlight off / on, LiveTransitionMaxPublicationLimit default / 2 (recovery joins from 2-4 changes behind), modes ephemeral / recoverable / persistent, tags filter on/off (key a admitted, key b withheld); " +
			"quick: deviation bound 1; thorough: bound 2 for six variants, bound 1 for the others; " +
			"quiescence = both threads done, system idle, then one presence tick with ClientChannelPositionCheckDelay elapsed (the periodic position check is the mechanism that tells a live client about a Clear); " +
			"oracle at quiescence: the map the client holds (folded from the frames it was sent) equals Node.MapStateRead restricted to admitted keys, or the client was told (error 112 / insufficient-state or state-invalidated unsubscribe / disconnect); for a recovered=true join every admitted change recorded at the broker after the request position was delivered (all of them when the subscription is still open, those up to the last delivered offset when it was ended)",
		Variants: mcVariants,
		Sched:    func(v vsched.Variant) func() { return mcBody(mcCfgs[v.Name]) },
	})
}

// mcChange is one broadcast of the map broker (ground truth, in commit order).
type mcChange struct {
	epoch   string
	off     uint64
	key     string
	removed bool
	data    string
	clear   bool // MapClear (not broadcast; recorded by the writer)
	frames  int  // number of frames the client had been sent when the change was committed
}

type mcRecorder struct {
	next    BrokerEventHandler
	changes []mcChange
	tr      *vTransport
}

func (r *mcRecorder) HandlePublication(ch string, pub *Publication, sp StreamPosition, delta bool, prev *Publication) error {
	vsched.Visible()
	if ch == mcChannel {
		r.changes = append(r.changes, mcChange{epoch: sp.Epoch, off: pub.Offset, key: pub.Key, removed: pub.Removed, data: string(pub.Data), frames: len(r.tr.frames)})
	}
	return r.next.HandlePublication(ch, pub, sp, delta, prev)
}
func (r *mcRecorder) HandleJoin(ch string, info *ClientInfo) error {
	return r.next.HandleJoin(ch, info)
}
func (r *mcRecorder) HandleLeave(ch string, info *ClientInfo) error {
	return r.next.HandleLeave(ch, info)
}

// mcBroker is the Memory map broker with a recording event handler in front of the node.
type mcBroker struct {
	*MemoryMapBroker
	rec *mcRecorder
}

func (b *mcBroker) RegisterEventHandler(h BrokerEventHandler) error {
	b.rec.next = h
	return b.MemoryMapBroker.RegisterEventHandler(b.rec)
}

func mcNewBroker(n *Node, rec *mcRecorder) *mcBroker {
	// same wiring as NewMemoryMapBroker, but only the publish lock of the channel in use is
	// allocated (4096 scheduler-managed mutexes per execution are expensive)
	pubLocks := map[int]*sync.Mutex{index(mcChannel, numPubLocks): {}}
	closeCh := make(chan struct{})
	hub := newMapHub(n, pubLocks, closeCh)
	hub.setChannelOptionsResolver(n.config.Map.GetMapChannelOptions)
	return &mcBroker{
		MemoryMapBroker: &MemoryMapBroker{node: n, mapHub: hub, pubLocks: pubLocks, closeCh: closeCh, resultCache: make(map[string]map[string]resultCacheEntry)},
		rec:             rec,
	}
}

func mcFilter() *protocol.FilterNode {
	return &protocol.FilterNode{Op: filter.OpLeaf, Key: "t", Cmp: filter.CompareEQ, Val: "a"}
}

// mcReq remembers what a request was, for the fold over the frames.
type mcReq struct {
	id     uint32
	kind   string // state0 | state | stream | recover | unsub
	offset uint64
	epoch  string
}

// mcDriver is the protocol-following client.
type mcDriver struct {
	cl      *vClient
	replies chan *protocol.Reply
	closed  chan struct{}
	filter  bool
	pauseAt int // wait for the writer before subscribe request number pauseAt (1-based); 0: never
	pauseCh chan struct{}
	nreq    int
	reqs    []mcReq
}

func (d *mcDriver) send(kind string, req *protocol.SubscribeRequest) *protocol.Reply {
	d.nreq++
	if d.nreq == d.pauseAt {
		<-d.pauseCh
	}
	req.Channel = mcChannel
	req.Type = int32(SubscriptionTypeMap)
	cmd := &protocol.Command{Subscribe: req}
	proceed := d.cl.cmd(cmd)
	d.reqs = append(d.reqs, mcReq{id: cmd.Id, kind: kind, offset: req.Offset, epoch: req.Epoch})
	if !proceed {
		return nil
	}
	return d.await(cmd.Id)
}

// await blocks until the reply to command id was written to the transport (or the connection
// was closed).
func (d *mcDriver) await(id uint32) *protocol.Reply {
	for {
		select {
		case r := <-d.replies:
			if r.Id == id {
				return r
			}
		case <-d.closed:
			return nil
		}
	}
}

// fresh runs state pages -> stream pages -> live. Returns true when the server said live.
func (d *mcDriver) fresh() bool {
	first := &protocol.SubscribeRequest{Phase: MapPhaseState}
	if d.filter {
		first.Tf = mcFilter()
	}
	r := d.send("state0", first)
	if r == nil || r.Error != nil || r.Subscribe == nil {
		return false
	}
	offset, epoch := r.Subscribe.Offset, r.Subscribe.Epoch // frozen first-page position
	for r.Subscribe.Phase == MapPhaseState && r.Subscribe.Cursor != "" {
		r = d.send("state", &protocol.SubscribeRequest{Phase: MapPhaseState, Cursor: r.Subscribe.Cursor, Offset: offset, Epoch: epoch})
		if r == nil || r.Error != nil || r.Subscribe == nil {
			return false
		}
	}
	for steps := 0; r.Subscribe.Phase != MapPhaseLive; steps++ {
		if steps > 8 {
			vsched.Failf("no-progress", "client still not live after 8 stream pages")
			return false
		}
		r = d.send("stream", &protocol.SubscribeRequest{Phase: MapPhaseStream, Offset: offset, Epoch: epoch})
		if r == nil || r.Error != nil || r.Subscribe == nil {
			return false
		}
		offset = r.Subscribe.Offset
	}
	return true
}

func (d *mcDriver) recoverJoin(pos StreamPosition) bool {
	req := &protocol.SubscribeRequest{Phase: MapPhaseLive, Recover: true, Offset: pos.Offset, Epoch: pos.Epoch}
	if d.filter {
		req.Tf = mcFilter()
	}
	r := d.send("recover", req)
	return r != nil && r.Error == nil && r.Subscribe != nil
}

func (d *mcDriver) run(saved *StreamPosition) {
	for attempt := 0; attempt < 2; attempt++ {
		var live bool
		if saved != nil && attempt == 0 {
			live = d.recoverJoin(*saved)
		} else {
			live = d.fresh()
		}
		if live || d.cl.t.closed {
			return
		}
		// told: drop everything, tell the server, start from scratch (once)
		cmd := &protocol.Command{Unsubscribe: &protocol.UnsubscribeRequest{Channel: mcChannel}}
		proceed := d.cl.cmd(cmd)
		d.reqs = append(d.reqs, mcReq{id: cmd.Id, kind: "unsub"})
		if !proceed || d.await(cmd.Id) == nil {
			return
		}
	}
}

func mcSortedKeys(m map[string]string) string {
	var ks []string
	for k, v := range m {
		ks = append(ks, k+"="+v)
	}
	sort.Strings(ks)
	return "{" + strings.Join(ks, " ") + "}"
}

func mcPubs(ps []*protocol.Publication) string {
	var l []string
	for _, p := range ps {
		if p.Removed {
			l = append(l, fmt.Sprintf("-%s@%d", p.Key, p.Offset))
		} else {
			l = append(l, fmt.Sprintf("%s=%s@%d", p.Key, p.Data, p.Offset))
		}
	}
	return "[" + strings.Join(l, " ") + "]"
}

func mcBody(cfg mcCfg) func() {
	return func() {
		vsched.Quiet(true)
		ctx := context.Background()
		chOpts := cfg.options()
		n := vNewNode(func(c *Config) {
			c.Map.GetMapChannelOptions = func(string) MapChannelOptions { return chOpts }
			c.ClientChannelPositionCheckDelay = time.Second
			c.UseSingleFlight = cfg.singleFlight
		})
		rec := &mcRecorder{}
		n.SetMapBroker(mcNewBroker(n, rec))
		closedCh := make(chan struct{}) // closed when the connection ends (the driver stops waiting for replies)
		n.OnConnect(func(c *Client) {
			c.OnSubscribe(func(e SubscribeEvent, cb SubscribeCallback) {
				cb(SubscribeReply{Options: SubscribeOptions{Type: SubscriptionTypeMap, AllowTagsFilter: true}}, nil)
			})
			c.OnDisconnect(func(DisconnectEvent) { close(closedCh) })
		})
		if err := n.Run(); err != nil {
			panic(err)
		}
		replies := make(chan *protocol.Reply, 64)
		cl := vNewClient(n, vNewTransport(), &Credentials{UserID: "u"})
		rec.tr = cl.t
		cl.connect()
		vsched.WaitIdle()
		cl.t.onFrame = func(f vFrame) {
			if f.Reply.Id != 0 {
				replies <- f.Reply
			}
		}

		// ---- writer
		seq := 0
		var opLog []string
		writerOp := func(op string) {
			seq++
			switch op {
			case "pa", "pb":
				key := op[1:]
				if _, err := n.MapPublish(ctx, mcChannel, key, MapPublishOptions{Data: []byte(fmt.Sprintf(`"%s%d"`, key, seq)), Tags: map[string]string{"t": key}}); err != nil {
					panic(err)
				}
			case "ra":
				if _, err := n.MapRemove(ctx, mcChannel, "a", MapRemoveOptions{}); err != nil {
					panic(err)
				}
			case "cl":
				if err := n.MapClear(ctx, mcChannel, MapClearOptions{}); err != nil {
					panic(err)
				}
				rec.changes = append(rec.changes, mcChange{clear: true, frames: len(rec.tr.frames)})
			case "kx", "sx":
				// Virtual time passes while every other thread is parked (the client is waiting
				// for the writer or has finished); the broker's own cleanup goroutines do the work.
				d := mcKeyTTL + 1500*time.Millisecond
				if op == "sx" {
					d = mcStreamTTL + 1500*time.Millisecond
				}
				vsched.WaitIdle()
				q := vschedQuiet()
				vsched.Quiet(true)
				vsched.Advance(int64(d))
				vsched.Quiet(q)
			default:
				panic("unknown writer op " + op)
			}
			opLog = append(opLog, op)
		}
		vschedSetQuiet(true)
		if !cfg.empty {
			writerOp("pa")
			writerOp("pb")
		}
		opLog = nil
		// saved position of a client that was live until now
		var saved *StreamPosition
		savedModel := map[string]string{}
		if cfg.recover {
			res, err := n.MapStateRead(ctx, mcChannel, MapReadStateOptions{Limit: -1})
			if err != nil {
				panic(err)
			}
			saved = &StreamPosition{Offset: res.Position.Offset, Epoch: res.Position.Epoch}
			for _, p := range res.Publications {
				if !cfg.filter || p.Key == "a" {
					savedModel[p.Key] = string(p.Data)
				}
			}
		}
		for _, op := range cfg.pre {
			writerOp(op)
		}
		vsched.WaitIdle()
		vschedSetQuiet(false)
		vsched.Quiet(false)

		// ---- concurrent phase
		drv := &mcDriver{cl: cl, filter: cfg.filter, pauseCh: make(chan struct{}), replies: replies, closed: closedCh}
		// 0: the client never waits; k: it waits for the writer to finish before its request number
		// k+1 -- or, when the writer lets virtual time pass (which happens only while the client
		// is parked), before request k, so that time can also pass before the first request
		if k := vsched.ChooseFree(cfg.pauses + 1); k > 0 {
			drv.pauseAt = k + 1
			for _, op := range cfg.ops {
				if op == "kx" || op == "sx" {
					drv.pauseAt = k
				}
			}
		}
		var wg sync.WaitGroup
		wg.Add(2)
		go func() { // client
			defer wg.Done()
			drv.run(saved)
		}()
		go func() { // writer
			defer wg.Done()
			defer close(drv.pauseCh)
			for _, op := range cfg.ops {
				writerOp(op)
			}
		}()
		wg.Wait()
		vsched.WaitIdle()
		vsched.Quiet(true)
		vschedSetQuiet(true)
		// traffic has stopped: the periodic position check runs once with its delay elapsed
		vsched.Advance(int64(3 * time.Second))
		cl.c.updatePresence()
		vsched.WaitIdle()
		vsched.Advance(int64(100 * time.Millisecond))

		// ---- fold the frames into the client's view
		admitted := func(key string) bool { return !cfg.filter || key == "a" }
		reqByID := map[uint32]mcReq{}
		for _, r := range drv.reqs {
			reqByID[r.id] = r
		}
		model := map[string]string{}
		for k, v := range savedModel {
			model[k] = v
		}
		apply := func(p *protocol.Publication) {
			if p.Removed {
				delete(model, p.Key)
			} else {
				model[p.Key] = string(p.Data)
			}
		}
		live := false
		told := ""
		ignored := 0
		type bracket struct {
			recovered bool
			from      StreamPosition
			delivered map[uint64]bool
			maxOff    uint64
			open      bool
		}
		var brackets []*bracket
		var cur *bracket
		var view []string
		liveFrame := -1
		for fi, f := range cl.t.frames {
			r := f.Reply
			req, isReply := reqByID[r.Id]
			switch {
			case isReply && r.Id != 0 && req.kind == "unsub":
				live = false
				view = append(view, "unsubscribed")
			case isReply && r.Id != 0 && r.Error != nil:
				live = false
				told = fmt.Sprintf("error:%d", r.Error.Code)
				view = append(view, fmt.Sprintf("%s->error(%d)", req.kind, r.Error.Code))
				if r.Error.Code != ErrorUnrecoverablePosition.Code {
					vsched.Failf(fmt.Sprintf("unexpected-error:%d:%s", r.Error.Code, req.kind), "request %s answered with error %d %s", req.kind, r.Error.Code, r.Error.Message)
				}
				model = map[string]string{}
			case isReply && r.Id != 0 && r.Subscribe != nil:
				s := r.Subscribe
				if req.kind == "state0" {
					model = map[string]string{}
					told = ""
				}
				for _, p := range s.State {
					apply(p)
				}
				for _, p := range s.Publications {
					apply(p)
				}
				view = append(view, fmt.Sprintf("%s->phase%d(cursor=%q,off=%d,recd=%v,state=%s,pubs=%s)", req.kind, s.Phase, s.Cursor, s.Offset, s.Recovered, mcPubs(s.State), mcPubs(s.Publications)))
				if s.Phase == MapPhaseLive {
					live = true
					told = ""
					liveFrame = fi
					cur = &bracket{recovered: s.Recovered, from: StreamPosition{Offset: req.offset, Epoch: req.epoch}, delivered: map[uint64]bool{}, open: true}
					brackets = append(brackets, cur)
					for _, p := range s.Publications {
						cur.delivered[p.Offset] = true
						if p.Offset > cur.maxOff {
							cur.maxOff = p.Offset
						}
					}
				}
			case r.Push != nil && r.Push.Channel == mcChannel && r.Push.Pub != nil:
				if !live {
					ignored++
					view = append(view, "ignored-push"+mcPubs([]*protocol.Publication{r.Push.Pub}))
					continue
				}
				apply(r.Push.Pub)
				cur.delivered[r.Push.Pub.Offset] = true
				if r.Push.Pub.Offset > cur.maxOff {
					cur.maxOff = r.Push.Pub.Offset
				}
				view = append(view, "push"+mcPubs([]*protocol.Publication{r.Push.Pub}))
			case r.Push != nil && r.Push.Channel == mcChannel && r.Push.Unsubscribe != nil:
				live = false
				told = fmt.Sprintf("unsubscribe:%d", r.Push.Unsubscribe.Code)
				view = append(view, told)
				if cur != nil {
					cur.open = false
				}
			case r.Push != nil && r.Push.Disconnect != nil:
				live = false
				told = fmt.Sprintf("disconnect:%d", r.Push.Disconnect.Code)
				view = append(view, told)
				if cur != nil {
					cur.open = false
				}
			}
		}
		if cl.t.closed {
			live = false
			told = fmt.Sprintf("closed:%d", cl.t.closeDisc.Code)
			if cur != nil {
				cur.open = false
			}
			if cl.t.closeDisc.Code != DisconnectInsufficientState.Code {
				vsched.Failf(fmt.Sprintf("unexpected-disconnect:%d", cl.t.closeDisc.Code), "connection closed with %d %s; %s", cl.t.closeDisc.Code, cl.t.closeDisc.Reason, strings.Join(view, " ; "))
			}
		}

		// ---- broker state
		res, err := n.MapStateRead(ctx, mcChannel, MapReadStateOptions{Limit: -1})
		if err != nil {
			panic(err)
		}
		want := map[string]string{}
		for _, p := range res.Publications {
			if admitted(p.Key) {
				want[p.Key] = string(p.Data)
			}
		}
		var chg []string
		for _, c := range rec.changes {
			if c.clear {
				chg = append(chg, "clear")
			} else if c.removed {
				chg = append(chg, fmt.Sprintf("-%s@%d", c.key, c.off))
			} else {
				chg = append(chg, fmt.Sprintf("%s=%s@%d", c.key, c.data, c.off))
			}
		}
		vsched.Logf("pause=%d view=%s", drv.pauseAt, strings.Join(view, " ; "))
		var chgAt []int
		for _, c := range rec.changes {
			chgAt = append(chgAt, c.frames)
		}
		vsched.Logf("live=%v told=%q client=%s broker=%s changes=%v", live, told, mcSortedKeys(model), mcSortedKeys(want), chg)
		detail := fmt.Sprintf("writer ops %v (pre %v), client waits for the writer before request %d (0: never); client view: %s; broker changes: %v (broadcast when the client had been sent %v frames; the live reply is frame %d)", cfg.ops, cfg.pre, drv.pauseAt, strings.Join(view, " ; "), chg, chgAt, liveFrame)

		mode := mcModeName(cfg.mode)
		kind := "fresh"
		if cfg.recover {
			kind = "recover"
		}
		if live {
			if mcSortedKeys(model) != mcSortedKeys(want) {
				// culprit: the last recorded change of a key on which client and broker differ
				// (or a clear), and whether it was committed before the live reply was written
				when := "after-live"
				culprit := -1
				for i, c := range rec.changes {
					if c.clear {
						culprit = i
						continue
					}
					if !admitted(c.key) {
						continue
					}
					cv, cok := model[c.key]
					wv, wok := want[c.key]
					if cok != wok || cv != wv {
						culprit = i
					}
				}
				if culprit >= 0 {
					if rec.changes[culprit].clear {
						when = "clear"
					} else if rec.changes[culprit].frames <= liveFrame {
						when = "during-subscribe"
					}
				}
				how := "state-to-live"
				for _, r := range drv.reqs {
					if r.kind == "stream" {
						how = "stream-to-live"
					}
				}
				if len(brackets) > 0 && brackets[len(brackets)-1].recovered {
					how = "recovery-join"
				}
				cause := ""
				for _, op := range opLog {
					if op == "sx" {
						cause = ":stream-expired"
					}
				}
				if cause == "" && cfg.streamSize > 0 && cfg.streamSize < 10 {
					cause = ":stream-trimmed"
				}
				sig := "diverged:" + mode + ":" + when + ":" + how
				if cause != "" {
					sig = "diverged:" + mode + ":" + when + cause
				}
				vsched.Failf(sig, "client is live and was told nothing, but holds %s while the broker state (admitted keys) is %s; %s", mcSortedKeys(model), mcSortedKeys(want), detail)
			}
		} else if told == "" {
			vsched.Failf("not-live-not-told:"+kind, "client is neither live nor was it told anything; %s", detail)
		}
		// recovered=true: every admitted change after the request position was delivered
		for _, b := range brackets {
			if !b.recovered {
				continue
			}
			for _, c := range rec.changes {
				if c.epoch != b.from.Epoch || c.off <= b.from.Offset || !admitted(c.key) {
					continue
				}
				if b.delivered[c.off] {
					continue
				}
				if b.open || c.off < b.maxOff {
					cause := ""
					for _, op := range opLog {
						if op == "sx" {
							cause = ":stream-expired"
						}
					}
					if cause == "" && cfg.streamSize > 0 && cfg.streamSize < 10 {
						cause = ":stream-trimmed"
					}
					vsched.Failf("recovered-gap:"+mode+cause, "join from position %d answered recovered=true, but the change at offset %d (key %s) was never delivered (subscription open=%v, last delivered offset %d); %s", b.from.Offset, c.off, c.key, b.open, b.maxOff, detail)
					break
				}
			}
		}
		_ = ignored
	}
}
