//go:build verif

package centrifuge

import (
	"bytes"
	"context"
	"encoding/json"
	"fmt"
	"io"
	"sort"
	"strings"
	"time"

	"github.com/centrifugal/centrifuge/internal/saferand"
	"github.com/centrifugal/centrifuge/internal/zzverif/vhelp"
	"github.com/centrifugal/centrifuge/internal/zzverif/vrand"
	"github.com/centrifugal/centrifuge/internal/zzverif/vsched"
	"github.com/centrifugal/protocol"
	"github.com/google/uuid"
)

// ---- common parts of the Node-based harnesses ------------------------------------------------

var vBgMarked bool

func init() {
	uuid.SetRand(vrand.Reader)
	vsched.OnReset(func() {
		randSource = saferand.New(1)
		vBgMarked = false
	})
}

// vNewNode creates a node whose configuration was adjusted by mod. Metrics aggregation (a
// goroutine of a non-rewritten library) is switched off. The caller registers handlers and
// calls n.Run().
func vNewNode(mod func(c *Config)) *Node {
	cfg := Config{LogLevel: LogLevelNone}
	cfg.Metrics.RegistererGatherer = vhelp.NoopRegistry{}
	if mod != nil {
		mod(&cfg)
	}
	n, err := New(cfg)
	if err != nil {
		panic(err)
	}
	n.config.NodeInfoMetricsAggregateInterval = 0
	return n
}

// vFrame is one message the server wrote to a transport, decoded.
type vFrame struct {
	Reply *protocol.Reply // bidirectional: a Reply (with or without Push); unidirectional: Push wrapped into Reply.Push
	Batch int             // index of the Write/WriteMany call that carried it
	Raw   []byte
}

// vTransport is the recording transport double. Every write is a Visible() scheduling point.
type vTransport struct {
	proto        ProtocolType
	uni          bool
	emulation    bool
	disabledPush uint64
	ping         PingPongConfig

	frames     []vFrame
	writes     int
	closed     bool
	closeCount int
	closeDisc  Disconnect
	failWrite  int // fail the k-th Write/WriteMany call (1-based); 0: never
	afterClose int // frames written after Close returned
	onFrame    func(f vFrame)
}

func vNewTransport() *vTransport {
	return &vTransport{proto: ProtocolTypeJSON, disabledPush: PushFlagDisconnect}
}

func (t *vTransport) Name() string                     { return "verif" }
func (t *vTransport) AcceptProtocol() string           { return "h1" }
func (t *vTransport) Protocol() ProtocolType           { return t.proto }
func (t *vTransport) ProtocolVersion() ProtocolVersion { return ProtocolVersion2 }
func (t *vTransport) Unidirectional() bool             { return t.uni }
func (t *vTransport) Emulation() bool                  { return t.emulation }
func (t *vTransport) DisabledPushFlags() uint64        { return t.disabledPush }
func (t *vTransport) PingPongConfig() PingPongConfig   { return t.ping }

func (t *vTransport) decode(data []byte) *protocol.Reply {
	if t.uni {
		var p protocol.Push
		var err error
		if t.proto == ProtocolTypeJSON {
			err = json.Unmarshal(data, &p)
		} else {
			err = p.UnmarshalVT(data)
		}
		if err != nil {
			panic(fmt.Sprintf("verif transport: cannot decode push %q: %v", data, err))
		}
		return &protocol.Reply{Push: &p}
	}
	var dec protocol.ReplyDecoder
	if t.proto == ProtocolTypeJSON {
		dec = protocol.NewJSONReplyDecoder(data)
	} else {
		// transports receive bare protobuf replies (length prefixes are added by the handlers)
		var r protocol.Reply
		if err := r.UnmarshalVT(data); err != nil {
			panic(fmt.Sprintf("verif transport: cannot decode protobuf reply: %v", err))
		}
		return &r
	}
	r, err := dec.Decode()
	if err != nil && err != io.EOF {
		panic(fmt.Sprintf("verif transport: cannot decode reply %q: %v", data, err))
	}
	return r
}

func (t *vTransport) write(msgs ...[]byte) error {
	vsched.Visible()
	t.writes++
	if t.closed {
		t.afterClose += len(msgs)
		return io.EOF
	}
	if t.failWrite > 0 && t.writes == t.failWrite {
		return io.ErrClosedPipe
	}
	for _, m := range msgs {
		f := vFrame{Reply: t.decode(m), Batch: t.writes, Raw: append([]byte(nil), m...)}
		t.frames = append(t.frames, f)
		if t.onFrame != nil {
			t.onFrame(f)
		}
	}
	return nil
}

func (t *vTransport) Write(m []byte) error          { return t.write(m) }
func (t *vTransport) WriteMany(ms ...[]byte) error  { return t.write(ms...) }
func (t *vTransport) Close(d Disconnect) error {
	vsched.Visible()
	t.closeCount++
	if !t.closed {
		t.closed = true
		t.closeDisc = d
	}
	return nil
}

// describe renders a frame for observation logs and oracles.
func (f vFrame) describe() string {
	r := f.Reply
	var sb strings.Builder
	if r.Id != 0 {
		fmt.Fprintf(&sb, "#%d ", r.Id)
	}
	switch {
	case r.Error != nil:
		fmt.Fprintf(&sb, "error(%d)", r.Error.Code)
	case r.Connect != nil:
		fmt.Fprintf(&sb, "connect(subs=%s)", vSubsDesc(r.Connect.Subs))
	case r.Subscribe != nil:
		s := r.Subscribe
		fmt.Fprintf(&sb, "subscribe(rec=%v,recd=%v,off=%d,ep=%s,pubs=%s)", s.Recoverable, s.Recovered, s.Offset, s.Epoch, vPubsDesc(s.Publications))
	case r.Unsubscribe != nil:
		sb.WriteString("unsubscribe()")
	case r.Publish != nil:
		sb.WriteString("publish()")
	case r.Presence != nil:
		sb.WriteString("presence()")
	case r.PresenceStats != nil:
		sb.WriteString("presence_stats()")
	case r.History != nil:
		fmt.Fprintf(&sb, "history(%s)", vPubsDesc(r.History.Publications))
	case r.Rpc != nil:
		sb.WriteString("rpc()")
	case r.Refresh != nil:
		sb.WriteString("refresh()")
	case r.SubRefresh != nil:
		sb.WriteString("sub_refresh()")
	case r.Push != nil:
		p := r.Push
		switch {
		case p.Pub != nil:
			fmt.Fprintf(&sb, "pub[%s](%s)", p.Channel, vPubDesc(p.Pub))
		case p.Join != nil:
			fmt.Fprintf(&sb, "join[%s](%s)", p.Channel, p.Join.Info.GetClient())
		case p.Leave != nil:
			fmt.Fprintf(&sb, "leave[%s](%s)", p.Channel, p.Leave.Info.GetClient())
		case p.Unsubscribe != nil:
			fmt.Fprintf(&sb, "unsub[%s](%d)", p.Channel, p.Unsubscribe.Code)
		case p.Subscribe != nil:
			s := p.Subscribe
			fmt.Fprintf(&sb, "sub[%s](rec=%v,off=%d,ep=%s)", p.Channel, s.Recoverable, s.Offset, s.Epoch)
		case p.Message != nil:
			fmt.Fprintf(&sb, "message(%s)", p.Message.Data)
		case p.Disconnect != nil:
			fmt.Fprintf(&sb, "disconnect(%d)", p.Disconnect.Code)
		case p.Connect != nil:
			fmt.Fprintf(&sb, "connectpush(subs=%s)", vSubsDesc(p.Connect.Subs))
		case p.Refresh != nil:
			sb.WriteString("refreshpush()")
		default:
			sb.WriteString("push?")
		}
	default:
		sb.WriteString("pong/empty")
	}
	return sb.String()
}

func vPubDesc(p *protocol.Publication) string {
	d := string(p.Data)
	if len(d) > 24 {
		d = d[:24] + "~"
	}
	s := fmt.Sprintf("%d:%s", p.Offset, d)
	if p.Delta {
		s += ":delta"
	}
	return s
}

func vPubsDesc(ps []*protocol.Publication) string {
	var l []string
	for _, p := range ps {
		l = append(l, vPubDesc(p))
	}
	return "[" + strings.Join(l, " ") + "]"
}

func vSubsDesc(m map[string]*protocol.SubscribeResult) string {
	var ks []string
	for k, s := range m {
		ks = append(ks, fmt.Sprintf("%s{recd=%v,off=%d,pubs=%s}", k, s.Recovered, s.Offset, vPubsDesc(s.Publications)))
	}
	sort.Strings(ks)
	return "[" + strings.Join(ks, " ") + "]"
}

func (t *vTransport) log() []string {
	var l []string
	for _, f := range t.frames {
		l = append(l, f.describe())
	}
	return l
}

// vClient bundles a client with its transport.
type vClient struct {
	c     *Client
	t     *vTransport
	close ClientCloseFunc
	id    uint32
	delta string // delta type requested by subscribe()
}

func vNewClient(n *Node, t *vTransport, cred *Credentials) *vClient {
	if !vBgMarked {
		// everything that runs before the first connection exists is node housekeeping
		vBgMarked = true
		vsched.WaitIdle()
		vsched.BackgroundExisting()
	}
	ctx := context.Background()
	if cred != nil {
		ctx = SetCredentials(ctx, cred)
	}
	c, cf, err := NewClient(ctx, n, t)
	if err != nil {
		panic(err)
	}
	return &vClient{c: c, t: t, close: cf}
}

// cmd feeds one command through the public HandleCommand entry; returns false when the
// connection must be closed by the reader.
func (v *vClient) cmd(c *protocol.Command) bool {
	if c.Id == 0 && c.Send == nil {
		v.id++
		c.Id = v.id
	}
	return v.c.HandleCommand(c, 0)
}

// raw feeds a command as is (no id assignment): pongs, id-less commands.
func (v *vClient) raw(c *protocol.Command) bool { return v.c.HandleCommand(c, 0) }

func (v *vClient) connect() bool {
	return v.cmd(&protocol.Command{Connect: &protocol.ConnectRequest{}})
}

func (v *vClient) subscribe(ch string) bool {
	return v.cmd(&protocol.Command{Subscribe: &protocol.SubscribeRequest{Channel: ch, Delta: v.delta}})
}

func (v *vClient) unsubscribe(ch string) bool {
	return v.cmd(&protocol.Command{Unsubscribe: &protocol.UnsubscribeRequest{Channel: ch}})
}

// vJSONCommands encodes commands as one JSON frame the way a client would.
func vJSONCommands(cmds ...*protocol.Command) []byte {
	var buf bytes.Buffer
	enc := protocol.NewJSONCommandEncoder()
	for i, c := range cmds {
		b, err := enc.Encode(c)
		if err != nil {
			panic(err)
		}
		if i > 0 {
			buf.WriteByte('\n')
		}
		buf.Write(b)
	}
	return buf.Bytes()
}

const vMs = int64(time.Millisecond)
const vSec = int64(time.Second)
