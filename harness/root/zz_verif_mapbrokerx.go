//go:build verif

package centrifuge

import (
	"context"
	"fmt"
	"strings"
	"time"

	"github.com/centrifugal/centrifuge/internal/zzverif/vsched"
)

// mapbrokerx (C20): every history up to a depth over a per-variant alphabet of map broker calls
// is run on a fresh MemoryMapBroker (virtual clock, no cleanup goroutines: the key expiry sweep is
// the explicit call mapHub.expireKeysIteration) and compared call by call with the reference
// model of zz_verif_mapmodel.go. Letter 0 of every step is "stop", so every prefix of a history
// is an execution of its own that ends with the full set of API reads.

type mxLetter struct {
	op      byte // 'P' publish, 'R' remove, 'C' clear, 'T' advance + sweep, 'S' API reads
	ch      string
	key     string
	mode    KeyMode
	cas     byte // 0 none, 'c' current position of the key, 's' stale offset, 'e' stale epoch
	ver     uint64
	vep     string
	idem    string
	refresh bool
	adv     int64 // ms
}

func (l mxLetter) name() string {
	switch l.op {
	case 'P':
		s := "P " + l.ch + "/" + l.key
		if l.mode != "" {
			s += " " + string(l.mode)
		}
		if l.cas != 0 {
			s += " cas-" + string(l.cas)
		}
		if l.ver != 0 {
			s += fmt.Sprintf(" v%d%s", l.ver, l.vep)
		}
		if l.idem != "" {
			s += " idem-" + l.idem
		}
		if l.refresh {
			s += " refresh"
		}
		return s
	case 'R':
		s := "R " + l.ch + "/" + l.key
		if l.cas != 0 {
			s += " cas-" + string(l.cas)
		}
		if l.idem != "" {
			s += " idem-" + l.idem
		}
		return s
	case 'C':
		return "C " + l.ch
	case 'T':
		return fmt.Sprintf("T +%dms sweep", l.adv)
	case 'S':
		return "S reads"
	}
	return "?"
}

// kind is the input class used in failure signatures (no channel / key names).
func (l mxLetter) kind() string {
	switch l.op {
	case 'P':
		return "publish"
	case 'R':
		return "remove"
	case 'C':
		return "clear"
	case 'T':
		return "sweep"
	}
	return "read"
}

type mxCfg struct {
	name    string
	chanCfg mxChanCfg
	chans   []string
	keys    []string
	letters []mxLetter
	depth   int
	shards  int
}

const mxIdemTTL = 1000 // ms

var mxCfgs = map[string]*mxCfg{}

func mxModeName(m MapMode) string {
	switch m {
	case MapModeEphemeral:
		return "ephemeral"
	case MapModeRecoverable:
		return "recoverable"
	}
	return "persistent"
}

func mxChanCfgFor(mode MapMode, ordered bool, streamSize int) mxChanCfg {
	c := mxChanCfg{mode: mode, ordered: ordered}
	if mode.HasExpiry() {
		c.keyTTL = 1000
	}
	if mode.HasStream() {
		c.streamSize = streamSize
		if streamSize == 0 {
			c.streamSize = 100
		}
	}
	return c
}

func mxVariants(tier string) []vsched.Variant {
	var out []vsched.Variant
	thorough := tier == "thorough"
	add := func(c *mxCfg) {
		mxCfgs[c.name] = c
		out = append(out, vsched.Variant{Name: c.name, Bound: 0, NoCache: true, Shards: c.shards, BudgetS: 280})
	}
	modes := []MapMode{MapModePersistent, MapModeRecoverable, MapModeEphemeral}

	// family "order": check order version -> key mode -> CAS on one key, with remove/clear/expiry.
	for _, mode := range modes {
		var ls []mxLetter
		for _, km := range []KeyMode{KeyModeReplace, KeyModeIfNew, KeyModeIfExists} {
			for _, cas := range []byte{0, 'c', 's'} {
				for _, ver := range []uint64{0, 1, 2} {
					ls = append(ls, mxLetter{op: 'P', ch: "c1", key: "a", mode: km, cas: cas, ver: ver})
				}
			}
		}
		ls = append(ls, mxLetter{op: 'P', ch: "c1", key: "a", cas: 'e'})
		for _, cas := range []byte{0, 'c', 's'} {
			ls = append(ls, mxLetter{op: 'R', ch: "c1", key: "a", cas: cas})
		}
		ls = append(ls, mxLetter{op: 'C', ch: "c1"}, mxLetter{op: 'S'})
		if mode.HasExpiry() {
			ls = append(ls, mxLetter{op: 'T', adv: 1000})
		}
		depth, shards := 3, 2
		if thorough {
			depth, shards = 4, 16
		}
		if mode.IsEphemeral() {
			depth, shards = 3, 1 // CAS and version are rejected with an error: depth 3 covers it
		}
		add(&mxCfg{name: "order/" + mxModeName(mode), chanCfg: mxChanCfgFor(mode, false, 0), chans: []string{"c1"}, keys: []string{"a"}, letters: ls, depth: depth, shards: shards})
	}

	// family "vepoch": version epochs and version retention across unversioned publishes / removes.
	{
		var ls []mxLetter
		for _, ver := range []uint64{1, 2} {
			for _, vep := range []string{"", "e1", "e2"} {
				ls = append(ls, mxLetter{op: 'P', ch: "c1", key: "a", ver: ver, vep: vep})
			}
		}
		ls = append(ls, mxLetter{op: 'P', ch: "c1", key: "a"}, mxLetter{op: 'P', ch: "c1", key: "b", ver: 2}, mxLetter{op: 'R', ch: "c1", key: "a"},
			mxLetter{op: 'P', ch: "c1", key: "a", mode: KeyModeIfNew, ver: 1, vep: "e1"}, mxLetter{op: 'C', ch: "c1"})
		depth, shards := 4, 4
		if thorough {
			depth, shards = 5, 11
		}
		add(&mxCfg{name: "vepoch/persistent", chanCfg: mxChanCfgFor(MapModePersistent, false, 0), chans: []string{"c1"}, keys: []string{"a", "b"}, letters: ls, depth: depth, shards: shards})
	}

	// family "idem": idempotency keys (result TTL 1 s) against the other checks, two channels.
	for _, mode := range []MapMode{MapModeRecoverable, MapModeEphemeral} {
		var ls []mxLetter
		for _, km := range []KeyMode{KeyModeReplace, KeyModeIfNew, KeyModeIfExists} {
			for _, ver := range []uint64{0, 1} {
				if mode.IsEphemeral() && ver > 0 {
					continue
				}
				ls = append(ls, mxLetter{op: 'P', ch: "c1", key: "a", mode: km, ver: ver, idem: "k1"})
			}
		}
		ls = append(ls,
			mxLetter{op: 'P', ch: "c1", key: "a", idem: "k2"},
			mxLetter{op: 'P', ch: "c1", key: "a"},
			mxLetter{op: 'R', ch: "c1", key: "a"},
			mxLetter{op: 'R', ch: "c1", key: "a", idem: "r1"},
			mxLetter{op: 'P', ch: "c2", key: "a", idem: "k1"},
			mxLetter{op: 'C', ch: "c1"},
			mxLetter{op: 'T', adv: 600},
			mxLetter{op: 'S'},
		)
		if mode.HasStream() {
			ls = append(ls, mxLetter{op: 'P', ch: "c1", key: "a", ver: 2}, mxLetter{op: 'P', ch: "c1", key: "a", cas: 's', idem: "k1"}, mxLetter{op: 'R', ch: "c1", key: "a", cas: 's', idem: "r1"})
		}
		depth, shards := 4, 4
		if thorough {
			depth, shards = 5, 16
		}
		add(&mxCfg{name: "idem/" + mxModeName(mode), chanCfg: mxChanCfgFor(mode, false, 0), chans: []string{"c1", "c2"}, keys: []string{"a"}, letters: ls, depth: depth, shards: shards})
	}

	// family "ttl": key expiry, keep-alive, republish, remove and CAS after expiry; two keys;
	// unordered and ordered state.
	for _, mode := range []MapMode{MapModeRecoverable, MapModeEphemeral} {
		for _, ordered := range []bool{false, true} {
			if ordered && mode.IsEphemeral() && !thorough {
				continue
			}
			ls := []mxLetter{
				{op: 'P', ch: "c1", key: "a"},
				{op: 'P', ch: "c1", key: "b"},
				{op: 'P', ch: "c1", key: "a", mode: KeyModeIfNew, refresh: true},
				{op: 'P', ch: "c1", key: "a", mode: KeyModeIfNew},
				{op: 'P', ch: "c1", key: "a", mode: KeyModeIfExists},
				{op: 'R', ch: "c1", key: "a"},
				{op: 'T', adv: 600},
				{op: 'T', adv: 1000},
				{op: 'C', ch: "c1"},
				{op: 'S'},
			}
			if mode.HasStream() {
				ls = append(ls, mxLetter{op: 'P', ch: "c1", key: "a", cas: 'c'}, mxLetter{op: 'R', ch: "c1", key: "b", cas: 'c'})
			}
			n := "ttl/" + mxModeName(mode)
			if ordered {
				n += "-ordered"
			}
			add(&mxCfg{name: n, chanCfg: mxChanCfgFor(mode, ordered, 0), chans: []string{"c1"}, keys: []string{"a", "b"}, letters: ls, depth: 5, shards: 6})
			if thorough && !ordered {
				// one step deeper over the alphabet without the two least productive letters
				var ls6 []mxLetter
				for _, l := range ls {
					if (l.op == 'P' && l.mode == KeyModeIfNew && !l.refresh) || (l.op == 'R' && l.cas != 0) {
						continue
					}
					ls6 = append(ls6, l)
				}
				add(&mxCfg{name: n + "-depth6", chanCfg: mxChanCfgFor(mode, ordered, 0), chans: []string{"c1"}, keys: []string{"a", "b"}, letters: ls6, depth: 6, shards: 12})
			}
		}
	}

	// family "trim": stream size 2, two keys, ordered state; stream reads from every position.
	for _, mode := range []MapMode{MapModePersistent, MapModeRecoverable} {
		if mode == MapModeRecoverable && !thorough {
			continue
		}
		ls := []mxLetter{
			{op: 'P', ch: "c1", key: "a"},
			{op: 'P', ch: "c1", key: "b"},
			{op: 'R', ch: "c1", key: "a"},
			{op: 'R', ch: "c1", key: "b"},
			{op: 'P', ch: "c1", key: "a", cas: 'c'},
			{op: 'P', ch: "c1", key: "b", mode: KeyModeIfNew},
			{op: 'C', ch: "c1"},
			{op: 'S'},
		}
		if mode.HasExpiry() {
			ls = append(ls, mxLetter{op: 'T', adv: 1000})
		}
		depth, shards := 5, 4
		if thorough {
			depth, shards = 6, 8
		}
		add(&mxCfg{name: "trim/" + mxModeName(mode) + "-ordered-s2", chanCfg: mxChanCfgFor(mode, true, 2), chans: []string{"c1"}, keys: []string{"a", "b"}, letters: ls, depth: depth, shards: shards})
	}

	// family "twochan": isolation of two channels (state, stream, clear, expiry).
	{
		var ls []mxLetter
		for _, ch := range []string{"c1", "c2"} {
			ls = append(ls, mxLetter{op: 'P', ch: ch, key: "a"}, mxLetter{op: 'R', ch: ch, key: "a"}, mxLetter{op: 'C', ch: ch},
				mxLetter{op: 'P', ch: ch, key: "a", cas: 'c'})
		}
		ls = append(ls, mxLetter{op: 'T', adv: 600}, mxLetter{op: 'S'})
		depth, shards := 4, 2
		if thorough {
			depth, shards = 5, 4
		}
		add(&mxCfg{name: "twochan/recoverable", chanCfg: mxChanCfgFor(MapModeRecoverable, false, 0), chans: []string{"c1", "c2"}, keys: []string{"a"}, letters: ls, depth: depth, shards: shards})
	}
	return out
}

func init() {
	vsched.Register(&vsched.Harness{
		Name: "mapbrokerx", Props: []string{"C20"}, Kind: "sched",
		Doc: "MemoryMapBroker (fresh per history, virtual clock, explicit expiry sweep) vs reference map+list: all histories up to the variant's depth over " +
			"{publish(key mode, CAS current/stale offset/stale epoch, version 0-2 / version epochs, idempotency key, refresh-on-suppress), remove(CAS, idempotency), clear, advance+sweep, API reads}; " +
			"families order / vepoch / idem / ttl / trim / twochan x modes ephemeral, recoverable, persistent x ordered; oracle per call: error/suppress reason in the order idempotency, version, key mode, CAS; " +
			"position; CurrentEntry; exactly one broadcast with the stream offset per applied call, none per suppressed call; at the end of every history (= after every prefix): " +
			"ReadState (all, per key, both directions), ReadStream (all, position only, since every offset), Stats equal the model",
		Variants: mxVariants,
		Sched:    func(v vsched.Variant) func() { return mxBody(mxCfgs[v.Name]) },
	})
}

var mxScores = []int64{2, 1, 2, 0, 1, 0, 2}

type mxRun struct {
	cfg    *mxCfg
	b      *MemoryMapBroker
	rec    *vMapRecorder
	m      *mxModel
	seen   int // broadcasts already checked
	lastOp string
	trace  []string
	failed bool
}

func (r *mxRun) fail(fs []mxFail) {
	for _, f := range fs {
		r.failed = true
		vsched.Failf(f.sig, "%s | history: %s", f.msg, strings.Join(r.trace, " ; "))
	}
}

func (r *mxRun) newEvents() []mxEvent {
	ev := r.rec.events[r.seen:]
	r.seen = len(r.rec.events)
	return ev
}

func (r *mxRun) casFor(ch, key string, kind byte) *StreamPosition {
	if kind == 0 {
		return nil
	}
	c := r.m.ch(ch)
	var cur uint64
	if k, ok := c.keys[key]; ok {
		cur = k.off
	}
	switch kind {
	case 'c':
		return &StreamPosition{Offset: cur, Epoch: c.epoch}
	case 's':
		if cur > 0 {
			return &StreamPosition{Offset: cur - 1, Epoch: c.epoch}
		}
		return &StreamPosition{Offset: cur + 1, Epoch: c.epoch}
	}
	return &StreamPosition{Offset: cur, Epoch: "stale-epoch"}
}

func mxBody(cfg *mxCfg) func() {
	resolve := func(string) MapChannelOptions { return cfg.chanCfg.options() }
	return func() {
		ctx := context.Background()
		r := &mxRun{cfg: cfg, rec: &vMapRecorder{}, m: newMxModel(cfg.chanCfg)}
		r.b = vNewMapBroker(resolve, r.rec, false, cfg.chans...)
		var classes []string
		for step := 0; step < cfg.depth && !r.failed; step++ {
			pick := vsched.ChooseFree(len(cfg.letters) + 1)
			if pick == 0 {
				break
			}
			l := cfg.letters[pick-1]
			r.trace = append(r.trace, l.name())
			switch l.op {
			case 'P':
				data := fmt.Sprintf("d%d", step)
				score := mxScores[step%len(mxScores)]
				cas := r.casFor(l.ch, l.key, l.cas)
				want := r.m.publish(l.ch, l.key, mxPub{data: data, mode: l.mode, cas: cas, ver: l.ver, vep: l.vep, idem: l.idem, idemTTL: mxIdemTTL, refresh: l.refresh, score: score})
				got, err := r.b.Publish(ctx, l.ch, l.key, MapPublishOptions{Data: []byte(data), KeyMode: l.mode, ExpectedPosition: cas, Version: l.ver, VersionEpoch: l.vep,
					IdempotencyKey: l.idem, IdempotentResultTTL: mxIdemTTL * time.Millisecond, RefreshTTLOnSuppress: l.refresh, score: score})
				c := r.m.ch(l.ch)
				r.fail(mxCheckUpdate("publish", c, want, got, err))
				r.fail(mxCheckBroadcast("publish", c, want, r.newEvents(), cfg.chanCfg.mode.HasStream()))
				r.lastOp = "publish/" + want.class()
				classes = append(classes, "P:"+want.class())
			case 'R':
				cas := r.casFor(l.ch, l.key, l.cas)
				want := r.m.remove(l.ch, l.key, mxRem{cas: cas, idem: l.idem, idemTTL: mxIdemTTL})
				got, err := r.b.Remove(ctx, l.ch, l.key, MapRemoveOptions{ExpectedPosition: cas, IdempotencyKey: l.idem, IdempotentResultTTL: mxIdemTTL * time.Millisecond})
				c := r.m.ch(l.ch)
				r.fail(mxCheckUpdate("remove", c, want, got, err))
				r.fail(mxCheckBroadcast("remove", c, want, r.newEvents(), cfg.chanCfg.mode.HasStream()))
				r.lastOp = "remove/" + want.class()
				classes = append(classes, "R:"+want.class())
			case 'C':
				r.m.clear(l.ch)
				if err := r.b.Clear(ctx, l.ch, MapClearOptions{}); err != nil {
					r.fail([]mxFail{{"clear-error", err.Error()}})
				}
				if ev := r.newEvents(); len(ev) != 0 {
					r.fail([]mxFail{{"broadcast-by-clear", fmt.Sprintf("clear broadcast %v", ev)}})
				}
				r.lastOp = "clear"
				classes = append(classes, "C")
			case 'T':
				vsched.Advance(l.adv * int64(time.Millisecond))
				r.m.now += l.adv
				n := r.sweep()
				r.lastOp = fmt.Sprintf("sweep/%d", n)
				classes = append(classes, r.lastOp)
			case 'S':
				r.reads()
				classes = append(classes, "S")
			}
		}
		if !r.failed {
			r.reads()
		}
		vsched.Logf("%s => %s", strings.Join(classes, " "), r.m.digest())
	}
}

// sweep runs one expiry iteration and checks: exactly the keys whose deadline was reached are
// removed, each once, each with one stream entry (stream-backed) and one broadcast.
func (r *mxRun) sweep() int {
	want := r.m.expired()
	var scratch int64
	r.b.mapHub.expireKeysIteration(&scratch)
	got := r.newEvents()
	pending := map[[2]string]bool{}
	for _, w := range want {
		pending[w] = true
	}
	for _, g := range got {
		id := [2]string{g.ch, g.key}
		if !g.removed {
			r.fail([]mxFail{{"sweep-broadcast-not-removal", fmt.Sprintf("sweep broadcast %v", g)}})
			continue
		}
		if !pending[id] {
			sig := "sweep-removed-unexpired-key"
			for _, w := range want {
				if w == id {
					sig = "sweep-removed-twice"
				}
			}
			r.fail([]mxFail{{sig, fmt.Sprintf("sweep at +%dms broadcast %v; expired keys: %v", r.m.now, g, want)}})
			continue
		}
		delete(pending, id)
		c := r.m.ch(g.ch)
		w := r.m.expire(g.ch, g.key)
		r.fail(mxCheckBroadcast("sweep", c, mxRes{bcast: &w}, []mxEvent{g}, r.cfg.chanCfg.mode.HasStream()))
	}
	if len(pending) > 0 {
		r.fail([]mxFail{{"sweep-missed-expired-key", fmt.Sprintf("sweep at +%dms did not remove %v (broadcasts %v)", r.m.now, pending, got)}})
		for id := range pending {
			r.m.expire(id[0], id[1])
		}
	}
	return len(want)
}

// reads compares everything the read API returns with the model, for every channel.
func (r *mxRun) reads() {
	ctx := context.Background()
	after := ":after=" + r.lastOp
	for _, chName := range r.cfg.chans {
		c := r.m.ch(chName)
		c.exists = true // reads establish the channel (and its epoch)
		pos := func(what string, p StreamPosition) {
			if !c.bindEpoch(p.Epoch) {
				r.fail([]mxFail{{"read-epoch:" + what + after, fmt.Sprintf("%s position epoch %q, channel epoch %q", what, p.Epoch, c.epoch)}})
			}
			if p.Offset != c.top {
				r.fail([]mxFail{{"read-top:" + what + after, fmt.Sprintf("%s position offset %d, model top %d", what, p.Offset, c.top)}})
			}
		}
		dirs := []bool{false}
		if r.cfg.chanCfg.ordered {
			dirs = []bool{false, true, false}
		}
		for _, asc := range dirs {
			res, err := r.b.ReadState(ctx, chName, MapReadStateOptions{Limit: -1, Asc: asc})
			if err != nil {
				r.fail([]mxFail{{"read-state-error" + after, err.Error()}})
				continue
			}
			pos("state", res.Position)
			want := c.sortedKeys(r.cfg.chanCfg.ordered, asc)
			ok := len(want) == len(res.Publications) && res.Cursor == ""
			if ok {
				for i, k := range want {
					p, e := res.Publications[i], c.keys[k]
					if p.Key != k || string(p.Data) != e.data || p.Offset != e.off || p.Removed || (r.cfg.chanCfg.ordered && p.Score != e.score) {
						ok = false
					}
				}
			}
			if !ok {
				r.fail([]mxFail{{"state-mismatch" + after, fmt.Sprintf("ReadState(asc=%v) = %s cursor=%q, model %s", asc, mxPubsDesc(res.Publications), res.Cursor, r.m.digest())}})
			}
		}
		for _, k := range r.cfg.keys {
			res, err := r.b.ReadState(ctx, chName, MapReadStateOptions{Key: k})
			if err != nil {
				r.fail([]mxFail{{"read-key-error" + after, err.Error()}})
				continue
			}
			pos("key", res.Position)
			e, has := c.keys[k]
			switch {
			case !has && len(res.Publications) != 0:
				r.fail([]mxFail{{"key-read-phantom" + after, fmt.Sprintf("key %s read %s, model has no such key", k, mxPubsDesc(res.Publications))}})
			case has && (len(res.Publications) != 1 || res.Publications[0].Key != k || string(res.Publications[0].Data) != e.data || res.Publications[0].Offset != e.off):
				r.fail([]mxFail{{"key-read-mismatch" + after, fmt.Sprintf("key %s read %s, model %s@%d", k, mxPubsDesc(res.Publications), e.data, e.off)}})
			}
		}
		st, err := r.b.Stats(ctx, chName)
		if err != nil || st.NumKeys != len(c.keys) {
			r.fail([]mxFail{{"stats-mismatch" + after, fmt.Sprintf("NumKeys %d (err %v), model %d", st.NumKeys, err, len(c.keys))}})
		}
		// stream: everything, position only, since every offset
		checkStream := func(what string, opts MapReadStreamOptions, want []mxEvent) {
			res, err := r.b.ReadStream(ctx, chName, opts)
			if err != nil {
				r.fail([]mxFail{{"read-stream-error:" + what + after, err.Error()}})
				return
			}
			pos("stream-"+what, res.Position)
			ok := len(res.Publications) == len(want)
			if ok {
				for i, w := range want {
					p := res.Publications[i]
					if p.Offset != w.off || p.Key != w.key || p.Removed != w.removed || string(p.Data) != w.data {
						ok = false
					}
				}
			}
			if !ok {
				r.fail([]mxFail{{"stream-mismatch:" + what + after, fmt.Sprintf("ReadStream(%s) = %s, model %v", what, mxPubsDesc(res.Publications), want)}})
			}
		}
		checkStream("all", MapReadStreamOptions{Filter: StreamFilter{Limit: -1}}, c.stream)
		checkStream("position", MapReadStreamOptions{Filter: StreamFilter{Limit: 0}}, nil)
		for off := uint64(0); off <= c.top; off++ {
			var want []mxEvent
			for _, e := range c.stream {
				if e.off > off {
					want = append(want, e)
				}
			}
			what := "since"
			if off == c.top {
				what = "since-top"
			}
			checkStream(what, MapReadStreamOptions{Filter: StreamFilter{Limit: -1, Since: &StreamPosition{Offset: off, Epoch: c.epoch}}}, want)
		}
		if ev := r.newEvents(); len(ev) != 0 {
			r.fail([]mxFail{{"broadcast-by-read", fmt.Sprintf("reads broadcast %v", ev)}})
		}
	}
}
