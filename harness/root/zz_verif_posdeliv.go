//go:build verif

package centrifuge

import (
	"fmt"
	"sync"
	"time"

	"github.com/centrifugal/centrifuge/internal/filter"
	"github.com/centrifugal/centrifuge/internal/zzverif/vsched"
	"github.com/centrifugal/protocol"
)

// posdeliv (C01, E1): positioned stream delivery is gap-free, duplicate-free and ordered.
// Threads: S subscribes (fresh / recovering / server-side), P publishes, D delivers the
// broker's queued PUB/SUB messages with drop / duplicate / delay faults, H optionally removes
// history. Oracle on the client's frame log.

type posdelivCfg struct {
	mode    string // fresh | recover | server | server-recover | posonly
	pre     int    // publications before the subscribe (delivered normally)
	from    int    // recover from this offset (<= pre)
	filter  string // "" | client | server
	faults  bool   // delivery faults as environment choices
	npub    int    // concurrent publications
	remove  bool   // an H thread calls RemoveHistory
	histSz  int
	staleEp bool // recover with a foreign epoch
	tick    bool // mode held: a T thread runs the periodic position check (check delay always elapsed); a duplicated delivery may also arrive late, after the check
}

func (c posdelivCfg) name() string {
	return fmt.Sprintf("%s/pre%d/from%d/filter-%s/faults%v/npub%d/remove%v/size%d/stale%v", c.mode, c.pre, c.from, c.filter, c.faults, c.npub, c.remove, c.histSz, c.staleEp) + map[bool]string{true: "/tick"}[c.tick]
}

var posdelivCfgs = map[string]posdelivCfg{}

func posdelivVariants(tier string) []vsched.Variant {
	var out []vsched.Variant
	add := func(c posdelivCfg, bound, shards, budget int) {
		if c.histSz == 0 {
			c.histSz = 10
		}
		posdelivCfgs[c.name()] = c
		out = append(out, vsched.Variant{Name: c.name(), Bound: bound, Shards: shards, BudgetS: budget})
	}
	if tier == "quick" {
		add(posdelivCfg{mode: "fresh", pre: 1, npub: 2}, 1, 1, 75)
		add(posdelivCfg{mode: "recover", pre: 2, from: 1, npub: 2}, 1, 1, 75)
		add(posdelivCfg{mode: "recover", pre: 2, from: 0, npub: 2, filter: "client"}, 1, 1, 75)
		add(posdelivCfg{mode: "recover", pre: 2, from: 1, npub: 2, filter: "server"}, 1, 1, 75)
		add(posdelivCfg{mode: "recover", pre: 1, from: 1, npub: 2, faults: true}, 1, 1, 75)
		add(posdelivCfg{mode: "fresh", pre: 1, npub: 2, faults: true, filter: "client"}, 1, 1, 75)
		add(posdelivCfg{mode: "posonly", pre: 1, npub: 2, faults: true}, 1, 1, 75)
		add(posdelivCfg{mode: "server", pre: 1, npub: 2}, 1, 1, 75)
		add(posdelivCfg{mode: "recover", pre: 2, from: 1, npub: 1, remove: true}, 1, 1, 75)
		add(posdelivCfg{mode: "recover", pre: 2, from: 2, npub: 2, staleEp: true}, 0, 1, 75)
		// an established subscription, its periodic position check (a stream-top read) overlapping live
		// deliveries, broker redelivering a publication late
		add(posdelivCfg{mode: "held", pre: 1, npub: 1, faults: true, tick: true}, 1, 2, 75)
		add(posdelivCfg{mode: "held", pre: 1, npub: 2, tick: true}, 1, 2, 75)
		return out
	}
	// thorough: deviation bound 2 on a selection that covers every mode, filter and fault dimension
	// (the full product does not fit a few minutes on 16 cores)
	for _, c := range []posdelivCfg{
		{mode: "fresh", pre: 2, npub: 2},
		{mode: "fresh", pre: 2, npub: 2, filter: "client", faults: true},
		{mode: "recover", pre: 2, from: 1, npub: 2},
		{mode: "recover", pre: 2, from: 1, npub: 2, faults: true},
		{mode: "recover", pre: 2, from: 0, npub: 2, filter: "client"},
		{mode: "recover", pre: 2, from: 1, npub: 2, filter: "server", faults: true},
		{mode: "posonly", pre: 2, npub: 2, faults: true},
		{mode: "server", pre: 2, npub: 2},
		{mode: "server", pre: 2, npub: 2, filter: "server", faults: true},
		{mode: "recover", pre: 2, from: 1, npub: 2, remove: true},
		{mode: "recover", pre: 2, from: 0, npub: 2, histSz: 2},
		{mode: "recover", pre: 2, from: 2, npub: 2, staleEp: true},
	} {
		add(c, 2, 4, 150)
	}
	add(posdelivCfg{mode: "recover", pre: 2, from: 0, npub: 3, filter: "client", faults: true}, 2, 8, 200)
	add(posdelivCfg{mode: "held", pre: 1, npub: 2, faults: true, tick: true}, 2, 8, 200)
	add(posdelivCfg{mode: "held", pre: 2, npub: 2, tick: true}, 2, 4, 150)
	return out
}

func init() {
	vsched.Register(&vsched.Harness{
		Name: "posdeliv", Props: []string{"C01"}, Kind: "sched",
		Doc:      "node + chaos broker (queued PUB/SUB deliveries); threads: S subscribe (fresh / recover from (k,epoch) / positioning only / server-side Client.Subscribe), P publishes 2-3 publications with alternating tags, D delivers with faults {deliver, drop, duplicate, delay} as environment choices, H RemoveHistory; filter variants none/client/server; oracle on the client's frames: recovered ++ live offsets strictly increase, every offset between subscribe position and last delivered offset delivered or withheld by the filter, nothing for the channel after an insufficient-state unsubscribe/disconnect, without faults a still-open subscription has accounted for the stream top",
		Variants: posdelivVariants,
		Sched:    func(v vsched.Variant) func() { return posdelivBody(posdelivCfgs[v.Name]) },
	})
}

func posdelivFilter() *protocol.FilterNode {
	return &protocol.FilterNode{Op: filter.OpLeaf, Key: "t", Cmp: filter.CompareEQ, Val: "a"}
}

func posdelivBody(cfg posdelivCfg) func() {
	return func() {
		vsched.Quiet(true)
		const ch = "ch"
		n := vNewNode(func(c *Config) {
			if cfg.tick {
				c.ClientChannelPositionCheckDelay = time.Nanosecond // every tick checks the position
			}
		})
		broker := vInstallChaosBroker(n, false)
		n.OnConnect(func(c *Client) {
			c.OnSubscribe(func(e SubscribeEvent, cb SubscribeCallback) {
				opts := SubscribeOptions{EnableRecovery: cfg.mode != "posonly", EnablePositioning: true, AllowTagsFilter: true}
				if cfg.filter == "server" {
					opts.ServerTagsFilter = posdelivFilter()
				}
				cb(SubscribeReply{Options: opts}, nil)
			})
		})
		if err := n.Run(); err != nil {
			panic(err)
		}
		cl := vNewClient(n, vNewTransport(), &Credentials{UserID: "u"})
		cl.connect()

		tagOf := map[uint64]string{}
		var epoch string
		publish := func(i int) {
			tag := "a"
			if i%2 == 1 {
				tag = "b"
			}
			res, err := n.Publish(ch, []byte(fmt.Sprintf(`{"n":%d}`, i)), WithHistory(cfg.histSz, time.Minute), WithTags(map[string]string{"t": tag}))
			if err != nil {
				panic(err)
			}
			tagOf[res.Offset] = tag
			epoch = res.Epoch
		}
		for i := 0; i < cfg.pre; i++ {
			publish(i)
		}
		if cfg.mode == "held" {
			cl.cmd(&protocol.Command{Subscribe: &protocol.SubscribeRequest{Channel: ch}})
		}
		vsched.WaitIdle()
		if cfg.tick {
			vsched.Advance(int64(2 * time.Second)) // the position check is due (its clock has second granularity)
			broker.historyDelay = int64(time.Second) // the stream-top read of the position check answers late
			vsched.SetHorizon(int64(3 * time.Second))
		}
		broker.queue = true
		vsched.Quiet(false)

		// ---- concurrent phase
		faultsInjected := 0
		var wg sync.WaitGroup
		wg.Add(3)
		pubDone := make(chan struct{})
		tickDone := make(chan struct{})
		if cfg.tick {
			wg.Add(1)
			go func() { // T: the connection's periodic tick (presence update + position check)
				defer wg.Done()
				cl.c.updatePresence()
				close(tickDone)
			}()
		} else {
			close(tickDone)
		}
		go func() { // P
			defer wg.Done()
			for i := 0; i < cfg.npub; i++ {
				publish(cfg.pre + i)
			}
			close(pubDone)
		}()
		go func() { // D
			defer wg.Done()
			var delayed, late []vBrokerEvent
			handle := func(e vBrokerEvent) {
				c := 0
				if cfg.faults {
					k := 4
					if cfg.tick {
						k = 5
					}
					c = vsched.Choose(k)
				}
				switch c {
				case 0:
					broker.deliver(e)
				case 1: // drop
					faultsInjected++
				case 2: // duplicate
					faultsInjected++
					broker.deliver(e)
					broker.deliver(e)
				case 3: // delay behind the next delivery
					faultsInjected++
					delayed = append(delayed, e)
					return
				case 4: // delivered now and redelivered late (after the periodic check has finished)
					faultsInjected++
					broker.deliver(e)
					late = append(late, e)
				}
				for _, d := range delayed {
					broker.deliver(d)
				}
				delayed = nil
			}
			for {
				select {
				case e := <-broker.evq:
					handle(e)
				case <-pubDone:
					for {
						select {
						case e := <-broker.evq:
							handle(e)
							continue
						default:
						}
						break
					}
					for _, d := range delayed {
						broker.deliver(d)
					}
					if len(late) > 0 {
						<-tickDone
						for _, d := range late {
							broker.deliver(d)
						}
					}
					return
				}
			}
		}()
		reqOffset := uint64(cfg.from)
		reqEpoch := epoch
		if cfg.staleEp {
			reqEpoch = "zzzz"
		}
		go func() { // S
			defer wg.Done()
			switch cfg.mode {
			case "held": // subscribed in the setup
			case "fresh", "posonly":
				req := &protocol.SubscribeRequest{Channel: ch}
				if cfg.filter == "client" {
					req.Tf = posdelivFilter()
				}
				cl.cmd(&protocol.Command{Subscribe: req})
			case "recover":
				req := &protocol.SubscribeRequest{Channel: ch, Recover: true, Offset: reqOffset, Epoch: reqEpoch}
				if cfg.filter == "client" {
					req.Tf = posdelivFilter()
				}
				cl.cmd(&protocol.Command{Subscribe: req})
			case "server":
				opts := []SubscribeOption{WithRecovery(true), WithPositioning(true)}
				if cfg.filter == "server" {
					opts = append(opts, func(o *SubscribeOptions) { o.ServerTagsFilter = posdelivFilter() })
				}
				_ = cl.c.Subscribe(ch, opts...)
			}
		}()
		if cfg.remove {
			wg.Add(1)
			go func() {
				defer wg.Done()
				_ = n.RemoveHistory(ch)
				faultsInjected++
			}()
		}
		wg.Wait()
		vsched.WaitIdle()
		vsched.Quiet(true)

		// ---- oracle
		withheld := func(off uint64) bool {
			if cfg.filter == "" {
				return false
			}
			if cfg.mode == "server" && cfg.filter == "client" {
				return false
			}
			t, known := tagOf[off]
			return known && t != "a"
		}
		frames := cl.t.frames
		for _, l := range cl.t.log() {
			vsched.Logf("%s", l)
		}
		open := false
		ended := false
		var pos uint64
		var lastDelivered uint64
		deliver := func(off uint64, where string) {
			if off <= pos {
				vsched.Failf("not-increasing", "%s offset %d does not increase (position %d): %v", where, off, pos, cl.t.log())
				return
			}
			for o := pos + 1; o < off; o++ {
				if !withheld(o) {
					vsched.Failf("gap", "%s offset %d delivered but offset %d was neither delivered nor withheld by the filter (position %d): %v", where, off, o, pos, cl.t.log())
					break
				}
			}
			pos = off
			lastDelivered = off
		}
		for _, f := range frames {
			r := f.Reply
			switch {
			case r.Subscribe != nil && !open && !ended:
				open = true
				s := r.Subscribe
				if cfg.mode == "recover" && s.Recovered {
					pos = reqOffset
					for _, p := range s.Publications {
						deliver(p.Offset, "recovered")
					}
				} else {
					if len(s.Publications) > 0 {
						vsched.Failf("pubs-without-recovered", "subscribe reply carries publications with recovered=false: %v", cl.t.log())
					}
					pos = s.Offset
				}
			case r.Push != nil && r.Push.Channel == ch && r.Push.Subscribe != nil && !open && !ended:
				open = true
				pos = r.Push.Subscribe.Offset
			case r.Push != nil && r.Push.Channel == ch && r.Push.Pub != nil:
				if !open {
					vsched.Failf("pub-outside-subscription", "publication %d pushed while no subscription is open (ended=%v): %v", r.Push.Pub.Offset, ended, cl.t.log())
					continue
				}
				deliver(r.Push.Pub.Offset, "live")
			case r.Push != nil && r.Push.Channel == ch && r.Push.Unsubscribe != nil:
				open = false
				ended = true
			case r.Push != nil && r.Push.Disconnect != nil:
				open = false
				ended = true
			}
		}
		if cl.t.closed {
			open = false
		}
		// liveness at quiescence (no fault injected): everything up to the stream top is accounted for
		if open && faultsInjected == 0 && cfg.histSz >= cfg.pre+cfg.npub {
			top := uint64(cfg.pre + cfg.npub)
			for o := pos + 1; o <= top; o++ {
				if !withheld(o) {
					vsched.Failf("stalled", "no fault injected, subscription open, but offset %d (top %d) was never delivered; position %d: %v", o, top, pos, cl.t.log())
					break
				}
			}
		}
		_ = lastDelivered
	}
}
