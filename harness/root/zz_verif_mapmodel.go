//go:build verif

package centrifuge

import (
	"fmt"
	"sort"
	"strings"
	"sync"
	"time"

	"github.com/centrifugal/centrifuge/internal/zzverif/vsched"
)

// Shared parts of the Memory map broker harnesses (C20 mapbrokerx, C21 mappagex, C24 mapexpire):
// a bare Node that only carries the map channel options resolver, a recording event handler and
// the boring reference model (map + list per channel).

// vMapBareNode returns a Node that is only good for NewMemoryMapBroker: the broker reads
// n.config.Map.GetMapChannelOptions and nil-checks n.metrics / n.logger.
func vMapBareNode(resolve func(ch string) MapChannelOptions) *Node {
	return &Node{config: Config{Map: MapConfig{GetMapChannelOptions: resolve}}}
}

// vNewMapBroker creates a Memory map broker with a recording handler. The cleanup goroutines
// (RegisterEventHandler) are NOT started unless daemons is set: sweeps are driven explicitly.
func vNewMapBroker(resolve func(ch string) MapChannelOptions, rec *vMapRecorder, daemons bool, chans ...string) *MemoryMapBroker {
	node := vMapBareNode(resolve)
	var b *MemoryMapBroker
	if len(chans) == 0 {
		var err error
		b, err = NewMemoryMapBroker(node, MemoryMapBrokerConfig{})
		if err != nil {
			panic(err)
		}
	} else {
		// Same wiring as NewMemoryMapBroker, but only the publish locks of the channels the
		// harness uses are allocated (4096 scheduler-managed mutexes per execution cost ~2 ms).
		pubLocks := make(map[int]*sync.Mutex, len(chans))
		for _, ch := range chans {
			pubLocks[index(ch, numPubLocks)] = &sync.Mutex{}
		}
		closeCh := make(chan struct{})
		hub := newMapHub(node, pubLocks, closeCh)
		hub.setChannelOptionsResolver(resolve)
		b = &MemoryMapBroker{node: node, mapHub: hub, pubLocks: pubLocks, closeCh: closeCh, resultCache: make(map[string]map[string]resultCacheEntry)}
	}
	if daemons {
		if err := b.RegisterEventHandler(rec); err != nil {
			panic(err)
		}
	} else {
		b.eventHandler = rec
		b.mapHub.setEventHandler(rec)
	}
	return b
}

// mxEvent is one HandlePublication call / one stream entry, reduced to what the properties name.
type mxEvent struct {
	ch      string
	key     string
	removed bool
	data    string
	off     uint64 // pub.Offset
	spOff   uint64 // sp.Offset (broadcasts only)
	epoch   string // sp.Epoch (broadcasts only)
}

func (e mxEvent) String() string {
	k := "pub"
	if e.removed {
		k = "rem"
	}
	return fmt.Sprintf("%s[%s/%s]@%d(%s)", k, e.ch, e.key, e.off, e.data)
}

// vMapRecorder is the BrokerEventHandler double.
type vMapRecorder struct {
	events []mxEvent
}

func (r *vMapRecorder) HandlePublication(ch string, pub *Publication, sp StreamPosition, _ bool, _ *Publication) error {
	vsched.Visible()
	r.events = append(r.events, mxEvent{ch: ch, key: pub.Key, removed: pub.Removed, data: string(pub.Data), off: pub.Offset, spOff: sp.Offset, epoch: sp.Epoch})
	return nil
}
func (r *vMapRecorder) HandleJoin(string, *ClientInfo) error  { return nil }
func (r *vMapRecorder) HandleLeave(string, *ClientInfo) error { return nil }

// ---- reference model ---------------------------------------------------------------------------

type mxKey struct {
	data  string
	off   uint64
	ver   uint64
	vep   string
	exp   int64 // model milliseconds; 0: never
	score int64
}

type mxIdem struct {
	off uint64
	exp int64
}

type mxChan struct {
	exists bool   // the broker holds a channel object (an epoch was established)
	epoch  string // learned from the first position the implementation returned for this incarnation
	keys   map[string]*mxKey
	stream []mxEvent
	top    uint64
	idem   map[string]mxIdem
}

type mxChanCfg struct {
	mode       MapMode
	keyTTL     int64 // ms, 0 for persistent
	streamSize int   // effective (100 when not configured), 0 for ephemeral
	ordered    bool
}

func (c mxChanCfg) options() MapChannelOptions {
	o := MapChannelOptions{Mode: c.mode, KeyTTL: time.Duration(c.keyTTL) * time.Millisecond, ordered: c.ordered}
	if c.mode.HasStream() && c.streamSize != 100 {
		o.StreamSize = c.streamSize
	}
	return o
}

type mxModel struct {
	cfg   mxChanCfg
	now   int64 // ms since start
	chans map[string]*mxChan
}

func newMxModel(cfg mxChanCfg) *mxModel {
	return &mxModel{cfg: cfg, chans: map[string]*mxChan{}}
}

func newMxChan() *mxChan {
	return &mxChan{keys: map[string]*mxKey{}, idem: map[string]mxIdem{}}
}

func (m *mxModel) ch(name string) *mxChan {
	c := m.chans[name]
	if c == nil {
		c = newMxChan()
		m.chans[name] = c
	}
	return c
}

type mxPub struct {
	data    string
	mode    KeyMode
	cas     *StreamPosition
	ver     uint64
	vep     string
	idem    string
	idemTTL int64 // ms
	refresh bool
	score   int64
}

type mxCur struct {
	off  uint64
	data string
}

// mxRes is what the reference expects from one Publish / Remove.
type mxRes struct {
	err     bool
	reason  SuppressReason // "" = applied
	off     uint64         // expected Position.Offset
	noChan  bool           // channel object absent: a zero Position is expected
	cur     *mxCur         // expected CurrentEntry
	bcast   *mxEvent       // expected broadcast (nil: none)
	refresh bool           // TTL was refreshed by a suppressed keep-alive (for classes only)
}

func (r mxRes) class() string {
	switch {
	case r.err:
		return "error"
	case r.reason == "":
		return "ok"
	case r.refresh:
		return string(r.reason) + "+refresh"
	case r.cur != nil:
		return string(r.reason) + "+entry"
	}
	return string(r.reason)
}

func (m *mxModel) appendStream(c *mxChan, e mxEvent) uint64 {
	if !m.cfg.mode.HasStream() {
		return 0
	}
	c.top++
	e.off = c.top
	c.stream = append(c.stream, e)
	if n := len(c.stream) - m.cfg.streamSize; n > 0 {
		c.stream = append([]mxEvent(nil), c.stream[n:]...)
	}
	return c.top
}

// publish: error for CAS/version on a streamless channel; then idempotency, version, key mode,
// compare-and-swap; then apply.
func (m *mxModel) publish(chName, key string, o mxPub) mxRes {
	c := m.ch(chName)
	if m.cfg.mode.IsEphemeral() && (o.cas != nil || o.ver > 0) {
		return mxRes{err: true}
	}
	if o.idem != "" {
		if e, ok := c.idem[o.idem]; ok && e.exp > m.now {
			return mxRes{reason: SuppressReasonIdempotency, off: e.off}
		}
	}
	c.exists = true
	k, has := c.keys[key]
	if m.cfg.mode.HasStream() && o.ver > 0 && has && (o.vep == "" || o.vep == k.vep) && o.ver <= k.ver {
		return mxRes{reason: SuppressReasonVersion, off: c.top}
	}
	if o.mode == KeyModeIfNew && has {
		r := mxRes{reason: SuppressReasonKeyExists, off: c.top}
		if o.refresh && m.cfg.keyTTL > 0 {
			k.exp = m.now + m.cfg.keyTTL
			r.refresh = true
		}
		return r
	}
	if o.mode == KeyModeIfExists && !has {
		return mxRes{reason: SuppressReasonKeyNotFound, off: c.top}
	}
	if o.cas != nil {
		if !has {
			return mxRes{reason: SuppressReasonPositionMismatch, off: c.top}
		}
		if k.off != o.cas.Offset || c.epoch != o.cas.Epoch {
			return mxRes{reason: SuppressReasonPositionMismatch, off: c.top, cur: &mxCur{off: k.off, data: k.data}}
		}
	}
	ev := mxEvent{ch: chName, key: key, data: o.data}
	ev.off = m.appendStream(c, ev)
	nk := &mxKey{data: o.data, off: ev.off, ver: o.ver, vep: o.vep, score: o.score}
	if o.ver == 0 && has {
		nk.ver, nk.vep = k.ver, k.vep
	}
	if m.cfg.keyTTL > 0 {
		nk.exp = m.now + m.cfg.keyTTL
	}
	c.keys[key] = nk
	if o.idem != "" {
		c.idem[o.idem] = mxIdem{off: ev.off, exp: m.now + o.idemTTL}
	}
	return mxRes{off: ev.off, bcast: &ev}
}

type mxRem struct {
	cas     *StreamPosition
	idem    string
	idemTTL int64
}

// remove: error for CAS on a streamless channel; idempotency; compare-and-swap (a missing key is a
// position mismatch when a position is expected); missing key; apply.
func (m *mxModel) remove(chName, key string, o mxRem) mxRes {
	c := m.ch(chName)
	if m.cfg.mode.IsEphemeral() && o.cas != nil {
		return mxRes{err: true}
	}
	if o.idem != "" {
		if e, ok := c.idem[o.idem]; ok && e.exp > m.now {
			return mxRes{reason: SuppressReasonIdempotency, off: e.off}
		}
	}
	k, has := c.keys[key]
	if o.cas != nil {
		if !has {
			return mxRes{reason: SuppressReasonPositionMismatch, off: c.top, noChan: !c.exists}
		}
		if k.off != o.cas.Offset || c.epoch != o.cas.Epoch {
			return mxRes{reason: SuppressReasonPositionMismatch, off: c.top, cur: &mxCur{off: k.off, data: k.data}}
		}
	}
	if !has {
		return mxRes{reason: SuppressReasonKeyNotFound, off: c.top, noChan: !c.exists}
	}
	delete(c.keys, key)
	ev := mxEvent{ch: chName, key: key, removed: true}
	ev.off = m.appendStream(c, ev)
	if o.idem != "" {
		c.idem[o.idem] = mxIdem{off: ev.off, exp: m.now + o.idemTTL}
	}
	return mxRes{off: ev.off, bcast: &ev}
}

func (m *mxModel) clear(chName string) {
	delete(m.chans, chName)
}

// expired returns the (channel, key) pairs whose deadline has been reached, sorted.
func (m *mxModel) expired() [][2]string {
	var out [][2]string
	for _, cn := range m.chanNames() {
		c := m.chans[cn]
		for _, k := range c.sortedKeys(false, false) {
			if e := c.keys[k].exp; e > 0 && e <= m.now {
				out = append(out, [2]string{cn, k})
			}
		}
	}
	return out
}

// expire applies one expiry removal and returns the expected broadcast.
func (m *mxModel) expire(chName, key string) mxEvent {
	c := m.ch(chName)
	delete(c.keys, key)
	ev := mxEvent{ch: chName, key: key, removed: true}
	ev.off = m.appendStream(c, ev)
	return ev
}

func (m *mxModel) chanNames() []string {
	var ns []string
	for n := range m.chans {
		ns = append(ns, n)
	}
	sort.Strings(ns)
	return ns
}

// sortedKeys: unordered channels sort by key ascending; ordered channels by (score, key), both
// descending by default and both ascending when asc is requested.
func (c *mxChan) sortedKeys(ordered, asc bool) []string {
	var ks []string
	for k := range c.keys {
		ks = append(ks, k)
	}
	sort.Strings(ks)
	if !ordered {
		return ks
	}
	sort.SliceStable(ks, func(i, j int) bool {
		a, b := c.keys[ks[i]], c.keys[ks[j]]
		if a.score != b.score {
			if asc {
				return a.score < b.score
			}
			return a.score > b.score
		}
		if asc {
			return ks[i] < ks[j]
		}
		return ks[i] > ks[j]
	})
	return ks
}

func (m *mxModel) digest() string {
	var sb strings.Builder
	for _, cn := range m.chanNames() {
		c := m.chans[cn]
		fmt.Fprintf(&sb, "%s{", cn)
		for _, k := range c.sortedKeys(false, false) {
			e := c.keys[k]
			fmt.Fprintf(&sb, "%s=%s@%d v%d x%d;", k, e.data, e.off, e.ver, e.exp)
		}
		fmt.Fprintf(&sb, "|top%d len%d idem%d}", c.top, len(c.stream), len(c.idem))
	}
	return sb.String()
}

// ---- comparison helpers ------------------------------------------------------------------------

type mxFail struct{ sig, msg string }

// bindEpoch learns / checks the epoch of the channel's current incarnation.
func (c *mxChan) bindEpoch(got string) bool {
	if got == "" {
		return false
	}
	if c.epoch == "" {
		c.epoch = got
		return true
	}
	return c.epoch == got
}

// mxCheckUpdate compares a Publish/Remove result with the reference expectation.
func mxCheckUpdate(kind string, c *mxChan, want mxRes, got MapUpdateResult, err error) []mxFail {
	var fs []mxFail
	if want.err {
		if err == nil {
			fs = append(fs, mxFail{"result-error-expected:" + kind, fmt.Sprintf("%s must be rejected with an error, got %+v", kind, got)})
		}
		return fs
	}
	if err != nil {
		return append(fs, mxFail{"result-unexpected-error:" + kind, fmt.Sprintf("%s returned error %v, expected %s", kind, err, want.class())})
	}
	if got.SuppressReason != want.reason || got.Suppressed != (want.reason != "") {
		g, w := string(got.SuppressReason), string(want.reason)
		if g == "" {
			g = "applied"
		}
		if w == "" {
			w = "applied"
		}
		if got.Suppressed != (got.SuppressReason != "") {
			g += "/suppressed-flag-" + fmt.Sprint(got.Suppressed)
		}
		return append(fs, mxFail{"result-reason:" + kind + ":want=" + w + ":got=" + g,
			fmt.Sprintf("%s: expected %s, implementation answered suppressed=%v reason=%q", kind, w, got.Suppressed, got.SuppressReason)})
	}
	if want.noChan && got.Position == (StreamPosition{}) {
		// no channel object: nothing to report
	} else {
		if !c.bindEpoch(got.Position.Epoch) {
			fs = append(fs, mxFail{"result-epoch:" + kind + ":" + want.class(), fmt.Sprintf("%s: position epoch %q, channel epoch %q", kind, got.Position.Epoch, c.epoch)})
		}
		if got.Position.Offset != want.off {
			fs = append(fs, mxFail{"result-offset:" + kind + ":" + want.class(), fmt.Sprintf("%s (%s): position offset %d, expected %d", kind, want.class(), got.Position.Offset, want.off)})
		}
	}
	switch {
	case want.cur == nil && got.CurrentEntry != nil:
		fs = append(fs, mxFail{"result-current-entry-unexpected:" + kind + ":" + want.class(), fmt.Sprintf("unexpected CurrentEntry %+v", *got.CurrentEntry)})
	case want.cur != nil && got.CurrentEntry == nil:
		fs = append(fs, mxFail{"result-current-entry-missing:" + kind, "CAS mismatch on an existing key must carry CurrentEntry"})
	case want.cur != nil:
		if got.CurrentEntry.Offset != want.cur.off || string(got.CurrentEntry.Data) != want.cur.data {
			fs = append(fs, mxFail{"result-current-entry-wrong:" + kind, fmt.Sprintf("CurrentEntry {%d %q}, expected {%d %q}", got.CurrentEntry.Offset, got.CurrentEntry.Data, want.cur.off, want.cur.data)})
		}
	}
	return fs
}

// mxCheckBroadcast compares the handler calls made during one operation with the expectation.
func mxCheckBroadcast(kind string, c *mxChan, want mxRes, got []mxEvent, hasStream bool) []mxFail {
	var fs []mxFail
	if want.bcast == nil {
		if len(got) != 0 {
			fs = append(fs, mxFail{"broadcast-by-suppressed:" + kind + ":" + want.class(), fmt.Sprintf("%s (%s) must not broadcast, got %v", kind, want.class(), got)})
		}
		return fs
	}
	if len(got) != 1 {
		return append(fs, mxFail{fmt.Sprintf("broadcast-count:%s:%d", kind, len(got)), fmt.Sprintf("%s applied: expected exactly one broadcast, got %v", kind, got)})
	}
	g, w := got[0], *want.bcast
	if g.ch != w.ch || g.key != w.key || g.removed != w.removed || g.data != w.data {
		fs = append(fs, mxFail{"broadcast-content:" + kind, fmt.Sprintf("broadcast %v, expected %v", g, w)})
	}
	if g.off != w.off || g.spOff != w.off {
		fs = append(fs, mxFail{"broadcast-offset:" + kind, fmt.Sprintf("broadcast %v with position offset %d, expected offset %d (stream=%v)", g, g.spOff, w.off, hasStream)})
	}
	if g.epoch != c.epoch {
		fs = append(fs, mxFail{"broadcast-epoch:" + kind, fmt.Sprintf("broadcast epoch %q, channel epoch %q", g.epoch, c.epoch)})
	}
	return fs
}

func mxPubsDesc(ps []*Publication) string {
	var l []string
	for _, p := range ps {
		k := "pub"
		if p.Removed {
			k = "rem"
		}
		l = append(l, fmt.Sprintf("%s[%s]@%d(%s)s%d", k, p.Key, p.Offset, p.Data, p.Score))
	}
	return "[" + strings.Join(l, " ") + "]"
}

// clone returns a deep copy of the model.
func (m *mxModel) clone() *mxModel {
	n := &mxModel{cfg: m.cfg, now: m.now, chans: map[string]*mxChan{}}
	for name, c := range m.chans {
		d := &mxChan{exists: c.exists, epoch: c.epoch, top: c.top, keys: map[string]*mxKey{}, idem: map[string]mxIdem{}}
		for k, v := range c.keys {
			kv := *v
			d.keys[k] = &kv
		}
		for k, v := range c.idem {
			d.idem[k] = v
		}
		d.stream = append([]mxEvent(nil), c.stream...)
		n.chans[name] = d
	}
	return n
}
