//go:build verif

package centrifuge

import (
	"bytes"
	"context"
	"encoding/json"
	"fmt"
	"sort"
	"strconv"
	"strings"
	"sync"
	"time"

	"github.com/centrifugal/centrifuge/internal/zzverif/vsched"
	"github.com/centrifugal/protocol"
	fdelta "github.com/shadowspore/fossil-delta"
)

// sharedpoll (C25, E1): shared-poll keyed delivery is monotonic and delta-consistent.
//
// One node, 1-2 connections subscribed (Type SharedPoll) to channel "sp" and tracking keys
// {a, b}. The backend (OnSharedPoll handler) is a harness double: it owns the truth
// (version / generation per key, publisher epoch) and its answers are environment choices.
// Concurrent threads: publishers (SharedPollPublish: newer, stale, new epoch), notifications
// (worker runs a notified refresh), the refresh timer (virtual time), the commands of a
// connection (untrack / track / unsubscribe / subscribe, all issued by ONE thread per
// connection), SharedPollRevokeKeys, close. Afterwards virtual time runs for two refresh
// intervals with the backend answering its truth.
//
// Oracle: an independent client model replays every connection's frame log.

const spollCh = "sp"
const spollInterval = time.Second

type spollCfg struct {
	label   string
	mode    string // versioned | versionless
	keep    bool   // KeepLatestData
	delta   bool   // connections negotiate fossil delta
	prev    bool   // backend supplies PrevData for the version it was asked about (versioned, !keep)
	pb      bool   // protobuf transport (default JSON)
	conns   int    // 1 or 2
	pre1    string // what connection 1 did before the concurrent phase: track (a and b, default) | track-b
	pre2    string // what connection 2 did before the concurrent phase: track (default) | sub | none
	ops     []string
	timer   bool // the refresh timer may fire during the concurrent phase
	asyncTr bool // OnTrack callback completed by a separate thread
	bremove bool // the backend may answer "removed"
	lat     bool // backend latency: while a poll is in flight any other thread may run (free choice)
}

func (c spollCfg) name() string {
	f := func(b bool, s string) string {
		if b {
			return "/" + s
		}
		return ""
	}
	pre2 := ""
	if c.conns > 1 {
		pre2 = "/c2-" + c.pre2
	}
	if c.pre1 != "track" {
		pre2 = "/c1-" + c.pre1 + pre2
	}
	return c.label + ":" + c.mode + f(c.keep, "keep") + f(c.delta, "delta") + f(c.prev, "prevdata") + f(c.pb, "pb") + fmt.Sprintf("/conns%d", c.conns) + pre2 +
		f(c.timer, "timer") + f(c.lat, "lat") + f(c.asyncTr, "asynctrack") + f(c.bremove, "bremove") + "/" + strings.Join(c.ops, "|")
}

var spollCfgs = map[string]spollCfg{}

func spollVariants(tier string) []vsched.Variant {
	var out []vsched.Variant
	// add registers a scenario: quick tier with bound 1 on qShards processes (0: thorough only),
	// thorough tier with bound tBound on tShards processes.
	add := func(c spollCfg, qShards, tBound, tShards int) {
		if c.conns == 0 {
			c.conns = 1
		}
		if c.conns > 1 && c.pre2 == "" {
			c.pre2 = "track"
		}
		if c.pre1 == "" {
			c.pre1 = "track"
		}
		spollCfgs[c.name()] = c
		if tier == "quick" {
			if qShards > 0 {
				out = append(out, vsched.Variant{Name: c.name(), Bound: 1, Shards: qShards, BudgetS: 60})
			}
		} else {
			out = append(out, vsched.Variant{Name: c.name(), Bound: tBound, Shards: tShards, BudgetS: 280})
		}
	}
	type mod func(*spollCfg)
	mk := func(base spollCfg, label string, conns int, ops []string, mods ...mod) spollCfg {
		c := base
		c.label, c.conns, c.ops = label, conns, ops
		for _, m := range mods {
			m(&c)
		}
		return c
	}
	ops := func(o ...string) []string { return o }
	lat := func(c *spollCfg) { c.lat = true }
	timer := func(c *spollCfg) { c.timer = true }
	pb := func(c *spollCfg) { c.pb = true }
	c2sub := func(c *spollCfg) { c.pre2 = "sub" }
	c1b := func(c *spollCfg) { c.pre1 = "track-b" }
	vk := spollCfg{mode: "versioned", keep: true, delta: true}
	vp := spollCfg{mode: "versioned", delta: true, prev: true}
	v0 := spollCfg{mode: "versioned"}
	lk := spollCfg{mode: "versionless", keep: true, delta: true}
	lh := spollCfg{mode: "versionless"}

	// racing publishers (the later one makes the earlier stale): broadcast order vs delta base (DESIGN mutation)
	add(mk(vk, "pubrace", 1, ops("pub:a:2", "pub:a:3")), 1, 2, 1)
	// publish (newer, then stale) against a notified refresh with chosen answers
	add(mk(vk, "pubpoll", 1, ops("pub:a:2,pub:a:1", "notify:a"), lat), 2, 1, 1)
	// delta base supplied by the backend (PrevData)
	add(mk(vp, "prevdata", 1, ops("pub:a:2", "notify:a"), lat), 2, 1, 1)
	// no delta, no cache: refresh timer against a publisher
	add(mk(v0, "timer", 1, ops("pub:a:2"), timer, lat, pb), 1, 2, 1)
	// untrack against a publisher; the other connection keeps the key
	add(mk(vk, "untrack", 2, ops("untrack:1:a", "pub:a:2")), 1, 1, 1)
	// publisher epoch change
	add(mk(vk, "epoch", 1, ops("pubE:a:1", "notify:b")), 3, 1, 1)
	add(mk(vk, "epoch-then-track", 2, ops("pubE:a:1,track:2:a:1"), c2sub), 1, 1, 1)
	// versionless: content comparison (keep) and hash mode
	add(mk(lk, "vless", 1, ops("notify:a", "notify:a"), lat), 1, 2, 1)
	add(mk(lh, "hash", 1, ops("notify:a", "untrack:1:a"), timer), 1, 1, 1)
	// revocation, unsubscribe against publishers
	add(mk(vk, "revoke", 1, ops("revoke:a", "pub:a:2")), 1, 2, 1)
	add(mk(v0, "revoke-untrack", 1, ops("revoke:a", "untrack:1:a")), 1, 2, 1)
	add(mk(v0, "revoke-unsub", 1, ops("revoke:a", "unsub:1")), 1, 1, 1)
	add(mk(vk, "unsub", 1, ops("unsub:1", "pub:a:2"), pb), 1, 1, 1)
	// a connection starts tracking a key: cold (nobody tracks it) and warm (another connection does)
	add(mk(vk, "coldtrack", 1, ops("track:1:a:0", "pub:a:2"), c1b), 2, 1, 1)
	add(mk(vk, "join", 2, ops("track:2:a:0", "pub:a:2"), c2sub), 2, 1, 1)
	// a connection starts tracking a live key with a stale, non-zero version on a channel without cached
	// data (the track reply carries nothing): it must still be brought to the newest version
	add(mk(v0, "stale-track", 2, ops("pub:a:2,track:2:a:1"), c2sub), 1, 1, 1)
	// a track whose authorization callback completes on another thread, overtaken by an unsubscribe
	// and a resubscribe of the same channel on the same connection: the late track must not attach
	// to the new subscription
	add(mk(vk, "asynctrack-resub", 1, ops("track:1:a:0,unsub:1,sub:1", "pub:a:2"), c1b, func(c *spollCfg) { c.asyncTr = true }), 2, 2, 4)

	// thorough only (bound 1): two connections / three threads, backend removal, asynchronous track
	// callback, close, publishers of two epochs at once
	add(mk(vk, "epoch2", 2, ops("pubE:a:1")), 0, 1, 1)
	add(mk(vk, "close", 2, ops("close:1", "pub:a:2")), 0, 1, 1)
	add(mk(vk, "pubrace3", 1, ops("pub:a:2", "pub:a:3", "notify:a"), lat), 0, 1, 3)
	add(mk(vk, "bremove", 2, ops("notify:a", "pub:a:2"), lat, func(c *spollCfg) { c.bremove = true }), 0, 1, 1)
	add(mk(vk, "asynctrack", 1, ops("track:1:a:0,unsub:1", "pub:a:2"), c1b, func(c *spollCfg) { c.asyncTr = true }), 0, 1, 2)
	add(mk(vk, "epochflipflop", 1, ops("pubE:a:1", "pub:a:2"), lat), 0, 2, 4)
	add(mk(vk, "epochtrack", 2, ops("pubE:a:1", "track:2:a:1"), c2sub), 0, 1, 3)
	add(mk(v0, "join-nocache", 2, ops("track:2:a:0", "pub:a:2"), c2sub), 0, 1, 2)
	add(mk(vp, "prevdata-retrack", 2, ops("pub:a:2", "untrack:2:a,track:2:a:1"), timer, lat), 0, 1, 3)
	add(mk(lk, "vless-retrack", 2, ops("notify:a", "untrack:1:a,track:1:a:0"), timer, lat), 0, 1, 2)
	add(mk(vk, "resub", 1, ops("unsub:1,sub:1,track:1:a:0", "pub:a:2"), pb), 0, 1, 3)
	return out
}

func init() {
	vsched.Register(&vsched.Harness{
		Name: "sharedpoll", Props: []string{"C25"}, Kind: "sched",
		Doc:      "node + 1-2 connections subscribed (SharedPoll) to one channel tracking keys {a,b}; backend double owning the truth, answers per polled key as environment choices {truth, advance, stale, omit(, removed)}, versioned (KeepLatestData / PrevData / plain) and versionless (content / hash) mode, fossil delta negotiated or not, JSON/protobuf; threads: SharedPollPublish (newer, stale, new epoch), SharedPollNotify, refresh timer under virtual time, per-connection command thread (untrack, track, unsubscribe, subscribe), SharedPollRevokeKeys, close; then 2 refresh intervals with truthful answers; oracle = client model replaying each connection's frames: per (connection,key) pushed versions strictly increase, a delta applies (fossil checksum) to the data the model holds and every payload equals the data supplied for that version, no push for a key after its untrack reply / removal / unsubscribe / outside a subscription, at quiescence a tracked key holds the backend's newest version and data, server unsubscribes carry the insufficient-state code and no subscription with tracked keys survives a publisher epoch change",
		Variants: spollVariants,
		Sched:    func(v vsched.Variant) func() { return spollBody(spollCfgs[v.Name]) },
	})
}

// ---- backend double ---------------------------------------------------------------------------

// spollData is the payload of (key, version, epoch). Besides the version number it carries
// eight fields of which exactly field (version mod 8) is "on" (one-hot). A fossil delta between
// two versions x and y copies the fields that are off in both, among them field z of any third
// version z, where z's own data differs (and has another length): applying the delta to a wrong
// base fails the delta checksum instead of accidentally producing the right bytes (checked for
// all x, y, z in 0..6).
func spollData(k string, v uint64, ep string) []byte {
	var sb strings.Builder
	fmt.Fprintf(&sb, `{"k":"%s","e":"%s","v":%d`, k, ep, v)
	for i := uint64(0); i < 8; i++ {
		if i == v%8 {
			fmt.Fprintf(&sb, `,"f%d":"field-%d-is-on-on-on-on-on-on-on-on-on"`, i, i)
		} else {
			fmt.Fprintf(&sb, `,"f%d":"field-%d-is-off-off-off-off-off"`, i, i)
		}
	}
	sb.WriteString("}")
	return []byte(sb.String())
}

type spollBackend struct {
	cfg      spollCfg
	epoch    string
	epochs   []string          // every publisher epoch ever used
	ver      map[string]uint64 // truth: version (versioned) / data generation (versionless)
	supplied map[string]bool   // versionless: key + "\x00" + data ever answered
	calls    []string
}

func (b *spollBackend) versioned() bool { return b.cfg.mode == "versioned" }

func (b *spollBackend) dataFor(k string, v uint64) []byte {
	if b.versioned() {
		return spollData(k, v, b.epoch)
	}
	return spollData(k, v, "-")
}

func (b *spollBackend) poll(_ context.Context, ev SharedPollEvent) (SharedPollResult, error) {
	vsched.Visible()
	if b.cfg.lat {
		vsched.Yield() // backend latency: anything else may run while the call is in flight
	}
	res := SharedPollResult{}
	if b.versioned() {
		res.Epoch = b.epoch
	}
	var desc []string
	for _, it := range ev.Items {
		n := 4
		if b.cfg.bremove {
			n = 5
		}
		c := vsched.Choose(n)
		k := it.Key
		if _, known := b.ver[k]; !known {
			continue
		}
		v := b.ver[k]
		switch c {
		case 1: // the backend's state advances right before it answers
			b.ver[k]++
			v = b.ver[k]
		case 2: // stale replica: the oldest state
			if v == 1 {
				desc = append(desc, k+":omit")
				continue
			}
			v = 1
		case 3:
			desc = append(desc, k+":omit")
			continue
		case 4:
			res.Items = append(res.Items, SharedPollRefreshItem{Key: k, Removed: true})
			desc = append(desc, k+":removed")
			continue
		}
		item := SharedPollRefreshItem{Key: k, Data: b.dataFor(k, v)}
		if b.versioned() {
			item.Version = v
			if b.cfg.prev && it.Version > 0 && it.Version < v {
				item.PrevData = b.dataFor(k, it.Version)
			}
		} else {
			b.supplied[k+"\x00"+string(item.Data)] = true
		}
		res.Items = append(res.Items, item)
		desc = append(desc, fmt.Sprintf("%s:%d", k, v))
	}
	b.calls = append(b.calls, strings.Join(desc, ","))
	return res, nil
}

// publish: the publisher writes its database first, then pushes.
func (b *spollBackend) publish(n *Node, k string, v uint64, newEpoch bool) {
	if newEpoch {
		b.epoch = "e2"
		b.epochs = append(b.epochs, "e2")
		for x := range b.ver {
			b.ver[x] = 1
		}
		b.ver[k] = v
	} else if v > b.ver[k] {
		b.ver[k] = v
	}
	ep := b.epoch
	if err := n.SharedPollPublish(context.Background(), spollCh, k, v, ep, spollData(k, v, ep)); err != nil {
		panic(err)
	}
}

// ---- connection driver --------------------------------------------------------------------------

type spollReq struct {
	kind string
	keys []string
	vers []uint64
}

type spollConn struct {
	idx  int
	cfg  spollCfg
	cl   *vClient
	reqs map[uint32]spollReq
}

func (c *spollConn) send(r spollReq, cmd *protocol.Command) {
	c.reqs[c.cl.id+1] = r
	c.cl.cmd(cmd)
}

func (c *spollConn) connect() {
	c.send(spollReq{kind: "connect"}, &protocol.Command{Connect: &protocol.ConnectRequest{}})
}

func (c *spollConn) subscribe() {
	req := &protocol.SubscribeRequest{Channel: spollCh, Type: int32(SubscriptionTypeSharedPoll)}
	if c.cfg.delta {
		req.Delta = string(DeltaTypeFossil)
	}
	c.send(spollReq{kind: "sub"}, &protocol.Command{Subscribe: req})
}

func (c *spollConn) unsubscribe() {
	c.send(spollReq{kind: "unsub"}, &protocol.Command{Unsubscribe: &protocol.UnsubscribeRequest{Channel: spollCh}})
}

func (c *spollConn) track(keys []string, vers []uint64) {
	items := make([]*protocol.KeyedItem, len(keys))
	for i := range keys {
		items[i] = &protocol.KeyedItem{Key: keys[i], Version: vers[i]}
	}
	c.send(spollReq{kind: "track", keys: keys, vers: vers}, &protocol.Command{SubRefresh: &protocol.SubRefreshRequest{
		Channel: spollCh, Type: typeTrack, Track: []*protocol.TrackBatch{{Items: items}},
	}})
}

func (c *spollConn) untrack(keys []string) {
	c.send(spollReq{kind: "untrack", keys: keys}, &protocol.Command{SubRefresh: &protocol.SubRefreshRequest{
		Channel: spollCh, Type: typeUntrack, Untrack: keys,
	}})
}

// ---- body -------------------------------------------------------------------------------------

func spollBody(cfg spollCfg) func() {
	return func() {
		vsched.Quiet(true)
		live := false
		be := &spollBackend{cfg: cfg, ver: map[string]uint64{"a": 1, "b": 1}, supplied: map[string]bool{}}
		if be.versioned() {
			be.epoch = "e1"
			be.epochs = []string{"e1"}
		}
		opts := SharedPollChannelOptions{RefreshInterval: spollInterval, KeepLatestData: cfg.keep}
		if be.versioned() {
			opts.Mode = SharedPollModeVersioned
		}
		n := vNewNode(func(c *Config) {
			c.SharedPoll.GetSharedPollChannelOptions = func(ch string) (SharedPollChannelOptions, bool) {
				return opts, ch == spollCh
			}
		})
		n.OnSharedPoll(be.poll)
		n.OnConnect(func(c *Client) {
			c.OnSubscribe(func(e SubscribeEvent, cb SubscribeCallback) {
				cb(SubscribeReply{Options: SubscribeOptions{AllowedDeltaTypes: []DeltaType{DeltaTypeFossil}}}, nil)
			})
			c.OnTrack(func(e TrackEvent, cb TrackCallback) {
				if cfg.asyncTr && live {
					go cb(TrackReply{}, nil)
					return
				}
				cb(TrackReply{}, nil)
			})
		})
		if err := n.Run(); err != nil {
			panic(err)
		}
		var conns []*spollConn
		for i := 1; i <= cfg.conns; i++ {
			t := vNewTransport()
			if cfg.pb {
				t.proto = ProtocolTypeProtobuf
			}
			c := &spollConn{idx: i, cfg: cfg, cl: vNewClient(n, t, &Credentials{UserID: fmt.Sprintf("u%d", i)}), reqs: map[uint32]spollReq{}}
			conns = append(conns, c)
			c.connect()
			if i == 2 && cfg.pre2 == "none" {
				continue
			}
			// an SDK resubscribes after an insufficient-state unsubscribe: the very first
			// answer carrying the publisher epoch ends the first subscription
			for try := 0; ; try++ {
				c.subscribe()
				switch {
				case i == 1 && cfg.pre1 == "track-b":
					c.track([]string{"b"}, []uint64{0})
				case i == 1 || cfg.pre2 == "track":
					c.track([]string{"a", "b"}, []uint64{0, 0})
				}
				vsched.WaitIdle()
				if c.cl.c.IsSubscribed(spollCh) {
					break
				}
				if try == 3 {
					panic("sharedpoll harness: setup cannot establish a subscription")
				}
			}
		}
		vsched.WaitIdle()
		setupFrames := make([]int, len(conns))
		for i, c := range conns {
			setupFrames[i] = len(c.cl.t.frames)
		}
		live = true
		vsched.Quiet(false)
		if cfg.timer {
			vsched.SetHorizon(int64(spollInterval))
		}

		// ---- concurrent phase
		var wg sync.WaitGroup
		for _, op := range cfg.ops {
			op := op
			wg.Add(1)
			go func() {
				defer wg.Done()
				for _, step := range strings.Split(op, ",") {
					spollStep(step, n, be, conns)
				}
			}()
		}
		wg.Wait()
		vsched.WaitIdle()
		vsched.Quiet(true)
		live = false
		// quiescence: refresh cycles run, the backend answers its truth
		vsched.Advance(2*int64(spollInterval) + 10*vMs)

		// ---- oracle
		for i, c := range conns {
			spollOracle(cfg, be, c, setupFrames[i])
		}
		vsched.Logf("backend epoch=%s truth=a%d,b%d calls=%v", be.epoch, be.ver["a"], be.ver["b"], be.calls)
	}
}

func spollStep(step string, n *Node, be *spollBackend, conns []*spollConn) {
	p := strings.Split(step, ":")
	num := func(s string) uint64 {
		v, err := strconv.ParseUint(s, 10, 64)
		if err != nil {
			panic("sharedpoll harness: bad step " + step)
		}
		return v
	}
	conn := func() *spollConn { return conns[num(p[1])-1] }
	switch p[0] {
	case "pub":
		be.publish(n, p[1], num(p[2]), false)
	case "pubE":
		be.publish(n, p[1], num(p[2]), true)
	case "notify":
		n.SharedPollNotify([]SharedPollNotificationItem{{Channel: spollCh, Key: p[1]}})
	case "revoke":
		n.sharedPollManager.SharedPollRevokeKeys(spollCh, []string{p[1]}, nil, nil)
	case "untrack":
		conn().untrack(strings.Split(p[2], "+"))
	case "track": // track:<conn>:<key>:<version>[+<key>:<version>]
		var keys []string
		var vers []uint64
		for _, kv := range strings.Split(strings.Join(p[2:], ":"), "+") {
			x := strings.Split(kv, ":")
			keys = append(keys, x[0])
			vers = append(vers, num(x[1]))
		}
		conn().track(keys, vers)
	case "unsub":
		conn().unsubscribe()
	case "sub":
		conn().subscribe()
	case "close":
		_ = conn().cl.close()
	default:
		panic("sharedpoll harness: unknown step " + step)
	}
}

// ---- client model / oracle ----------------------------------------------------------------------

type spollKeyM struct {
	tracked bool
	ver     uint64
	data    []byte
	has     bool
	broken  bool   // a violation was already reported for this key: no follow-up reports
	late    bool   // tracking was established during the concurrent phase
	ended   string // why the key is not tracked
}

func spollOracle(cfg spollCfg, be *spollBackend, c *spollConn, setupFrames int) {
	who := fmt.Sprintf("c%d", c.idx)
	mode := cfg.mode
	if cfg.prev {
		mode += "+prevdata"
	}
	var lines []string
	subscribed := false
	subEnded := "never-subscribed" // how the last subscription ended (part of the signature of a push outside it)
	subEpoch := ""
	keys := map[string]*spollKeyM{}
	endAll := func(why string) {
		for _, k := range []string{"a", "b"} {
			if m := keys[k]; m != nil && m.tracked {
				m.tracked = false
				m.ended = why
			}
		}
	}
	fail := func(sig, format string, a ...any) {
		vsched.Failf(sig, "%s %s: %s | frames: %s", who, cfg.name(), fmt.Sprintf(format, a...), strings.Join(lines, " "))
	}
	payload := func(p *protocol.Publication) ([]byte, bool) {
		if cfg.delta && !cfg.pb {
			var s string
			if err := json.Unmarshal(p.Data, &s); err != nil {
				fail("payload-not-a-json-string", "delta-negotiated JSON subscription got a payload that is not a JSON string: %q", p.Data)
				return nil, false
			}
			return []byte(s), true
		}
		return p.Data, true
	}
	legit := func(k string, v uint64, data []byte) bool {
		if be.versioned() {
			for _, ep := range be.epochs {
				if bytes.Equal(data, spollData(k, v, ep)) {
					return true
				}
			}
			return false
		}
		return be.supplied[k+"\x00"+string(data)]
	}
	applyPub := func(p *protocol.Publication, where string) {
		k := p.Key
		kind := "update"
		if p.Removed {
			kind = "removal"
		}
		if !subscribed {
			fail("push-outside-subscription:"+kind+":"+where+":after-"+subEnded, "%s of key %s (version %d) pushed while no subscription is open (the last one ended by %s)", kind, k, p.Version, subEnded)
			return
		}
		m := keys[k]
		if m == nil || !m.tracked {
			why := "never-tracked"
			if m != nil {
				why = m.ended
			}
			fail("push-for-untracked-key:"+kind+":after-"+why, "%s for key %s (version %d) although the key is not tracked (%s)", kind, k, p.Version, why)
			return
		}
		if p.Removed {
			m.tracked = false
			m.ended = "removal"
			return
		}
		if p.Version <= m.ver {
			fail("version-not-increasing:"+where, "key %s version %d after version %d", k, p.Version, m.ver)
			return
		}
		raw, ok := payload(p)
		if !ok {
			return
		}
		data := raw
		if p.Delta {
			if !cfg.delta {
				fail("delta-not-negotiated", "key %s version %d is a delta but the subscription did not negotiate delta", k, p.Version)
				return
			}
			if !m.has {
				fail("delta-without-base:"+mode, "key %s version %d is a delta but the connection holds no data for the key", k, p.Version)
				return
			}
			out, err := fdelta.Apply(m.data, raw)
			if err != nil {
				fail("delta-base-mismatch:"+mode, "key %s: delta to version %d does not apply to the held version %d (%v)", k, p.Version, m.ver, err)
				m.ver, m.has, m.data, m.broken = p.Version, false, nil, true
				return
			}
			data = out
		}
		if !legit(k, p.Version, data) {
			fail("data-version-mismatch:"+mode, "key %s version %d carries data never supplied for it: %s", k, p.Version, data)
			m.ver, m.has, m.data, m.broken = p.Version, false, nil, true
			return
		}
		m.ver, m.data, m.has = p.Version, data, true
	}
	for i, f := range c.cl.t.frames {
		if i == setupFrames {
			lines = append(lines, "||")
		}
		r := f.Reply
		switch {
		case r.Id != 0:
			req := c.reqs[r.Id]
			if r.Error != nil {
				lines = append(lines, fmt.Sprintf("#%s:error%d", req.kind, r.Error.Code))
				continue
			}
			switch req.kind {
			case "sub":
				lines = append(lines, fmt.Sprintf("#sub(delta=%v)", r.Subscribe.Delta))
				if r.Subscribe.Delta != cfg.delta {
					fail("delta-negotiation", "subscribe reply delta=%v, requested %v", r.Subscribe.Delta, cfg.delta)
				}
				subscribed, subEpoch = true, r.Subscribe.Epoch
				keys = map[string]*spollKeyM{}
			case "unsub":
				lines = append(lines, "#unsub")
				subscribed = false
				subEnded = "unsubscribe-reply"
				endAll("unsubscribe")
			case "track":
				var ds []string
				for j, k := range req.keys {
					m := &spollKeyM{tracked: true, ver: req.vers[j], late: i >= setupFrames}
					if m.ver > 0 {
						// the client claims to hold this version (of the epoch it subscribed under)
						m.has, m.data = true, spollData(k, m.ver, subEpoch)
					}
					keys[k] = m
					ds = append(ds, fmt.Sprintf("%s@%d", k, m.ver))
				}
				var cs []string
				for _, p := range r.SubRefresh.Items {
					cs = append(cs, fmt.Sprintf("%s=%d", p.Key, p.Version))
				}
				lines = append(lines, fmt.Sprintf("#track(%s;cached %s)", strings.Join(ds, ","), strings.Join(cs, ",")))
				for _, p := range r.SubRefresh.Items {
					applyPub(p, "track-reply")
				}
			case "untrack":
				lines = append(lines, "#untrack("+strings.Join(req.keys, ",")+")")
				for _, k := range req.keys {
					if m := keys[k]; m != nil && m.tracked {
						m.tracked = false
						m.ended = "untrack-reply"
					}
				}
			default:
				lines = append(lines, "#"+req.kind)
			}
		case r.Push != nil && r.Push.Channel == spollCh && r.Push.Pub != nil:
			p := r.Push.Pub
			d := fmt.Sprintf("pub(%s=%d", p.Key, p.Version)
			if p.Delta {
				d += ",delta"
			}
			if p.Removed {
				d += ",removed"
			}
			lines = append(lines, d+")")
			applyPub(p, "push")
		case r.Push != nil && r.Push.Channel == spollCh && r.Push.Unsubscribe != nil:
			code := r.Push.Unsubscribe.Code
			lines = append(lines, fmt.Sprintf("unsub(%d)", code))
			if code != UnsubscribeCodeInsufficient {
				fail("server-unsubscribe-wrong-code", "server ended the subscription with code %d, want insufficient state (%d)", code, UnsubscribeCodeInsufficient)
			}
			subscribed = false
			subEnded = fmt.Sprintf("unsubscribe-push-%d", code)
			endAll("unsubscribe")
		default:
			lines = append(lines, "other")
		}
	}
	closed := c.cl.t.closed
	anyTracked, anyLate := false, false
	for _, k := range []string{"a", "b"} {
		if m := keys[k]; m != nil && m.tracked {
			anyTracked = true
			anyLate = anyLate || m.late
		}
	}
	// a publisher epoch change ends current subscriptions: none that holds keys survives it
	staleEpoch := be.versioned() && subscribed && !closed && anyTracked && subEpoch != be.epoch
	if staleEpoch {
		since := "keys-tracked-since-setup"
		if anyLate {
			since = "keys-tracked-during-concurrent-phase"
		}
		fail("subscription-survives-epoch-change:"+since, "subscription established under epoch %q still holds tracked keys although the publisher epoch is %q", subEpoch, be.epoch)
	}
	var held []string
	for _, k := range []string{"a", "b"} {
		m := keys[k]
		if m == nil || !m.tracked {
			continue
		}
		held = append(held, fmt.Sprintf("%s=%d", k, m.ver))
		if closed || !subscribed || m.broken || staleEpoch {
			continue
		}
		want := be.ver[k]
		wantData := be.dataFor(k, want)
		since := "tracked-since-setup"
		if m.late {
			since = "tracked-during-concurrent-phase"
		}
		if be.versioned() {
			if m.ver != want || !bytes.Equal(m.data, wantData) {
				fail("not-newest-at-quiescence:"+cfg.mode+":"+since+":"+cfg.label, "key %s is tracked, the newest version supplied is %d, the connection holds version %d (data %s)", k, want, m.ver, m.data)
			}
		} else if !m.has || !bytes.Equal(m.data, wantData) {
			fail("not-newest-at-quiescence:"+cfg.mode+":"+since+":"+cfg.label, "key %s is tracked, the backend's current data is generation %d, the connection holds %s", k, want, m.data)
		}
	}
	sort.Strings(held)
	vsched.Logf("%s closed=%v subscribed=%v held=%v frames=%s", who, closed, subscribed, held, strings.Join(lines, " "))
}
