//go:build verif

package centrifuge

import (
	"fmt"
	"sort"
	"strconv"
	"strings"
	"sync"
	"time"

	"github.com/centrifugal/centrifuge/internal/zzverif/vsched"
	"github.com/centrifugal/protocol"
)

// connlimits (C37, E1): connection limits are enforced.
//
//   chan:   ClientChannelLimit L in {1,2}; K concurrent subscribe attempts on distinct channels:
//           c = client command (subscribe callback completed by a separate thread, so attempts
//           overlap although one reader thread issues them), m = map subscribe command (same),
//           s = Client.Subscribe, n = Node.Subscribe(user); p = subscribed before the race.
//   length: ChannelMaxLength M; client subscribe (stream or map) to names of M-1, M, M+1 bytes.
//   queue:  ClientQueueMaxSize Q; the transport blocks in Write (slow consumer), publications and
//           RPC replies of chosen sizes are enqueued concurrently; Q is placed around the sums.

type connlimitsCfg struct {
	kind string // chan | length | queue
	// chan
	limit    int
	attempts string // e.g. "pcc", "cs", "mm"
	syncCB   bool   // subscribe callbacks complete synchronously
	// length
	maxLen int
	isMap  bool
	// queue
	sizes  []int // payload sizes of concurrent publications (one thread each)
	rpcs   []int // payload sizes of RPC replies (issued by the reader thread)
	qdelta int   // Q = qbase + qdelta
	qbase  string
}

func (c connlimitsCfg) name() string {
	switch c.kind {
	case "chan":
		return fmt.Sprintf("chan/L%d/%s/sync%v", c.limit, c.attempts, c.syncCB)
	case "length":
		return fmt.Sprintf("length/M%d/map%v", c.maxLen, c.isMap)
	}
	return fmt.Sprintf("queue/pub%v/rpc%v/Q=%s%+d", c.sizes, c.rpcs, c.qbase, c.qdelta)
}

var connlimitsCfgs = map[string]connlimitsCfg{}

func connlimitsVariants(tier string) []vsched.Variant {
	var out []vsched.Variant
	add := func(c connlimitsCfg, bound, shards, budget int) {
		connlimitsCfgs[c.name()] = c
		out = append(out, vsched.Variant{Name: c.name(), Bound: bound, Shards: shards, BudgetS: budget})
	}
	ch := func(l int, at string) connlimitsCfg { return connlimitsCfg{kind: "chan", limit: l, attempts: at} }
	q := func(sizes, rpcs []int, base string, delta int) connlimitsCfg {
		return connlimitsCfg{kind: "queue", sizes: sizes, rpcs: rpcs, qbase: base, qdelta: delta}
	}
	thorough := tier == "thorough"
	// v(cfg, quick bound, quick shards, thorough bound, thorough shards); quick bound -1: thorough only
	v := func(c connlimitsCfg, qb, qs, tb, ts int) {
		if thorough {
			add(c, tb, ts, 280)
		} else if qb >= 0 {
			add(c, qb, qs, 40)
		}
	}
	syn := func(c connlimitsCfg) connlimitsCfg { c.syncCB = true; return c }
	v(ch(1, "cc"), 1, 1, 2, 4)
	v(syn(ch(1, "cs")), 1, 2, 1, 2)
	v(ch(1, "cs"), -1, 0, 1, 8)
	v(ch(1, "sn"), 1, 3, 1, 4)
	v(ch(2, "pcc"), 1, 1, 2, 4)
	v(ch(2, "ccc"), 1, 2, 1, 2)
	v(ch(2, "pc"), 1, 1, 2, 2)
	v(ch(1, "pn"), 1, 1, 2, 4)
	v(ch(1, "mm"), 1, 1, 1, 2)
	v(ch(1, "cm"), 1, 1, 2, 4)
	v(ch(1, "ms"), 1, 2, 1, 2)
	v(syn(ch(2, "ccc")), 1, 1, 2, 2)
	v(connlimitsCfg{kind: "length", maxLen: 4}, 0, 1, 0, 1)
	v(connlimitsCfg{kind: "length", maxLen: 4, isMap: true}, 0, 1, 0, 1)
	for _, c := range []connlimitsCfg{
		q([]int{100, 130}, nil, "sum", 0), q([]int{100, 130}, nil, "sum", -1), q([]int{100, 130}, nil, "max", 0), q([]int{100, 130}, nil, "min", -1),
		q([]int{100}, []int{120}, "sum", 0), q([]int{100}, []int{120}, "sum", -1),
	} {
		v(c, 1, 1, 2, 4)
	}
	for _, c := range []connlimitsCfg{
		ch(2, "pmm"), ch(2, "cmm"), syn(ch(2, "pcs")), ch(1, "ccc"),
		q([]int{100, 110, 120}, nil, "sum", 0), q([]int{100, 110, 120}, nil, "sum", -1), q([]int{100, 110}, []int{100}, "sum", -1), q([]int{100, 110}, []int{100}, "sum", 0),
	} {
		v(c, -1, 0, 1, 8)
	}
	return out
}

func init() {
	vsched.Register(&vsched.Harness{
		Name: "connlimits", Props: []string{"C37"}, Kind: "sched",
		Doc: "one node, one connection. chan: ClientChannelLimit L in {1,2}, K in 2..3 concurrent subscribe attempts on distinct channels from {c client command, m map subscribe command (both with the subscribe callback completed by another thread), s Client.Subscribe, n Node.Subscribe, p subscribed beforehand}; oracle: at every frame write the subscriptions acknowledged to the client (replies + pushes) number <= L, Client.Channels() <= L at quiescence, K <= L: all succeed; K > L and connection open: exactly L succeed, every other client attempt got error 106 and no server-side attempt was refused silently; connection closed: only with disconnect 3505 and only if a server-side attempt lost. length: ChannelMaxLength M, names of M-1, M, M+1 bytes (free choice), stream and map subscribe: rejected with 107 and not subscribed iff longer than M. queue: transport blocked in Write, publications / RPC replies with frame sizes s_i enqueued by concurrent threads, Q in {sum, sum-1, max, min-1}: after unblocking, closed with 3008 iff sum of pending frame sizes > Q at some point (= total > Q, nothing is dequeued meanwhile); not closed: every message delivered exactly once",
		Variants: connlimitsVariants,
		Sched:    func(v vsched.Variant) func() { return connlimitsBody(connlimitsCfgs[v.Name]) },
	})
}

func connlimitsBody(cfg connlimitsCfg) func() {
	switch cfg.kind {
	case "chan":
		return connlimitsChan(cfg)
	case "length":
		return connlimitsLength(cfg)
	}
	return connlimitsQueue(cfg)
}

func connlimitsMapOpts(string) MapChannelOptions {
	return MapChannelOptions{Mode: MapModeEphemeral, KeyTTL: 60 * time.Second, MinPageSize: 1}
}

func connlimitsMapSub(ch string) *protocol.SubscribeRequest {
	return &protocol.SubscribeRequest{Channel: ch, Type: int32(SubscriptionTypeMap), Phase: MapPhaseState, Limit: 100}
}

// ---- channel limit ----------------------------------------------------------------------------

func connlimitsChan(cfg connlimitsCfg) func() {
	return func() {
		vsched.Quiet(true)
		async := false
		n := vNewNode(func(c *Config) {
			c.ClientChannelLimit = cfg.limit
			c.Map.GetMapChannelOptions = connlimitsMapOpts
		})
		n.OnConnect(func(c *Client) {
			c.OnSubscribe(func(e SubscribeEvent, cb SubscribeCallback) {
				reply := SubscribeReply{Options: SubscribeOptions{Type: e.Type}}
				if async {
					go func() {
						vsched.Visible()
						cb(reply, nil)
					}()
					return
				}
				cb(reply, nil)
			})
		})
		if err := n.Run(); err != nil {
			panic(err)
		}
		cl := vNewClient(n, vNewTransport(), &Credentials{UserID: "u"})
		// the client's view: channels with an acknowledged subscription
		open := map[string]bool{}
		cmdChan := map[uint32]string{}
		outcome := map[string]string{} // channel -> ok | err<code>
		overLimit := false             // the at-every-write check already failed (one signature per root cause)
		classOf := func() string {
			// class of the racing attempt kinds, for signatures
			ks := map[string]bool{}
			for _, k := range cfg.attempts {
				switch k {
				case 'c':
					ks["client"] = true
				case 'm':
					ks["map"] = true
				case 's', 'n':
					ks["server"] = true
				}
			}
			if ks["map"] {
				// the map path is the one without an atomic check-and-reserve; plain client
				// attempts in the same scenario are bystanders (one signature per root cause)
				delete(ks, "client")
			}
			var l []string
			for k := range ks {
				l = append(l, k)
			}
			sort.Strings(l)
			return strings.Join(l, "+")
		}
		cl.t.onFrame = func(f vFrame) {
			r := f.Reply
			switch {
			case r.Id != 0 && cmdChan[r.Id] != "" && r.Error != nil:
				outcome[cmdChan[r.Id]] = fmt.Sprintf("err%d", r.Error.Code)
			case r.Id != 0 && cmdChan[r.Id] != "" && r.Subscribe != nil:
				outcome[cmdChan[r.Id]] = "ok"
				open[cmdChan[r.Id]] = true
			case r.Push != nil && r.Push.Subscribe != nil:
				outcome[r.Push.Channel] = "ok"
				open[r.Push.Channel] = true
			case r.Push != nil && r.Push.Unsubscribe != nil:
				delete(open, r.Push.Channel)
			}
			if len(open) > cfg.limit {
				overLimit = true
				vsched.Failf("held-over-limit:"+classOf(), "limit %d but %d subscriptions are acknowledged to the client at once: %v", cfg.limit, len(open), cl.t.log())
			}
		}
		cl.connect()
		type attempt struct {
			kind byte
			ch   string
		}
		var atts []attempt
		for i, k := range []byte(cfg.attempts) {
			a := attempt{kind: k, ch: fmt.Sprintf("ch%d", i)}
			if k == 'p' {
				cmdChan[cl.id+1] = a.ch
				cl.subscribe(a.ch)
				continue
			}
			atts = append(atts, a)
		}
		vsched.WaitIdle()
		if len(open) != len(cfg.attempts)-len(atts) {
			panic(fmt.Sprintf("setup: pre-subscriptions failed: %v", cl.t.log()))
		}
		async = !cfg.syncCB
		vsched.Quiet(false)

		// ---- concurrent phase: one reader thread for the client commands, one thread per
		// server-side call
		var wg sync.WaitGroup
		var cmds []attempt
		for _, a := range atts {
			a := a
			switch a.kind {
			case 'c', 'm':
				cmds = append(cmds, a)
			case 's':
				wg.Add(1)
				go func() {
					defer wg.Done()
					_ = cl.c.Subscribe(a.ch)
				}()
			case 'n':
				wg.Add(1)
				go func() {
					defer wg.Done()
					_ = n.Subscribe("u", a.ch)
				}()
			default:
				panic("unknown attempt kind")
			}
		}
		if len(cmds) > 0 {
			wg.Add(1)
			go func() {
				defer wg.Done()
				for _, a := range cmds {
					cmdChan[cl.id+1] = a.ch
					var ok bool
					if a.kind == 'm' {
						ok = cl.cmd(&protocol.Command{Subscribe: connlimitsMapSub(a.ch)})
					} else {
						ok = cl.subscribe(a.ch)
					}
					if !ok {
						return // the reader closes the connection
					}
				}
			}()
		}
		wg.Wait()
		vsched.WaitIdle()
		vsched.Quiet(true)

		// ---- oracle
		K := len(cfg.attempts)
		L := cfg.limit
		var desc []string
		okCount := 0
		serverLost, serverAttempts := 0, 0
		for i, k := range []byte(cfg.attempts) {
			c := fmt.Sprintf("ch%d", i)
			o := outcome[c]
			if o == "" {
				o = "none"
			}
			desc = append(desc, fmt.Sprintf("%c:%s", k, o))
			if o == "ok" {
				okCount++
			}
			if k == 's' || k == 'n' {
				serverAttempts++
				if o != "ok" {
					serverLost++
				}
			}
		}
		closed := cl.t.closed
		held := vSortedChannels(cl.c)
		vsched.Logf("outcomes=%v closed=%v code=%d held=%v", desc, closed, cl.t.closeDisc.Code, held)
		all := strings.Join(cl.t.log(), " | ")
		if len(held) > L && !overLimit {
			vsched.Failf("channels-over-limit:"+classOf(), "limit %d but Client.Channels() = %v at quiescence; %v; %s", L, held, desc, all)
		}
		if !closed && len(held) != okCount {
			vsched.Failf("held-differs-from-acknowledged:"+classOf(), "Client.Channels() = %v but %d subscriptions were acknowledged: %v; %s", held, okCount, desc, all)
		}
		for i, k := range []byte(cfg.attempts) {
			o := outcome[fmt.Sprintf("ch%d", i)]
			if strings.HasPrefix(o, "err") && o != fmt.Sprintf("err%d", ErrorLimitExceeded.Code) {
				vsched.Failf("unexpected-error:"+classOf(), "attempt %c got %s, only limit exceeded (106) is expected: %v; %s", k, o, desc, all)
			}
			if strings.HasPrefix(o, "err") && K <= L {
				vsched.Failf("rejected-below-limit:"+classOf(), "%d attempts with limit %d but attempt %c got %s: %v", K, L, k, o, desc)
			}
		}
		switch {
		case closed:
			if cl.t.closeDisc.Code != DisconnectChannelLimit.Code {
				vsched.Failf("closed-with-other-code:"+classOf(), "connection closed with %d (%s): %v; %s", cl.t.closeDisc.Code, cl.t.closeDisc.Reason, desc, all)
			} else if K <= L {
				vsched.Failf("channel-limit-disconnect-below-limit:"+classOf(), "%d attempts with limit %d but the connection was closed with channel limit: %v", K, L, desc)
			} else if serverLost == 0 {
				vsched.Failf("channel-limit-disconnect-without-server-side-loser:"+classOf(), "connection closed with channel limit although every server-side attempt succeeded: %v; %s", desc, all)
			}
		case K <= L:
			if okCount != K {
				vsched.Failf("attempt-lost-below-limit:"+classOf(), "%d attempts with limit %d, connection open, but only %d succeeded: %v; %s", K, L, okCount, desc, all)
			}
		default:
			if okCount != L && !(overLimit && okCount > L) {
				vsched.Failf("wrong-number-established:"+classOf(), "%d attempts with limit %d, connection open: %d succeeded, want %d: %v; %s", K, L, okCount, L, desc, all)
			}
			if serverLost > 0 {
				vsched.Failf("server-side-refused-without-disconnect:"+classOf(), "a server-side subscribe over the limit must disconnect, but the connection is open: %v; %s", desc, all)
			}
			for i, k := range []byte(cfg.attempts) {
				o := outcome[fmt.Sprintf("ch%d", i)]
				if (k == 'c' || k == 'm') && o == "" {
					vsched.Failf("attempt-unanswered:"+classOf(), "client attempt %c on ch%d got no reply: %v; %s", k, i, desc, all)
				}
			}
		}
		_ = serverAttempts
	}
}

// ---- channel name length ----------------------------------------------------------------------

func connlimitsLength(cfg connlimitsCfg) func() {
	return func() {
		vsched.Quiet(true)
		n := vNewNode(func(c *Config) {
			c.ChannelMaxLength = cfg.maxLen
			c.Map.GetMapChannelOptions = connlimitsMapOpts
		})
		n.OnConnect(func(c *Client) {
			c.OnSubscribe(func(e SubscribeEvent, cb SubscribeCallback) {
				cb(SubscribeReply{Options: SubscribeOptions{Type: e.Type}}, nil)
			})
		})
		if err := n.Run(); err != nil {
			panic(err)
		}
		cl := vNewClient(n, vNewTransport(), &Credentials{UserID: "u"})
		cl.connect()
		vsched.WaitIdle()
		vsched.Quiet(false)
		// two requests: lengths chosen freely from {M-1, M, M+1}
		var names []string
		for i := 0; i < 2; i++ {
			l := cfg.maxLen - 1 + vsched.ChooseFree(3)
			names = append(names, strings.Repeat(string(rune('a'+i)), l))
		}
		base := cl.id
		for _, nm := range names {
			if cfg.isMap {
				cl.cmd(&protocol.Command{Subscribe: connlimitsMapSub(nm)})
			} else {
				cl.subscribe(nm)
			}
		}
		vsched.WaitIdle()
		vsched.Quiet(true)
		replies := map[uint32]*protocol.Reply{}
		for _, f := range cl.t.frames {
			if f.Reply.Id > base {
				replies[f.Reply.Id] = f.Reply
			}
		}
		for i, nm := range names {
			r := replies[base+uint32(i)+1]
			class := "within"
			if len(nm) > cfg.maxLen {
				class = "over"
			}
			vsched.Logf("len=%d %s", len(nm), class)
			switch {
			case r == nil:
				vsched.Failf("length-no-reply", "no reply for subscribe to %q", nm)
			case len(nm) > cfg.maxLen:
				if r.Error == nil || r.Error.Code != ErrorBadRequest.Code {
					vsched.Failf("over-long-not-rejected", "subscribe to %q (%d bytes, max %d) was not rejected with bad request: %s", nm, len(nm), cfg.maxLen, vFrame{Reply: r}.describe())
				}
				if cl.c.IsSubscribed(nm) {
					vsched.Failf("over-long-subscribed", "connection subscribed to %q (%d bytes, max %d)", nm, len(nm), cfg.maxLen)
				}
			default:
				if r.Error != nil || r.Subscribe == nil || !cl.c.IsSubscribed(nm) {
					vsched.Failf("within-length-rejected", "subscribe to %q (%d bytes, max %d) failed: %s", nm, len(nm), cfg.maxLen, vFrame{Reply: r}.describe())
				}
			}
		}
		if cl.t.closed {
			vsched.Failf("length-closed", "connection closed with %d", cl.t.closeDisc.Code)
		}
	}
}

// ---- queue size -------------------------------------------------------------------------------

func connlimitsPayload(tag string, size int) []byte {
	// a JSON string of exactly size bytes: "tag-xxxx..."
	s := `"` + tag + "-"
	for len(s) < size-1 {
		s += "x"
	}
	return []byte(s + `"`)
}

func connlimitsQueue(cfg connlimitsCfg) func() {
	return func() {
		vsched.Quiet(true)
		const ch = "ch"
		// frame sizes: measured once with an open gate in this very execution (only the encoder
		// is involved), then Q is derived from them
		type msg struct {
			kind    string // pub | rpc
			payload []byte
			frame   int
		}
		var msgs []*msg
		for i, s := range cfg.sizes {
			msgs = append(msgs, &msg{kind: "pub", payload: connlimitsPayload("p"+strconv.Itoa(i), s)})
		}
		for i, s := range cfg.rpcs {
			msgs = append(msgs, &msg{kind: "rpc", payload: connlimitsPayload("r"+strconv.Itoa(i), s)})
		}
		const pubOverhead = len(`{"push":{"channel":"ch","pub":{"data":}}}`)
		rpcOverhead := func(id uint32) int { return len(fmt.Sprintf(`{"id":%d,"rpc":{"data":}}`, id)) }
		// ids: connect 1, subscribe 2, calibration rpc 3, then the rpcs
		nextID := uint32(4)
		sum, min, max := 0, 1<<30, 0
		for _, m := range msgs {
			if m.kind == "pub" {
				m.frame = pubOverhead + len(m.payload)
			} else {
				m.frame = rpcOverhead(nextID) + len(m.payload)
				nextID++
			}
			sum += m.frame
			if m.frame < min {
				min = m.frame
			}
			if m.frame > max {
				max = m.frame
			}
		}
		Q := cfg.qdelta
		switch cfg.qbase {
		case "sum":
			Q += sum
		case "min":
			Q += min
		case "max":
			Q += max
		}
		n := vNewNode(func(c *Config) { c.ClientQueueMaxSize = Q })
		n.OnConnect(func(c *Client) {
			c.OnSubscribe(func(e SubscribeEvent, cb SubscribeCallback) { cb(SubscribeReply{}, nil) })
			c.OnRPC(func(e RPCEvent, cb RPCCallback) { cb(RPCReply{Data: e.Data}, nil) })
		})
		if err := n.Run(); err != nil {
			panic(err)
		}
		cl := vNewClient(n, vNewTransport(), &Credentials{UserID: "u"})
		gate := make(chan struct{})
		gated := false
		cl.t.onFrame = func(f vFrame) {
			if gated {
				<-gate // the consumer does not read: Write blocks
			}
		}
		// (the writer drains after every step: nothing is pending when the race starts)
		cl.connect()
		vsched.WaitIdle()
		cl.subscribe(ch)
		vsched.WaitIdle()
		// calibration of the size model against the encoder
		cal := connlimitsPayload("cal", 40)
		cl.cmd(&protocol.Command{Rpc: &protocol.RPCRequest{Data: cal}})
		vsched.WaitIdle()
		if _, err := n.Publish(ch, cal); err != nil {
			panic(err)
		}
		vsched.WaitIdle()
		if cl.t.closed || len(cl.t.frames) != 4 {
			panic(fmt.Sprintf("setup: closed=%v frames=%v (Q=%d)", cl.t.closed, cl.t.log(), Q))
		}
		if got, want := len(cl.t.frames[2].Raw), rpcOverhead(3)+len(cal); got != want {
			panic(fmt.Sprintf("size model: rpc reply frame has %d bytes, model says %d: %s", got, want, cl.t.frames[2].Raw))
		}
		if got, want := len(cl.t.frames[3].Raw), pubOverhead+len(cal); got != want {
			panic(fmt.Sprintf("size model: publication frame has %d bytes, model says %d: %s", got, want, cl.t.frames[3].Raw))
		}
		// block the consumer: M0 is taken out of the queue and hangs in Write
		gated = true
		if _, err := n.Publish(ch, []byte(`"m0"`)); err != nil {
			panic(err)
		}
		vsched.WaitIdle()
		vsched.Quiet(false)

		// ---- concurrent phase
		var wg sync.WaitGroup
		var rpcMsgs []*msg
		for _, m := range msgs {
			m := m
			if m.kind == "rpc" {
				rpcMsgs = append(rpcMsgs, m)
				continue
			}
			wg.Add(1)
			go func() {
				defer wg.Done()
				if _, err := n.Publish(ch, m.payload); err != nil {
					panic(err)
				}
			}()
		}
		if len(rpcMsgs) > 0 {
			wg.Add(1)
			go func() {
				defer wg.Done()
				for _, m := range rpcMsgs {
					if !cl.cmd(&protocol.Command{Rpc: &protocol.RPCRequest{Data: m.payload}}) {
						return
					}
				}
			}()
		}
		wg.Wait()
		vsched.WaitIdle()
		closedWhileBlocked := cl.t.closed
		gated = false
		close(gate)
		vsched.WaitIdle()
		vsched.Quiet(true)

		// ---- oracle: nothing was dequeued while the consumer was blocked, so the pending bytes
		// peak at the total
		exceed := sum > Q
		vsched.Logf("Q=%d sum=%d exceed=%v closed=%v code=%d frames=%d", Q, sum, exceed, cl.t.closed, cl.t.closeDisc.Code, len(cl.t.frames))
		class := fmt.Sprintf("pubs%d-rpcs%d", len(cfg.sizes), len(cfg.rpcs))
		switch {
		case exceed && !cl.t.closed:
			vsched.Failf("queue-over-limit-not-closed:"+class, "pending frames %d bytes > ClientQueueMaxSize %d but the connection stayed open: %v", sum, Q, cl.t.log())
		case exceed && cl.t.closeDisc.Code != DisconnectSlow.Code:
			vsched.Failf("queue-over-limit-wrong-code:"+class, "pending %d > %d: closed with %d, want 3008 slow", sum, Q, cl.t.closeDisc.Code)
		case !exceed && cl.t.closed:
			vsched.Failf("closed-within-queue-limit:"+class, "pending frames %d bytes <= ClientQueueMaxSize %d but the connection was closed with %d (%s)", sum, Q, cl.t.closeDisc.Code, cl.t.closeDisc.Reason)
		case !exceed:
			for _, m := range msgs {
				k := 0
				for _, f := range cl.t.frames[connlimitsMin(5, len(cl.t.frames)):] {
					r := f.Reply
					if m.kind == "pub" && r.Push != nil && r.Push.Pub != nil && string(r.Push.Pub.Data) == string(m.payload) ||
						m.kind == "rpc" && r.Rpc != nil && string(r.Rpc.Data) == string(m.payload) {
						k++
						if len(f.Raw) != m.frame {
							vsched.Failf("size-model", "frame of %s has %d bytes, model %d", m.payload[:6], len(f.Raw), m.frame)
						}
					}
				}
				if k != 1 {
					vsched.Failf("message-count-within-limit:"+class, "message %s delivered %d times (queue within limit, connection open): %v", m.payload[:6], k, cl.t.log())
				}
			}
		}
		_ = closedWhileBlocked
	}
}

func connlimitsMin(a, b int) int {
	if a < b {
		return a
	}
	return b
}
