//go:build verif

package centrifuge

import (
	"fmt"
	"strings"
	"time"

	"github.com/centrifugal/centrifuge/internal/zzverif/vsched"
)

// membrokerx (C17, E2 under the virtual clock): every operation history up to a depth bound
// over {publish(ch, size, ttl, metaTTL), history(ch, metaTTL), remove-history(ch), advance 1s,
// stop} is applied to a bare MemoryBroker (no Node.New; NewMemoryBroker only reads
// node.config.HistoryMetaTTL) and, in lockstep, to a boring reference model of a bounded
// append-only stream with Redis-like expiry rules:
//
//   - stored publications get offsets top+1, top+2, ...; the stream keeps the newest `size`;
//   - the content expires HistoryTTL after the LAST publish (top and epoch stay);
//   - RemoveHistory clears the content (top and epoch stay);
//   - the metadata (top + epoch) is discarded metaTTL after the LAST publish/history access;
//     only then a new epoch appears and offsets restart at 1;
//   - when the calls of a channel ask for different TTLs the expiry may be carried out as late as
//     the latest deadline ever requested (see the comment at the reference model);
//   - History returns the retained publications with offset > since.Offset (forward, oldest
//     first) or offset < since.Offset (reverse, newest first), truncated to limit (<0: all,
//     0: none), together with the current (top, epoch).
//
// When a history ends ("stop" letter or depth reached) both channels are probed with every
// (since, limit, reverse) combination, so that every state reachable within the depth bound is
// completely observed.

type mbxOp struct {
	kind string // pub | hist | rm | adv | stop
	ch   string
	size int
	ttl  int // seconds
	meta int // seconds; 0 = broker default
}

func (o mbxOp) String() string {
	switch o.kind {
	case "pub":
		return fmt.Sprintf("pub(%s,size=%d,ttl=%ds,meta=%ds)", o.ch, o.size, o.ttl, o.meta)
	case "hist":
		return fmt.Sprintf("hist(%s,meta=%ds)", o.ch, o.meta)
	case "rm":
		return fmt.Sprintf("rm(%s)", o.ch)
	case "adv":
		return "adv(1s)"
	}
	return o.kind
}

type mbxCfg struct {
	name      string
	depth     int
	chans     []string
	sizes     []int
	ttls      []int
	metas     []int
	histMetas []int
	hubMeta   int // broker default meta TTL in seconds
	only      []mbxOp // when set: the alphabet is adv + these + stop
	shards    int
	budget    int
}

func (c *mbxCfg) letters() []mbxOp {
	var out []mbxOp
	out = append(out, mbxOp{kind: "adv"})
	if len(c.only) > 0 {
		out = append(out, c.only...)
		return append(out, mbxOp{kind: "stop"})
	}
	for _, ch := range c.chans {
		for _, s := range c.sizes {
			for _, t := range c.ttls {
				for _, m := range c.metas {
					out = append(out, mbxOp{kind: "pub", ch: ch, size: s, ttl: t, meta: m})
				}
			}
		}
		for _, m := range c.histMetas {
			out = append(out, mbxOp{kind: "hist", ch: ch, meta: m})
		}
		out = append(out, mbxOp{kind: "rm", ch: ch})
	}
	out = append(out, mbxOp{kind: "stop"})
	return out
}

var mbxCfgs = map[string]*mbxCfg{}

func mbxVariants(tier string) []vsched.Variant {
	var cfgs []*mbxCfg
	if tier == "thorough" {
		cfgs = []*mbxCfg{
			{name: "d5/2ch/size12/ttl12/meta0-3/hub2", depth: 5, chans: []string{"a", "b"}, sizes: []int{1, 2}, ttls: []int{1, 2}, metas: []int{0, 3}, histMetas: []int{0, 3}, hubMeta: 2, shards: 16, budget: 900},
			{name: "d6/1ch/size12/ttl12/meta0-3/hub2", depth: 6, chans: []string{"a"}, sizes: []int{1, 2}, ttls: []int{1, 2}, metas: []int{0, 3}, histMetas: []int{0, 3}, hubMeta: 2, shards: 16, budget: 900},
			{name: "d8/1ch/size23/ttl2/meta0/hub30d", depth: 8, chans: []string{"a"}, sizes: []int{2, 3}, ttls: []int{2}, metas: []int{0}, histMetas: []int{0}, hubMeta: 30 * 24 * 3600, shards: 8, budget: 900},
			// metadata TTL shorter than the history TTL: the stream is discarded before its content expiry fires
			{name: "d11/short-meta-then-long", depth: 11, chans: []string{"a"}, hubMeta: 1, only: []mbxOp{{kind: "pub", ch: "a", size: 2, ttl: 3, meta: 1}, {kind: "pub", ch: "a", size: 2, ttl: 1, meta: 30}}, shards: 16, budget: 900},
		}
	} else {
		cfgs = []*mbxCfg{
			{name: "d4/2ch/size12/ttl12/meta0-3/hub2", depth: 4, chans: []string{"a", "b"}, sizes: []int{1, 2}, ttls: []int{1, 2}, metas: []int{0, 3}, histMetas: []int{0, 3}, hubMeta: 2, shards: 12, budget: 150},
			{name: "d5/1ch/size12/ttl12/meta0-3/hub2", depth: 5, chans: []string{"a"}, sizes: []int{1, 2}, ttls: []int{1, 2}, metas: []int{0, 3}, histMetas: []int{0, 3}, hubMeta: 2, shards: 8, budget: 150},
			{name: "d6/1ch/size23/ttl2/meta0/hub30d", depth: 6, chans: []string{"a"}, sizes: []int{2, 3}, ttls: []int{2}, metas: []int{0}, histMetas: []int{0}, hubMeta: 30 * 24 * 3600, shards: 2, budget: 150},
			// metadata TTL (1 s) shorter than the history TTL (3 s): the stream is discarded before its content
			// expiry fires; a later publish with a long metadata TTL must still expire after its own TTL
			{name: "d9/short-meta-then-long", depth: 9, chans: []string{"a"}, hubMeta: 1, only: []mbxOp{{kind: "pub", ch: "a", size: 2, ttl: 3, meta: 1}, {kind: "pub", ch: "a", size: 2, ttl: 1, meta: 30}}, shards: 8, budget: 150},
		}
	}
	var out []vsched.Variant
	for _, c := range cfgs {
		mbxCfgs[c.name] = c
		out = append(out, vsched.Variant{Name: c.name, Bound: 0, NoCache: true, Shards: c.shards, BudgetS: c.budget})
	}
	return out
}

func init() {
	vsched.Register(&vsched.Harness{
		Name: "membrokerx", Props: []string{"C17"}, Kind: "sched",
		Doc: "bare MemoryBroker under the virtual clock; all histories up to depth 4-8 over {publish(ch in {a,b}, size in {1,2}, ttl in {1s,2s}, metaTTL in {default 2s, 3s}), history(ch, metaTTL), remove-history(ch), advance 1s, stop}; " +
			"at the end of every history both channels are probed with since in {nil, offsets 0..top+2 x epoch {current, empty, stale}} x limit in {-1,0,1,2} x reverse; " +
			"oracle: reference model (slice + top + epoch generation + content/meta deadlines): publish offsets = top+1, epoch stable until meta discard and fresh afterwards, removed/expired stream keeps top and epoch, history = retained suffix filtered by since/limit/direction",
		Variants: mbxVariants,
		Sched: func(v vsched.Variant) func() {
			vSequentialProcess()
			return mbxBody(mbxCfgs[v.Name])
		},
	})
}

// mbxProbeBeyondTop includes since.Offset = top+2 (a position that never existed in the current
// epoch) in the probed filters. The filter semantics of the statement ("publications before
// since" in reverse direction) and the Redis broker (XREVRANGE from since-1) return the retained
// publications for it.
const mbxProbeBeyondTop = true

// ---- reference model ----------------------------------------------------------------------
//
// The property does not say at which instant an expiry is carried out when the calls of one
// channel ask for different TTLs. The model therefore is the weakest reading: the LAST call's
// deadline is the earliest moment the content (metadata) may disappear, the LATEST deadline
// ever requested is the moment it must be gone. With a constant TTL both coincide and expiry is
// exact. In between, the model keeps every possibility (a small set of states) and narrows the
// set with each observation; an observation that no possible state explains is a violation.

type mbxItem struct {
	off  uint64
	data string
}

type mbxState struct {
	exists bool // metadata (top + epoch) present
	gen    int  // epoch generation: index into mbxChan.epochs (== len: not yet observed)
	top    uint64
	items  []mbxItem // never modified in place
	cDL    int64     // second at which the content may expire (0: none)
	mDL    int64     // second at which the metadata may be discarded (0: never)
}

func (s mbxState) key() string {
	return fmt.Sprintf("%v|%d|%d|%d|%d|%s", s.exists, s.gen, s.top, s.cDL, s.mDL, mbxItemsDesc(s.items))
}

type mbxChan struct {
	states     []mbxState // possible states; states[0] is the one with all expiries carried out on time
	maxC, maxM int64      // latest content / metadata deadline ever requested
	epochs     []string   // epoch strings observed from the implementation, by generation
}

type mbxModel struct {
	now     int64
	hubMeta int64
	chans   map[string]*mbxChan
}

func (m *mbxModel) ch(name string) *mbxChan {
	c := m.chans[name]
	if c == nil {
		c = &mbxChan{states: []mbxState{{}}}
		m.chans[name] = c
	}
	return c
}

func (m *mbxModel) advance(sec int64) {
	m.now += sec
	for _, c := range m.chans {
		var out []mbxState
		seen := map[string]bool{}
		add := func(s mbxState) {
			if k := s.key(); !seen[k] {
				seen[k] = true
				out = append(out, s)
			}
		}
		for _, s := range c.states {
			metaVariants := []mbxState{s}
			if s.exists && s.mDL != 0 && m.now >= s.mDL {
				metaVariants = []mbxState{{}}
				if m.now < c.maxM {
					metaVariants = append(metaVariants, s)
				}
			}
			for _, v := range metaVariants {
				if v.exists && v.cDL != 0 && m.now >= v.cDL {
					e := v
					e.items, e.cDL = nil, 0
					add(e)
					if m.now < c.maxC {
						add(v)
					}
				} else {
					add(v)
				}
			}
		}
		c.states = out
	}
}

// touch applies what publish and history have in common: the metadata is created when absent
// and its deadline is renewed.
func (m *mbxModel) touch(c *mbxChan, meta int) {
	ttl := int64(meta)
	if ttl == 0 {
		ttl = m.hubMeta
	}
	for i := range c.states {
		s := &c.states[i]
		if !s.exists {
			*s = mbxState{exists: true, gen: len(c.epochs)}
		}
		if ttl > 0 {
			s.mDL = m.now + ttl
		}
	}
	if ttl > 0 && m.now+ttl > c.maxM {
		c.maxM = m.now + ttl
	}
}

func (m *mbxModel) publish(o mbxOp, data string) *mbxChan {
	c := m.ch(o.ch)
	m.touch(c, o.meta)
	dl := m.now + int64(o.ttl)
	if dl > c.maxC {
		c.maxC = dl
	}
	for i := range c.states {
		s := &c.states[i]
		s.top++
		items := append(append([]mbxItem(nil), s.items...), mbxItem{off: s.top, data: data})
		for len(items) > o.size {
			items = items[1:]
		}
		s.items = items
		s.cDL = dl
	}
	return c
}

func (m *mbxModel) history(ch string, meta int) *mbxChan {
	c := m.ch(ch)
	m.touch(c, meta)
	return c
}

func (m *mbxModel) remove(ch string) {
	c := m.ch(ch)
	for i := range c.states {
		c.states[i].items = nil
	}
}

func (s mbxState) query(since *uint64, limit int, reverse bool) []mbxItem {
	var sel []mbxItem
	if !reverse {
		for _, it := range s.items {
			if since == nil || it.off > *since {
				sel = append(sel, it)
			}
		}
	} else {
		for i := len(s.items) - 1; i >= 0; i-- {
			it := s.items[i]
			if since == nil || it.off < *since {
				sel = append(sel, it)
			}
		}
	}
	if limit == 0 {
		return nil
	}
	if limit > 0 && len(sel) > limit {
		sel = sel[:limit]
	}
	return sel
}

// ---- harness ------------------------------------------------------------------------------

type mbxHandler struct{ pubs int }

func (h *mbxHandler) HandlePublication(string, *Publication, StreamPosition, bool, *Publication) error {
	h.pubs++
	return nil
}
func (h *mbxHandler) HandleJoin(string, *ClientInfo) error  { return nil }
func (h *mbxHandler) HandleLeave(string, *ClientInfo) error { return nil }

func mbxItemsDesc(its []mbxItem) string {
	var l []string
	for _, it := range its {
		l = append(l, fmt.Sprintf("%d:%s", it.off, it.data))
	}
	return "[" + strings.Join(l, " ") + "]"
}

func mbxPubsDesc(ps []*Publication) string {
	var l []string
	for _, p := range ps {
		if p == nil {
			l = append(l, "nil")
			continue
		}
		l = append(l, fmt.Sprintf("%d:%s", p.Offset, p.Data))
	}
	return "[" + strings.Join(l, " ") + "]"
}

func mbxSamePubs(got []*Publication, want []mbxItem) bool {
	if len(got) != len(want) {
		return false
	}
	for i := range got {
		if got[i] == nil || got[i].Offset != want[i].off || string(got[i].Data) != want[i].data {
			return false
		}
	}
	return true
}

// mbxRun is the state of one execution.
type mbxRun struct {
	b      *MemoryBroker
	m      *mbxModel
	trace  []string
	pubNo  int
	failed bool
}

func (r *mbxRun) fail(sig, format string, a ...any) {
	vsched.Failf(sig, "%s\nhistory: %s", fmt.Sprintf(format, a...), strings.Join(r.trace, " ; "))
}

// checkPos narrows the possible states of c to those that explain the returned position.
func (r *mbxRun) checkPos(c *mbxChan, what string, got StreamPosition) bool {
	known := -1
	for g, e := range c.epochs {
		if e == got.Epoch {
			known = g
		}
	}
	var keep []mbxState
	fresh := false
	for _, s := range c.states {
		if s.top != got.Offset || got.Epoch == "" {
			continue
		}
		if s.gen < len(c.epochs) {
			if known == s.gen {
				keep = append(keep, s)
			}
		} else if known < 0 {
			keep = append(keep, s)
			fresh = true
		}
	}
	if len(keep) == 0 {
		r.failed = true
		s := c.states[0]
		switch {
		case got.Epoch == "":
			r.fail(what+"-epoch-empty", "%s: empty epoch", what)
		case s.top != got.Offset:
			r.fail(what+"-top", "%s: top offset %d, model %d (%d possible states)", what, got.Offset, s.top, len(c.states))
		case s.gen < len(c.epochs):
			r.fail(what+"-epoch-changed-without-meta-discard", "%s: epoch %q, but the metadata was not discarded since epoch %q was reported", what, got.Epoch, c.epochs[s.gen])
		default:
			r.fail(what+"-epoch-kept-after-meta-discard", "%s: epoch %q (generation %d) reported again after the metadata had to be discarded", what, got.Epoch, known)
		}
		return false
	}
	if fresh {
		c.epochs = append(c.epochs, got.Epoch)
	}
	c.states = keep
	return true
}

// checkPubs narrows the possible states of c to those that explain the returned publications.
// fatal=false: a mismatch is reported but the states are kept (pure query classes).
func (r *mbxRun) checkPubs(c *mbxChan, what, q string, got []*Publication, since *uint64, limit int, reverse bool, fatal bool) bool {
	var keep []mbxState
	for _, s := range c.states {
		if mbxSamePubs(got, s.query(since, limit, reverse)) {
			keep = append(keep, s)
		}
	}
	if len(keep) == 0 {
		s := c.states[0]
		r.fail(what, "History(%s) = %s, model %s (retained %s, top %d, %d possible states)", q, mbxPubsDesc(got), mbxItemsDesc(s.query(since, limit, reverse)), mbxItemsDesc(s.items), s.top, len(c.states))
		if fatal {
			r.failed = true
			return false
		}
		return true
	}
	c.states = keep
	return true
}

// apply applies one letter to the broker and the model and compares; false: the history ends.
func (r *mbxRun) apply(op mbxOp) bool {
	if op.kind == "stop" {
		return false
	}
	m, b := r.m, r.b
	r.trace = append(r.trace, fmt.Sprintf("t=%d %s", m.now, op))
	switch op.kind {
	case "adv":
		vsched.Advance(vSec)
		m.advance(1)
	case "pub":
		r.pubNo++
		data := fmt.Sprintf("p%d", r.pubNo)
		res, err := b.Publish(op.ch, []byte(data), PublishOptions{
			HistorySize: op.size, HistoryTTL: time.Duration(op.ttl) * time.Second, HistoryMetaTTL: time.Duration(op.meta) * time.Second,
		})
		c := m.publish(op, data)
		if err != nil {
			r.failed = true
			r.fail("publish-error", "Publish error %v", err)
			return false
		}
		if res.Suppressed {
			r.failed = true
			r.fail("publish-suppressed", "plain publish reported suppressed (%s)", res.SuppressReason)
			return false
		}
		if !r.checkPos(c, "publish", res.StreamPosition) {
			return false
		}
	case "hist":
		pubs, pos, err := b.History(op.ch, HistoryOptions{Filter: HistoryFilter{Limit: -1}, MetaTTL: time.Duration(op.meta) * time.Second})
		c := m.history(op.ch, op.meta)
		if err != nil {
			r.failed = true
			r.fail("history-error", "History error %v", err)
			return false
		}
		if !r.checkPos(c, "history", pos) {
			return false
		}
		if !r.checkPubs(c, "history-forward-nosince", op.ch+",since=nil,limit=-1,reverse=false", pubs, nil, -1, false, true) {
			return false
		}
	case "rm":
		if err := b.RemoveHistory(op.ch); err != nil {
			r.failed = true
			r.fail("remove-error", "RemoveHistory error %v", err)
			return false
		}
		m.remove(op.ch)
	}
	return true
}

// probe queries channel ch with every filter of the domain.
func (r *mbxRun) probe(ch string) bool {
	m, b := r.m, r.b
	c := m.history(ch, 0)
	_, pos, err := b.History(ch, HistoryOptions{Filter: HistoryFilter{Limit: 0}})
	if err != nil {
		r.failed = true
		r.fail("history-error", "History error %v", err)
		return false
	}
	if !r.checkPos(c, "probe", pos) {
		return false
	}
	// all remaining states agree on top and epoch
	top := c.states[0].top
	cur := c.epochs[c.states[0].gen]
	type sinceT struct {
		off   *uint64
		epoch string
	}
	sinces := []sinceT{{nil, ""}}
	maxSince := top + 1
	if mbxProbeBeyondTop {
		maxSince = top + 2
	}
	for o := uint64(0); o <= maxSince; o++ {
		o := o
		sinces = append(sinces, sinceT{&o, cur})
		if o == top || o == 0 {
			sinces = append(sinces, sinceT{&o, ""}, sinceT{&o, "stale"})
		}
	}
	for _, s := range sinces {
		for _, lim := range []int{-1, 0, 1, 2} {
			for _, rev := range []bool{false, true} {
				f := HistoryFilter{Limit: lim, Reverse: rev}
				if s.off != nil {
					f.Since = &StreamPosition{Offset: *s.off, Epoch: s.epoch}
				}
				m.history(ch, 0)
				pubs, pos, err := b.History(ch, HistoryOptions{Filter: f})
				q := ""
				if r.failed || err != nil || pos.Offset != top || pos.Epoch != cur || len(pubs) > 0 || len(c.states[0].items) > 0 {
					// the description is only needed for messages; building it for every query is the
					// dominant cost of an execution, so skip it for the trivially empty ones
					q = fmt.Sprintf("%s,since=nil,limit=%d,reverse=%v", ch, lim, rev)
					if s.off != nil {
						ep := "current"
						if s.epoch != cur {
							ep = fmt.Sprintf("%q", s.epoch)
						}
						q = fmt.Sprintf("%s,since=%d/%s,limit=%d,reverse=%v", ch, *s.off, ep, lim, rev)
					}
				}
				if err != nil {
					r.failed = true
					r.fail("history-error", "History(%s) error %v", q, err)
					return false
				}
				if !r.checkPos(c, "probe", pos) {
					return false
				}
				what := "history-forward"
				if rev {
					what = "history-reverse"
				}
				fatal := true
				switch {
				case s.off == nil:
					what += "-nosince"
				case *s.off > top+1:
					what += "-since-beyond-top"
					fatal = false
				case s.epoch != cur:
					what += "-since-other-epoch"
				}
				if !r.checkPubs(c, what, q, pubs, s.off, lim, rev, fatal) {
					return false
				}
			}
		}
	}
	return true
}

func mbxBody(cfg *mbxCfg) func() {
	ops := cfg.letters()
	A := len(ops)
	return func() {
		vsched.Quiet(true)
		b := vBareMemoryBroker(time.Duration(cfg.hubMeta) * time.Second)
		if err := b.RegisterBrokerEventHandler(&mbxHandler{}); err != nil {
			panic(err)
		}
		vsched.WaitIdle()
		choose := func(k int) int {
			vsched.Quiet(false)
			x := vsched.ChooseFree(k)
			vsched.Quiet(true)
			return x
		}
		r := &mbxRun{b: b, m: &mbxModel{hubMeta: int64(cfg.hubMeta), chans: map[string]*mbxChan{}}}

		pending := 0
		for step := 0; step < cfg.depth && !r.failed; step++ {
			var l int
			switch {
			case step == 0 && cfg.depth >= 2:
				// the first two letters are one combined choice: balanced sharding over root children
				x := choose(A * A)
				l, pending = x/A, x%A
			case step == 1 && cfg.depth >= 2:
				l = pending
			default:
				l = choose(A)
			}
			if !r.apply(ops[l]) {
				break
			}
		}
		if r.failed {
			return
		}
		var state []string
		for _, ch := range cfg.chans {
			if !r.probe(ch) {
				return
			}
			c := r.m.ch(ch)
			s := c.states[0]
			state = append(state, fmt.Sprintf("%s:g%d,t%d,%s,c%v,m%d,alt%d", ch, s.gen, s.top, mbxItemsDesc(s.items), s.cDL != 0, s.mDL-r.m.now, len(c.states)))
		}
		vsched.Logf("%s", strings.Join(state, " "))
	}
}
