//go:build verif

package centrifuge

import (
	"fmt"
	"strings"

	"github.com/centrifugal/centrifuge/internal/zzverif/vsched"
)

// pubqueuex (C38, E2): the channel medium's publication queue (publicationQueue in
// channel_medium.go, the ring buffer between Node.handlePublication and the medium's writer) under
// every operation sequence. The medium's ordering guarantee rests on it being FIFO across its
// grow / shrink steps.
//
// Alphabet: a (Add next publication, 1 byte), A (Add next publication, 3 bytes), r (Remove),
// c (Close, ends the sequence). Initial capacity 2 (the value channelMedium uses) and 1, 3.
// Reference: a slice. After every operation: Remove returns the reference head (same offset) or
// (zero, false) on empty, Len == len(reference), Size == sum of data lengths, Add returns true
// while open and false after Close, Closed as expected; at the end the queue is drained and must
// yield exactly the reference, in order.
func init() {
	vsched.Register(&vsched.Harness{
		Name: "pubqueuex", Props: []string{"C38"}, Kind: "sched",
		Doc: "channel medium publication queue (ring buffer with grow / shrink): every sequence over {Add 1-byte, Add 3-byte, Remove, Close} of length <= 12 (quick) / 14 (thorough) from initial capacities {1, 2, 3}; reference: a slice; oracle after every operation: Remove returns the reference head, Len and Size agree with the reference, Add succeeds iff open; final drain yields the reference in order",
		Variants: func(tier string) []vsched.Variant {
			if tier == "thorough" {
				return []vsched.Variant{{Name: "len14", Bound: 0, Shards: 8, NoCache: true, MaxSteps: 1 << 30, BudgetS: 280}}
			}
			return []vsched.Variant{{Name: "len12", Bound: 0, Shards: 2, NoCache: true, MaxSteps: 1 << 30, BudgetS: 100}}
		},
		Sched: func(v vsched.Variant) func() {
			maxLen := 12
			if v.Name == "len14" {
				maxLen = 14
			}
			// sequences are enumerated in chunks: one execution = all sequences sharing a prefix of
			// length 4 (3^4 = 81 chunks) x 3 capacities, so that executions stay few and long
			const prefixLen = 4
			chunks := 81 * 3
			return func() {
				chunk := vsched.ChooseFree(chunks)
				vsched.Quiet(true)
				initCap := []int{2, 1, 3}[chunk%3]
				pre := chunk / 3
				prefix := make([]byte, prefixLen)
				for i := prefixLen - 1; i >= 0; i-- {
					prefix[i] = "aAr"[pre%3]
					pre /= 3
				}
				nseq, nops := 0, 0
				classes := map[string]int{}
				var rec func(seq []byte)
				run := func(seq []byte) {
					nseq++
					q := newPublicationQueue(initCap)
					var ref []*Publication
					next := uint64(0)
					closed := false
					fail := func(sig, format string, a ...any) {
						vsched.Failf("pubqueue-"+sig, "initial capacity %d, sequence %q: %s", initCap, string(seq), fmt.Sprintf(format, a...))
					}
					wrapped := false
					for _, op := range seq {
						nops++
						switch op {
						case 'a', 'A':
							next++
							data := []byte("x")
							if op == 'A' {
								data = []byte("xyz")
							}
							p := &Publication{Offset: next, Data: data}
							ok := q.Add(queuedPublication{Publication: queuedPub{pub: p, sp: StreamPosition{Offset: next}}})
							if ok == closed {
								fail("add-result", "Add returned %v on a queue closed=%v", ok, closed)
								return
							}
							if ok {
								ref = append(ref, p)
							}
						case 'r':
							got, ok := q.Remove()
							if len(ref) == 0 || closed {
								if ok {
									fail("remove-from-empty", "Remove returned offset %v from an empty / closed queue", got.Publication.pub)
									return
								}
								continue
							}
							if !ok || got.Publication.pub == nil || got.Publication.pub != ref[0] {
								var g any = "nothing"
								if ok && got.Publication.pub != nil {
									g = got.Publication.pub.Offset
								}
								fail("fifo-order", "Remove returned offset %v, the oldest queued publication is offset %d (queued %s)", g, ref[0].Offset, pubqueueOffsets(ref))
								return
							}
							ref = ref[1:]
						case 'c':
							q.Close()
							closed = true
							ref = nil
						}
						if q.head > q.tail && q.cnt > 0 {
							wrapped = true
						}
						size := 0
						for _, p := range ref {
							size += len(p.Data)
						}
						if q.Len() != len(ref) || q.Size() != size || q.Closed() != closed {
							fail("len-size", "after %q: Len=%d Size=%d Closed=%v, reference len=%d size=%d closed=%v", string(op), q.Len(), q.Size(), q.Closed(), len(ref), size, closed)
							return
						}
					}
					if wrapped {
						classes["wrapped"]++
					} else {
						classes["straight"]++
					}
					for len(ref) > 0 {
						got, ok := q.Remove()
						if !ok || got.Publication.pub != ref[0] {
							var g any = "nothing"
							if ok && got.Publication.pub != nil {
								g = got.Publication.pub.Offset
							}
							fail("fifo-order", "final drain returned offset %v, want %d (queued %s)", g, ref[0].Offset, pubqueueOffsets(ref))
							return
						}
						ref = ref[1:]
					}
					if _, ok := q.Remove(); ok {
						fail("remove-from-empty", "drained queue still returns an element")
					}
				}
				rec = func(seq []byte) {
					run(seq)
					if len(seq) >= maxLen {
						return
					}
					for _, op := range []byte("aArc") {
						if op == 'c' {
							run(append(append([]byte{}, seq...), 'c', 'a', 'r'))
							continue
						}
						rec(append(append([]byte{}, seq...), op))
					}
				}
				rec(prefix)
				if chunk < 3 { // the short sequences (shorter than the prefix) once per capacity
					var short func(seq []byte)
					short = func(seq []byte) {
						run(seq)
						if len(seq) < prefixLen-1 {
							for _, op := range []byte("aAr") {
								short(append(append([]byte{}, seq...), op))
							}
						}
					}
					short(nil)
				}
				vsched.Logf("cap=%d prefix=%s sequences=%d operations=%d wrapped-at-some-point=%d never-wrapped=%d", initCap, string(prefix), nseq, nops, classes["wrapped"], classes["straight"])
			}
		},
	})
}

func pubqueueOffsets(ps []*Publication) string {
	var l []string
	for _, p := range ps {
		l = append(l, fmt.Sprint(p.Offset))
	}
	return "[" + strings.Join(l, " ") + "]"
}

// pubqueuerace (C38, E1): the medium's writer loop (Wait, then Remove until empty) against a
// producer adding publications, on the real publicationQueue. A publication handed to an open
// queue must reach the writer without any further traffic: at quiescence nothing is left in the
// queue while the writer sleeps.
func init() {
	vsched.Register(&vsched.Harness{
		Name: "pubqueuerace", Props: []string{"C38"}, Kind: "sched",
		Doc: "publicationQueue: one consumer thread running the medium writer's loop (Wait; Remove until empty) and 1-2 producer threads adding 2-3 publications, optional Close at the end; every interleaving within the preemption bound (2 quick / 3 thorough); oracle at quiescence: every added publication was consumed, in per-producer order, and none is left in the queue while the consumer waits",
		Variants: func(tier string) []vsched.Variant {
			if tier == "thorough" {
				return []vsched.Variant{{Name: "p1x3", Bound: 3, Shards: 4, BudgetS: 200}, {Name: "p2x2", Bound: 3, Shards: 8, BudgetS: 200}}
			}
			return []vsched.Variant{{Name: "p1x3", Bound: 2, Shards: 1, BudgetS: 100}, {Name: "p2x2", Bound: 2, Shards: 1, BudgetS: 100}}
		},
		Sched: func(v vsched.Variant) func() {
			producers, each := 1, 3
			if v.Name == "p2x2" {
				producers, each = 2, 2
			}
			return func() {
				q := newPublicationQueue(2)
				var got []uint64
				consumerDone := make(chan struct{})
				go func() {
					defer close(consumerDone)
					for {
						if !q.Wait() {
							return
						}
						for {
							it, ok := q.Remove()
							if !ok {
								break
							}
							vsched.Visible()
							got = append(got, it.Publication.pub.Offset)
						}
					}
				}()
				done := make(chan struct{}, producers)
				for p := 0; p < producers; p++ {
					p := p
					go func() {
						for i := 0; i < each; i++ {
							off := uint64(p*100 + i + 1)
							q.Add(queuedPublication{Publication: queuedPub{pub: &Publication{Offset: off, Data: []byte("x")}}})
						}
						done <- struct{}{}
					}()
				}
				for p := 0; p < producers; p++ {
					<-done
				}
				vsched.WaitIdle()
				vsched.Quiet(true)
				left := q.Len()
				vsched.Logf("%s: consumed %v, left in queue %d", v.Name, got, left)
				if left != 0 || len(got) != producers*each {
					vsched.Failf("pubqueue-stranded", "producers finished and the system is idle: %d of %d publications consumed (%v), %d left in the open queue while the writer waits", len(got), producers*each, got, left)
				}
				last := map[uint64]uint64{}
				for _, off := range got {
					if off <= last[off/100] {
						vsched.Failf("pubqueue-race-order", "publications of one producer consumed out of order: %v", got)
					}
					last[off/100] = off
				}
				q.Close()
				<-consumerDone
			}
		},
	})
}
