//go:build verif

package centrifuge

import (
	"bytes"
	"context"
	"fmt"
	"io"
	"net/http"
	"net/url"
	"strings"
	"sync"
	"time"

	"github.com/centrifugal/centrifuge/internal/zzverif/vsched"
	"github.com/centrifugal/protocol"
)

// shutdownx (C08, E1): "After node shutdown completes, no connection stays connected and no new
// connection becomes connected."
//   race:   Node.Shutdown racing a new connection's connect command (and an existing subscribed one)
//   after:  Shutdown completed, then a connection attempt through an entry point
//           {generic NewClient+connect command, SSE ServeHTTP, HTTP-stream ServeHTTP}

func init() {
	vsched.Register(&vsched.Harness{
		Name: "shutdownx", Props: []string{"C08"}, Kind: "sched",
		Doc: "node with one connected+subscribed connection; variant race (-lifo: newest-thread-first default order; -disc-in-handler: the new connection's connect handler calls Client.Disconnect): Node.Shutdown on one thread, a new connection's connect command on another (delay bound 2/3); at the instant Shutdown returns, and when the racing connect command returns after that, no connection is in the connected state; variants after-*: Shutdown completes, then a connection attempt through the generic client API / SSE handler / HTTP-stream handler; oracle: once Shutdown has returned and everything settled no connection is registered in the hub or reports itself connected, and the attempt made after shutdown never ran the connect callback",
		Variants: func(tier string) []vsched.Variant {
			b := 1
			if tier == "thorough" {
				b = 2
			}
			return []vsched.Variant{
				{Name: "race", Bound: b + 1, Delay: true, Shards: 8, BudgetS: 100},
				// same race under the other default order (newest thread first): the default schedule
				// follows Shutdown's fan-out (Shutdown -> hub.shutdown -> shard pass) to its end before
				// the connect thread resumes, so "shutdown pass overtakes a connect in flight" costs one
				// deviation instead of one per hand-off
				{Name: "race-lifo", Bound: b + 1, Delay: true, LIFO: true, Shards: 8, BudgetS: 100},
				// the connect handler of the new connection itself asks for a server-side disconnect
				// (Client.Disconnect spawns the close, which waits for the handler to finish) while
				// Shutdown races: Shutdown must still wait for that connection to be closed
				{Name: "race-disc-in-handler", Bound: b + 1, Delay: true, Shards: 8, BudgetS: 100},
				{Name: "race-disc-in-handler-lifo", Bound: b + 1, Delay: true, LIFO: true, Shards: 8, BudgetS: 100},
				{Name: "after-generic", Bound: 0, BudgetS: 30},
				{Name: "after-sse", Bound: 0, BudgetS: 30},
				{Name: "after-http_stream", Bound: 0, BudgetS: 30},
			}
		},
		Sched: func(v vsched.Variant) func() { return shutdownxBody(v.Name) },
	})
}

func shutdownxBody(variant string) func() {
	return func() {
		vsched.Quiet(true)
		n := vNewNode(nil)
		connects := 0
		var clients []*Client
		n.OnConnecting(func(ctx context.Context, e ConnectEvent) (ConnectReply, error) {
			return ConnectReply{Credentials: &Credentials{UserID: "u"}}, nil
		})
		armed := false        // the concurrent phase has started
		shutdownDone := false // Node.Shutdown has returned
		n.OnConnect(func(c *Client) {
			if armed && strings.HasPrefix(variant, "race-disc-in-handler") {
				c.Disconnect(DisconnectForceNoReconnect)
			}
			vsched.Visible()
			connects++
			clients = append(clients, c)
			c.OnSubscribe(func(e SubscribeEvent, cb SubscribeCallback) { cb(SubscribeReply{}, nil) })
		})
		if err := n.Run(); err != nil {
			panic(err)
		}
		old := vNewClient(n, vNewTransport(), nil)
		old.connect()
		old.subscribe("ch")
		vsched.WaitIdle()
		connectsBefore := connects

		attempt := func(kind string) {
			switch kind {
			case "generic":
				cl := vNewClient(n, vNewTransport(), nil)
				cl.connect()
			case "sse", "http_stream":
				cmds := []*protocol.Command{{Id: 1, Connect: &protocol.ConnectRequest{}}}
				ctx, cancel := context.WithCancel(context.Background())
				w := &vRespWriter{hdr: http.Header{}}
				req := &http.Request{Method: http.MethodPost, Header: http.Header{}, Proto: "HTTP/1.1", ProtoMajor: 1, ProtoMinor: 1}
				var h http.Handler
				if kind == "sse" {
					h = NewSSEHandler(n, SSEConfig{})
					u, _ := url.Parse("/connection/sse?cf_connect=" + url.QueryEscape(string(vJSONCommands(cmds...))))
					req.Method = http.MethodGet
					req.URL = u
					req.Body = http.NoBody
				} else {
					h = NewHTTPStreamHandler(n, HTTPStreamConfig{})
					req.URL = &url.URL{Path: "/connection/http_stream"}
					req.Body = io.NopCloser(bytes.NewReader(vJSONCommands(cmds...)))
				}
				req = req.WithContext(ctx)
				done := make(chan struct{})
				go func() {
					h.ServeHTTP(w, req)
					close(done)
				}()
				vsched.WaitIdle()
				// observe before the request ends
				for _, c := range clients[connectsBefore:] {
					if c.status == statusConnected {
						vsched.Failf("connected-after-shutdown:"+kind, "a connection made through the %s handler after Shutdown returned became connected", kind)
					}
				}
				cancel()
				<-done
			}
		}

		switch variant {
		case "race", "race-lifo", "race-disc-in-handler", "race-disc-in-handler-lifo":
			armed = true
			vsched.Quiet(false)
			var wg sync.WaitGroup
			wg.Add(2)
			go func() {
				defer wg.Done()
				_ = n.Shutdown(context.Background())
				// "after node shutdown completes": observed at the instant Shutdown returns
				vsched.Visible()
				shutdownDone = true
				for _, c := range clients {
					if c.status == statusConnected {
						vsched.Failf("connected-when-shutdown-returned:race", "Node.Shutdown returned while a connection is in the connected state")
					}
				}
			}()
			go func() {
				defer wg.Done()
				// (A clause "no successful connect reply is written after Shutdown returned" was tried and
				// withdrawn: a connection that was already closed before Shutdown began may still be
				// flushing its queue, which is not a connection becoming connected.)
				t := vNewTransport()
				cl := vNewClient(n, t, nil)
				cl.connect()
				// the connect command has returned: a connection that is connected now although
				// Shutdown had already returned became (or stayed) connected after shutdown completed
				vsched.Visible()
				if shutdownDone && cl.c.status == statusConnected {
					vsched.Failf("connected-after-shutdown-returned:race", "the connect command finished with the connection in the connected state after Node.Shutdown had returned")
				}
			}()
			wg.Wait()
			vsched.WaitIdle()
			vsched.Quiet(true)
		default:
			_ = n.Shutdown(context.Background())
			vsched.WaitIdle()
			attempt(variant[len("after-"):])
		}
		vsched.Advance(int64(2 * time.Second))
		stillConnected := 0
		for _, c := range clients {
			if c.status == statusConnected {
				stillConnected++
			}
		}
		vsched.Logf("variant=%s connects=%d(before %d) hubClients=%d stillConnected=%d", variant, connects, connectsBefore, n.hub.NumClients(), stillConnected)
		kind := "race"
		if !strings.HasPrefix(variant, "race") {
			kind = variant[len("after-"):]
		}
		if n.hub.NumClients() != 0 || stillConnected != 0 {
			vsched.Failf("connection-survives-shutdown:"+kind, "after Shutdown returned and everything settled %d connections are registered in the hub and %d report themselves connected (%s)", n.hub.NumClients(), stillConnected, fmt.Sprint(variant))
		}
		if kind != "race" && connects != connectsBefore {
			vsched.Failf("connect-callback-after-shutdown:"+kind, "the connect callback ran for a connection attempt made after Shutdown returned (%s entry point)", kind)
		}
	}
}
