//go:build verif

package centrifuge

import (
	"encoding/json"
	"fmt"
	"strings"
	"time"

	"github.com/centrifugal/centrifuge/internal/zzverif/vsched"
	"github.com/centrifugal/protocol"
)

// ---- channel history world: shared by recoverx (C02), cachex (C03), histcmdx (C43) -----------
//
// One execution builds ONE operation history (chosen by a single ChooseFree at the very start, so
// that the explorer's root has one child per history and sharding is balanced) on one or more
// channels of a fresh Node with the in-memory broker, under the virtual clock. A boring reference
// model (vhModel) remembers everything ever published per epoch and what is still retained.

const (
	vhOpPubA    = iota // publish with tags {t:a}
	vhOpPubB           // publish with tags {t:b}
	vhOpRemove         // Node.RemoveHistory
	vhOpAdvTTL         // advance past HistoryTTL: stream cleared, top offset and epoch kept
	vhOpAdvMeta        // advance past the history meta TTL: stream dropped, next access starts a new epoch
	vhNumOps
)

var vhOpNames = [...]string{"pa", "pb", "rm", "ttl", "meta"}

// Durations are chosen such that no expiry deadline ever coincides with the end of an advance
// (13a + 107b is never 10 or 100 for the depths used); the model panics if it would.
const (
	vhHistTTL = 10 * time.Second
	vhMetaTTL = 100 * time.Second
	vhAdvTTL  = 13 * time.Second
	vhAdvMeta = 107 * time.Second
)

const vhForeignEpoch = "zzforeign"

// vhCount returns the number of op sequences of length 0..depth.
func vhCount(depth int) int {
	n, p := 0, 1
	for l := 0; l <= depth; l++ {
		n += p
		p *= vhNumOps
	}
	return n
}

// vhDecode maps an index in [0, vhCount(depth)) to an op sequence (shortest sequences first).
func vhDecode(idx int) []int {
	l, p := 0, 1
	for idx >= p {
		idx -= p
		p *= vhNumOps
		l++
	}
	ops := make([]int, l)
	for i := l - 1; i >= 0; i-- {
		ops[i] = idx % vhNumOps
		idx /= vhNumOps
	}
	return ops
}

func vhOpsString(ops []int) string {
	var l []string
	for _, o := range ops {
		l = append(l, vhOpNames[o])
	}
	return "[" + strings.Join(l, " ") + "]"
}

// vhPub is one publication as the model remembers it.
type vhPub struct {
	off  uint64
	tag  string
	data string
}

// vhModel is the reference model of one channel.
type vhModel struct {
	name string
	idx  int
	size int
	now  int64 // virtual seconds since the start of the execution

	exists    bool // a stream object (top offset + epoch) exists in the broker
	epochIdx  int  // index of the current epoch; -1 before the first stream
	top       uint64
	retained  []vhPub // ascending offsets
	hasExpire bool
	expireAt  int64
	hasRemove bool
	removeAt  int64

	all    map[int][]vhPub // epoch index -> everything ever published in it
	epochs []string        // epoch names as assigned by the implementation (opaque)
	seq    int
}

func vhNewModel(idx int, size int) *vhModel {
	return &vhModel{name: fmt.Sprintf("ch%d", idx), idx: idx, size: size, epochIdx: -1, all: map[int][]vhPub{}}
}

func (m *vhModel) ensureStream() {
	if !m.exists {
		m.exists = true
		m.epochIdx++
		m.epochs = append(m.epochs, "")
		m.top = 0
		m.retained = nil
	}
}

func (m *vhModel) touchMeta() {
	m.hasRemove = true
	m.removeAt = m.now + int64(vhMetaTTL/time.Second)
}

func (m *vhModel) nextData(tag string) string {
	m.seq++
	return fmt.Sprintf(`{"c":%d,"n":%d,"t":"%s"}`, m.idx, m.seq, tag)
}

// publish records a publication with the given tag; returns the offset it must get.
func (m *vhModel) publish(tag, data string) uint64 {
	m.ensureStream()
	m.top++
	p := vhPub{off: m.top, tag: tag, data: data}
	m.retained = append(m.retained, p)
	if len(m.retained) > m.size {
		m.retained = append([]vhPub(nil), m.retained[len(m.retained)-m.size:]...)
	}
	m.all[m.epochIdx] = append(m.all[m.epochIdx], p)
	m.hasExpire = true
	m.expireAt = m.now + int64(vhHistTTL/time.Second)
	m.touchMeta()
	return m.top
}

func (m *vhModel) remove() {
	if m.exists {
		m.retained = nil
	}
}

func (m *vhModel) advance(sec int64) {
	m.now += sec
	if m.hasExpire {
		if m.expireAt == m.now {
			panic("verif histworld: history expiry coincides with the end of an advance")
		}
		if m.expireAt < m.now {
			m.hasExpire = false
			m.retained = nil
		}
	}
	if m.hasRemove {
		if m.removeAt == m.now {
			panic("verif histworld: meta expiry coincides with the end of an advance")
		}
		if m.removeAt < m.now {
			m.hasRemove = false
			m.exists = false
			m.retained = nil
			m.top = 0
		}
	}
}

// read models any history read (History, recovery, stream top): creates the stream when absent
// and refreshes the meta TTL.
func (m *vhModel) read() {
	m.ensureStream()
	m.touchMeta()
}

func (m *vhModel) curEpoch() string {
	if m.epochIdx < 0 {
		return ""
	}
	return m.epochs[m.epochIdx]
}

func (m *vhModel) prevEpoch() (string, bool) {
	if m.epochIdx < 1 {
		return "", false
	}
	return m.epochs[m.epochIdx-1], true
}

// learnEpoch binds the opaque epoch name the implementation reported to the model's current
// epoch index; returns a complaint when it contradicts what was seen before.
func (m *vhModel) learnEpoch(e string) string {
	if e == "" {
		return "empty epoch reported"
	}
	if m.epochs[m.epochIdx] == "" {
		for i := 0; i < m.epochIdx; i++ {
			if m.epochs[i] == e {
				return fmt.Sprintf("epoch %q reused for a new stream", e)
			}
		}
		m.epochs[m.epochIdx] = e
		return ""
	}
	if m.epochs[m.epochIdx] != e {
		return fmt.Sprintf("epoch changed from %q to %q without a stream reset in the model", m.epochs[m.epochIdx], e)
	}
	return ""
}

// after returns the publications of the current epoch with offset > off, as ever published
// (all) and the subset still retained.
func (m *vhModel) after(off uint64) (all []vhPub, retained []vhPub) {
	if m.epochIdx >= 0 {
		for _, p := range m.all[m.epochIdx] {
			if p.off > off {
				all = append(all, p)
			}
		}
	}
	for _, p := range m.retained {
		if p.off > off {
			retained = append(retained, p)
		}
	}
	return
}

func (m *vhModel) stateString() string {
	var offs []string
	for _, p := range m.retained {
		offs = append(offs, fmt.Sprintf("%d%s", p.off, p.tag))
	}
	return fmt.Sprintf("ep%d top=%d kept=[%s]", m.epochIdx, m.top, strings.Join(offs, " "))
}

// vhFilterSel selects the tags filters of a subscription: the client filter admits tag a only,
// the server filter admits tag b only; so "both" admits nothing, "either" everything.
type vhFilterSel struct{ client, server bool }

var vhFilterSels = []vhFilterSel{{false, false}, {true, false}, {false, true}, {true, true}}

func (f vhFilterSel) admits(tag string) bool {
	if f.client && tag != "a" {
		return false
	}
	if f.server && tag != "b" {
		return false
	}
	return true
}

func (f vhFilterSel) String() string {
	s := ""
	if f.client {
		s += "c"
	}
	if f.server {
		s += "s"
	}
	if s == "" {
		s = "-"
	}
	return s
}

func vhClientFilter() *protocol.FilterNode {
	return &protocol.FilterNode{Key: "t", Cmp: "eq", Val: "a"}
}

func vhServerFilter() *protocol.FilterNode {
	return &protocol.FilterNode{Key: "t", Cmp: "eq", Val: "b"}
}

// vhSubCfg is what the OnSubscribe handler answers for the probe being run.
type vhSubCfg struct {
	mode   RecoveryMode
	filter vhFilterSel
	auto   bool
	delta  bool
}

// vhWorld is one node with its channels and their models.
type vhWorld struct {
	n      *Node
	size   int
	chans  []*vhModel
	byName map[string]*vhModel
	sub    vhSubCfg
	failed bool
}

// vhNewWorld creates the node (quietly) with nch channels of the given history size.
func vhNewWorld(size, nch int, mod func(n *Node)) *vhWorld {
	w := &vhWorld{size: size, byName: map[string]*vhModel{}}
	for i := 0; i < nch; i++ {
		m := vhNewModel(i, size)
		w.chans = append(w.chans, m)
		w.byName[m.name] = m
	}
	n := vNewNode(func(c *Config) {
		c.HistoryMetaTTL = vhMetaTTL
	})
	w.n = n
	n.OnConnect(func(c *Client) {
		c.OnSubscribe(func(e SubscribeEvent, cb SubscribeCallback) {
			o := SubscribeOptions{EnableRecovery: true, RecoveryMode: w.sub.mode, AllowTagsFilter: true, AutoCacheRecover: w.sub.auto}
			if w.sub.filter.server {
				o.ServerTagsFilter = vhServerFilter()
			}
			if w.sub.delta {
				o.AllowedDeltaTypes = []DeltaType{DeltaTypeFossil}
			}
			cb(SubscribeReply{Options: o}, nil)
		})
		c.OnHistory(func(e HistoryEvent, cb HistoryCallback) {
			cb(HistoryReply{}, nil)
		})
	})
	if mod != nil {
		mod(n)
	}
	if err := n.Run(); err != nil {
		panic(err)
	}
	return w
}

// fail reports an oracle failure; a "model-divergence" failure additionally stops the probes of
// the execution (their verdicts would be computed against a wrong reference).
func (w *vhWorld) fail(sig, format string, a ...any) {
	if strings.HasPrefix(sig, "model-divergence") {
		w.failed = true
	}
	vsched.Failf(sig, format, a...)
}

// publishOn publishes one publication with the tag on the channel and mirrors it in the model.
func (w *vhWorld) publishOn(m *vhModel, tag string) {
	data := m.nextData(tag)
	want := m.publish(tag, data)
	res, err := w.n.Publish(m.name, []byte(data), WithHistory(w.size, vhHistTTL), WithTags(map[string]string{"t": tag}))
	if err != nil {
		w.fail("model-divergence:publish-error", "publish on %s: %v", m.name, err)
		return
	}
	if res.Offset != want {
		w.fail("model-divergence:publish-offset", "publish on %s (%s) got offset %d, model %d", m.name, m.stateString(), res.Offset, want)
	}
	if c := m.learnEpoch(res.Epoch); c != "" {
		w.fail("model-divergence:epoch", "publish on %s: %s", m.name, c)
	}
}

// apply performs one history operation on every channel.
func (w *vhWorld) apply(op int) {
	switch op {
	case vhOpPubA, vhOpPubB:
		tag := "a"
		if op == vhOpPubB {
			tag = "b"
		}
		for _, m := range w.chans {
			w.publishOn(m, tag)
		}
	case vhOpRemove:
		for _, m := range w.chans {
			if err := w.n.RemoveHistory(m.name); err != nil {
				w.fail("model-divergence:remove-error", "remove on %s: %v", m.name, err)
			}
			m.remove()
		}
	case vhOpAdvTTL, vhOpAdvMeta:
		d := vhAdvTTL
		if op == vhOpAdvMeta {
			d = vhAdvMeta
		}
		vsched.Advance(int64(d))
		for _, m := range w.chans {
			m.advance(int64(d / time.Second))
		}
	}
	vsched.WaitIdle()
}

// prime reads the channel once through Node.History (this is what the first probe would do
// anyway: it creates the stream when absent and refreshes the meta TTL), binds the epoch name and
// cross-checks the model's view of the broker state. A disagreement here means the model (or the
// broker's bounded-stream semantics, property C17) is off, and the probes' verdicts would be
// meaningless; it is reported under its own signature.
func (w *vhWorld) prime(m *vhModel) {
	m.read()
	hr, err := w.n.History(m.name, WithHistoryFilter(HistoryFilter{Limit: NoLimit}))
	if err != nil {
		w.fail("model-divergence:history-error", "History(%s): %v", m.name, err)
		return
	}
	if c := m.learnEpoch(hr.Epoch); c != "" {
		w.fail("model-divergence:epoch", "History(%s): %s", m.name, c)
	}
	ok := hr.Offset == m.top && len(hr.Publications) == len(m.retained)
	if ok {
		for i, p := range hr.Publications {
			if p.Offset != m.retained[i].off || string(p.Data) != m.retained[i].data {
				ok = false
			}
		}
	}
	if !ok {
		var got []string
		for _, p := range hr.Publications {
			got = append(got, fmt.Sprint(p.Offset))
		}
		w.fail("model-divergence:state", "History(%s) top=%d pubs=%v, model %s", m.name, hr.Offset, got, m.stateString())
	}
}

// vhReply is the decoded answer to one probe command.
type vhReply struct {
	sub     *protocol.SubscribeResult
	hist    *protocol.HistoryResult
	pres    *protocol.PresenceResult
	stats   *protocol.PresenceStatsResult
	errCode uint32
	closed  bool // transport was closed instead of an answer
	missing bool
}

func (r vhReply) kind() string {
	switch {
	case r.missing:
		return "none"
	case r.closed:
		return "closed"
	case r.errCode != 0:
		return fmt.Sprintf("error(%d)", r.errCode)
	case r.sub != nil:
		return fmt.Sprintf("subscribe(recovered=%v,pubs=%s)", r.sub.Recovered, vPubsDesc(r.sub.Publications))
	case r.hist != nil:
		return fmt.Sprintf("history(%s)", vPubsDesc(r.hist.Publications))
	}
	return "other"
}

// vhFindReply returns the reply with the given command id.
func vhFindReply(cl *vClient, id uint32) vhReply {
	for _, f := range cl.t.frames {
		r := f.Reply
		if r.Id != id {
			continue
		}
		out := vhReply{}
		if r.Error != nil {
			out.errCode = r.Error.Code
			return out
		}
		out.sub, out.hist, out.pres, out.stats = r.Subscribe, r.History, r.Presence, r.PresenceStats
		return out
	}
	if cl.t.closed {
		return vhReply{closed: true}
	}
	return vhReply{missing: true}
}

// vhNewProbeClient connects a fresh client (connect reply is command 1).
func (w *vhWorld) newProbeClient(user string) *vClient {
	cl := vNewClient(w.n, vNewTransport(), &Credentials{UserID: user})
	cl.connect()
	return cl
}

// subscribeProbe runs one subscribe on a fresh client of the node and returns its answer. The
// client is closed afterwards so that it takes no part in later broadcasts.
func (w *vhWorld) subscribeProbe(m *vhModel, cfg vhSubCfg, req *protocol.SubscribeRequest) vhReply {
	w.sub = cfg
	cl := w.newProbeClient("u")
	req.Channel = m.name
	if cfg.filter.client {
		req.Tf = vhClientFilter()
	}
	if cfg.delta {
		req.Delta = string(DeltaTypeFossil)
	}
	cl.cmd(&protocol.Command{Subscribe: req})
	vsched.WaitIdle()
	r := vhFindReply(cl, cl.id)
	_ = cl.c.close(DisconnectForceNoReconnect)
	vsched.WaitIdle()
	return r
}

// vhPubData returns the application payload of a publication of a reply; with delta negotiated
// over the JSON protocol the payload travels as a JSON string.
func vhPubData(p *protocol.Publication, delta bool) string {
	if delta {
		var s string
		if err := json.Unmarshal(p.Data, &s); err == nil {
			return s
		}
	}
	return string(p.Data)
}

// vhSamePubs compares reply publications with model publications (offset, payload, tag).
func vhSamePubs(got []*protocol.Publication, want []vhPub, delta bool) bool {
	if len(got) != len(want) {
		return false
	}
	for i, p := range got {
		if p.Offset != want[i].off || vhPubData(p, delta) != want[i].data || p.Tags["t"] != want[i].tag {
			return false
		}
	}
	return true
}

func vhPubsString(ps []vhPub) string {
	var l []string
	for _, p := range ps {
		l = append(l, fmt.Sprintf("%d%s", p.off, p.tag))
	}
	return "[" + strings.Join(l, " ") + "]"
}
