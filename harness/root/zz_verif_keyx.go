//go:build verif

package centrifuge

import (
	"fmt"
	"strings"

	"github.com/centrifugal/centrifuge/internal/redispartition"
	"github.com/centrifugal/centrifuge/internal/zzverif/vsched"
)

// keyx (C34, E2): every key and PUB/SUB channel one broker script call touches must hash to one
// Redis Cluster slot, and the subscriber side must recover the channel name from the PUB/SUB
// channel. The brokers' key-building state is constructed in-package exactly as the constructors
// do (prefix defaulting, messagePrefix, partition tags) without any Redis connection.

// keyxCRC: bit-serial CRC16/XMODEM (poly 0x1021, init 0), independent of redis_cluster_slot.go.
func keyxCRC(s string) uint32 {
	var reg uint32
	for i := 0; i < len(s); i++ {
		reg ^= uint32(s[i]) << 8
		for k := 0; k < 8; k++ {
			reg <<= 1
			if reg&0x10000 != 0 {
				reg ^= 0x11021
			}
		}
	}
	return reg & 0xFFFF
}

// keyxSlot: Redis keyHashSlot. First '{' in the key; first '}' after it; if there is at least one
// byte between them only that part is hashed, in every other case the whole key.
func keyxSlot(key string) int {
	open := strings.IndexByte(key, '{')
	if open >= 0 {
		rest := key[open+1:]
		if cl := strings.IndexByte(rest, '}'); cl >= 1 {
			return int(keyxCRC(rest[:cl]) & 16383)
		}
	}
	return int(keyxCRC(key) & 16383)
}

type keyxConfig struct {
	component string // broker | mapbroker | presence
	mode      string
	prefix    string // as configured ("" = default)
	parts     int
	precomp   bool
	lists     bool
}

func (c keyxConfig) String() string {
	return fmt.Sprintf("%s/%s prefix=%q", c.component, c.mode, c.prefix)
}

func keyxPrefix(p string) string {
	if p == "" {
		return "centrifuge" // what all three constructors substitute
	}
	return p
}

func keyxNewBroker(c keyxConfig) (*RedisBroker, error) {
	cfg := RedisBrokerConfig{Prefix: keyxPrefix(c.prefix), UseLists: c.lists, NumShardedPubSubPartitions: c.parts, UsePrecomputedPartitionTags: c.precomp}
	b := &RedisBroker{config: cfg}
	if cfg.UsePrecomputedPartitionTags {
		tags, err := redispartition.FindTags(cfg.NumShardedPubSubPartitions)
		if err != nil {
			return nil, err
		}
		b.partitionTags = tags
	}
	b.shardChannel = cfg.Prefix + redisPubSubShardChannelSuffix
	b.messagePrefix = cfg.Prefix + redisClientChannelPrefix
	return b, nil
}

func keyxNewMapBroker(c keyxConfig) (*RedisMapBroker, error) {
	cfg := RedisMapBrokerConfig{Prefix: keyxPrefix(c.prefix), NumShardedPubSubPartitions: c.parts, UsePrecomputedPartitionTags: c.precomp}
	b := &RedisMapBroker{conf: cfg}
	if cfg.UsePrecomputedPartitionTags {
		tags, err := redispartition.FindTags(cfg.NumShardedPubSubPartitions)
		if err != nil {
			return nil, err
		}
		b.partitionTags = tags
	}
	b.shardChannel = cfg.Prefix + redisPubSubShardChannelSuffix
	b.messagePrefix = cfg.Prefix + redisClientChannelPrefix
	return b, nil
}

// keyxGroup is the key set of one script invocation.
type keyxGroup struct {
	name string
	keys []string
}

func keyxChannelShape(ch string) string {
	switch {
	case ch == "":
		return "ch-empty"
	case ch[0] == '}':
		return "ch-leading-close-brace"
	case strings.IndexByte(ch, '}') >= 0:
		return "ch-inner-close-brace"
	case strings.IndexByte(ch, '{') >= 0:
		return "ch-open-brace"
	case strings.IndexByte(ch, '.') >= 0:
		return "ch-dot"
	}
	return "ch-plain"
}

// keyxPrefixShape: does the prefix itself contain a complete non-empty {tag} (then Redis hashes
// that tag for every key), a brace that does not form one, or no brace at all.
func keyxPrefixShape(p string) string {
	open := strings.IndexByte(p, '{')
	if open < 0 {
		return "prefix-no-brace"
	}
	if cl := strings.IndexByte(p[open+1:], '}'); cl >= 1 {
		return "prefix-own-tag"
	}
	return "prefix-brace-without-tag"
}

func keyxCause(c keyxConfig, ch string) string {
	if ps := keyxPrefixShape(keyxPrefix(c.prefix)); ps == "prefix-brace-without-tag" {
		return ps
	}
	return keyxChannelShape(ch)
}

func keyxConfigs(tier string) []keyxConfig {
	prefixes := []string{"", "p{x}", "{"}
	if tier == "thorough" {
		prefixes = append(prefixes, "{}", "a.b")
	}
	var out []keyxConfig
	for _, p := range prefixes {
		for _, lists := range []bool{false, true} {
			lm := "streams"
			if lists {
				lm = "lists"
			}
			out = append(out,
				keyxConfig{component: "broker", mode: "cluster-" + lm, prefix: p, lists: lists},
				keyxConfig{component: "broker", mode: "sharded16-index-" + lm, prefix: p, parts: 16, lists: lists},
				keyxConfig{component: "broker", mode: "sharded16-precomputed-" + lm, prefix: p, parts: 16, precomp: true, lists: lists},
			)
		}
		out = append(out,
			keyxConfig{component: "mapbroker", mode: "sharded16-index", prefix: p, parts: 16},
			keyxConfig{component: "mapbroker", mode: "sharded16-precomputed", prefix: p, parts: 16, precomp: true},
			keyxConfig{component: "presence", mode: "cluster", prefix: p},
		)
	}
	return out
}

func keyxChannels(alpha string, maxLen int) []string {
	out := []string{""}
	frontier := []string{""}
	for l := 1; l <= maxLen; l++ {
		var next []string
		for _, p := range frontier {
			for i := 0; i < len(alpha); i++ {
				next = append(next, p+alpha[i:i+1])
			}
		}
		out = append(out, next...)
		frontier = next
	}
	return out
}

func keyxRun(e *vsched.Enum, tier string, alpha string, maxLen int) {
	if keyxCRC("123456789") != 0x31C3 || keyxSlot("123456789") != 12739 || keyxSlot("foo{bar}zap") != keyxSlot("bar") ||
		keyxSlot("foo{}{bar}") != int(keyxCRC("foo{}{bar}")&16383) || keyxSlot("foo{{bar}}zap") != keyxSlot("{bar") ||
		keyxSlot("{user1000}.following") != keyxSlot("{user1000}.followers") || keyxSlot("foo{bar}{zap}") != keyxSlot("bar") {
		e.Fail("oracle-selfcheck", "reference slot function disagrees with the Redis cluster specification examples", nil)
		return
	}
	shard := &RedisShard{isCluster: true}
	channels := keyxChannels(alpha, maxLen)
	idems := []string{"", "k", "{z}"}
	info := &ClientInfo{ClientID: "c1", UserID: "u1"}
	var n int64
	for _, c := range keyxConfigs(tier) {
		var br *RedisBroker
		var mb *RedisMapBroker
		var pm *RedisPresenceManager
		var err error
		switch c.component {
		case "broker":
			br, err = keyxNewBroker(c)
		case "mapbroker":
			mb, err = keyxNewMapBroker(c)
		case "presence":
			pm = &RedisPresenceManager{config: RedisPresenceManagerConfig{Prefix: keyxPrefix(c.prefix)}}
		}
		if err != nil {
			e.Fail("harness-setup", err.Error(), []string{c.String()})
			continue
		}
		for _, ch := range channels {
			n++
			if !e.Mine(n) {
				continue
			}
			if n&0xFFF == 0 && e.Expired() {
				return
			}
			var groups []keyxGroup
			var pubsub, extracted string
			hasPubSub := false
			switch c.component {
			case "broker":
				pubsub = string(br.messageChannelID(shard, ch))
				hasPubSub = true
				extracted = br.extractChannel(true, channelID(pubsub))
				hist := string(br.historyStreamKey(shard, ch))
				if c.lists {
					hist = string(br.historyListKey(shard, ch))
				}
				meta := string(br.historyMetaKey(shard, ch))
				for _, idem := range idems {
					res := string(br.resultCacheKey(shard, ch, idem))
					// publish(): addHistory*Script KEYS {stream|list, meta, result} + ARGV publish channel
					groups = append(groups, keyxGroup{"publish-history idem=" + idem, []string{hist, meta, res, pubsub}})
					if idem != "" {
						// publish() without history: publishIdempotentScript KEYS {result} + ARGV publish channel
						groups = append(groups, keyxGroup{"publish-idempotent idem=" + idem, []string{res, pubsub}})
					}
				}
				// history(): history*Script KEYS {stream|list, meta}
				groups = append(groups, keyxGroup{"history", []string{hist, meta}})
			case "mapbroker":
				pubsub = mb.messageChannelID(shard, ch)
				hasPubSub = true
				extracted = mb.extractChannel(pubsub)
				for _, idem := range idems {
					// Publish(): addScript KEYS + ARGV channel + nil-key placeholder
					groups = append(groups, keyxGroup{"publish idem=" + idem, []string{
						mb.streamKey(shard, ch), mb.metaKey(shard, ch), mb.resultCacheKey(shard, ch, idem),
						mb.stateHashKey(shard, ch), mb.stateOrderKey(shard, ch), mb.stateExpireKey(shard, ch),
						mb.stateMetaKey(shard, ch), mb.cleanupRegistrationKeyForChannel(shard, ch),
						mb.buildKey(shard, ch, ":nil:"), pubsub,
					}})
				}
				// batchRemoveScript KEYS[1..7] + ARGV channel
				groups = append(groups, keyxGroup{"batch-remove", []string{
					mb.stateHashKey(shard, ch), mb.stateExpireKey(shard, ch), mb.streamKey(shard, ch), mb.metaKey(shard, ch),
					mb.cleanupRegistrationKeyForChannel(shard, ch), mb.stateOrderKey(shard, ch), mb.stateMetaKey(shard, ch), pubsub,
				}})
			case "presence":
				k1, _, err1 := pm.addPresenceScriptKeysArgs(shard, ch, "c1", info)
				k2, _, err2 := pm.removePresenceScriptKeysArgs(shard, ch, "c1", "u1")
				k3, _, err3 := pm.presenceScriptKeysArgs(shard, ch)
				k4, _, err4 := pm.presenceStatsScriptKeysArgs(shard, ch)
				if err1 != nil || err2 != nil || err3 != nil || err4 != nil {
					e.Fail("harness-setup", "presence key builder error", []string{c.String()})
					continue
				}
				groups = append(groups, keyxGroup{"add-presence", k1}, keyxGroup{"remove-presence", k2}, keyxGroup{"presence", k3}, keyxGroup{"presence-stats", k4})
			}

			cause := keyxCause(c, ch)
			in := fmt.Sprintf("%s channel=%q", c, ch)
			allSame := true
			failed := false
			for _, g := range groups {
				slot0 := keyxSlot(g.keys[0])
				for _, k := range g.keys {
					s := keyxSlot(k)
					if got := int(redisSlot(k)); got != s {
						e.Fail("redisSlot-mismatch", fmt.Sprintf("redisSlot(%q)=%d, Redis computes %d", k, got, s), []string{in})
					}
					if s != slot0 {
						allSame = false
						if !failed {
							failed = true
							e.Fail("slot-mismatch:"+c.component+":"+cause,
								fmt.Sprintf("script call %q: key %q -> slot %d but key %q -> slot %d (CROSSSLOT)", g.name, g.keys[0], slot0, k, s),
								[]string{in, fmt.Sprintf("%s keys=%q", g.name, g.keys)})
						}
					}
				}
			}
			if hasPubSub && extracted != ch {
				e.Fail("extract-channel:"+c.component+":"+cause,
					fmt.Sprintf("extractChannel(%q)=%q, published channel %q", pubsub, extracted, ch), []string{in})
			}
			e.Case(fmt.Sprintf("%s/%s %s %s one-slot=%v", c.component, c.mode, keyxPrefixShape(keyxPrefix(c.prefix)), keyxChannelShape(ch), allSame), len(groups))
		}
	}
	e.Sample(fmt.Sprintf("%d configurations x %d channel names over %q (length <= %d)", len(keyxConfigs(tier)), len(channels), alpha, maxLen))
}

func init() {
	vsched.Register(&vsched.Harness{
		Name: "keyx", Props: []string{"C34"}, Kind: "enum",
		Doc: "all channel names of length <= 4 (T: <= 6) over {a { } . :} x prefixes {default, p{x}, {} (T: + {}, a.b) x {RedisBroker cluster / sharded-16 index tags / sharded-16 precomputed tags} x {streams, lists}, RedisMapBroker sharded-16 index/precomputed tags, RedisPresenceManager cluster; key sets per script call taken from the real builders (presence: the real *ScriptKeysArgs functions); oracle: independent hash-tag + bit-serial CRC16/XMODEM slot function (self-checked on the Redis spec examples): all keys + PUB/SUB channel of one script call in one slot, redisSlot == reference, extractChannel(messageChannelID(ch)) == ch",
		Variants: func(tier string) []vsched.Variant {
			if tier == "thorough" {
				return []vsched.Variant{{Name: "len6", Shards: 16, BudgetS: 600}}
			}
			return []vsched.Variant{{Name: "len4", Shards: 8, BudgetS: 60}}
		},
		Enum: func(v vsched.Variant, e *vsched.Enum) {
			if v.Name == "len6" {
				keyxRun(e, "thorough", "a{}.:", 6)
				return
			}
			keyxRun(e, "quick", "a{}.:", 4)
		},
	})
}
