//go:build verif

package centrifuge

import (
	"fmt"
	"math"
	"strings"
	"sync"
	"time"

	"github.com/centrifugal/centrifuge/internal/zzverif/vsched"
	"github.com/centrifugal/protocol"
)

// mediumx (C38, E1): a node whose channel has the channel medium enabled
// (Config.GetChannelMediumOptions). Subscribers (at most two per scenario): A and B positioned +
// recoverable, N not positioned, S positioned and subscribing during the concurrent phase.
// Threads are publishes (through the chaos broker, so that a PUB/SUB delivery can be lost),
// presence ticks with ClientChannelPositionCheckDelay elapsed (virtual time), subscribe /
// unsubscribe (medium creation, and shutdown after the last unsubscribe with the dissolver's 1 s
// timer inside the horizon). Oracle per subscriber on the frames it was sent; at quiescence,
// after one more tick with the check delay elapsed, a still open positioned subscription has
// accounted for the whole stream.

type mediumxCfg struct {
	opts    string   // k: KeepLatestPublication, s: SharedPositionSync, q: queue (unexported), d: broadcast delay (unexported)
	ops     []string // one thread each; commas separate sequential steps
	stale   bool     // one publication is lost between broker and node before the concurrent phase
	faults  bool     // every concurrent publication's delivery may be dropped (environment choice)
	subs    string   // which subscribers exist: a (A only: medium shutdown on last unsubscribe), ab, an, as
	horizon time.Duration
}

func (c mediumxCfg) name() string {
	return fmt.Sprintf("opt-%s/subs-%s/%s/stale%v/faults%v/h%d", c.opts, c.subs, strings.Join(c.ops, "+"), c.stale, c.faults, c.horizon/time.Second)
}

func (c mediumxCfg) has(o byte) bool { return strings.IndexByte(c.opts, o) >= 0 }

func (c mediumxCfg) mediumOptions() ChannelMediumOptions {
	o := ChannelMediumOptions{KeepLatestPublication: c.has('k'), SharedPositionSync: c.has('s'), enableQueue: c.has('q')}
	if c.has('d') {
		o.broadcastDelay = 100 * time.Millisecond
	}
	return o
}

var mediumxCfgs = map[string]mediumxCfg{}

const mediumxCheckDelay = time.Second

// mediumxScn is one scenario: who subscribes, which threads run, and the deviation bound per tier
// (every client brings its own writer goroutine, and a detected loss makes the implementation
// spawn one goroutine per ended subscriber: the cost of a scenario is dominated by the number of
// runnable implementation goroutines, so scenarios have at most two subscribers and the ones in
// which a loss is detected are explored with a smaller bound).
type mediumxScn struct {
	id      string
	subs    string
	ops     []string
	stale   bool
	faults  bool
	horizon time.Duration
}

var mediumxScns = []mediumxScn{
	// two broadcasts racing a position check with a valid position
	{id: "S1", subs: "an", ops: []string{"pub,pub", "tickA"}},
	// a lost publication, then the position check: the detected loss ends every positioned subscriber
	{id: "S2", subs: "ab", ops: []string{"tickA"}, stale: true},
	// ... racing a further broadcast; the non-positioned subscriber is left alone
	{id: "S3", subs: "an", ops: []string{"tickA", "pub"}, stale: true},
	// ... racing a new subscriber (fresh / recovering from the current stream top)
	{id: "S4", subs: "as", ops: []string{"tickA", "subS"}, stale: true},
	{id: "S4r", subs: "as", ops: []string{"tickA", "subSr"}, stale: true},
	// ... the same with a slow history read: the broker answers the new subscriber's history
	// request only after the position check has finished (no preemption needed)
	{id: "S4h", subs: "as", ops: []string{"tickA", "subSh"}, stale: true},
	{id: "S4rh", subs: "as", ops: []string{"tickA", "subSrh"}, stale: true},
	// deliveries that may be lost, racing the position check
	{id: "S5", subs: "an", ops: []string{"pub,pub", "tickA"}, faults: true},
	// medium shutdown on last unsubscribe, then a recovering resubscribe, racing two broadcasts
	{id: "S6", subs: "a", ops: []string{"unsubA,subA", "pub,pub"}, horizon: 2 * time.Second},
}

func mediumxVariants(exported bool) func(tier string) []vsched.Variant {
	return func(tier string) []vsched.Variant {
		var out []vsched.Variant
		thorough := tier == "thorough"
		// which scenarios run for which option set, with which deviation bound
		type pick struct {
			scn   string
			bound int
		}
		table := map[string][]pick{
			"ks":  {{"S1", 1}, {"S2", 0}, {"S3", 0}, {"S4h", 0}, {"S4rh", 0}, {"S5", 1}, {"S6", 1}},
			"k":   {{"S1", 0}, {"S3", 0}, {"S6", 0}},
			"s":   {{"S2", 0}, {"S4h", 0}, {"S4rh", 0}},
			"q":   {{"S1", 1}, {"S4h", 0}, {"S6", 0}},
			"qs":  {{"S2", 0}, {"S3", 0}},
			"qks": {{"S4rh", 0}, {"S5", 0}},
			"qd":  {{"S1", 0}},
			"qdk": {{"S3", 0}},
		}
		if thorough {
			table = map[string][]pick{
				"ks":  {{"S1", 2}, {"S2", 0}, {"S3", 1}, {"S4h", 0}, {"S4rh", 0}, {"S4r", 1}, {"S5", 1}, {"S6", 1}},
				"k":   {{"S1", 1}, {"S3", 1}, {"S6", 1}},
				"s":   {{"S2", 0}, {"S4h", 0}, {"S4rh", 0}, {"S4", 0}},
				"q":   {{"S1", 1}, {"S4h", 0}, {"S6", 1}},
				"qs":  {{"S2", 0}, {"S3", 0}, {"S4rh", 0}},
				"qks": {{"S4rh", 0}, {"S5", 1}},
				"qd":  {{"S1", 1}, {"S3", 0}},
				"qdk": {{"S3", 0}, {"S1", 0}},
			}
		}
		optSets := []string{"k", "s", "ks"}
		if !exported {
			optSets = []string{"q", "qs", "qks", "qd", "qdk"}
		}
		for _, o := range optSets {
			for _, sc := range mediumxScns {
				bound := -1
				for _, p := range table[o] {
					if p.scn == sc.id {
						bound = p.bound
					}
				}
				if bound < 0 {
					continue
				}
				c := mediumxCfg{opts: o, subs: sc.subs, ops: sc.ops, stale: sc.stale, faults: sc.faults, horizon: sc.horizon}
				mediumxCfgs[c.name()] = c
				shards, budget := 1, 150
				if bound > 0 || strings.HasPrefix(sc.id, "S4") {
					shards = 4
				}
				if bound > 0 && o == "q" {
					shards = 6
				}
				if thorough {
					budget = 400
					if bound > 0 {
						shards = 16
					}
				}
				out = append(out, vsched.Variant{Name: c.name(), Bound: bound, Shards: shards, BudgetS: budget})
			}
		}
		return out
	}
}

func init() {
	doc := "node with Config.GetChannelMediumOptions on the channel, chaos broker in front of the Memory broker; at most two subscribers per scenario out of A, B (positioned + recoverable), N (not positioned), S (positioned, subscribes during the concurrent phase); threads from {pub: publish (with faults: the PUB/SUB delivery to the node is lost by environment choice), tickA: presence tick with ClientChannelPositionCheckDelay elapsed in virtual time, subS / subSr: new subscriber, fresh / recovering from the current stream top, subSh / subSrh: the same with a slow broker (its history read is answered only after the tick finished), unsubA,subA: last unsubscribe (medium shutdown by the dissolver's 1 s timer inside the horizon) then recovering resubscribe}; stale = one publication lost between broker and node before the concurrent phase; scenarios S1..S6, deviation bound 0-2 per scenario (see mediumxVariants); " +
		"oracle per positioned subscriber (C01 offset oracle): offsets strictly increase, no offset between the subscribe position and the last delivered one is missing, nothing after an insufficient-state unsubscribe / disconnect, the MaxUint64 sentinel never reaches a client or a subscribe reply; with SharedPositionSync and no publication in the concurrent phase, a subscriber ended with insufficient state implies that every positioned subscriber present from the start was ended (before any tick of its own); at quiescence after one more tick (of ONE subscriber when SharedPositionSync is on) every still-open positioned subscription has accounted for the stream top; " +
		"non-positioned subscriber: never unsubscribed / disconnected, offsets increase, no sentinel, receives every publication the node was handed (with broadcast delay: at least the latest)"
	vsched.Register(&vsched.Harness{
		Name: "mediumx", Props: []string{"C38"}, Kind: "sched",
		Doc:      "exported options {KeepLatestPublication, SharedPositionSync}: " + doc,
		Variants: mediumxVariants(true),
		Sched:    func(v vsched.Variant) func() { return mediumxBody(mediumxCfgs[v.Name]) },
	})
	vsched.Register(&vsched.Harness{
		Name: "mediumx-unexported", Props: []string{"C38"}, Kind: "sched",
		Doc:      "unexported options {enableQueue, broadcastDelay} set in-package (not reachable through the public API): " + doc,
		Variants: mediumxVariants(false),
		Sched:    func(v vsched.Variant) func() { return mediumxBody(mediumxCfgs[v.Name]) },
	})
}

// mediumxBroker delays the history read of one harness thread until a gate opens (a slow broker
// round trip).
type mediumxBroker struct {
	*vChaosBroker
	slowThread int // thread whose History calls wait for the gate; -1: none
	gate       chan struct{}
}

func (b *mediumxBroker) History(ch string, opts HistoryOptions) ([]*Publication, StreamPosition, error) {
	if b.slowThread >= 0 && vsched.ThreadID() == b.slowThread {
		<-b.gate
	}
	return b.vChaosBroker.History(ch, opts)
}

// mediumxSub is one subscriber of the harness.
type mediumxSub struct {
	name       string
	cl         *vClient
	positioned bool
}

// position returns what a protocol-following client would send to recover: the offset of the last
// publication it accounted for in its current / last bracket and the epoch of that bracket.
func (s *mediumxSub) position(ch string) (uint64, string) {
	var off uint64
	var epoch string
	for _, f := range s.cl.t.frames {
		r := f.Reply
		switch {
		case r.Subscribe != nil:
			off, epoch = r.Subscribe.Offset, r.Subscribe.Epoch
			for _, p := range r.Subscribe.Publications {
				if p.Offset > off {
					off = p.Offset
				}
			}
		case r.Push != nil && r.Push.Channel == ch && r.Push.Pub != nil:
			if r.Push.Pub.Offset > off {
				off = r.Push.Pub.Offset
			}
		}
	}
	return off, epoch
}

func mediumxBody(cfg mediumxCfg) func() {
	return func() {
		vsched.Quiet(true)
		const ch = "ch"
		n := vNewNode(func(c *Config) {
			c.ClientChannelPositionCheckDelay = mediumxCheckDelay
			c.GetChannelMediumOptions = func(channel string) ChannelMediumOptions {
				if channel != ch {
					return ChannelMediumOptions{}
				}
				return cfg.mediumOptions()
			}
		})
		broker := vInstallChaosBroker(n, false)
		slowBroker := &mediumxBroker{vChaosBroker: broker, slowThread: -1, gate: make(chan struct{})}
		n.SetBroker(slowBroker)
		n.OnConnect(func(c *Client) {
			positioned := c.UserID() != "n"
			c.OnSubscribe(func(e SubscribeEvent, cb SubscribeCallback) {
				cb(SubscribeReply{Options: SubscribeOptions{EnableRecovery: positioned, EnablePositioning: positioned}}, nil)
			})
		})
		if err := n.Run(); err != nil {
			panic(err)
		}

		// handed[o]: the node was handed publication o (HandlePublication was called)
		handed := map[uint64]bool{}
		lost := 0
		pubN := 0
		publish := func(mayDrop, forceDrop bool) {
			pubN++
			data := []byte(fmt.Sprintf(`{"n":%d}`, pubN))
			if !mayDrop && !forceDrop {
				res, err := n.Publish(ch, data, WithHistory(10, time.Minute))
				if err != nil {
					panic(err)
				}
				handed[res.Offset] = true
				return
			}
			// Publish with the broker in queue mode is serialised by the harness so that the
			// event taken from the queue is the one of this publish.
			broker.queue = true
			res, err := n.Publish(ch, data, WithHistory(10, time.Minute))
			broker.queue = false
			if err != nil {
				panic(err)
			}
			e := <-broker.evq
			if forceDrop || vsched.Choose(2) == 1 {
				lost++
				return
			}
			handed[res.Offset] = true
			broker.deliver(e)
		}

		newSub := func(name string) *mediumxSub {
			cl := vNewClient(n, vNewTransport(), &Credentials{UserID: name})
			cl.connect()
			return &mediumxSub{name: name, cl: cl, positioned: name != "n"}
		}
		publish(false, false) // offset 1: the stream and its epoch exist before anybody subscribes
		subA := newSub("a")
		subs := []*mediumxSub{subA}
		subA.cl.subscribe(ch)
		var subB, subS *mediumxSub
		if strings.Contains(cfg.subs, "b") {
			subB = newSub("b")
			subB.cl.subscribe(ch)
			subs = append(subs, subB)
		}
		if strings.Contains(cfg.subs, "n") {
			subN := newSub("n")
			subN.cl.subscribe(ch)
			subs = append(subs, subN)
		}
		if strings.Contains(cfg.subs, "s") {
			subS = newSub("s")
			subs = append(subs, subS)
		}
		publish(false, false) // offset 2: delivered through the medium to everybody
		if cfg.stale {
			publish(false, true) // offset 3: lost between broker and node
		}
		vsched.WaitIdle()
		hist0, err := n.History(ch, WithHistoryFilter(HistoryFilter{Limit: 0}))
		if err != nil {
			panic(err)
		}
		topBefore := hist0.StreamPosition
		// the position check is due: ClientChannelPositionCheckDelay elapsed since the last
		// publication / check for the connection and for the medium
		vsched.Advance(int64(3 * mediumxCheckDelay))
		vsched.Quiet(false)
		if cfg.horizon > 0 {
			vsched.SetHorizon(int64(cfg.horizon))
		}
		handedBefore := len(handed)

		// ---- concurrent phase. Publishing threads are serialised among themselves by a harness
		// mutex (one broker connection delivers a channel's messages in order).
		var pubMu sync.Mutex
		var gateOnce sync.Once
		step := func(op string) {
			switch op {
			case "pub":
				pubMu.Lock()
				publish(cfg.faults, false)
				pubMu.Unlock()
			case "tickA":
				subA.cl.c.updatePresence()
				gateOnce.Do(func() { close(slowBroker.gate) })
			case "tickB":
				subB.cl.c.updatePresence()
			case "subS":
				subS.cl.subscribe(ch)
			case "subSh":
				slowBroker.slowThread = vsched.ThreadID()
				subS.cl.subscribe(ch)
				slowBroker.slowThread = -1
			case "subSrh":
				slowBroker.slowThread = vsched.ThreadID()
				subS.cl.cmd(&protocol.Command{Subscribe: &protocol.SubscribeRequest{Channel: ch, Recover: true, Offset: topBefore.Offset, Epoch: topBefore.Epoch}})
				slowBroker.slowThread = -1
			case "subSr":
				// a client that was subscribed elsewhere and holds the current stream top
				subS.cl.cmd(&protocol.Command{Subscribe: &protocol.SubscribeRequest{Channel: ch, Recover: true, Offset: topBefore.Offset, Epoch: topBefore.Epoch}})
			case "unsubA":
				subA.cl.unsubscribe(ch)
			case "subA":
				off, epoch := subA.position(ch)
				subA.cl.cmd(&protocol.Command{Subscribe: &protocol.SubscribeRequest{Channel: ch, Recover: true, Offset: off, Epoch: epoch}})
			default:
				panic("unknown op " + op)
			}
		}
		var wg sync.WaitGroup
		for _, op := range cfg.ops {
			op := op
			wg.Add(1)
			go func() {
				defer wg.Done()
				for _, st := range strings.Split(op, ",") {
					step(st)
				}
			}()
		}
		wg.Wait()
		vsched.WaitIdle()
		if cfg.horizon > 0 {
			vsched.Advance(int64(cfg.horizon))
		}
		if cfg.has('d') {
			vsched.Advance(int64(time.Second))
		}
		vsched.Quiet(true)

		// ---- a detected position loss ends every positioned subscriber: when the medium shares
		// the position check and no publication reached the node during the concurrent phase, an
		// insufficient-state end can only come from the position check, and then every positioned
		// subscriber that was there from the start must have been ended too -- before any further
		// tick of its own.
		if cfg.has('s') && len(handed) == handedBefore {
			endedByCheck := ""
			for _, s := range subs {
				for _, f := range s.cl.t.frames {
					if p := f.Reply.Push; s.positioned && p != nil && p.Channel == ch && p.Unsubscribe != nil && p.Unsubscribe.Code == UnsubscribeCodeInsufficient {
						endedByCheck = s.name
					}
				}
			}
			if endedByCheck != "" {
				for _, s := range subs {
					if s.positioned && s != subS && s.cl.c.IsSubscribed(ch) {
						vsched.Failf("loss-detected-subscriber-not-ended", "the shared position check detected a loss (%s was unsubscribed with insufficient state) but positioned subscriber %s is still subscribed: %s", endedByCheck, s.name, strings.Join(s.cl.t.log(), " | "))
					}
				}
			}
		}

		// ---- settle: check delay elapses, then the position check runs once more: by ONE still
		// subscribed positioned subscriber when the medium shares the check, by each otherwise.
		vsched.Advance(int64(3 * mediumxCheckDelay))
		for _, s := range subs {
			if !s.positioned || !s.cl.c.IsSubscribed(ch) {
				continue
			}
			s.cl.c.updatePresence()
			vsched.WaitIdle()
			if cfg.has('s') {
				break
			}
		}
		vsched.Advance(int64(time.Second))
		vsched.WaitIdle()

		// ---- oracle
		hist, err := n.History(ch, WithHistoryFilter(HistoryFilter{Limit: 0}))
		if err != nil {
			panic(err)
		}
		top := hist.StreamPosition.Offset
		for _, s := range subs {
			for _, l := range s.cl.t.log() {
				vsched.Logf("%s %s", s.name, l)
			}
		}
		vsched.Logf("top=%d lost=%d", top, lost)
		// signature context: the code path of the medium (not the whole option set)
		ctx := "direct"
		if cfg.has('q') {
			ctx = "queue"
		}
		if cfg.has('d') {
			ctx = "queue+delay"
		}
		for _, s := range subs {
			all := strings.Join(s.cl.t.log(), " | ")
			if !s.positioned {
				got := map[uint64]bool{}
				var last uint64
				for _, f := range s.cl.t.frames {
					r := f.Reply
					switch {
					case r.Push != nil && r.Push.Channel == ch && r.Push.Pub != nil:
						o := r.Push.Pub.Offset
						if o == math.MaxUint64 {
							vsched.Failf("sentinel-delivered:non-positioned", "%s received the insufficient-state sentinel publication: %s", s.name, all)
							continue
						}
						if o <= last {
							vsched.Failf("non-positioned-order", "%s received offset %d after offset %d: %s", s.name, o, last, all)
						}
						last = o
						got[o] = true
					case r.Push != nil && (r.Push.Unsubscribe != nil && r.Push.Channel == ch || r.Push.Disconnect != nil):
						vsched.Failf("non-positioned-ended:"+ctx, "non-positioned subscriber %s was unsubscribed / disconnected: %s", s.name, all)
					}
				}
				if s.cl.t.closed {
					vsched.Failf("non-positioned-ended:"+ctx, "non-positioned subscriber %s was closed (%d): %s", s.name, s.cl.t.closeDisc.Code, all)
				}
				// N subscribed when the stream top was 1
				if cfg.has('d') {
					var latest uint64
					for o := range handed {
						if o > latest {
							latest = o
						}
					}
					if latest > 1 && !got[latest] {
						vsched.Failf("non-positioned-latest-missing:"+ctx, "%s never received the latest publication %d handed to the node: %s", s.name, latest, all)
					}
				} else {
					for o := uint64(2); o <= top; o++ {
						if handed[o] && !got[o] {
							vsched.Failf("non-positioned-missed:"+ctx, "%s never received publication %d which the node was handed: %s", s.name, o, all)
							break
						}
					}
				}
				continue
			}
			// positioned subscriber: C01 offset oracle per bracket
			open, ended, everOpen := false, false, false
			var pos uint64
			deliver := func(off uint64, where string) {
				if off == math.MaxUint64 {
					vsched.Failf("sentinel-delivered:"+where, "%s received the insufficient-state sentinel (offset MaxUint64) as a %s publication: %s", s.name, where, all)
					return
				}
				if off <= pos {
					vsched.Failf("not-increasing:"+where, "%s: %s offset %d does not increase (position %d): %s", s.name, where, off, pos, all)
					return
				}
				if off != pos+1 {
					vsched.Failf("gap:"+where+":"+ctx, "%s: %s offset %d delivered at position %d, offsets in between never delivered: %s", s.name, where, off, pos, all)
				}
				pos = off
			}
			for _, f := range s.cl.t.frames {
				r := f.Reply
				switch {
				case r.Subscribe != nil && r.Error == nil:
					open, ended, everOpen = true, false, true
					sr := r.Subscribe
					// one root cause, one signature: the sentinel shows up in the subscribe reply, as
					// its offset or as a "recovered" publication
					sentinel := sr.Offset == math.MaxUint64
					for _, p := range sr.Publications {
						if p.Offset == math.MaxUint64 {
							sentinel = true
						}
					}
					if sentinel {
						vsched.Failf("sentinel-in-subscribe-reply", "%s: the subscribe reply carries the insufficient-state sentinel (offset MaxUint64) as its position or as a recovered publication (offset=%d recovered=%v publications=%s): %s", s.name, sr.Offset, sr.Recovered, vPubsDesc(sr.Publications), all)
					}
					pos = sr.Offset
					if !sr.Recovered && len(sr.Publications) > 0 {
						vsched.Failf("pubs-without-recovered", "%s: subscribe reply carries publications with recovered=false: %s", s.name, all)
					}
					for _, p := range sr.Publications {
						if p.Offset != math.MaxUint64 {
							deliver(p.Offset, "recovered")
						}
					}
				case r.Unsubscribe != nil && r.Error == nil:
					open = false
				case r.Push != nil && r.Push.Channel == ch && r.Push.Pub != nil:
					if !open {
						sig := "pub-outside-subscription"
						if ended {
							// silence after an insufficient-state end
							sig = "pub-after-unsubscribe-push"
						}
						vsched.Failf(sig, "%s: publication %d pushed while no subscription is open (after an unsubscribe push / disconnect: %v): %s", s.name, r.Push.Pub.Offset, ended, all)
						continue
					}
					deliver(r.Push.Pub.Offset, "live")
				case r.Push != nil && r.Push.Channel == ch && r.Push.Unsubscribe != nil:
					open, ended = false, true
				case r.Push != nil && r.Push.Disconnect != nil:
					open, ended = false, true
				}
			}
			if s.cl.t.closed {
				open = false
			}
			if open != s.cl.c.IsSubscribed(ch) && !s.cl.t.closed {
				vsched.Failf("bracket-mismatch", "%s: frames say open=%v, server says subscribed=%v: %s", s.name, open, s.cl.c.IsSubscribed(ch), all)
			}
			if open && pos != top {
				why := "no publication was lost"
				if lost > 0 {
					why = fmt.Sprintf("%d publication(s) lost between broker and node", lost)
				}
				sig := "stale-open"
				if lost == 0 {
					sig = "stalled"
				}
				vsched.Failf(sig+":"+ctx, "%s is still subscribed at quiescence (after a position check with the delay elapsed) at position %d, stream top %d, %s: %s", s.name, pos, top, why, all)
			}
			_ = everOpen
		}
	}
}
