//go:build verif

package centrifuge

import (
	"errors"

	"github.com/centrifugal/centrifuge/internal/zzverif/vsched"
)

// vChaosBroker wraps the MemoryBroker of a node. In queue mode broker deliveries
// (HandlePublication/HandleJoin/HandleLeave) are not passed to the node synchronously but
// queued, so that a delivery thread of the harness can drop, duplicate, reorder or delay
// them. Subscribe / Unsubscribe calls are recorded and can fail by environment choice.
type vChaosBroker struct {
	inner *MemoryBroker
	h     BrokerEventHandler
	queue bool
	evq   chan vBrokerEvent

	subscribed   map[string]bool
	subCalls     []string
	failSub      bool // Subscribe may fail (Choose)
	failUnsub    bool // Unsubscribe may fail (Choose)
	subFailures  int
	publishCalls int
	historyDelay int64 // virtual time a History call takes to answer (0: at once)
}

type vBrokerEvent struct {
	kind    byte // 'p' publication, 'j' join, 'l' leave
	ch      string
	pub     *Publication
	sp      StreamPosition
	delta   bool
	prevPub *Publication
	info    *ClientInfo
}

func vInstallChaosBroker(n *Node, queue bool) *vChaosBroker {
	b := &vChaosBroker{inner: n.broker.(*MemoryBroker), queue: queue, evq: make(chan vBrokerEvent, 64), subscribed: map[string]bool{}}
	n.SetBroker(b)
	return b
}

type vChaosProxy struct{ b *vChaosBroker }

func (p vChaosProxy) HandlePublication(ch string, pub *Publication, sp StreamPosition, delta bool, prevPub *Publication) error {
	if !p.b.queue {
		return p.b.h.HandlePublication(ch, pub, sp, delta, prevPub)
	}
	p.b.evq <- vBrokerEvent{kind: 'p', ch: ch, pub: pub, sp: sp, delta: delta, prevPub: prevPub}
	return nil
}
func (p vChaosProxy) HandleJoin(ch string, info *ClientInfo) error {
	if !p.b.queue {
		return p.b.h.HandleJoin(ch, info)
	}
	p.b.evq <- vBrokerEvent{kind: 'j', ch: ch, info: info}
	return nil
}
func (p vChaosProxy) HandleLeave(ch string, info *ClientInfo) error {
	if !p.b.queue {
		return p.b.h.HandleLeave(ch, info)
	}
	p.b.evq <- vBrokerEvent{kind: 'l', ch: ch, info: info}
	return nil
}

func (b *vChaosBroker) deliver(e vBrokerEvent) {
	switch e.kind {
	case 'p':
		_ = b.h.HandlePublication(e.ch, e.pub, e.sp, e.delta, e.prevPub)
	case 'j':
		_ = b.h.HandleJoin(e.ch, e.info)
	case 'l':
		_ = b.h.HandleLeave(e.ch, e.info)
	}
}

func (b *vChaosBroker) RegisterBrokerEventHandler(h BrokerEventHandler) error {
	b.h = h
	return b.inner.RegisterBrokerEventHandler(vChaosProxy{b})
}

func (b *vChaosBroker) Subscribe(chs ...string) error {
	vsched.Visible()
	for _, ch := range chs {
		b.subCalls = append(b.subCalls, "sub:"+ch)
	}
	if b.failSub && vsched.Choose(2) == 1 {
		b.subFailures++
		return errors.New("verif: broker subscribe failed")
	}
	for _, ch := range chs {
		b.subscribed[ch] = true
	}
	return b.inner.Subscribe(chs...)
}

func (b *vChaosBroker) Unsubscribe(chs ...string) error {
	vsched.Visible()
	for _, ch := range chs {
		b.subCalls = append(b.subCalls, "unsub:"+ch)
	}
	if b.failUnsub && vsched.Choose(2) == 1 {
		b.subFailures++
		return errors.New("verif: broker unsubscribe failed")
	}
	for _, ch := range chs {
		delete(b.subscribed, ch)
	}
	return b.inner.Unsubscribe(chs...)
}

func (b *vChaosBroker) Publish(ch string, data []byte, opts PublishOptions) (PublishResult, error) {
	b.publishCalls++
	return b.inner.Publish(ch, data, opts)
}
func (b *vChaosBroker) PublishJoin(ch string, info *ClientInfo) error {
	return b.inner.PublishJoin(ch, info)
}
func (b *vChaosBroker) PublishLeave(ch string, info *ClientInfo) error {
	return b.inner.PublishLeave(ch, info)
}
func (b *vChaosBroker) History(ch string, opts HistoryOptions) ([]*Publication, StreamPosition, error) {
	pubs, sp, err := b.inner.History(ch, opts)
	if b.historyDelay > 0 {
		vsched.Sleep(b.historyDelay) // the broker answers late: the result is as of the time of the read
	}
	return pubs, sp, err
}
func (b *vChaosBroker) RemoveHistory(ch string) error { return b.inner.RemoveHistory(ch) }
