//go:build verif

package centrifuge

import (
	"bytes"
	"context"
	"encoding/json"
	"fmt"
	"strings"
	"sync"
	"time"

	"github.com/centrifugal/centrifuge/internal/zzverif/vsched"
	"github.com/centrifugal/protocol"
	fdelta "github.com/shadowspore/fossil-delta"
)

// deltamap (C14, map subscriptions): per-key fossil deltas reconstruct the published values.
//
// One execution = one operation history over {put(key in {a,b}, payload), remove(key in {a,b})}
// (puts carry a tag in {a,b} in the -filter variants), applied with MapPublish(UseDelta) /
// MapRemove to a recoverable map channel "mrec" and a streamless map channel "meph" of one
// fresh Node (memory map broker). Connections drive the map subscription protocol through client
// commands (state pages -> stream pages -> live, or live with recovery) following scripts, with
// fossil delta negotiated. The client model holds ONE base per key: state entries and full
// publications set it, removals drop it, delta publications are applied with fossil-delta Apply.
//
// Scripts (times = operations done so far):
//   fresh(s)          state phase with a big page at s: state -> live in one reply
//   paged(s)          page size 1, ONE request per time step starting at s, so operations land
//                     between pages: later state pages, stream pages and the live transition's
//                     stream part are all exercised
//   paged2(s)         as paged with one request every second time step (two operations between pages
//                     push the stream more than one page ahead: stream-phase pages)
//   re(d,r)           fresh at 0, unsubscribe at d, live-phase recovery from the model's position at r
//
// Oracle: every state entry / publication reconstructs to the value written by the operation
// with that offset (streamless: the current value / operation), key and removed flag agree; a
// publication flagged delta never arrives for a key the model holds no base for.

// vInstallMapBrokerFor wires a MemoryMapBroker to a real node the way NewMemoryMapBroker does,
// but allocates only the publish locks of the channels the harness uses (4096 scheduler-managed
// mutexes per execution are expensive). Must be called before Node.Run.
func vInstallMapBrokerFor(n *Node, chans ...string) *MemoryMapBroker {
	pubLocks := make(map[int]*sync.Mutex, len(chans))
	for _, ch := range chans {
		pubLocks[index(ch, numPubLocks)] = &sync.Mutex{}
	}
	closeCh := make(chan struct{})
	hub := newMapHub(n, pubLocks, closeCh)
	hub.setChannelOptionsResolver(n.config.Map.GetMapChannelOptions)
	b := &MemoryMapBroker{node: n, mapHub: hub, pubLocks: pubLocks, closeCh: closeCh, resultCache: make(map[string]map[string]resultCacheEntry)}
	n.SetMapBroker(b)
	return b
}

type dmOp struct {
	key     string
	removed bool
	data    []byte
	tag     string
	pid     string // short payload name for logs
}

func (o dmOp) String() string {
	if o.removed {
		return "rem(" + o.key + ")"
	}
	if o.pid != "" {
		return fmt.Sprintf("put(%s,%s,%s)", o.key, o.pid, o.tag)
	}
	return fmt.Sprintf("put(%s,%d bytes,%s)", o.key, len(o.data), o.tag)
}

type dmVal struct {
	data []byte
	tag  string
}

type dmWorld struct {
	n        *Node
	proto    ProtocolType
	chans    []string
	ops      []dmOp
	byOffset map[string]map[uint64]dmOp // channel -> offset -> operation that produced it
	cur      map[string]map[string]dmVal
	step     int
	withheldTag  bool        // some put BEFORE the current operation carried a tag other than a
	withheldNext bool        // ... including the current operation
	lastOp   map[string]dmOp // channel -> operation being applied in the current step (tag resolved)
	desc     string
	// optsFn answers OnSubscribe (default: map subscription, fossil delta allowed, tags filter allowed)
	optsFn func(e SubscribeEvent) SubscribeReply
	// refreshFn answers OnSubRefresh (nil: handler not registered)
	refreshFn func(e SubRefreshEvent) SubRefreshReply
}

// mrec: recoverable, starts empty; mpre: recoverable, pre-populated with keys a and b (so that
// page-size-1 pagination has a second page from time 0 on); meph: streamless.
func dmStream(ch string) bool { return ch == "mrec" || ch == "mpre" }

var dmPrefix = []dmOp{
	{key: "a", data: []byte(`{"key":"` + dxLong + `-0"}`), tag: "a"},
	{key: "b", data: []byte(`{"key":"` + dxLong + `-0"}`), tag: "b"},
}

func dmNewWorld(proto ProtocolType, chans []string) *dmWorld {
	w := &dmWorld{proto: proto, chans: chans, byOffset: map[string]map[uint64]dmOp{}, cur: map[string]map[string]dmVal{}, lastOp: map[string]dmOp{}, step: -1}
	n := vNewNode(func(c *Config) {
		c.Map.GetMapChannelOptions = func(ch string) MapChannelOptions {
			if dmStream(ch) {
				return MapChannelOptions{Mode: MapModeRecoverable, KeyTTL: time.Hour, MinPageSize: 1}
			}
			return MapChannelOptions{Mode: MapModeEphemeral, KeyTTL: time.Hour, MinPageSize: 1}
		}
	})
	vInstallMapBrokerFor(n, chans...)
	n.OnConnect(func(c *Client) {
		c.OnSubscribe(func(e SubscribeEvent, cb SubscribeCallback) {
			if w.optsFn != nil {
				cb(w.optsFn(e), nil)
				return
			}
			cb(SubscribeReply{Options: SubscribeOptions{Type: SubscriptionTypeMap, AllowedDeltaTypes: []DeltaType{DeltaTypeFossil}, AllowTagsFilter: true}}, nil)
		})
		c.OnSubRefresh(func(e SubRefreshEvent, cb SubRefreshCallback) {
			if w.refreshFn == nil {
				cb(SubRefreshReply{}, ErrorNotAvailable)
				return
			}
			cb(w.refreshFn(e), nil)
		})
	})
	if err := n.Run(); err != nil {
		panic(err)
	}
	w.n = n
	for _, ch := range chans {
		w.byOffset[ch] = map[uint64]dmOp{}
		w.cur[ch] = map[string]dmVal{}
	}
	return w
}

func (w *dmWorld) fail(sig, format string, a ...any) {
	vsched.Failf(sig, "%s: %s", w.desc, fmt.Sprintf(format, a...))
}

// apply performs one operation on one channel and mirrors it in the reference map.
func (w *dmWorld) apply(ch string, op dmOp) {
	var res MapUpdateResult
	var err error
	if op.removed {
		res, err = w.n.MapRemove(context.Background(), ch, op.key, MapRemoveOptions{})
	} else {
		var tags map[string]string
		if op.tag != "-" {
			tags = map[string]string{"t": op.tag}
		}
		res, err = w.n.MapPublish(context.Background(), ch, op.key, MapPublishOptions{Data: op.data, Tags: tags, UseDelta: true})
	}
	if err != nil {
		w.fail("model-divergence:map-update-error", "%s on %s: %v", op, ch, err)
		return
	}
	prev, had := w.cur[ch][op.key]
	if op.removed {
		op.tag = prev.tag // a removal carries the tags of the entry it removes
	}
	w.lastOp[ch] = op
	w.withheldTag = w.withheldNext
	if !op.removed && op.tag != "a" {
		w.withheldNext = true
	}
	wantSuppressed := op.removed && !had
	if res.Suppressed != wantSuppressed {
		w.fail("model-divergence:map-update-suppressed", "%s on %s: suppressed=%v (%s), model expects %v", op, ch, res.Suppressed, res.SuppressReason, wantSuppressed)
	}
	if res.Suppressed {
		return
	}
	if op.removed {
		delete(w.cur[ch], op.key)
	} else {
		w.cur[ch][op.key] = dmVal{data: op.data, tag: op.tag}
	}
	if dmStream(ch) {
		w.byOffset[ch][res.Position.Offset] = op
	}
}

// ---- client model ---------------------------------------------------------------------------------

const (
	dmIdle = iota
	dmStatePaging
	dmStreamPaging
	dmWaitRecover
	dmLive
	dmEnded
)

type dmScript struct {
	kind    string // fresh | paged | paged2 | re
	s, d, r int
}

func (s dmScript) String() string {
	switch s.kind {
	case "re":
		return fmt.Sprintf("re(%d,%d,%d)", s.s, s.d, s.r)
	}
	return fmt.Sprintf("%s(%d)", s.kind, s.s)
}

func dmScripts(L int) []dmScript {
	var out []dmScript
	for s := 0; s <= L; s++ {
		out = append(out, dmScript{kind: "fresh", s: s, d: -1}, dmScript{kind: "paged", s: s, d: -1}, dmScript{kind: "paged2", s: s, d: -1})
	}
	for d := 0; d <= L; d++ {
		for r := d; r <= L; r++ {
			out = append(out, dmScript{kind: "re", s: 0, d: d, r: r})
		}
	}
	return out
}

type dmConn struct {
	w      *dmWorld
	cl     *vClient
	ch     string
	script dmScript
	filter bool                 // client tags filter {t eq a} (delta harnesses)
	tf     *protocol.FilterNode // explicit client tags filter (overrides filter)
	noDelta bool                // do not negotiate delta
	// hook, when set, receives every delivered state entry / publication instead of the delta model
	hook func(cn *dmConn, p *protocol.Publication, op dmOp, known bool, isState bool, path string)

	state     int
	pending   uint32
	cursor    string
	offset    uint64
	epoch     string
	firstPage bool
	sentAt    int // tick of the last request (paged scripts: one request per tick)
	session   string
	recovered bool // the live-phase recovery of a re script was sent
	unsubCode uint32
	cur       int

	bases map[string][]byte

	nState, nFullNoBase, nFullWithBase, nDelta, nRemoved, nStreamPagePubs, nLivePubsInReply int
	trace                                                                                 []string
}

// class: see dxConn.class.
func (cn *dmConn) class() string {
	if cn.filter && cn.w.withheldTag {
		return "tags-filter"
	}
	return "session=" + cn.session
}

func (cn *dmConn) label() string {
	f := "nofilter"
	if cn.filter {
		f = "filter"
	}
	return fmt.Sprintf("%s/%s/%s", cn.ch, cn.script, f)
}

func (cn *dmConn) request(tick int, phase int32, recover bool) {
	req := &protocol.SubscribeRequest{Channel: cn.ch, Type: int32(SubscriptionTypeMap), Phase: phase}
	if !cn.noDelta {
		req.Delta = string(DeltaTypeFossil)
	}
	if cn.tf != nil {
		req.Tf = cn.tf
	} else if cn.filter {
		req.Tf = dxFilterNode()
	}
	if cn.script.kind == "paged" || cn.script.kind == "paged2" {
		req.Limit = 1
	} else {
		req.Limit = 100
	}
	switch phase {
	case MapPhaseState:
		req.Cursor = cn.cursor
		if !cn.firstPage {
			req.Offset, req.Epoch = cn.offset, cn.epoch
		}
	case MapPhaseStream:
		req.Offset, req.Epoch = cn.offset, cn.epoch
	case MapPhaseLive:
		req.Offset, req.Epoch = cn.offset, cn.epoch
		req.Recover = recover
	}
	cmd := &protocol.Command{Subscribe: req}
	cn.cl.cmd(cmd)
	cn.pending = cmd.Id
	cn.sentAt = tick
}

// tick issues at most one request; returns true when a request was sent.
func (cn *dmConn) tick(t int, final bool) bool {
	if cn.pending != 0 {
		return false
	}
	sc := cn.script
	switch cn.state {
	case dmIdle:
		if sc.s == t && cn.session == "" {
			cn.bases = map[string][]byte{}
			cn.firstPage = true
			cn.cursor = ""
			cn.state = dmStatePaging
			cn.session = "fresh"
			cn.request(t, MapPhaseState, false)
			return true
		}
		if sc.kind == "re" && sc.r == t && cn.session == "unsubscribed" {
			cn.state = dmWaitRecover
			cn.recovered = true
			cn.request(t, MapPhaseLive, true)
			return true
		}
	case dmStatePaging, dmStreamPaging:
		if sc.kind == "paged" && cn.sentAt == t && !final {
			return false // next page on the next tick
		}
		if sc.kind == "paged2" && cn.sentAt+2 > t && !final {
			return false // next page two ticks later
		}
		if cn.state == dmStatePaging {
			cn.request(t, MapPhaseState, false)
		} else {
			cn.request(t, MapPhaseStream, false)
		}
		return true
	case dmLive:
		if sc.kind == "re" && sc.d == t && !cn.recovered {
			cn.cl.unsubscribe(cn.ch)
			cn.state = dmIdle
			cn.session = "unsubscribed"
			return true
		}
	}
	return false
}

func (cn *dmConn) data(p *protocol.Publication, where string) ([]byte, bool) {
	if cn.w.proto != ProtocolTypeJSON || len(p.Data) == 0 {
		return p.Data, true
	}
	var str string
	if err := json.Unmarshal(p.Data, &str); err != nil {
		cn.w.fail("json-delta-data-not-a-json-string:"+where, "%s key %s: data %q", cn.label(), p.Key, p.Data)
		return nil, false
	}
	return []byte(str), true
}

// want returns the operation a delivered entry / publication must correspond to.
func (cn *dmConn) want(p *protocol.Publication, isState bool) (dmOp, bool) {
	w := cn.w
	if p.Offset > 0 {
		op, ok := w.byOffset[cn.ch][p.Offset]
		return op, ok
	}
	if isState {
		v, ok := w.cur[cn.ch][p.Key]
		if !ok {
			return dmOp{}, false
		}
		return dmOp{key: p.Key, data: v.data, tag: v.tag}, true
	}
	if w.step >= 0 {
		op, ok := w.lastOp[cn.ch]
		return op, ok
	}
	return dmOp{}, false
}

func (cn *dmConn) deliver(p *protocol.Publication, isState bool, path string) {
	lbl := cn.label()
	op, known := cn.want(p, isState)
	if cn.hook != nil {
		cn.hook(cn, p, op, known, isState, path)
		return
	}
	if !known {
		cn.w.fail("model-divergence:unknown-publication:"+path, "%s: key %s offset %d removed=%v matches no operation", lbl, p.Key, p.Offset, p.Removed)
		return
	}
	if op.key != p.Key || op.removed != p.Removed {
		cn.w.fail("wrong-key-or-removed-flag:"+path, "%s: offset %d delivered as key=%s removed=%v, operation was %s", lbl, p.Offset, p.Key, p.Removed, op)
		return
	}
	if p.Removed {
		delete(cn.bases, p.Key)
		cn.nRemoved++
		return
	}
	data, ok := cn.data(p, path)
	if !ok {
		delete(cn.bases, p.Key)
		return
	}
	base, hasBase := cn.bases[p.Key]
	var out []byte
	if p.Delta {
		if isState {
			cn.w.fail("state-entry-flagged-delta", "%s: state entry for key %s has delta=true", lbl, p.Key)
		}
		if !hasBase {
			cn.w.fail("delta-without-base:"+path+":"+cn.class(), "%s key %s offset %d: publication flagged delta but the client holds no base for this key; published %q", lbl, p.Key, p.Offset, op.data)
			cn.bases[p.Key] = op.data
			return
		}
		var err error
		out, err = fdelta.Apply(base, data)
		if err != nil {
			cn.w.fail("delta-wrong-base:"+path+":"+cn.class(), "%s key %s offset %d: patch %q does not apply to the base %q (%v); published %q", lbl, p.Key, p.Offset, data, base, err, op.data)
			cn.bases[p.Key] = op.data
			return
		}
		cn.nDelta++
		cn.trace = append(cn.trace, fmt.Sprintf("D:%s@%d", p.Key, p.Offset))
	} else {
		out = data
		cn.trace = append(cn.trace, fmt.Sprintf("F:%s@%d", p.Key, p.Offset))
		switch {
		case isState:
			cn.nState++
		case hasBase:
			cn.nFullWithBase++
		default:
			cn.nFullNoBase++
		}
	}
	if !bytes.Equal(out, op.data) {
		kind := "full"
		if p.Delta {
			kind = "delta"
		}
		cn.w.fail("reconstruct-mismatch:"+kind+":"+path+":"+cn.class(), "%s key %s offset %d: reconstructed %q, published %q (base %q, wire %q)", lbl, p.Key, p.Offset, out, op.data, base, data)
		out = op.data
	}
	cn.bases[p.Key] = append([]byte(nil), out...)
}

func (cn *dmConn) onReply(r *protocol.Reply) {
	lbl := cn.label()
	if r.Error != nil {
		if cn.state == dmWaitRecover && r.Error.Code == ErrorUnrecoverablePosition.Code {
			cn.state = dmEnded
			cn.session = "unrecovered"
			cn.bases = map[string][]byte{}
			return
		}
		cn.w.fail("model-divergence:subscribe-error", "%s: subscribe error %d in state %d", lbl, r.Error.Code, cn.state)
		cn.state = dmEnded
		return
	}
	res := r.Subscribe
	switch res.Phase {
	case MapPhaseState:
		if cn.state != dmStatePaging {
			cn.w.fail("model-divergence:unexpected-phase", "%s: state reply in state %d", lbl, cn.state)
			return
		}
		if cn.firstPage {
			cn.offset, cn.epoch = res.Offset, res.Epoch
			cn.firstPage = false
		}
		for _, p := range res.State {
			cn.deliver(p, true, "state-page")
		}
		cn.cursor = res.Cursor
		if res.Cursor == "" {
			cn.state = dmStreamPaging
		}
	case MapPhaseStream:
		if cn.state != dmStreamPaging {
			cn.w.fail("model-divergence:unexpected-phase", "%s: stream reply in state %d", lbl, cn.state)
			return
		}
		for _, p := range res.Publications {
			cn.nStreamPagePubs++
			cn.deliver(p, false, "stream-page")
		}
		cn.offset = res.Offset
	case MapPhaseLive:
		if !res.Delta && !cn.noDelta {
			cn.w.fail("model-divergence:delta-not-negotiated", "%s: live reply has delta=false", lbl)
		}
		path := "live-reply"
		if cn.state == dmWaitRecover {
			path = "recovered"
			cn.session = "recovered-empty"
			if len(res.Publications) > 0 {
				cn.session = "recovered-pubs"
			}
		}
		for _, p := range res.State {
			cn.deliver(p, true, "state-in-live-reply")
		}
		for _, p := range res.Publications {
			cn.nLivePubsInReply++
			cn.deliver(p, false, path)
		}
		cn.offset, cn.epoch = res.Offset, res.Epoch
		cn.state = dmLive
	}
}

func (cn *dmConn) drain() {
	fr := cn.cl.t.frames
	for ; cn.cur < len(fr); cn.cur++ {
		r := fr[cn.cur].Reply
		switch {
		case r.Id != 0 && r.Id == cn.pending:
			cn.pending = 0
			cn.onReply(r)
		case r.Push != nil && r.Push.Pub != nil && r.Push.Channel == cn.ch:
			if cn.state != dmLive && cn.hook != nil {
				op, known := cn.want(r.Push.Pub, false)
				cn.hook(cn, r.Push.Pub, op, known, false, "outside-live-phase")
				continue
			}
			if cn.state != dmLive {
				cn.w.fail("publication-outside-live-phase", "%s: pushed publication key %s offset %d in state %d", cn.label(), r.Push.Pub.Key, r.Push.Pub.Offset, cn.state)
				continue
			}
			cn.deliver(r.Push.Pub, false, "live")
			if r.Push.Pub.Offset > 0 {
				cn.offset = r.Push.Pub.Offset
			}
		case r.Push != nil && r.Push.Unsubscribe != nil && r.Push.Channel == cn.ch:
			cn.state = dmEnded
			cn.unsubCode = r.Push.Unsubscribe.Code
		}
	}
}

// ---- harness --------------------------------------------------------------------------------------

type dmParams struct {
	proto  ProtocolType
	chans  []string
	nPay   int
	maxLen int
	tags   bool
}

func (p dmParams) alphabet() []dmOp {
	all := dxPayloadsFor(p.proto, 5)
	pays := [][]byte{all[1], all[0], all[2], all[4]}[:p.nPay] // 40-byte, small, near-copy, binary-looking
	var ops []dmOp
	for _, k := range []string{"a", "b"} {
		for i, d := range pays {
			pid := []string{"long1", "small", "long2", "bin"}[i]
			ops = append(ops, dmOp{key: k, data: d, tag: "a", pid: pid})
			if p.tags {
				ops = append(ops, dmOp{key: k, data: d, tag: "b", pid: pid})
			}
		}
		ops = append(ops, dmOp{key: k, removed: true})
	}
	return ops
}

func (p dmParams) count() int {
	a := len(p.alphabet())
	n, c := 0, 1
	for l := 0; l <= p.maxLen; l++ {
		n += c
		c *= a
	}
	return n
}

func (p dmParams) decode(idx int) []dmOp {
	alpha := p.alphabet()
	a := len(alpha)
	l, c := 0, 1
	for idx >= c {
		idx -= c
		c *= a
		l++
	}
	ops := make([]dmOp, l)
	for i := l - 1; i >= 0; i-- {
		ops[i] = alpha[idx%a]
		idx /= a
	}
	return ops
}

var dmVariants = map[string]dmParams{}

func dmAdd(out *[]vsched.Variant, name string, p dmParams, shards, budget int) {
	dmVariants[name] = p
	*out = append(*out, vsched.Variant{Name: name, Bound: 0, Shards: shards, NoCache: true, BudgetS: budget})
}

func init() {
	vsched.Register(&vsched.Harness{
		Name: "deltamap", Props: []string{"C14"}, Kind: "sched",
		Doc: "E2 on a real Node (memory map broker). One execution = one operation history over {put(key in {a,b}, payload in {small, 40-byte, near-copy}), remove(key)} (puts tagged a|b in the -filter variants; thorough adds a binary-looking payload at length 3), " +
			"length <= 3 quick / <= 4 thorough, applied with MapPublish(UseDelta)/MapRemove to a recoverable map channel and a streamless one. Connections (JSON or Protobuf per variant, fossil delta negotiated) follow scripts " +
			"fresh(s) (state->live in one reply), paged(s) (page size 1, one request per time step so that operations land between state pages / stream pages / the live transition) and re(s,d,r) (unsubscribe at d, live-phase recovery from the " +
			"model's position at r); -filter variants add connections with client tags filter {t eq a}. Client model: one base per key; state entries and full publications set it, removals drop it, deltas are applied with fossil-delta Apply. " +
			"Oracle: every state entry / publication reconstructs to the value written by the operation with that offset (streamless: current value / current operation), key and removed flag agree, no delta for a key without base.",
		Variants: func(tier string) []vsched.Variant {
			var out []vsched.Variant
			both := []string{"mrec", "mpre", "meph"}
			if tier == "thorough" {
				dmAdd(&out, "json-nofilter-l4", dmParams{proto: ProtocolTypeJSON, chans: []string{"mrec", "mpre"}, nPay: 2, maxLen: 4}, 16, 280)
				dmAdd(&out, "json-nofilter-l3-p4", dmParams{proto: ProtocolTypeJSON, chans: both, nPay: 4, maxLen: 3}, 16, 280)
				dmAdd(&out, "pb-nofilter-l3", dmParams{proto: ProtocolTypeProtobuf, chans: both, nPay: 4, maxLen: 3}, 16, 280)
				dmAdd(&out, "json-filter-l3", dmParams{proto: ProtocolTypeJSON, chans: []string{"mrec", "mpre"}, nPay: 1, maxLen: 3, tags: true}, 8, 280)
				return out
			}
			dmAdd(&out, "json-nofilter-l3", dmParams{proto: ProtocolTypeJSON, chans: both, nPay: 3, maxLen: 3}, 5, 60)
			dmAdd(&out, "pb-nofilter-l3", dmParams{proto: ProtocolTypeProtobuf, chans: []string{"mrec", "mpre"}, nPay: 2, maxLen: 3}, 2, 60)
			dmAdd(&out, "json-filter-l2", dmParams{proto: ProtocolTypeJSON, chans: []string{"mrec", "mpre"}, nPay: 2, maxLen: 2, tags: true}, 1, 60)
			return out
		},
		Sched: func(v vsched.Variant) func() {
			p := dmVariants[v.Name]
			total := p.count()
			return func() {
				idx := vsched.ChooseFree(total)
				vsched.Quiet(true)
				dmSequential(p, idx)
			}
		},
	})
}

func dmSequential(p dmParams, idx int) {
	ops := p.decode(idx)
	L := len(ops)
	w := dmNewWorld(p.proto, p.chans)
	w.ops = ops
	var sb []string
	for _, o := range ops {
		sb = append(sb, o.String())
	}
	w.desc = fmt.Sprintf("proto=%s ops=[%s]", p.proto, strings.Join(sb, " "))

	for _, ch := range p.chans {
		if ch == "mpre" {
			for _, op := range dmPrefix {
				w.apply(ch, op)
			}
			w.withheldTag = w.withheldNext
		}
	}
	var conns []*dmConn
	for _, ch := range p.chans {
		for _, sc := range dmScripts(L) {
			if sc.kind == "re" && !dmStream(ch) {
				continue // no recovery on a streamless channel
			}
			for _, f := range []bool{false, true} {
				if f && !p.tags {
					continue
				}
				t := vNewTransport()
				t.proto = p.proto
				cl := vNewClient(w.n, t, &Credentials{UserID: "u"})
				cl.connect()
				conns = append(conns, &dmConn{w: w, cl: cl, ch: ch, script: sc, filter: f})
			}
		}
	}
	settle := func() {
		vsched.WaitIdle()
		for _, cn := range conns {
			cn.drain()
		}
	}
	rounds := func(t int, final bool) {
		for i := 0; i < 64; i++ {
			sent := false
			for _, cn := range conns {
				if cn.tick(t, final) {
					sent = true
				}
			}
			settle()
			if !sent {
				return
			}
		}
		w.fail("model-divergence:pagination-does-not-terminate", "tick %d", t)
	}
	for t := 0; t <= L; t++ {
		rounds(t, t == L)
		if t < L {
			w.step = t
			for _, ch := range p.chans {
				w.apply(ch, ops[t])
			}
			settle()
			w.step = -1
			w.withheldTag = w.withheldNext
		}
	}
	vsched.Logf("%s", w.desc)
	for _, ch := range p.chans {
		var st, fn, fb, d, rm, sp, lp, live int
		for _, cn := range conns {
			if cn.ch != ch {
				continue
			}
			st += cn.nState
			fn += cn.nFullNoBase
			fb += cn.nFullWithBase
			d += cn.nDelta
			rm += cn.nRemoved
			sp += cn.nStreamPagePubs
			lp += cn.nLivePubsInReply
			if cn.state == dmLive {
				live++
			}
		}
		vsched.Logf("%s: live=%d state-entries=%d full-without-base=%d full-although-base=%d delta=%d removals=%d stream-page-pubs=%d pubs-in-live-reply=%d", ch, live, st, fn, fb, d, rm, sp, lp)
	}
}
